(* C15 - Borsh-backed accounts persist and reload faithfully across instructions.  Statements only.

   Reading guide.  T/ser/de/wf = a value type with its BorshSerialize / BorshDeserialize and the set of
   representable values; [oracle_ok ser de wf] = round trip with exact consumption, non-empty encodings,
   de [] fails, decoded values representable, encodings are bytes (proved for the five account types of
   the harness: C15_instances).  [prog_ok pid w d] = the program id is a key and the discriminant d has
   w bytes.  [exec_instr .. fixed ..] runs one simulated instruction (begin: flags + resize_delta 0,
   try_from_accounts, body calls, cleanup) with the write-back of the repaired code (fixed = true) or
   of the code as shipped before the D6 repair (fixed = false); [r_end r = IDone (Some v)] = it
   completed and left v in the wrapper; [instr_wf] = the values the body stores are representable. *)
From SF Require Import Base.Prelude Gen.Generated Account.Validate Account.ValidateProofs.
From SF Require Import Borsh.Codec Borsh.CodecProofs Borsh.BorshAccount Borsh.BorshAccountProofs.

(* persist: whatever value instruction k leaves in the wrapper of an account that is still owned by the
   program and not closed is what the next instruction decodes (writable or not) and what the client
   deserializer returns - for every account state, every body (any sequence of set_inner / DerefMut
   writes / reads / manual serialize / reload / owner changes / close) and every value size *)
Theorem C15_persist :
  forall (T : Type) (ser : T -> list Z) (de : list Z -> option (T * list Z)) (wf : T -> Prop)
         (pid : key) (w : nat) (d : list Z),
  oracle_ok ser de wf -> prog_ok pid w d ->
  forall (a : bacct) (i : instr T) (v : T),
  acct_ok a -> instr_wf T wf i ->
  let r := exec_instr T ser de true pid w d a i in
  r_end r = IDone (Some v) -> b_owner (r_acct r) = pid -> zlen (b_data (r_acct r)) > Z.of_nat w ->
  (forall wr, try_from_accounts T de pid w d (begin_instr wr (r_acct r)) = Ok (Some v)) /\
  client_deserialize T de w d (b_data (r_acct r)) = Ok v.
Proof. exact p_persist. Qed.

(* ... and over a whole history of instructions: for every k *)
Theorem C15_persist_seq :
  forall (T : Type) (ser : T -> list Z) (de : list Z -> option (T * list Z)) (wf : T -> Prop)
         (pid : key) (w : nat) (d : list Z),
  oracle_ok ser de wf -> prog_ok pid w d ->
  forall (l : list (instr T)) (a : bacct) (k : nat) (r r' : iresult T) (v : T),
  acct_ok a -> Forall (instr_wf T wf) l ->
  nth_error (exec_seq T ser de true pid w d a l) k = Some r ->
  nth_error (exec_seq T ser de true pid w d a l) (S k) = Some r' ->
  r_end r = IDone (Some v) -> b_owner (r_acct r) = pid -> zlen (b_data (r_acct r)) > Z.of_nat w ->
  r_tfa r' = Ok (Some v) /\ client_deserialize T de w d (b_data (r_acct r)) = Ok v.
Proof. exact p_persist_seq. Qed.

(* len_exact: after every completed writable instruction on a still owned, not closed account the data
   is exactly discriminant ++ ser v: data_len = discriminant size + serialized size *)
Theorem C15_len_exact :
  forall (T : Type) (ser : T -> list Z) (de : list Z -> option (T * list Z)) (wf : T -> Prop)
         (pid : key) (w : nat) (d : list Z),
  oracle_ok ser de wf -> prog_ok pid w d ->
  forall (a : bacct) (i : instr T) (v : T),
  acct_ok a -> instr_wf T wf i ->
  let r := exec_instr T ser de true pid w d a i in
  i_wr i = true -> r_end r = IDone (Some v) -> b_owner (r_acct r) = pid -> zlen (b_data (r_acct r)) > Z.of_nat w ->
  b_data (r_acct r) = d ++ ser v /\ zlen (b_data (r_acct r)) = Z.of_nat w + zlen (ser v).
Proof. exact p_len_exact. Qed.

(* no_write: the write-back (cleanup or manual serialize) of a read-only account, of an account no
   longer owned by the program, and of a closed / uninitialised account (data_len <= discriminant size)
   returns Ok and changes nothing - for any value type and for both versions of the write-back *)
Theorem C15_no_write :
  forall (T : Type) (ser : T -> list Z) (pid : key) (w : nat) (d : list Z),
  prog_ok pid w d ->
  forall (fixed : bool) (a : bacct) (ov : option T),
  b_writable a = false \/ b_owner a <> pid \/ zlen (b_data a) <= Z.of_nat w ->
  serialize T ser fixed pid w a ov = Ok a.
Proof. exact p_no_write. Qed.

(* a whole read-only instruction (any body without an explicit close_account) leaves the data alone *)
Theorem C15_no_write_readonly :
  forall (T : Type) (ser : T -> list Z) (de : list Z -> option (T * list Z)) (pid : key) (w : nat) (d : list Z),
  prog_ok pid w d ->
  forall (fixed : bool) (a : bacct) (i : instr T),
  i_wr i = false -> i_close i = false -> ~ In OClose (i_ops i) ->
  b_data (r_acct (exec_instr T ser de fixed pid w d a i)) = b_data a.
Proof. exact p_no_write_readonly. Qed.

(* a foreign-owned account (or one without the discriminant, e.g. closed by the framework: C08) is
   rejected before the body runs; data and owner are untouched *)
Theorem C15_no_write_rejected :
  forall (T : Type) (ser : T -> list Z) (de : list Z -> option (T * list Z)) (pid : key) (w : nat) (d : list Z),
  prog_ok pid w d ->
  forall (fixed : bool) (a : bacct) (i : instr T),
  acct_ok a -> b_owner a <> pid \/ firstn w (b_data a) <> d ->
  let r := exec_instr T ser de fixed pid w d a i in
  r_end r = IRejected /\ b_data (r_acct r) = b_data a /\ b_owner (r_acct r) = b_owner a.
Proof. exact p_no_write_rejected. Qed.

(* size_change_ok: any sequence of values, growing and shrinking, each stored by its own instruction,
   persists value by value as long as each step grows the account by at most the 10 KiB realloc
   allowance (and the length fits i32): exact image, next decode and client value at every step *)
Theorem C15_size_change_ok :
  forall (T : Type) (ser : T -> list Z) (de : list Z -> option (T * list Z)) (wf : T -> Prop)
         (pid : key) (w : nat) (d : list Z),
  oracle_ok ser de wf -> prog_ok pid w d ->
  forall (vs : list T) (a : bacct) (v0 : T),
  acct_ok a -> b_owner a = pid -> good T de w d a v0 -> Forall wf vs ->
  growth_ok T ser w (zlen (b_data a)) vs -> chain T ser de pid w d a vs.
Proof. exact p_size_change_ok. Qed.

(* the write-back succeeds exactly when the new length fits i32 and the growth accumulated in the
   instruction stays within the allowance; otherwise InvalidRealloc (and serialize returns nothing else) *)
Theorem C15_write_back_size :
  forall (T : Type) (ser : T -> list Z) (pid : key) (w : nat) (d : list Z),
  prog_ok pid w d ->
  forall (a : bacct) (v : T),
  b_writable a = true -> zlen (b_data a) > Z.of_nat w -> b_owner a = pid ->
  let n := Z.of_nat w + zlen (ser v) in
  (n <= I32_MAX /\ (n = zlen (b_data a) \/ b_delta a + (n - zlen (b_data a)) <= MAX_PERMITTED_DATA_INCREASE) ->
     exists a', serialize T ser true pid w a (Some v) = Ok a' /\ b_data a' = firstn w (b_data a) ++ ser v /\
                zlen (b_data a') = n) /\
  (~ (n <= I32_MAX /\ (n = zlen (b_data a) \/ b_delta a + (n - zlen (b_data a)) <= MAX_PERMITTED_DATA_INCREASE)) ->
     serialize T ser true pid w a (Some v) = Err PE_INVALID_ACCOUNT_DATA_REALLOC).
Proof. exact p_serialize_size. Qed.

(* growth beyond the allowance in one instruction: cleanup fails with InvalidRealloc, the data is what
   the instruction found and still decodes to the old value *)
Theorem C15_growth_refused :
  forall (T : Type) (ser : T -> list Z) (de : list Z -> option (T * list Z)) (wf : T -> Prop)
         (pid : key) (w : nat) (d : list Z),
  prog_ok pid w d ->
  forall (a : bacct) (v0 v : T),
  acct_ok a -> b_owner a = pid -> good T de w d a v0 -> wf v ->
  Z.of_nat w + zlen (ser v) - zlen (b_data a) > MAX_PERMITTED_DATA_INCREASE ->
  let res := exec_instr T ser de true pid w d a (set_instr T v) in
  r_end res = ICleanupFailed PE_INVALID_ACCOUNT_DATA_REALLOC /\ b_data (r_acct res) = b_data a /\
  (forall wr, try_from_accounts T de pid w d (begin_instr wr (r_acct res)) = Ok (Some v0)).
Proof. exact p_growth_refused. Qed.

(* the oracle hypotheses hold for the borsh model of the five account types the harness compiles
   (fixed struct, Vec<u8>, String, nested struct with Vec<struct> / Option / String, BTreeSet<u8>) *)
Theorem C15_instances :
  oracle_ok (c_ser c_fx) (c_de c_fx) (c_wf c_fx) /\ oracle_ok (c_ser c_bv) (c_de c_bv) (c_wf c_bv) /\
  oracle_ok (c_ser c_st) (c_de c_st) (c_wf c_st) /\ oracle_ok (c_ser c_ns) (c_de c_ns) (c_wf c_ns) /\
  oracle_ok (c_ser c_sb) (c_de c_sb) (c_wf c_sb) /\
  prog_ok PID_A 8 DISC_FX /\ prog_ok PID_A 8 DISC_BV /\ prog_ok PID_B 1 DISC_ST /\ prog_ok PID_C 4 DISC_NS /\
  prog_ok PID_A 8 DISC_SB /\ prog_ok PID_B 1 DISC_ZD.
Proof. exact instances_ok. Qed.

(* non-canonical encodings: BTreeSet<u8> is read from its elements in any order and with duplicates, and
   written ascending.  The image [len 4: 9 2 9 5] decodes to {2,5,9}; a read-only instruction (read, manual
   serialize, reload, default cleanup) leaves it byte for byte; the next writable instruction rewrites it
   as [len 3: 2 5 9]; every instruction decodes the same value *)
Theorem C15_noncanonical_image :
  let a := mkB PID_A true (DISC_SB ++ [4; 0; 0; 0; 9; 2; 9; 5]) 0 1000000 in
  let l := [mkInstr false false [ORead; OSerialize; OReload];
            mkInstr true false [];
            mkInstr false false [ORead]] in
  acct_ok a /\
  map (fun r => (r_tfa r, r_end r, b_data (r_acct r)))
      (exec_seq (list Z) (c_ser c_sb) (c_de c_sb) true PID_A 8 DISC_SB a l) =
  [ (Ok (Some [2; 5; 9]), IDone (Some [2; 5; 9]), DISC_SB ++ [4; 0; 0; 0; 9; 2; 9; 5]);
    (Ok (Some [2; 5; 9]), IDone (Some [2; 5; 9]), DISC_SB ++ [3; 0; 0; 0; 2; 5; 9]);
    (Ok (Some [2; 5; 9]), IDone (Some [2; 5; 9]), DISC_SB ++ [3; 0; 0; 0; 2; 5; 9]) ].
Proof. exact noncanonical_image. Qed.

(* D6: with the write-back as shipped (the wrapper's Option<T> is serialised) persist is false: the
   example program's own instruction - set_inner(vec![1,2,3,4]) on MyBorshAccount's shape - leaves
   discriminant ++ [1, 4,0,0,0, 1,2,3,4]; the next decode and the client deserializer fail *)
Theorem C15_persist_unrepaired_refuted :
  exists (a : bacct) (i : instr (list Z)) (v : list Z),
    acct_ok a /\ instr_wf (list Z) (c_wf c_bv) i /\
    let r := exec_instr (list Z) (c_ser c_bv) (c_de c_bv) false PID_A 8 DISC_BV a i in
    r_end r = IDone (Some v) /\ b_owner (r_acct r) = PID_A /\ zlen (b_data (r_acct r)) > 8 /\
    b_data (r_acct r) = DISC_BV ++ [1; 4; 0; 0; 0; 1; 2; 3; 4] /\
    try_from_accounts (list Z) (c_de c_bv) PID_A 8 DISC_BV (begin_instr true (r_acct r)) = Err EC_IO_ERROR /\
    client_deserialize (list Z) (c_de c_bv) 8 DISC_BV (b_data (r_acct r)) = Err EC_IO_ERROR /\
    zlen (b_data (r_acct r)) <> 8 + zlen (c_ser c_bv v).
Proof. exact persist_unrepaired_refuted. Qed.

(* non-vacuity: the same instruction with the repaired write-back, followed by a shrinking and a
   read-only instruction; and a value type with an empty encoding shows why encodings must be non-empty
   (data_len == discriminant size means "closed" to BorshAccount: such a value is never written) *)
Example C15_nonvacuous :
  let a := mkB PID_A true (DISC_BV ++ [0; 0; 0; 0]) 0 1000000 in
  let l := [mkInstr true false [OSet [1; 2; 3]; OMut (bv_mut3 4)];
            mkInstr true false [OMut (bv_mut4 1)];
            mkInstr false false [ORead; OSerialize]] in
  acct_ok a /\
  map (fun r => (r_tfa r, r_end r, b_data (r_acct r)))
      (exec_seq (list Z) (c_ser c_bv) (c_de c_bv) true PID_A 8 DISC_BV a l) =
  [ (Ok (Some []), IDone (Some [1; 2; 3; 4]), DISC_BV ++ [4; 0; 0; 0; 1; 2; 3; 4]);
    (Ok (Some [1; 2; 3; 4]), IDone (Some [1]), DISC_BV ++ [1; 0; 0; 0; 1]);
    (Ok (Some [1]), IDone (Some [1]), DISC_BV ++ [1; 0; 0; 0; 1]) ].
Proof. exact nonvacuous. Qed.

Example C15_empty_encoding_not_written :
  let ser := fun _ : unit => @nil Z in
  let de := fun l : list Z => Some (tt, l) in
  (forall t tl, de (ser t ++ tl) = Some (t, tl)) /\
  let r := exec_instr unit ser de true PID_B 1 DISC_ST (mkB PID_B true DISC_ST 0 1) (mkInstr true false [OSet tt]) in
  r_end r = IDone (Some tt) /\
  try_from_accounts unit de PID_B 1 DISC_ST (begin_instr true (r_acct r)) = Ok None.
Proof. exact empty_encoding_not_written. Qed.

(* a manual serialize() only WRITES the wrapper's value back: whatever its outcome, the wrapper holds what it held, and a
   wrapper that holds a value is read without a panic (the wrapper is not emptied by a flush before a CPI) *)
Theorem C15_manual_serialize_keeps_the_value :
  forall (T : Type) (ser : T -> list Z) (de : list Z -> option (T * list Z)) (fixed : bool) (pid : key) (w : nat)
         (a : bacct) (ov : option T) r a' ov',
    step T ser de fixed pid w OSerialize a ov = (r, a', ov') ->
    ov' = ov /\ (forall t, ov = Some t -> step T ser de fixed pid w ORead a' ov' = (SVal t, a', ov')).
Proof.
  intros T ser de fixed pid w a ov r a' ov' H. cbn [step] in H.
  destruct (serialize T ser fixed pid w a ov) as [a1|c| |]; injection H as <- <- <-;
    (split; [reflexivity|intros t ->; reflexivity]).
Qed.
