(* C10 - Seeded accounts accept exactly the derived address; bump and signer seeds agree.
   Statements only.  H (SHA-256 of the preimage) and on_curve (ed25519 point test) are universally
   quantified: nothing is assumed of them. *)
From SF Require Import Base.Prelude Gen.Generated Seeds.Seeds Seeds.SeedsProofs.

(* the canonical address of a seed list: the highest bump in 255..1 whose hash is off the curve *)
Theorem C10_find_spec :
  forall (H : list Z -> list Z) (on_curve : list Z -> bool) l pid k b,
    find_pda H on_curve l pid = Some (k, b) <->
    1 <= b <= 255 /\ create_pda H on_curve (l ++ [[b]]) pid = Ok k /\
    forall b', b < b' <= 255 -> create_pda H on_curve (l ++ [[b']]) pid = Err PE_INVALID_SEEDS.
Proof. exact find_spec. Qed.

Theorem C10_create_spec :
  forall (H : list Z -> list Z) (on_curve : list Z -> bool) seeds pid k,
    create_pda H on_curve seeds pid = Ok k <->
    zlen seeds <= 16 /\ Forall (fun s => zlen s <= 32) seeds /\
    k = H (concat seeds ++ pid ++ PDA_MARKER) /\ on_curve k = false.
Proof. exact create_pda_ok. Qed.

(* validation with Seeds(S) passes iff the key is the canonical address of S.seeds() under the seed program *)
Theorem C10_seeds_ok :
  forall (H : list Z -> list Z) (on_curve : list Z -> bool) l pid key b,
    validate_and_set_seeds H on_curve None l pid key = Ok (Some (l, b)) <-> find_pda H on_curve l pid = Some (key, b).
Proof. exact seeds_ok. Qed.

Theorem C10_seeds_outcomes :
  forall (H : list Z -> list Z) (on_curve : list Z -> bool) l pid key,
    match validate_and_set_seeds H on_curve None l pid key with
    | Ok st => exists b, st = Some (l, b) /\ find_pda H on_curve l pid = Some (key, b)
    | Err c => c = EC_ADDRESS_MISMATCH /\ exists a b, find_pda H on_curve l pid = Some (a, b) /\ a <> key
    | Panic => find_pda H on_curve l pid = None
    | Fault => False
    end.
Proof. exact seeds_outcomes. Qed.

(* validation with an explicit bump passes iff the key is the address created from S and that bump *)
Theorem C10_bump_ok :
  forall (H : list Z -> list Z) (on_curve : list Z -> bool) l b pid key,
    validate_and_set_seeds_with_bump H on_curve None l b pid key = Ok (Some (l, b)) <->
    create_pda H on_curve (with_bump l b) pid = Ok key.
Proof. exact bump_ok. Qed.

Theorem C10_bump_outcomes :
  forall (H : list Z -> list Z) (on_curve : list Z -> bool) l b pid key,
    match validate_and_set_seeds_with_bump H on_curve None l b pid key with
    | Ok st => st = Some (l, b) /\ create_pda H on_curve (with_bump l b) pid = Ok key
    | Err c => (c = EC_ADDRESS_MISMATCH /\ exists a, create_pda H on_curve (with_bump l b) pid = Ok a /\ a <> key) \/
               create_pda H on_curve (with_bump l b) pid = Err c
    | _ => False
    end.
Proof. exact bump_outcomes. Qed.

Theorem C10_validated_once :
  forall (H : list Z -> list Z) (on_curve : list Z -> bool) st0 l b pid key,
    validate_and_set_seeds H on_curve (Some st0) l pid key = Ok (Some st0) /\
    validate_and_set_seeds_with_bump H on_curve (Some st0) l b pid key = Ok (Some st0).
Proof. exact validated_once. Qed.

(* after either validation the recorded bump and signer seeds recreate the account key *)
Theorem C10_signer_agrees :
  forall (H : list Z -> list Z) (on_curve : list Z -> bool) l b pid key st,
    validate_and_set_seeds H on_curve None l pid key = Ok st \/
    validate_and_set_seeds_with_bump H on_curve None l b pid key = Ok st ->
    exists ss, signer_seeds st = Ok ss /\ create_pda H on_curve ss pid = Ok key.
Proof. exact signer_agrees. Qed.

(* why the trailing empty seed is harmless: it contributes nothing to the preimage ... *)
Theorem C10_empty_elided :
  forall (l r : list (list Z)), concat (l ++ [[]] ++ r) = concat (l ++ r).
Proof. exact empty_elided. Qed.

(* ... it only counts toward the 16-seed limit *)
Theorem C10_create_elide :
  forall (H : list Z -> list Z) (on_curve : list Z -> bool) l r pid,
    zlen (l ++ [[]] ++ r) <= 16 -> create_pda H on_curve (l ++ [[]] ++ r) pid = create_pda H on_curve (l ++ r) pid.
Proof. exact create_elide. Qed.

Theorem C10_find_elide :
  forall (H : list Z -> list Z) (on_curve : list Z -> bool) l pid,
    zlen l <= 14 -> find_pda H on_curve (l ++ [[]]) pid = find_pda H on_curve l pid.
Proof. exact find_elide. Qed.

Theorem C10_find_limit :
  forall (H : list Z -> list Z) (on_curve : list Z -> bool) l pid,
    16 <= zlen l -> find_pda H on_curve l pid = None.
Proof. exact find_limit. Qed.

(* seeds_with_bump: replace a trailing empty seed, otherwise push *)
Theorem C10_with_bump_cases :
  forall l b,
    (exists l', l = l' ++ [[]] /\ with_bump l b = l' ++ [[b]]) \/
    ((forall l', l <> l' ++ [[]]) /\ with_bump l b = l ++ [[b]]).
Proof. exact with_bump_cases. Qed.

(* client helpers (repaired create_program_address: proposed/C10-client-bump.patch) *)
Theorem C10_client_agrees :
  forall (H : list Z -> list Z) (on_curve : list Z -> bool) l b pid key st,
    (validate_and_set_seeds H on_curve None l pid key = Ok st ->
       exists b0, st = Some (l, b0) /\ client_find H on_curve l pid = Ok (key, b0) /\
                  client_create H on_curve l b0 pid = Ok key) /\
    (validate_and_set_seeds_with_bump H on_curve None l b pid key = Ok st ->
       st = Some (l, b) /\ client_create H on_curve l b pid = Ok key).
Proof. exact client_agrees. Qed.

Theorem C10_client_same_calls :
  forall (H : list Z -> list Z) (on_curve : list Z -> bool) l b pid,
    client_find H on_curve l pid = find_program_address H on_curve l pid /\
    client_create H on_curve l b pid = create_pda H on_curve (with_bump l b) pid.
Proof. exact client_same_calls. Qed.

(* the helper as shipped before the fix: the hypothesis the proof forces, and the witness class at the limit (D8) *)
Theorem C10_client_shipped_agrees :
  forall (H : list Z -> list Z) (on_curve : list Z -> bool) l b pid,
    zlen l <= 15 -> client_create_shipped H on_curve l b pid = client_create H on_curve l b pid.
Proof. exact client_shipped_agrees. Qed.

Theorem C10_client_shipped_refuted :
  forall (H : list Z -> list Z) (on_curve : list Z -> bool) l' b pid,
    zlen l' = 15 -> Forall (fun s => zlen s <= 32) l' -> 0 <= b < 256 ->
    client_create_shipped H on_curve (l' ++ [[]]) b pid = Err PE_MAX_SEED_LENGTH_EXCEEDED /\
    (on_curve (H (concat (l' ++ [[b]]) ++ pid ++ PDA_MARKER)) = false ->
     exists key, validate_and_set_seeds_with_bump H on_curve None (l' ++ [[]]) b pid key = Ok (Some (l' ++ [[]], b)) /\
                 signer_seeds (Some (l' ++ [[]], b)) = Ok (l' ++ [[b]]) /\
                 create_pda H on_curve (l' ++ [[b]]) pid = Ok key).
Proof. exact client_shipped_refuted. Qed.

(* derived seeds: constant prefix, fields in declaration order, trailing empty seed; field encodings *)
Theorem C10_field_encoding :
  forall S,
    seeds_of S = const_seed (s_const S) ++ map field_seed (s_fields S) ++ [[]] /\
    (forall i v, nth_error (s_fields S) i = Some v ->
       nth_error (seeds_of S) (length (const_seed (s_const S)) + i) = Some (field_seed v)) /\
    (forall c, s_const S = Some c -> nth_error (seeds_of S) 0 = Some c) /\
    (forall b, with_bump (seeds_of S) b = const_seed (s_const S) ++ map field_seed (s_fields S) ++ [[b]]).
Proof. exact field_encoding. Qed.

Theorem C10_int_seed_le :
  forall w n,
    length (field_seed (VInt w n)) = w /\ bytes_ok (field_seed (VInt w n)) = true /\
    (0 <= n < 256 ^ Z.of_nat w -> le_decode (field_seed (VInt w n)) = n).
Proof. exact int_seed_le. Qed.

Theorem C10_seeds_of_inj :
  forall S S',
    s_const S = s_const S' -> Forall2 same_ty (s_fields S) (s_fields S') ->
    seeds_of S = seeds_of S' -> S = S'.
Proof. exact seeds_of_inj. Qed.

(* non-vacuity: a toy oracle (hash = first 32 bytes of the preimage, on the curve iff the last seed byte
   in front of the program id is > 253): bump 255 and 254 are rejected, 253 is canonical *)
Example C10_nonvacuous :
  let H := fun pre : list Z => firstn 32 pre in
  let oc := fun h : list Z => 253 <? nth 9 h 0 in
  let S := mkS (Some [1;2]) [VInt 2 513; VKey [7;7;7;7]; VBytes [9]] in
  seeds_of S = [[1;2]; [1;2]; [7;7;7;7]; [9]; []] /\
  find_pda H oc (seeds_of S) [0] = Some ([1;2;1;2;7;7;7;7;9;253;0] ++ PDA_MARKER, 253) /\
  validate_and_set_seeds H oc None (seeds_of S) [0] ([1;2;1;2;7;7;7;7;9;253;0] ++ PDA_MARKER)
    = Ok (Some (seeds_of S, 253)) /\
  validate_and_set_seeds_with_bump H oc None (seeds_of S) 7 [0] ([1;2;1;2;7;7;7;7;9;7;0] ++ PDA_MARKER)
    = Ok (Some (seeds_of S, 7)) /\
  signer_seeds (Some (seeds_of S, 253)) = Ok [[1;2]; [1;2]; [7;7;7;7]; [9]; [253]].
Proof. vm_compute. repeat split; reflexivity. Qed.
