(* C14 - Client, on-chain decode and CPI views of an instruction agree.  Statements only.
   For ALL account-set shapes (Leaf / ProgramLeaf / SysvarLeaf / Opt / Vec / Arr / Boxed / Rest / Struct),
   all client values, all program ids, all decode lengths. *)
From SF Require Import Base.Prelude Gen.Generated AccountSet.AccountSet AccountSet.AccountSetProofs.

(* decoding the accounts of the client's own metas gives back the account set the client passed and consumes
   exactly those accounts; wf_client is what the proof forces (typed value, Vec lengths = the decode arguments,
   a present optional starts with an account whose key is not the program id, Rest is trailing and each of
   its elements takes at least one account) *)
Theorem C14_decode_client :
  forall pid s lens c,
    wf_client pid s lens true c = true ->
    decode pid s lens (accounts_of (client_metas pid s c)) = Ok (dshape pid s c, []).
Proof. exact decode_client. Qed.

(* the same in the middle of an account list: whatever follows is left untouched *)
Theorem C14_decode_client_gen :
  forall pid s lens last c tl,
    wf_client pid s lens last c = true -> (last = true -> tl = []) ->
    decode pid s lens (accounts_of (client_metas pid s c) ++ tl) = Ok (dshape pid s c, tl).
Proof. exact decode_client_gen. Qed.

(* every meta carries the signer / writable bits its leaf's validation requires *)
Theorem C14_flags_suffice :
  forall pid s c, keys_valid s c = true -> validate s (dshape pid s c) = Ok tt.
Proof. exact flags_suffice. Qed.

Theorem C14_leaf_meta_exact :
  forall mods, leaf_meta mods = (req_signer mods, req_writable mods).
Proof. exact leaf_meta_exact. Qed.

(* so the program's entry path (decode, then validate) accepts the client's instruction *)
Theorem C14_entry_accepts :
  forall pid s lens c,
    wf_client pid s lens true c = true -> keys_valid s c = true ->
    entry pid s lens (accounts_of (client_metas pid s c)) = Ok (dshape pid s c).
Proof. exact entry_accepts. Qed.

(* CPI: same keys, order and flags as the client metas (for every value, well-formed or not) *)
Theorem C14_cpi_eq_client :
  forall pid s c, cpi_metas pid s (dshape pid s c) = client_metas pid s c.
Proof. exact cpi_eq_client. Qed.

Theorem C14_cpi_infos_client :
  forall pid s c, cpi_infos (Some pid) s (dshape pid s c) = IOk (map m_key (client_metas pid s c)).
Proof. exact cpi_infos_client. Qed.

Theorem C14_no_option_no_program :
  forall s, contains_option s = false -> forall p d, cpi_infos None s d = cpi_infos (Some p) s d.
Proof. exact no_option_no_program. Qed.

(* a static set writes exactly AccountLen accounts *)
Theorem C14_cpi_static_count :
  forall pid s lens last c,
    wf_client pid s lens last c = true -> declared_len s < DYNAMIC_LEN ->
    zlen (client_metas pid s c) = declared_len s.
Proof. exact cpi_static_count. Qed.

(* what invoke hands to the runtime: the client metas and their keys; the asserts on the write indices hold *)
Theorem C14_cpi_invoke_client :
  forall pid s lens c,
    wf_client pid s lens true c = true ->
    declared_len s <= 63 \/ (declared_len s = DYNAMIC_LEN /\ zlen (client_metas pid s c) <= DYNAMIC_CAP) ->
    cpi_invoke pid s (dshape pid s c) = Ok (client_metas pid s c, map m_key (client_metas pid s c)).
Proof. exact cpi_invoke_client. Qed.

Theorem C14_cpi_dynamic_bound :
  forall pid s lens c,
    wf_client pid s lens true c = true -> declared_len s = DYNAMIC_LEN ->
    DYNAMIC_CAP < zlen (client_metas pid s c) -> cpi_invoke pid s (dshape pid s c) = Panic.
Proof. exact cpi_dynamic_bound. Qed.

Theorem C14_cpi_invoke_counts :
  forall pid s d ms ks,
    cpi_invoke pid s d = Ok (ms, ks) ->
    zlen ms = zlen ks /\ (declared_len s <> DYNAMIC_LEN -> zlen ms = declared_len s) /\
    (declared_len s = DYNAMIC_LEN -> zlen ms <= DYNAMIC_CAP) /\ ms = cpi_metas pid s d.
Proof. exact cpi_invoke_counts. Qed.

(* a CPI never asks for a privilege the account set does not require: every meta is read-only non-signer or
   carries exactly the requirement of one of the set's leaves (for every decoded value) *)
Theorem C14_cpi_no_excess :
  forall pid s d, Forall (meta_allowed s) (cpi_metas pid s d).
Proof. exact cpi_no_excess. Qed.

(* ---- the negation of wf_client is the documented ambiguity of the placeholder encoding --------------- *)
(* a present optional whose key is the program id reads back as absent *)
Example C14_ambiguity_program_key :
  let s := Struct [Opt (Leaf []); Leaf []] in
  let c := CStruct [COpt (Some (CKey 77)); CKey 5] in
  wf_client 77 s [] true c = false /\
  decode 77 s [] (accounts_of (client_metas 77 s c))
    = Ok (DStruct [DOpt None; DAcct (mkMeta 5 false false)], []).
Proof. vm_compute. split; reflexivity. Qed.

(* a present optional that takes no account is indistinguishable from an absent one: here it swallows the
   placeholder of the next field *)
Example C14_ambiguity_empty_present :
  let s := Struct [Opt (Vec (Leaf [])); Opt (Leaf [MSigner true])] in
  let c := CStruct [COpt (Some (CList [])); COpt None] in
  wf_client 77 s [0] true c = false /\
  dshape 77 s c = DStruct [DOpt (Some (DList [])); DOpt None] /\
  decode 77 s [0] (accounts_of (client_metas 77 s c)) = Ok (DStruct [DOpt None; DOpt None], []).
Proof. vm_compute. repeat split; reflexivity. Qed.

(* Rest takes everything that follows *)
Example C14_ambiguity_rest_not_last :
  let s := Struct [Rest (Leaf []); Leaf [MSigner true]] in
  let c := CStruct [CList [CKey 1]; CKey 2] in
  wf_client 77 s [] true c = false /\
  decode 77 s [] (accounts_of (client_metas 77 s c)) = Err EC_ADVANCE_ERROR.
Proof. vm_compute. split; reflexivity. Qed.

(* ---- the code as shipped before the two repairs (findings of this property) --------------------------- *)
(* MaybeSigner<false, Signer<AccountInfo>>: the outer `false` overwrote the inner requirement in SingleSetMeta,
   so the client meta was not a signer although validation demands one *)
Example C14_shipped_meta_refuted :
  let mods := [MSigner true; MSigner false] in
  leaf_meta_shipped mods = (false, false) /\ req_signer mods = true /\
  validate_mods mods (leaf_of 5 (leaf_meta_shipped mods)) = Err EC_EXPECTED_SIGNER /\
  validate_mods mods (leaf_of 5 (leaf_meta mods)) = Ok tt.
Proof. vm_compute. repeat split; reflexivity. Qed.

(* [Option<T>; N] declared ContainsOption = False: no program account reaches write_account_infos and a CPI
   with an absent element fails, although the entry path accepts the same accounts *)
Example C14_shipped_array_option_refuted :
  let s := Struct [Arr 2 (Opt (Leaf [MSigner true]))] in
  let c := CStruct [CList [COpt (Some (CKey 5)); COpt None]] in
  wf_client 77 s [] true c = true /\
  entry 77 s [] (accounts_of (client_metas 77 s c)) = Ok (dshape 77 s c) /\
  cpi_invoke_shipped 77 s (dshape 77 s c) = Err EC_MISSING_OPTIONAL_PROGRAM /\
  cpi_invoke 77 s (dshape 77 s c) = Ok (client_metas 77 s c, [5; 77]).
Proof. vm_compute. repeat split; reflexivity. Qed.

(* non-vacuity: a nested set with every building block *)
Example C14_nonvacuous :
  let na := Struct [Leaf [MSigner true]; Leaf [MMut true]] in
  let s := Struct [Leaf [MMut true; MSigner true]; Opt na; Vec (Boxed (Opt (Leaf []))); Arr 2 (SysvarLeaf 1000);
                   ProgramLeaf 0; Rest na] in
  let c := CStruct [CKey 1; COpt (Some (CStruct [CKey 2; CKey 3])); CList [COpt None; COpt (Some (CKey 4))];
                    CList [COptKey None; COptKey None]; COptKey None; CList [CStruct [CKey 6; CKey 7]]] in
  wf_client 77 s [2] true c = true /\ keys_valid s c = true /\
  map m_key (client_metas 77 s c) = [1; 2; 3; 77; 4; 1000; 1000; 0; 6; 7] /\
  client_metas 77 s (CStruct [CKey 1; COpt None; CList []; CList [COptKey None; COptKey None]; COptKey None; CList []])
    = [mkMeta 1 true true; mkMeta 77 false false; mkMeta 1000 false false; mkMeta 1000 false false; mkMeta 0 false false] /\
  declared_len s = 100 /\ contains_option s = true /\
  entry 77 s [2] (accounts_of (client_metas 77 s c)) = Ok (dshape 77 s c) /\
  cpi_invoke 77 s (dshape 77 s c) = Ok (client_metas 77 s c, [1; 2; 3; 77; 4; 1000; 1000; 0; 6; 7]).
Proof. vm_compute. repeat split; reflexivity. Qed.
