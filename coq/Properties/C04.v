(* C04 - Safe parsing of arbitrary bytes is memory-safe and never admits invalid values. Statements only.
   In the model every slice access of the parser is a checked access on the given byte list; `Fault` is the
   outcome of an unchecked access leaving the input.  The theorems hold for ALL byte strings, all shapes and
   both settings of the overflow-check flag. *)
From SF Require Import Base.Prelude Gen.Generated Unsized.Types Unsized.Parse Unsized.Proofs.EncodeParse.

Theorem C04_parse_never_faults : forall ovf t bs, parse ovf t bs <> Fault.
Proof. exact parse_never_faults. Qed.

Theorem C04_extent_never_faults : forall ovf t bs, extent ovf t bs <> Fault.
Proof. exact extent_never_faults. Qed.

Theorem C04_owned_never_faults : forall ovf t bs, owned ovf t bs <> Fault.
Proof. exact owned_never_faults. Qed.

(* the reported extent lies inside the input *)
Theorem C04_extent_inside : forall ovf t bs n, extent ovf t bs = Ok n -> 0 <= n <= zlen bs.
Proof. exact extent_inside. Qed.

(* whenever a value is produced no field has an invalid bit pattern, and its extent is inside the input *)
Theorem C04_valid_bits :
  forall ovf t bs v n, parse ovf t bs = Ok (v, n) -> valid_bits t v = true /\ 0 <= n <= zlen bs.
Proof. exact parse_valid_bits. Qed.

(* with overflow checks off, computing the extent never panics: errors only *)
Theorem C04_extent_total_unchecked : forall t bs, extent false t bs <> Panic.
Proof. exact extent_no_panic_unchecked. Qed.

Example C04_nonvacuous :
  (* a displaced offset table (the D1 witness): an error, not a fault; a bool byte of 2: rejected *)
  parse true (TStruct [TUList (TList (FAny 1) 1) 1])
        [4;0;0;0; 2;0;0;0; 160;15;0;0;7; 163;15;0;0;8; 2;0;0;0; 2;67;95;0] = Err EC_POINTER_OUT_OF_BOUNDS /\
  parse true (TList FBool 1) [1; 2] = Err EC_CHECKED_CAST_ERROR /\
  parse true (TList FBool 1) [2; 1; 0] = Ok (VList [[1]; [0]], 3).
Proof. vm_compute. repeat split; reflexivity. Qed.
