(* C07 - Account data can be re-borrowed within an instruction after any resize history.
   Only statements; each is closed by `exact` of a lemma of Account/AccountInfoProofs.v. *)
From SF Require Import Base.Prelude Gen.Generated Account.AccountInfo Account.AccountInfoProofs.

(* The valid-pointer range handed to an exclusive wrapper is exactly the allocation: the length
   at instruction start plus the runtime's growth allowance, whatever the resize history. *)
Theorem C07_range_is_alloc :
  forall orig s, Inv orig s -> data_mut_range_end (s_hdr s) = orig + MAX_INC.
Proof. exact range_is_alloc. Qed.

(* Every reachable state satisfies the invariant, and no step of any history panics (neither the
   drop-time pointer check nor the debug assertions before a resize). *)
Theorem C07_reachable_no_panic :
  forall v w ops, size_ok (value_size v) ->
    Inv (value_size v) (fst (run (init_st v w) ops)) /\
    Forall (fun ob => ob <> [2]) (snd (run (init_st v w) ops)).
Proof. intros v w ops H. exact (run_inv (value_size v) (init_st v w) ops H (init_inv v w)). Qed.

Theorem C07_step_inv :
  forall orig s o, size_ok orig -> Inv orig s -> Inv orig (fst (step s o)) /\ snd (step s o) <> [2].
Proof. exact step_inv. Qed.

(* In every reachable state with no live borrow, an exclusive borrow of a writable account
   succeeds, and its range is the allocation. *)
Theorem C07_reborrow_mut_ok :
  forall orig s, Inv orig s -> h_writable (s_hdr s) = true -> s_excl s = None -> s_nsh s = 0 ->
    snd (step s OBorrowMut) = [0] /\ s_excl (fst (step s OBorrowMut)) = Some (orig + MAX_INC).
Proof. exact borrow_mut_succeeds. Qed.

Theorem C07_reborrow_shared_ok :
  forall orig s, Inv orig s -> s_excl s = None -> s_nsh s < 7 -> snd (step s OBorrowSh) = [0].
Proof. exact borrow_shared_succeeds. Qed.

(* Each borrow observes the current value and the current length. *)
Theorem C07_read_observes_current :
  forall orig s, Inv orig s -> (s_excl s <> None \/ 0 < s_nsh s) ->
    step s ORead = (s, 0 :: value_size (s_val s) :: observe_value (s_val s)).
Proof. exact read_observes_current. Qed.

(* Growth succeeds exactly up to the allowance ... *)
Theorem C07_growth_within_allowance_ok :
  forall orig s r i f n b,
    size_ok orig -> Inv orig s -> s_excl s = Some r -> nth_error (s_val s) i = Some f ->
    0 < n -> zlen f + n <= U32_MAX -> value_size (s_val s) + n <= orig + MAX_INC ->
    snd (step s (OPush i n b)) = [0] /\
    s_val (fst (step s (OPush i n b))) = set_nth i (f ++ zrepeat b n) (s_val s) /\
    h_dlen (s_hdr (fst (step s (OPush i n b)))) = value_size (s_val s) + n.
Proof. exact push_within_limit. Qed.

(* ... and exceeding it is an error at the offending operation, with the state unchanged. *)
Theorem C07_over_allowance_is_error :
  forall orig s r i f n b,
    size_ok orig -> Inv orig s -> s_excl s = Some r -> nth_error (s_val s) i = Some f ->
    0 < n -> zlen f + n <= U32_MAX -> orig + MAX_INC < value_size (s_val s) + n ->
    step s (OPush i n b) = (s, [1; PE_INVALID_ACCOUNT_DATA_REALLOC]).
Proof. exact push_over_limit. Qed.

(* Overlapping borrows are refused and leave the state unchanged. *)
Theorem C07_overlap_refused :
  forall orig s, Inv orig s ->
  (s_excl s <> None -> step s OBorrowMut = (s, [1; E_BORROW]) /\ step s OBorrowSh = (s, [1; E_BORROW])) /\
  (0 < s_nsh s -> step s OBorrowMut = (s, [1; E_BORROW])) /\
  (s_nsh s = 7 -> step s OBorrowSh = (s, [1; E_BORROW])).
Proof. exact overlap_refused. Qed.

Theorem C07_readonly_refused :
  forall s, h_writable (s_hdr s) = false -> step s OBorrowMut = (s, [1; E_BORROW]).
Proof. exact readonly_refused. Qed.

(* Non-vacuity: the D3 witness history (shrink by more than the allowance, release, re-borrow,
   grow back to the allowance, release) is a reachable history meeting every hypothesis. *)
Example C07_nonvacuous :
  let v := [zrepeat 1 1385; []] in
  size_ok (value_size v) /\
  snd (run (init_st v true)
         [OBorrowMut; ORemove 0 0 1385; ORelMut; OBorrowMut; OPush 0 11625 191; ORead; ORelMut])
  = [[0]; [0]; [0]; [0]; [0]; [0; value_size v + 10240; 11625; checksum (zrepeat 191 11625); 0; 7]; [0]].
Proof. vm_compute. split; [split; discriminate|reflexivity]. Qed.
