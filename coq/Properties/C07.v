(* C07 - Account data can be re-borrowed within an instruction after any resize history.
   Only statements; each is closed by `exact` of a lemma of Account/AccountInfoProofs.v.

   The account's fields carry a length prefix of width `lw` (`s_lw s` in a state): 4 for the
   `List<u8>` fields (any number of them), 0 for the single prefix-less `RemainingBytes` field,
   whose body may be empty (data length = the 8-byte discriminant).  `shape_ok lw v` says just
   that: 0 < lw, or lw = 0 and at most one field; it is part of `Inv`. *)
From SF Require Import Base.Prelude Gen.Generated Account.AccountInfo Account.AccountInfoProofs.

(* The valid-pointer range handed to an exclusive wrapper is exactly the allocation: the length
   at instruction start plus the runtime's growth allowance, whatever the resize history. *)
Theorem C07_range_is_alloc :
  forall orig s, Inv orig s -> data_mut_range_end (s_hdr s) = orig + MAX_INC.
Proof. exact range_is_alloc. Qed.

(* Every reachable state satisfies the invariant, and no step of any history panics (neither the
   drop-time pointer check nor the debug assertions before a resize). *)
Theorem C07_reachable_no_panic :
  forall lw v w ops, shape_ok lw v -> size_ok (value_size lw v) ->
    Inv (value_size lw v) (fst (run (init_st lw v w) ops)) /\
    Forall (fun ob => ob <> [2]) (snd (run (init_st lw v w) ops)).
Proof.
  intros lw v w ops Hs H.
  exact (run_inv (value_size lw v) (init_st lw v w) ops H (init_inv lw v w Hs)).
Qed.

Theorem C07_step_inv :
  forall orig s o, size_ok orig -> Inv orig s -> Inv orig (fst (step s o)) /\ snd (step s o) <> [2].
Proof. exact step_inv. Qed.

(* In every reachable state with no live borrow, an exclusive borrow of a writable account
   succeeds, and its range is the allocation. *)
Theorem C07_reborrow_mut_ok :
  forall orig s, Inv orig s -> h_writable (s_hdr s) = true -> s_excl s = None -> s_nsh s = 0 ->
    snd (step s OBorrowMut) = [0] /\ s_excl (fst (step s OBorrowMut)) = Some (orig + MAX_INC).
Proof. exact borrow_mut_succeeds. Qed.

Theorem C07_reborrow_shared_ok :
  forall orig s, Inv orig s -> s_excl s = None -> s_nsh s < 7 -> snd (step s OBorrowSh) = [0].
Proof. exact borrow_shared_succeeds. Qed.

(* Each borrow observes the current value and the current length. *)
Theorem C07_read_observes_current :
  forall orig s, Inv orig s -> (s_excl s <> None \/ 0 < s_nsh s) ->
    step s ORead = (s, 0 :: value_size (s_lw s) (s_val s) :: observe_value (s_val s)).
Proof. exact read_observes_current. Qed.

(* Growth succeeds exactly up to the allowance (the u32 limit of the length prefix only exists
   where there is a prefix) ... *)
Theorem C07_growth_within_allowance_ok :
  forall orig s r i f n b,
    size_ok orig -> Inv orig s -> s_excl s = Some r -> nth_error (s_val s) i = Some f ->
    0 < n -> (s_lw s = 4 -> zlen f + n <= U32_MAX) ->
    value_size (s_lw s) (s_val s) + n <= orig + MAX_INC ->
    snd (step s (OPush i n b)) = [0] /\
    s_val (fst (step s (OPush i n b))) = set_nth i (f ++ zrepeat b n) (s_val s) /\
    h_dlen (s_hdr (fst (step s (OPush i n b)))) = value_size (s_lw s) (s_val s) + n.
Proof. exact push_within_limit. Qed.

(* ... and exceeding it is an error at the offending operation, with the state unchanged. *)
Theorem C07_over_allowance_is_error :
  forall orig s r i f n b,
    size_ok orig -> Inv orig s -> s_excl s = Some r -> nth_error (s_val s) i = Some f ->
    0 < n -> (s_lw s = 4 -> zlen f + n <= U32_MAX) ->
    orig + MAX_INC < value_size (s_lw s) (s_val s) + n ->
    step s (OPush i n b) = (s, [1; PE_INVALID_ACCOUNT_DATA_REALLOC]).
Proof. exact push_over_limit. Qed.

(* Overlapping borrows are refused and leave the state unchanged. *)
Theorem C07_overlap_refused :
  forall orig s, Inv orig s ->
  (s_excl s <> None -> step s OBorrowMut = (s, [1; E_BORROW]) /\ step s OBorrowSh = (s, [1; E_BORROW])) /\
  (0 < s_nsh s -> step s OBorrowMut = (s, [1; E_BORROW])) /\
  (s_nsh s = 7 -> step s OBorrowSh = (s, [1; E_BORROW])).
Proof. exact overlap_refused. Qed.

Theorem C07_readonly_refused :
  forall s, h_writable (s_hdr s) = false -> step s OBorrowMut = (s, [1; E_BORROW]).
Proof. exact readonly_refused. Qed.

(* Non-vacuity: the D3 witness history (shrink by more than the allowance, release, re-borrow,
   grow back to the allowance, release) is a reachable history meeting every hypothesis. *)
Example C07_nonvacuous :
  let v := [zrepeat 1 1385; []] in
  shape_ok 4 v /\ size_ok (value_size 4 v) /\
  snd (run (init_st 4 v true)
         [OBorrowMut; ORemove 0 0 1385; ORelMut; OBorrowMut; OPush 0 11625 191; ORead; ORelMut])
  = [[0]; [0]; [0]; [0]; [0]; [0; value_size 4 v + 10240; 11625; checksum (zrepeat 191 11625); 0; 7]; [0]].
Proof. split; [left; reflexivity|]. vm_compute. split; [split; discriminate|reflexivity]. Qed.

(* The prefix-less account (`struct K0 { #[unsized_start] rest: RemainingBytes }`) starting with an
   EMPTY body (data length = the discriminant): borrow, push 5 bytes, release; borrow, remove all 5
   (body empty again, data length 8), release; borrow and read.  Every borrow and every release
   succeeds, the lengths seen are 8 -> 13 -> 8, and the last read sees the empty field. *)
Example C07_prefixless_empty_body :
  let v := [[]] in
  shape_ok 0 v /\ size_ok (value_size 0 v) /\ value_size 0 v = 8 /\
  (let '(s, obs) :=
     run (init_st 0 v true)
       [OBorrowMut; OPush 0 5 170; ORead; ORelMut;
        OBorrowMut; ORemove 0 0 5; ORelMut;
        OBorrowMut; ORead] in
   obs = [[0]; [0]; [0; 13; 5; checksum (zrepeat 170 5)]; [0];
          [0]; [0]; [0];
          [0]; [0; 8; 0; 7]] /\
   s_val s = [[]] /\ h_dlen (s_hdr s) = 8 /\ h_delta (s_hdr s) = 0) /\
  (* the same history through the runner entry: w = 1, k = 0, len0 = 0 *)
  run_c07 [1; 0; 0;  1; 5; 0; 5; 170; 7; 2;  1; 6; 0; 0; 5; 2;  1; 7]
  = [1; 0;  1; 0;  4; 0; 13; 5; 42693;  1; 0;  1; 0;  1; 0;  1; 0;  1; 0;  4; 0; 8; 0; 7;  8; 0].
Proof.
  split; [apply shape_ok_bytes|]. vm_compute.
  split; [split; discriminate|]. repeat split; reflexivity.
Qed.
