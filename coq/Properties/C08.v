(* C08 - Program accounts are admitted iff owner and discriminant match. Statements only. *)
From SF Require Import Base.Prelude Gen.Generated Account.Validate Account.ValidateProofs.

Theorem C08_validate_iff :
  forall pid w d a, c08_wf pid w d a -> a_can_borrow a = true ->
    (validate_account_info pid w d a = Ok tt <-> a_owner a = pid /\ firstn w (a_data a) = d).
Proof. exact validate_iff. Qed.

Theorem C08_validate_err :
  forall pid w d a,
  validate_account_info pid w d a = Ok tt \/
  exists c, validate_account_info pid w d a = Err c /\
    (c = PE_INVALID_ACCOUNT_OWNER \/ c = PE_ACCOUNT_DATA_TOO_SMALL \/ c = EC_DISCRIMINANT_MISMATCH \/
     (c = PE_ACCOUNT_BORROW_FAILED /\ a_can_borrow a = false)).
Proof. exact validate_err. Qed.

(* the width-specialised integer comparison is plain byte equality *)
Theorem C08_fastpath_exact :
  forall w d data, length d = w -> bytes_ok d = true -> bytes_ok data = true -> (w <= length data)%nat ->
    (disc_matches w d data = true <-> firstn w data = d).
Proof. exact disc_matches_iff. Qed.

Theorem C08_data_revalidates :
  forall pid w d a, a_writable a = true -> data_access pid w d a = Ok tt -> validate_account_info pid w d a = Ok tt.
Proof. exact data_revalidates. Qed.

Theorem C08_data_mut_revalidates :
  forall pid w d a cbm, data_mut_access pid w d a cbm = Ok tt ->
    a_writable a = true /\ validate_account_info pid w d a = Ok tt.
Proof. exact data_mut_revalidates. Qed.

Theorem C08_data_mut_needs_writable :
  forall pid w d a cbm, a_writable a = false -> data_mut_access pid w d a cbm = Err PE_ACCOUNT_BORROW_FAILED.
Proof. exact data_mut_needs_writable. Qed.

Theorem C08_closed_rejected :
  forall pid w d a, c08_wf pid w d a -> a_can_borrow a = true -> d <> repeat 255 w ->
    validate_account_info pid w d (close w a) <> Ok tt.
Proof. exact closed_rejected. Qed.

Example C08_nonvacuous :
  let pid := repeat 7 32 in
  let a := mkAcct (repeat 9 32) pid false true [1;2;3;4;5;6;7;8;0;0] true in
  c08_wf pid 8 [1;2;3;4;5;6;7;8] a /\ validate_account_info pid 8 [1;2;3;4;5;6;7;8] a = Ok tt /\
  validate_account_info pid 8 [1;2;3;4;5;6;7;8] (close 8 a) = Err EC_DISCRIMINANT_MISMATCH.
Proof. vm_compute. repeat split; reflexivity. Qed.
