(* C03 - Resizing never reads or writes outside the account's allocation.  Statements only.
   In the machine every memory access is a function on the allocation (a byte list of length capacity):
   an access outside it has the outcome Fault.  PROVED for ALL shapes: no operation changes the size of
   the allocation (every write of add_bytes / remove_bytes / the notification broadcast lands inside it);
   a pointer tree containing an address of another buffer fails check_pointers (swapped accessors are
   reported no later than the end of the borrow, where the check runs; a STALE recorded inner pointer does not take part,
   D26).  PROVED for every shape (generated enums included; `plain t = true` holds of every shape, C01_every_shape) and histories of list operations at any nesting depth, failures included
   (C03_general_...): the outcome is never Fault nor Panic, the allocation keeps its size, and the pointer assertions
   hold in every reachable state.  PROVED for flat shapes (special case): no Fault
   and no pointer assertion in any history (C01_flat_run_refines yields Ok), growth beyond the allocation
   is refused before any byte moves.  That the Rust pointer arithmetic realises the model's offsets is the
   correspondence check with guard pages and canaries (partial label, DESIGN.md section 7). *)
From SF Require Import Base.Prelude Gen.Generated Unsized.Types Unsized.Parse Unsized.Machine Unsized.Ops.
From SF Require Import Unsized.Proofs.EncodeParse Unsized.Proofs.Mem Unsized.Proofs.Notify Unsized.Proofs.Flat.
From SF Require Import Unsized.Proofs.Layout Unsized.Proofs.Path Unsized.Proofs.Resize Unsized.Proofs.History Unsized.Proofs.History2.
From SF Require Import Unsized.Proofs.History3 Unsized.Proofs.Enums Unsized.Proofs.InitKinds Unsized.Proofs.StringSet Unsized.Proofs.SwapOps.

(* the full operation set: no Fault, no Panic, pointer assertions hold *)
Theorem C03_all_ops_no_fault_in_any_history :
  forall ovf t h v s top pi0 v',
    RepF pi0 t v s top -> m_refuse s <> 1 -> orunX (m_cap s) t v h = Some v' ->
    exists s' top', mrunX ovf t s top h = Ok (s', top') /\ top_check s' top' = true /\ m_len s' <= m_cap s' /\ m_cap s' = m_cap s.
Proof.
  intros ovf t h v s top pi0 v' R Hn Ho.
  destruct (History2.xrun_refines ovf t h v s top pi0 v' R Hn Ho) as (s' & top' & pi' & Hrun & R' & Hc).
  exists s', top'. split; [exact Hrun|]. split; [exact (repf_top_check _ _ _ _ _ R')|].
  pose proof (repf_cap _ _ _ _ _ R'). destruct R' as [_ _ _ _ Hl _ _]. split; [lia|exact Hc].
Qed.

(* the same for every operation the theory knows (keyed views, whole-value replacement, variant switches included) *)
Theorem C03_no_fault_in_any_full_history :
  forall ovf t h v s top pi0 v' obss,
    RepF pi0 t v s top -> m_refuse s <> 1 -> orunZ (m_cap s) t v h = Some (v', obss) ->
    exists s' top', mrunZ ovf t s top h = Ok (s', top', obss) /\ top_check s' top' = true /\ m_len s' <= m_cap s' /\ m_cap s' = m_cap s.
Proof.
  intros ovf t h v s top pi0 v' obss R Hn Ho.
  destruct (zrun_refines ovf t h v s top pi0 v' obss R Hn Ho) as (s' & top' & pi' & Hrun & R' & Hc).
  exists s', top'. split; [exact Hrun|]. split; [exact (repf_top_check _ _ _ _ _ R')|].
  pose proof (repf_cap _ _ _ _ _ R'). destruct R' as [_ _ _ _ Hl _ _]. split; [lia|exact Hc].
Qed.

(* ... and with non-default initializers and UnsizedString::set among the operations (C01_run_refines_every_operation) *)
Theorem C03_no_fault_in_any_history_of_every_operation :
  forall ovf t h v s top pi0 v' obss,
    RepF pi0 t v s top -> m_refuse s <> 1 -> orunS (m_cap s) t v h = Some (v', obss) ->
    exists s' top', mrunS ovf t s top h = Ok (s', top', obss) /\ top_check s' top' = true /\ m_len s' <= m_cap s' /\ m_cap s' = m_cap s.
Proof.
  intros ovf t h v s top pi0 v' obss R Hn Ho.
  destruct (srun_refines ovf t h v s top pi0 v' obss R Hn Ho) as (s' & top' & pi' & Hrun & R' & Hc).
  exists s', top'. split; [exact Hrun|]. split; [exact (repf_top_check _ _ _ _ _ R')|].
  pose proof (repf_cap _ _ _ _ _ R'). destruct R' as [_ _ _ _ Hl _ _]. split; [lia|exact Hc].
Qed.

(* any shape, any depth, any history with failures in it: every access of the run stays inside the allocation (the
   outcome is Ok: neither Fault nor Panic), and the drop-time / debug pointer assertions hold at the end *)
Theorem C03_general_no_fault_in_any_history :
  forall ovf t h v s top pi0 v' l,
    RepF pi0 t v s top -> m_refuse s <> 1 -> orunE (m_cap s) (m_refuse s) t v h = Some (v', l) ->
    exists s' top', mrunE ovf t s top h = Ok (s', top', l) /\ top_check s' top' = true /\ m_len s' <= m_cap s'.
Proof.
  intros ovf t h v s top pi0 v' l R Hn Ho.
  destruct (grunE_refines ovf t h v s top pi0 v' l R Hn Ho) as (s' & top' & pi' & Hrun & R').
  exists s', top'. split; [exact Hrun|]. split; [exact (repf_top_check _ _ _ _ _ R')|].
  pose proof (repf_cap _ _ _ _ _ R'). destruct R' as [_ _ _ _ Hl _ _]. lia.
Qed.

(* in a represented state the pointer assertions hold, whatever the lists of unsized elements remember *)
Theorem C03_general_pointer_assertions_hold :
  forall pi t v s top, RepF pi t v s top -> top_check s top = true.
Proof. exact repf_top_check. Qed.

Theorem C03_notify_stays_in_allocation :
  forall t p src c m p' m', notify t p src c m = Ok (p', m') -> zlen m' = zlen m.
Proof. exact notify_len. Qed.

Theorem C03_add_bytes_stays_in_allocation :
  forall t s top src start amount s' top',
    add_bytes t s top src start amount = Ok (s', top') -> m_cap s' = m_cap s.
Proof. exact add_bytes_cap. Qed.

Theorem C03_remove_bytes_stays_in_allocation :
  forall t s top src start end_ s' top',
    remove_bytes t s top src start end_ = Ok (s', top') -> m_cap s' = m_cap s.
Proof. exact remove_bytes_cap. Qed.

(* growth beyond the allocation (or refused by the data access) is InvalidRealloc, before any memmove *)
Theorem C03_realloc_limit :
  forall tsA tsB vsA vsB c lw items, length tsA = length vsA -> forall s top idx new,
    Rep (tsA ++ TList c lw :: tsB) (vsA ++ VList items :: vsB) s top ->
    0 <= idx <= zlen items -> zlen items + zlen new < 256 ^ Z.of_nat lw -> new <> [] ->
    (m_refuse s = 1 \/ m_cap s < m_len s + Z.of_nat (fsize c) * zlen new) ->
    list_insert (TStruct (tsA ++ TList c lw :: tsB)) s top [PF (length tsA)] idx new = Err E_REALLOC.
Proof. exact list_insert_realloc_error. Qed.

(* in a represented state the debug assertions before a resize and the drop-time assertion hold, also for
   an empty trailing RemainingBytes of a buffer grown to its full allowance (D18) *)
Theorem C03_flat_pointer_assertions_hold :
  forall ts vs s top, Rep ts vs s top -> top_check s top = true.
Proof. exact rep_top_check. Qed.

(* accessors of another buffer are detected *)
Theorem C03_check_pointers_in_range :
  forall p lo hi cursor, lo <= hi -> fst (check_ptrs p lo hi cursor) = true -> Forall (fun a => lo <= a <= hi) (addrs p).
Proof. exact check_ptrs_in_range. Qed.

Theorem C03_swapped_accessor_detected :
  forall p lo hi cursor a, lo <= hi -> In a (addrs p) -> (a < lo \/ hi < a) -> fst (check_ptrs p lo hi cursor) = false.
Proof. exact foreign_pointer_detected. Qed.

(* ... and the first resizing operation on a list of unsized elements whose remembered element accessor belongs to another
   buffer reports it (panics) before a byte moves: insert, remove_range and clear alike *)
Theorem C03_swapped_element_accessor_reported_by_the_next_operation :
  forall t s top ps it k a n q rs re x,
    sub t top ps = Ok (TUList it k, PUList a n (Some q) true rs re) ->
    rs <= re -> In x (addrs q) -> (x < rs \/ re < x) ->
    (forall idx kind keys, ulist_insert t s top ps idx kind keys = Panic) /\
    (forall st en, ulist_remove t s top ps st en = Panic) /\
    ulist_clear t s top ps = Panic.
Proof.
  intros t s top ps it k a n q rs re x Hsub Hr Hin Hout.
  pose proof (foreign_inner_not_ok a n q rs re x Hr Hin Hout) as Hbad.
  split; [intros; exact (ulist_insert_reports_foreign t s top ps it k _ Hsub Hbad idx kind keys)|].
  split; [intros; exact (ulist_remove_reports_foreign t s top ps it k _ Hsub Hbad st en)|].
  exact (ulist_clear_reports_foreign t s top ps it k _ Hsub Hbad).
Qed.

Example C03_nonvacuous :
  (* a struct pointer of buffer [0,100) in which the second field was swapped with one of buffer [1000,1100) *)
  fst (check_ptrs (PStruct [PList 0 4; PList 1008 3; PRem 20 0]) 0 100 0) = false /\
  fst (check_ptrs (PStruct [PList 0 4; PList 8 3; PRem 100 0]) 0 100 0) = true.
Proof. vm_compute. split; reflexivity. Qed.
