(* C05 - Serialize / initialize / deserialize round-trip with exact size accounting. Statements only. *)
From SF Require Import Base.Prelude Unsized.Types Unsized.Parse Unsized.Proofs.EncodeParse.

(* serializing produces exactly the announced number of bytes, for every shape and every well-formed value *)
Theorem C05_encode_size : forall t v, wf t v = true -> zlen (encode t v) = byte_size t v.
Proof. exact encode_size. Qed.

(* deserializing the serialized bytes yields an equal value and reports the serialized size as extent *)
Theorem C05_roundtrip :
  forall ovf t v, ty_ok true t = true -> wf t v = true -> parse ovf t (encode t v) = Ok (v, byte_size t v).
Proof. exact parse_encode. Qed.

(* ... also when the value is followed by other data (a field of a struct, an element of a list) *)
Theorem C05_roundtrip_prefix :
  forall ovf t v tl, ty_ok false t = true -> wf t v = true -> parse ovf t (encode t v ++ tl) = Ok (v, byte_size t v).
Proof. exact parse_encode_prefix. Qed.

(* the general form: extent and owned on an encoding followed by a tail (empty when the shape ends in RemainingBytes) *)
Theorem C05_roundtrip_general :
  forall ovf t last v tl, ty_ok last t = true -> wf t v = true -> (last = true -> tl = []) ->
    extent ovf t (encode t v ++ tl) = Ok (zlen (encode t v)) /\ owned ovf t (encode t v ++ tl) = Ok v.
Proof. exact roundtrip. Qed.

(* the program-account discriminant prefix is a leading fixed field: the client helpers' round trip and
   rejection of a different discriminant are instances (the discriminant check itself is C08) *)
Theorem C05_discriminant_roundtrip :
  forall ovf d t v, (0 < length d)%nat -> bytes_ok d = true -> ty_ok true t = true -> wf t v = true ->
    parse ovf (TStruct [TFixed (FAny (length d)); t]) (d ++ encode t v)
    = Ok (VStruct [VBytes d; v], Z.of_nat (length d) + byte_size t v).
Proof.
  intros ovf d t v Hd Hb Hok Hwf.
  pose proof (parse_encode ovf (TStruct [TFixed (FAny (length d)); t]) (VStruct [VBytes d; v])) as H.
  cbn [encode] in H. rewrite app_nil_r in H. rewrite H.
  - rewrite !byte_size_struct_cons. cbn [byte_size fsize]. f_equal. f_equal. lia.
  - rewrite ty_ok_struct_cons, ty_ok_struct_one. cbn [ty_ok fsize]. rewrite Hok.
    destruct (length d); [lia|reflexivity].
  - rewrite !wf_struct_cons. cbn [wf fsize fvalid]. rewrite Nat.eqb_refl, Hb, Hwf. reflexivity.
Qed.

Example C05_nonvacuous :
  let t := TStruct [TFixed (FStruct [FAny 1; FBool]); TList (FAny 1) 4; TUList (TList (FAny 2) 1) 0; TRem] in
  let v := VStruct [VBytes [7; 1]; VList [[1]; [2]]; VUList [([], VList [[3; 4]]); ([], VList [])]; VBytes [9; 9]] in
  ty_ok true t = true /\ wf t v = true /\ parse true t (encode t v) = Ok (v, 34).
Proof. vm_compute. repeat split; reflexivity. Qed.
