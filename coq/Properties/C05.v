(* C05 - Serialize / initialize / deserialize round-trip with exact size accounting. Statements only. *)
From SF Require Import Base.Prelude Unsized.Types Unsized.Parse Unsized.Machine Unsized.Ops Unsized.Proofs.EncodeParse.
From SF Require Import Unsized.Proofs.Layout Unsized.Proofs.Init Unsized.Proofs.InitKinds.
From SF Require Import Unsized.SizedInit Unsized.Proofs.SizedInitProofs Unsized.ClientAcct Unsized.Proofs.ClientAcctProofs.

(* serializing produces exactly the announced number of bytes, for every shape and every well-formed value *)
Theorem C05_encode_size : forall t v, wf t v = true -> zlen (encode t v) = byte_size t v.
Proof. exact encode_size. Qed.

(* deserializing the serialized bytes yields an equal value and reports the serialized size as extent *)
Theorem C05_roundtrip :
  forall ovf t v, ty_ok true t = true -> wf t v = true -> parse ovf t (encode t v) = Ok (v, byte_size t v).
Proof. exact parse_encode. Qed.

(* ... also when the value is followed by other data (a field of a struct, an element of a list) *)
Theorem C05_roundtrip_prefix :
  forall ovf t v tl, ty_ok false t = true -> wf t v = true -> parse ovf t (encode t v ++ tl) = Ok (v, byte_size t v).
Proof. exact parse_encode_prefix. Qed.

(* the general form: extent and owned on an encoding followed by a tail (empty when the shape ends in RemainingBytes) *)
Theorem C05_roundtrip_general :
  forall ovf t last v tl, ty_ok last t = true -> wf t v = true -> (last = true -> tl = []) ->
    extent ovf t (encode t v ++ tl) = Ok (zlen (encode t v)) /\ owned ovf t (encode t v ++ tl) = Ok v.
Proof. exact roundtrip. Qed.

(* the program-account discriminant prefix is a leading fixed field: the client helpers' round trip and
   rejection of a different discriminant are instances (the discriminant check itself is C08) *)
Theorem C05_discriminant_roundtrip :
  forall ovf d t v, (0 < length d)%nat -> bytes_ok d = true -> ty_ok true t = true -> wf t v = true ->
    parse ovf (TStruct [TFixed (FAny (length d)); t]) (d ++ encode t v)
    = Ok (VStruct [VBytes d; v], Z.of_nat (length d) + byte_size t v).
Proof.
  intros ovf d t v Hd Hb Hok Hwf.
  pose proof (parse_encode ovf (TStruct [TFixed (FAny (length d)); t]) (VStruct [VBytes d; v])) as H.
  cbn [encode] in H. rewrite app_nil_r in H. rewrite H.
  - rewrite !byte_size_struct_cons. cbn [byte_size fsize]. f_equal. f_equal. lia.
  - rewrite ty_ok_struct_cons, ty_ok_struct_one. cbn [ty_ok fsize]. rewrite Hok.
    destruct (length d); [lia|reflexivity].
  - rewrite !wf_struct_cons. cbn [wf fsize fvalid]. rewrite Nat.eqb_refl, Hb, Hwf. reflexivity.
Qed.

(* initialising: for every shape (an enum default-initialises its #[default_init] variant) whose fixed-size parts accept the all-zero pattern, the default initializer
   writes exactly the canonical encoding of the default value (zero bytes, empty lists), of exactly the announced size;
   deserializing what it wrote gives that value back *)
Theorem C05_init_default_exact :
  forall t, plain t = true -> zero_ok t = true ->
    init_bytes t 0 = Ok (encode t (dflt t)) /\ init_size t 0 = zlen (encode t (dflt t)) /\ wf t (dflt t) = true.
Proof. exact init_default_exact. Qed.

Theorem C05_init_then_deserialize :
  forall ovf t, plain t = true -> zero_ok t = true -> ty_ok true t = true ->
    exists bs, init_bytes t 0 = Ok bs /\ zlen bs = init_size t 0 /\ parse ovf t bs = Ok (dflt t, init_size t 0).
Proof.
  intros ovf t Hp Hz Hok. destruct (init_default_exact t Hp Hz) as (Hb & Hs & Hw).
  exists (encode t (dflt t)). split; [exact Hb|]. split; [now rewrite Hs|].
  rewrite Hs, (encode_size _ _ Hw). now apply parse_encode.
Qed.

(* the array initializers: n items when n fits the list's length prefix, ToPrimitiveError otherwise *)
Theorem C05_init_array_exact :
  forall c lw kind n, (kind = 1 /\ n = 3) \/ (kind = 2 /\ n = 300) -> n < 256 ^ Z.of_nat lw ->
    init_bytes (TList c lw) kind = Ok (encode (TList c lw) (VList (repeat (repeat 1 (fsize c)) (Z.to_nat n)))) /\
    init_size (TList c lw) kind = zlen (encode (TList c lw) (VList (repeat (repeat 1 (fsize c)) (Z.to_nat n)))).
Proof. exact init_list_array. Qed.

(* EVERY initializer of the family (kind 0 = DefaultInit, the array initializers of lists, [1;1;1] for RemainingBytes):
   when it succeeds (`ival it kind = Some dv`) it writes exactly the announced INIT_BYTES, they are the serialization of
   the value it creates, and deserializing them gives that value back with exactly that extent *)
Theorem C05_every_initializer_exact :
  forall ovf it kind dv,
    ty_ok true it = true -> ival it kind = Some dv -> ones_ok it kind = true ->
    exists bs, init_bytes it kind = Ok bs /\ zlen bs = init_size it kind /\ bs = encode it dv /\
               parse ovf it bs = Ok (dv, init_size it kind).
Proof.
  intros ovf it kind dv Hok Hi Ho. destruct (ival_init it kind dv Hi Ho) as (Hb & Hs & Hwf).
  exists (encode it dv). split; [exact Hb|]. split; [symmetry; exact Hs|]. split; [reflexivity|].
  rewrite (parse_encode ovf it dv Hok Hwf), Hs, (encode_size it dv Hwf). reflexivity.
Qed.

Theorem C05_init_array_too_long :
  forall c lw kind n, (kind = 1 /\ n = 3) \/ (kind = 2 /\ n = 300) -> 256 ^ Z.of_nat lw <= n ->
    init_bytes (TList c lw) kind = Err E_TOPRIM.
Proof. exact init_list_array_too_long. Qed.

Example C05_nonvacuous :
  let t := TStruct [TFixed (FStruct [FAny 1; FBool]); TList (FAny 1) 4; TUList (TList (FAny 2) 1) 0; TRem] in
  let v := VStruct [VBytes [7; 1]; VList [[1]; [2]]; VUList [([], VList [[3; 4]]); ([], VList [])]; VBytes [9; 9]] in
  ty_ok true t = true /\ wf t v = true /\ parse true t (encode t v) = Ok (v, 34).
Proof. vm_compute. repeat split; reflexivity. Qed.

(* SIZED (bytemuck) values initialised as unsized types (checked.rs: UnsizedInit<DefaultInit> for T, UnsizedInit<T> for T):
   exactly INIT_BYTES = size_of::<T>() bytes are consumed, they are the bytes of the value the initializer denotes - the
   type's OWN default for DefaultInit -, nothing behind them is touched, and they parse back to that value *)
Theorem C05_sized_init_exact :
  forall t arg dst,
    sized_ok t -> arg_ok t arg -> (s_size t <= length dst)%nat ->
    exists after rest,
      sized_init t arg dst = Some (after, rest) /\
      (length dst - length rest = s_size t)%nat /\
      firstn (s_size t) after = denoted t arg /\
      skipn (s_size t) after = skipn (s_size t) dst /\
      length after = length dst /\
      sized_parse t (firstn (s_size t) after) = Some (denoted t arg).
Proof. exact sized_init_exact. Qed.

(* DefaultInit is not a zero fill *)
Theorem C05_sized_default_init_writes_the_default :
  forall t dst after rest,
    sized_ok t -> (s_size t <= length dst)%nat -> sized_init t None dst = Some (after, rest) ->
    firstn (s_size t) after = s_default t /\
    (s_default t <> repeat 0 (s_size t) -> firstn (s_size t) after <> repeat 0 (s_size t)).
Proof. exact sized_default_init_writes_the_default. Qed.

(* the client-side account helpers: deserialize_account (serialize_account v) = v behind the discriminant ... *)
Theorem C05_client_roundtrip :
  forall d bs, zlen bs < 256 ^ 4 -> client_de d (client_ser d bs) = Some bs.
Proof. exact client_roundtrip. Qed.

(* ... and data whose discriminant prefix differs is rejected, whatever follows - in particular the same value serialized
   as a sibling account type of the same discriminant width *)
Theorem C05_client_rejects_other_discriminant :
  forall d data, firstn (length d) data <> d -> client_de d data = None.
Proof. exact client_rejects_other_discriminant. Qed.

Theorem C05_client_rejects_sibling_account :
  forall d d' bs, length d' = length d -> d' <> d -> client_de d (client_ser d' bs) = None.
Proof. exact client_rejects_sibling_account. Qed.
