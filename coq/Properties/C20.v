(* C20 - Project scaffolding is all-or-nothing and accepts only crate-safe names.  Statements only.
   Model: Cli/Name.v (validator, derived values), Cli/Template.v (render), Cli/Fs.v (file system), Cli/Scaffold.v
   (the sequence of `sf new` with an arbitrary injection oracle).  Specification vocabulary:
     crate_safe            NameProofs.v     the documented strict subset, stated without the validator's loop
     wf                    FsProofs.v       every entry's parent directory is present
     project_tree          ScaffoldProofs.v the complete project as a function of the path below the target
     consistent_names      Consistency.v    what the manifests / sources must say about an accepted name
   Tables (keywords, placeholder chain, templates, file / directory tables) are regenerated from the source into
   Gen/Gen_c20.v on every run; side conditions on them are re-decided by vm_compute. *)
From Coq Require Import String.
From SF Require Import Base.Prelude Gen.Gen_c20 Cli.Name Cli.NameProofs Cli.Template Cli.TemplateProofs
  Cli.Fs Cli.FsProofs Cli.Scaffold Cli.ScaffoldProofs Cli.Consistency.
Local Open Scope list_scope.
Local Open Scope Z_scope.

(* --- names --------------------------------------------------------------------------------- *)
Theorem C20_name_iff :
  forall raw, (exists n, validate_arg raw = Accept n) <-> crate_safe (trim raw).
Proof. exact name_iff_proof. Qed.

Theorem C20_name_returned :
  forall raw n, validate_arg raw = Accept n -> n = trim raw.
Proof. exact validate_arg_name. Qed.

Theorem C20_trim_spec :
  forall s, exists a b, s = a ++ trim s ++ b /\ forallb is_ws a = true /\ forallb is_ws b = true /\
    (forall c r, trim s = c :: r -> is_ws c = false) /\ (forall pre c, trim s = pre ++ [c] -> is_ws c = false).
Proof. exact trim_spec. Qed.

(* --- all or nothing ------------------------------------------------------------------------- *)
(* one failing system call: class c, index k within its class, errno e; for every initial state *)
Theorem C20_atomic :
  forall c k e tag raw pubkey keyjson f f' o,
  wf f -> sf_new (one_fault c k e) tag true raw pubkey keyjson f = (f', o) ->
  match o with
  | Done => exists name, validate_arg raw = Accept name /\ lookup [name] f = None /\
            (forall q, is_prefix [name] q = false -> lookup q f' = lookup q f) /\
            (forall rel, lookup ([name] ++ rel) f' = project_tree name pubkey keyjson rel)
  | Failed _ => forall q, lookup q f' = lookup q f
  end.
Proof. exact sf_new_atomic_one_fault. Qed.

(* any set of failing system calls *)
Theorem C20_atomic_any_faults :
  forall inj tag raw pubkey keyjson f f' o,
  wf f -> sf_new inj tag true raw pubkey keyjson f = (f', o) ->
  match o with
  | Done => exists name, validate_arg raw = Accept name /\ lookup [name] f = None /\
            (forall q, is_prefix [name] q = false -> lookup q f' = lookup q f) /\
            (forall rel, lookup ([name] ++ rel) f' = project_tree name pubkey keyjson rel)
  | Failed _ => forall q, lookup q f' = lookup q f
  end.
Proof. exact sf_new_atomic. Qed.

Theorem C20_no_staging_left :
  forall inj tag raw pubkey keyjson f f' o name i,
  wf f -> validate_arg raw = Accept name -> sf_new inj tag true raw pubkey keyjson f = (f', o) ->
  forall rel, lookup ([staging_name tag name i] ++ rel) f' = lookup ([staging_name tag name i] ++ rel) f.
Proof. exact sf_new_no_staging. Qed.

Theorem C20_existing_untouched :
  forall inj tag raw pubkey keyjson f f' o name,
  wf f -> validate_arg raw = Accept name -> lookup [name] f <> None ->
  sf_new inj tag true raw pubkey keyjson f = (f', o) ->
  (exists stage, o = Failed stage) /\ forall q, lookup q f' = lookup q f.
Proof. exact sf_new_existing. Qed.

(* the files of the complete project are the rendered templates of the file table *)
Theorem C20_project_files :
  forall name pubkey keyjson rel tpl,
  In (rel, tpl) c20_files -> project_tree name pubkey keyjson rel = Some (File (render tpl name pubkey)).
Proof. exact project_tree_file. Qed.

(* outside the property's fault model: when the best-effort cleanup fails as well, the staging directory stays *)
Theorem C20_cleanup_failure_leaves_staging :
  let '(f', o) := sf_new (one_fault CMkdir 2 EIO) fake_tag false demo_name [] [] demo_fs in
  o = Failed ST_DIRS /\ lookup [demo_name] f' = None /\ lookup [staging_name fake_tag demo_name 0] f' = Some Dir.
Proof. exact cleanup_failure_leaves_staging. Qed.

(* --- rendering ------------------------------------------------------------------------------ *)
Theorem C20_no_placeholder_left :
  forall raw name pubkey rel tpl p fld,
  validate_arg raw = Accept name -> forallb is_base58 pubkey = true ->
  In (rel, tpl) c20_files -> In (p, fld) c20_placeholders ->
  ~ occurs p (render tpl name pubkey).
Proof. exact no_placeholder_left_proof. Qed.

Theorem C20_names_consistent :
  forall raw name pubkey,
  validate_arg raw = Accept name -> forallb is_base58 pubkey = true -> consistent_names name pubkey.
Proof. exact names_consistent_base58. Qed.

(* --- non-vacuity ---------------------------------------------------------------------------- *)
Definition ex_pk : str := s2z "4URpE4TPuPUdyG8n9vByfsd1MDsD37jMpnuvmVJQW7gi".
Definition ex_kj : str := s2z "[1,2,3]".
Definition ex_fs : fs := [([], Dir); ([s2z "keep.txt"], File [107])].

Example C20_names_nonvacuous :
  validate_arg (s2z "  counter-program ") = Accept (s2z "counter-program") /\
  validate_arg (s2z "fn") = Reject R_KEYWORD /\ validate_arg (s2z "r-try") = Accept (s2z "r-try") /\
  validate_arg (s2z "a--b") = Reject R_CONSECUTIVE /\ validate_arg (s2z "a_") = Reject R_TRAILING /\
  validate_arg (s2z "Counter") = Reject R_FIRST /\ validate_arg (s2z "a b") = Reject R_CHAR /\
  validate_arg (s2z " ") = Reject R_EMPTY /\
  v_pascal (s2z "a2b-c_d") = s2z "A2BCD" /\ forallb is_base58 ex_pk = true.
Proof. vm_compute. repeat split; reflexivity. Qed.

Example C20_wf_nonvacuous : wf ex_fs.
Proof.
  intros q Hq Hne. destruct q as [|a [|b q]]; [congruence | reflexivity |].
  exfalso. apply Hq. cbn [ex_fs lookup path_eqb]. destruct (str_eqb a (s2z "keep.txt")); reflexivity.
Qed.

(* a run without failures produces the complete project; a failed write leaves nothing *)
Example C20_atomic_nonvacuous :
  let '(f1, o1) := sf_new no_fault fake_tag true (s2z "ab-c") ex_pk ex_kj ex_fs in
  let '(f2, o2) := sf_new (one_fault CWrite 5 EIO) fake_tag true (s2z "ab-c") ex_pk ex_kj ex_fs in
  let '(f3, o3) := sf_new (one_fault CMkdir 8 EIO) fake_tag true (s2z "ab-c") ex_pk ex_kj ex_fs in
  let '(f4, o4) := sf_new no_fault fake_tag true (s2z "ab-c") ex_pk ex_kj (([s2z "ab-c"], Symlink [s2z "nowhere"]) :: ex_fs) in
  o1 = Done /\ length f1 = 21%nat /\
  lookup [s2z "ab-c"; s2z "target"; s2z "deploy"; s2z "ab_c-keypair.json"] f1 = Some (File ex_kj) /\
  lookup [s2z "ab-c"; s2z "src"; s2z "tests"] f1 = Some Dir /\
  o2 = Failed ST_FILES /\ f2 = ex_fs /\
  o3 = Done /\ length f3 = 21%nat /\
  o4 = Failed ST_RENAME /\ f4 = ([s2z "ab-c"], Symlink [s2z "nowhere"]) :: ex_fs.
Proof. vm_compute. repeat split; reflexivity. Qed.

Example C20_render_nonvacuous :
  occursb (s2z "{name_lowercase}") c20_tpl_cargo_toml = true /\
  occursb (s2z "{name_lowercase}") (render c20_tpl_cargo_toml (s2z "ab-c") ex_pk) = false /\
  occursb (s2z "name = " ++ dq ++ s2z "ab_c" ++ dq) (render c20_tpl_cargo_toml (s2z "ab-c") ex_pk) = true /\
  occursb (s2z "ab_c.so") (render c20_tpl_test_rs (s2z "ab-c") ex_pk) = true /\
  occursb (s2z "ab-c.so") (render c20_tpl_test_rs (s2z "ab-c") ex_pk) = false.
Proof. vm_compute. repeat split; reflexivity. Qed.
