(* Extraction of the seeded-account model (C10).  ExtrOcamlBasic only; N/Z/positive stay the
   extracted inductives.  The runner's entry table is derived from the run_* names below. *)
From Coq Require Import Extraction ExtrOcamlBasic.
From SF Require Import Base.Prelude Seeds.Seeds.
Extraction Language OCaml.
Extraction "model_seeds.ml" Z.add Z.mul Z.opp run_c10.
