(* Extraction of the wire / layout models (C16).  ExtrOcamlBasic only. *)
From Coq Require Import Extraction ExtrOcamlBasic.
From SF Require Import Base.Prelude Wire.Run.
Extraction Language OCaml.
Extraction "model_wire.ml" Z.add Z.mul Z.opp run_c16sf run_c16ref.
