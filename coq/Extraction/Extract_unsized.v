(* Extraction of the unsized-type models (C01-C06). ExtrOcamlBasic only. *)
From Coq Require Import Extraction ExtrOcamlBasic.
From SF Require Import Base.Prelude Unsized.Types Unsized.Parse Unsized.Machine Unsized.Ops Unsized.Run Unsized.SizedInit Unsized.ClientAcct.
Extraction Language OCaml.
Extraction "model_unsized.ml" Z.add Z.mul Z.opp run_enc run_ops run_parse run_swap run_c05s run_c05c.
