From Coq Require Import Extraction ExtrOcamlBasic.
From SF Require Import Base.Prelude Account.AccountInfo.

Extraction Language OCaml.
Extraction "model.ml" Z.add Z.mul Z.opp run_c07.
