From Coq Require Import Extraction ExtrOcamlBasic.
From SF Require Import Base.Prelude Account.AccountInfo Account.Validate.

Extraction Language OCaml.
Extraction "model.ml" Z.add Z.mul Z.opp run_c07 run_c08 run_c09.
