(* Extraction of the account-set model (C14).  ExtrOcamlBasic only; N/Z/positive stay the extracted
   inductives.  The runner's entry table is derived from the run_* names below. *)
From Coq Require Import Extraction ExtrOcamlBasic.
From SF Require Import Base.Prelude AccountSet.AccountSet.
Extraction Language OCaml.
Extraction "model_acctset.ml" Z.add Z.mul Z.opp run_c14.
