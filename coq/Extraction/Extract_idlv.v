(* Extraction of the IDL verifier model (C18).  ExtrOcamlBasic only; N/Z/positive/nat stay the extracted
   inductives.  The runner's entry table is derived from the run_* names below. *)
From Coq Require Import Extraction ExtrOcamlBasic.
From SF Require Import Base.Prelude Idl.IdlTypes Idl.Verifier.
Extraction Language OCaml.
Extraction "model_idlv.ml" Z.add Z.mul Z.opp run_c18.
