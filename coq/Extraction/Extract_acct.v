(* Extraction of the account-side models (C07, C08, C09).  ExtrOcamlBasic only; N/Z/positive stay
   the extracted inductives.  The runner's entry table is derived from the run_* names below. *)
From Coq Require Import Extraction ExtrOcamlBasic.
From SF Require Import Base.Prelude Account.AccountInfo Account.Validate.
Extraction Language OCaml.
Extraction "model_acct.ml" Z.add Z.mul Z.opp run_c07 run_c08 run_c09 run_c09v run_c09s.
