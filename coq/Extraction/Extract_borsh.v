(* Extraction of the borsh-backed account model (C15).  ExtrOcamlBasic only; N/Z/positive stay the
   extracted inductives.  The runner's entry table is derived from the run_* names below. *)
From Coq Require Import Extraction ExtrOcamlBasic.
From SF Require Import Base.Prelude Borsh.Codec Borsh.BorshAccount.
Extraction Language OCaml.
Extraction "model_borsh.ml" Z.add Z.mul Z.opp run_c15 run_c15u.
