(* Extraction of the derive / layout models (C19).  ExtrOcamlBasic only; N/Z/positive stay the extracted
   inductives.  The runner's entry table is derived from the run_* names below. *)
From Coq Require Import Extraction ExtrOcamlBasic.
From SF Require Import Base.Prelude Meta.Layout Meta.Derives.
Extraction Language OCaml.
Extraction "model_meta.ml" Z.add Z.mul Z.opp run_c19.
