(* Extraction of the IDL semantics model (C17).  ExtrOcamlBasic only; N/Z/positive/nat stay the extracted
   inductives.  The runner's entry table is derived from the run_* names below. *)
From Coq Require Import Extraction ExtrOcamlBasic.
From SF Require Import Base.Prelude Unsized.Types IdlSem.IdlSem IdlSem.Accounts.
Extraction Language OCaml.
Extraction "model_idlsem.ml" Z.add Z.mul Z.opp run_c17enc run_c17emb run_c17tti run_c17inl run_c17dec run_c17metas run_c17idl run_c17flat run_c17lower run_c17disc.
