(* Extraction of the dispatch / lifecycle / requires-order models (C11).  ExtrOcamlBasic only; N/Z/positive/nat
   stay the extracted inductives.  The runner's entry table is derived from the run_* names below. *)
From Coq Require Import Extraction ExtrOcamlBasic.
From SF Require Import Base.Prelude Dispatch.ReqOrder Dispatch.Dispatch Dispatch.Lifecycle Dispatch.RunC11.
Extraction Language OCaml.
Extraction "model_disp.ml" Z.add Z.mul Z.opp run_c11 run_c11s.
