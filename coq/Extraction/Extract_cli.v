(* Extraction of the CLI scaffolding model (C20).  ExtrOcamlBasic only; N/Z/positive/nat stay the extracted
   inductives.  The runner's entry table is derived from the run_* names below. *)
From Coq Require Import Extraction ExtrOcamlBasic.
From SF Require Import Base.Prelude Gen.Gen_c20 Cli.Name Cli.Template Cli.Fs Cli.Scaffold.
Extraction Language OCaml.
Extraction "model_cli.ml" Z.add Z.mul Z.opp run_c20n run_c20s.
