(* Extraction of the rent / initialisation models (C12, C13).  ExtrOcamlBasic only; N/Z/positive stay the
   extracted inductives.  The runner's entry table is derived from the run_* names below. *)
From Coq Require Import Extraction ExtrOcamlBasic.
From SF Require Import Base.Prelude Rent.Ledger Rent.Init Rent.RentOps Rent.Run.
Extraction Language OCaml.
Extraction "model_rent.ml" Z.add Z.mul Z.opp run_c12 run_c13.
