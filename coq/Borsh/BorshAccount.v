(* C15 - BorshAccount<T>: decode, validation, access, write-back during cleanup, close, the next
   instruction's decode and the client-side deserializer.  No proofs in this file.

   Sources (star_frame/src):
     account_set/borsh_account.rs  112-122 struct {info, data: Option<T>}; 124-162 Deref / DerefMut;
                                   164-183 decode_accounts; 189-201 serialize; 207-212 reload;
                                   220-229 set_inner; 24-111 validate / cleanup attributes
     account_set/mod.rs            36-124 validate_account_info / validate_discriminant (model:
                                   Account/Validate.v, shared with C08); 130-170 try_from_accounts
     account_set/single_set.rs     205-216 close_account; 303-322 check_cleanup (no-op without the
                                   cleanup_rent_warning feature)
     client.rs                     115-146 check_discriminant, DeserializeBorshAccount;
                                   185-196 SerializeBorshAccount::serialize_account
     pinocchio 0.9.2 account_info.rs 498-560 resize / resize_unchecked

   The value type is abstract: [ser] = BorshSerialize (object_length = its length), [de] =
   BorshDeserialize on a slice reader returning the unread rest.  [fixed] selects the write-back:
   false = the code as shipped before the D6 repair (it serialises the wrapper's Option<T>, i.e. a tag
   byte and then the value), true = the repaired code (serialises the inner T; nothing to write when
   the wrapper holds no value).  The extracted runner uses fixed = true. *)
From SF Require Import Base.Prelude Gen.Generated Account.Validate Borsh.Codec.

Definition I32_MAX : Z := 2147483647.

(* the part of a runtime account this property talks about *)
Record bacct := mkB {
  b_owner : key;
  b_writable : bool;
  b_data : list Z;
  b_delta : Z;           (* pinocchio resize_delta: growth since the start of the instruction *)
  b_lamports : Z;
}.

Definition set_data (a : bacct) (data : list Z) : bacct :=
  mkB (b_owner a) (b_writable a) data (b_delta a) (b_lamports a).
Definition set_owner (a : bacct) (k : key) : bacct :=
  mkB k (b_writable a) (b_data a) (b_delta a) (b_lamports a).
(* what the runtime does between two instructions: flags of the new instruction, delta restarts *)
Definition begin_instr (wr : bool) (a : bacct) : bacct :=
  mkB (b_owner a) wr (b_data a) 0 (b_lamports a).

(* the view Account/Validate.v needs (no outstanding borrows in this property) *)
Definition to_v (a : bacct) : acct :=
  mkAcct (repeat 9 32) (b_owner a) false (b_writable a) (b_data a) true.

(* truncate or zero-extend *)
Definition resize_list (n : Z) (l : list Z) : list Z :=
  if n <=? zlen l then ztake n l else l ++ zrepeat 0 (n - zlen l).

(* AccountInfo::resize: length must fit i32; unchanged length is a no-op; the accumulated growth of
   the instruction may not exceed MAX_PERMITTED_DATA_INCREASE; new bytes are zeroed *)
Definition resize (a : bacct) (n : Z) : out bacct :=
  if n >? I32_MAX then Err PE_INVALID_ACCOUNT_DATA_REALLOC
  else if n =? zlen (b_data a) then Ok a
  else
    let acc := b_delta a + (n - zlen (b_data a)) in
    if acc >? MAX_PERMITTED_DATA_INCREASE then Err PE_INVALID_ACCOUNT_DATA_REALLOC
    else Ok (mkB (b_owner a) (b_writable a) (resize_list n (b_data a)) acc (b_lamports a)).

(* result of one call made by the instruction body *)
Inductive sres (T : Type) : Type :=
| SOk
| SVal (t : T)
| SErr (c : Z)
| SPanic.
Arguments SOk {T}.
Arguments SVal {T} t.
Arguments SErr {T} c.
Arguments SPanic {T}.

(* how one simulated instruction ended *)
Inductive ires (T : Type) : Type :=
| IRejected                      (* try_from_accounts did not return Ok: body and cleanup do not run *)
| IAborted                       (* a call of the body panicked: the transaction is gone *)
| ICleanupFailed (c : Z)
| ICleanupPanic
| IDone (left : option T).       (* completed; the value the wrapper holds at the end *)
Arguments IRejected {T}.
Arguments IAborted {T}.
Arguments ICleanupFailed {T} c.
Arguments ICleanupPanic {T}.
Arguments IDone {T} left.

Section Model.
  Variable T : Type.
  Variable ser : T -> list Z.
  Variable de : list Z -> option (T * list Z).
  Variable fixed : bool.
  Variable pid : key.        (* T::OwnerProgram::ID *)
  Variable w : nat.          (* size_of::<OwnerProgramDiscriminant<T>>() *)
  Variable d : list Z.       (* T::DISCRIMINANT as bytes *)

  Definition wz : Z := Z.of_nat w.

  (* BorshDeserialize::try_from_slice: every byte must be consumed; all failures are io::Error *)
  Definition try_from_slice (bs : list Z) : out T :=
    match de bs with
    | Some (t, []) => Ok t
    | _ => Err EC_IO_ERROR
    end.

  (* decode_accounts 168-183 *)
  Definition decode (a : bacct) : out (option T) :=
    if zlen (b_data a) >? wz then
      do t <- try_from_slice (skipn w (b_data a)); Ok (Some t)
    else Ok None.

  Definition validate (a : bacct) : out unit := validate_account_info pid w d (to_v a).

  (* TryFromAccounts: decode, then validate *)
  Definition try_from_accounts (a : bacct) : out (option T) :=
    do ov <- decode a;
    do _ <- validate a;
    Ok ov.

  (* what serialize measures and writes after the discriminant *)
  Definition payload (ov : option T) : option (list Z) :=
    if fixed then
      match ov with Some t => Some (ser t) | None => None end
    else
      Some (match ov with Some t => 1 :: ser t | None => [0] end).

  (* serialize 189-201 *)
  Definition serialize (a : bacct) (ov : option T) : out bacct :=
    if b_writable a && (zlen (b_data a) >? wz) && list_eqb (b_owner a) pid then
      match payload ov with
      | None => Ok a
      | Some p =>
          do a1 <- resize a (wz + zlen p);
          Ok (set_data a1 (firstn w (b_data a1) ++ p))
      end
    else Ok a.

  (* close_account: resize to the discriminant, fill with 0xFF, move the lamports out *)
  Definition close (a : bacct) : out bacct :=
    do a1 <- resize a wz;
    Ok (mkB (b_owner a1) (b_writable a1) (repeat 255 w) (b_delta a1) 0).

  (* client.rs DeserializeBorshAccount::deserialize_account *)
  Definition client_deserialize (data : list Z) : out T :=
    if zlen data <? wz then Err EC_DISCRIMINANT_MISMATCH
    else if list_eqb (firstn w data) d then try_from_slice (skipn w data)
    else Err EC_DISCRIMINANT_MISMATCH.

  (* client.rs SerializeBorshAccount::serialize_account *)
  Definition client_serialize (t : T) : list Z := d ++ ser t.

  (* the calls an instruction body can make on the wrapper / the account *)
  Inductive op : Type :=
  | OSet (v : T)             (* set_inner *)
  | OMut (f : T -> T)        (* through DerefMut: assignment, field writes, push ... *)
  | ORead                    (* through Deref *)
  | OSerialize               (* manual serialize() *)
  | OReload                  (* reload() *)
  | OSetOwner (k : key)      (* the account is assigned to another owner (system / CPI) *)
  | OClose.                  (* close_account(&recipient) *)

  Definition step (o : op) (a : bacct) (ov : option T) : sres T * bacct * option T :=
    match o with
    | OSet v =>
        if b_writable a then (SOk, a, Some v) else (SErr EC_EXPECTED_WRITABLE, a, ov)
    | OMut f =>
        if b_writable a then
          match ov with
          | Some t => (SOk, a, Some (f t))
          | None => (SPanic, a, ov)
          end
        else (SPanic, a, ov)
    | ORead =>
        match ov with
        | Some t => (SVal t, a, ov)
        | None => (SPanic, a, ov)
        end
    | OSerialize =>
        match serialize a ov with
        | Ok a' => (SOk, a', ov)
        | Err c => (SErr c, a, ov)
        | _ => (SPanic, a, ov)
        end
    | OReload =>
        (* &account_data[w..] panics when the data is shorter than the discriminant *)
        if zlen (b_data a) <? wz then (SPanic, a, ov)
        else
          match try_from_slice (skipn w (b_data a)) with
          | Ok t => (SOk, a, Some t)
          | Err c => (SErr c, a, ov)
          | _ => (SPanic, a, ov)
          end
    | OSetOwner k => (SOk, set_owner a k, ov)
    | OClose =>
        match close a with
        | Ok a' => (SOk, a', ov)
        | Err c => (SErr c, a, ov)
        | _ => (SPanic, a, ov)
        end
    end.

  Definition is_panic (r : sres T) : bool := match r with SPanic => true | _ => false end.

  (* a returned error is the program's to handle (the body goes on); a panic ends the instruction *)
  Fixpoint run_ops (ops : list op) (a : bacct) (ov : option T) : list (sres T) * bool * bacct * option T :=
    match ops with
    | [] => ([], true, a, ov)
    | o :: rest =>
        let '(r, a1, ov1) := step o a ov in
        if is_panic r then ([r], false, a1, ov1)
        else
          let '(rs, alive, a2, ov2) := run_ops rest a1 ov1 in
          (r :: rs, alive, a2, ov2)
    end.

  (* cleanup: 0 = `()` (serialize, then the no-op check_cleanup), otherwise CloseAccount(&recipient) *)
  Definition cleanup (closing : bool) (a : bacct) (ov : option T) : out bacct :=
    if closing then close a else serialize a ov.

  Record instr : Type := mkInstr { i_wr : bool; i_close : bool; i_ops : list op }.

  Record iresult : Type := mkRes {
    r_tfa : out (option T);
    r_steps : list (sres T);
    r_cleanup : option (out unit);      (* None: not run *)
    r_wrapper : option T;               (* the wrapper's value when the instruction stopped *)
    r_end : ires T;
    r_acct : bacct;
  }.

  Definition exec_instr (a : bacct) (i : instr) : iresult :=
    let a0 := begin_instr (i_wr i) a in
    match try_from_accounts a0 with
    | Ok ov =>
        let '(rs, alive, a1, ov1) := run_ops (i_ops i) a0 ov in
        if alive then
          match cleanup (i_close i) a1 ov1 with
          | Ok a2 => mkRes (Ok ov) rs (Some (Ok tt)) ov1 (IDone ov1) a2
          | Err c => mkRes (Ok ov) rs (Some (Err c)) ov1 (ICleanupFailed c) a1
          | _ => mkRes (Ok ov) rs (Some Panic) ov1 ICleanupPanic a1
          end
        else mkRes (Ok ov) rs None ov1 IAborted a1
    | r => mkRes r [] None None IRejected a0
    end.

  Fixpoint exec_seq (a : bacct) (l : list instr) : list iresult :=
    match l with
    | [] => []
    | i :: rest => let r := exec_instr a i in r :: exec_seq (r_acct r) rest
    end.
End Model.

Arguments OSet {T} v.
Arguments OMut {T} f.
Arguments ORead {T}.
Arguments OSerialize {T}.
Arguments OReload {T}.
Arguments OSetOwner {T} k.
Arguments OClose {T}.
Arguments mkInstr {T}.
Arguments i_wr {T}.
Arguments i_close {T}.
Arguments i_ops {T}.
Arguments r_tfa {T}.
Arguments r_steps {T}.
Arguments r_cleanup {T}.
Arguments r_wrapper {T}.
Arguments r_end {T}.
Arguments r_acct {T}.

(* ================================================================================================ *)
(* runner: interpret a case of the correspondence check (harness/src/bin/vh_c15.rs has the format)   *)
Section Runner.
  Variable T : Type.
  Variable c : codec T.
  Variable mut3 mut4 : Z -> T -> T.     (* the two field writes the harness performs through DerefMut *)
  Variable fixed : bool.
  Variable pid : key.
  Variable w : nat.
  Variable d : list Z.

  Definition FOREIGN : key := repeat 238 32.

  (* parse n ops; returns the ops and the rest of the input *)
  Fixpoint parse_ops (n : nat) (l : list Z) : option (list (op T) * list Z) :=
    match n with
    | O => Some ([], l)
    | S m =>
        match l with
        | k :: r =>
            let one (o : op T) (r' : list Z) :=
              match parse_ops m r' with
              | Some (os, r'') => Some (o :: os, r'')
              | None => None
              end in
            if k =? 1 then match c_of c r with Some (v, r') => one (OSet v) r' | None => None end
            else if k =? 2 then match c_of c r with Some (v, r') => one (OMut (fun _ => v)) r' | None => None end
            else if k =? 3 then match r with x :: r' => one (OMut (mut3 x)) r' | [] => None end
            else if k =? 4 then match r with x :: r' => one (OMut (mut4 x)) r' | [] => None end
            else if k =? 5 then one ORead r
            else if k =? 6 then one OSerialize r
            else if k =? 7 then one OReload r
            else if k =? 8 then match r with x :: r' => one (OSetOwner (if x =? 0 then pid else FOREIGN)) r' | [] => None end
            else if k =? 9 then one OClose r
            else None
        | [] => None
        end
    end.

  Fixpoint parse_instrs (n : nat) (l : list Z) : option (list (instr T)) :=
    match n with
    | O => Some []
    | S m =>
        match l with
        | wr :: cl :: nops :: r =>
            match parse_ops (Z.to_nat nops) r with
            | Some (ops, r') =>
                match parse_instrs m r' with
                | Some is => Some (mkInstr (negb (wr =? 0)) (negb (cl =? 0)) ops :: is)
                | None => None
                end
            | None => None
            end
        | _ => None
        end
    end.

  Definition obs_tfa (r : out (option T)) : list Z :=
    match r with
    | Ok None => [0; 0]
    | Ok (Some t) => [0; 1] ++ c_to c t
    | Err e => [1; e]
    | Panic => [2]
    | Fault => [3]
    end.

  Definition obs_step (r : sres T) : list Z :=
    match r with
    | SOk => [0]
    | SVal t => 4 :: c_to c t
    | SErr e => [1; e]
    | SPanic => [2]
    end.

  Definition obs_left (ov : option T) : list Z :=
    match ov with
    | Some t => 1 :: c_to c t
    | None => [0]
    end.

  Definition obs_client (r : out T) : list Z :=
    match r with
    | Ok t => 0 :: c_to c t
    | Err e => [1; e]
    | Panic => [2]
    | Fault => [3]
    end.

  Definition obs_result (r : iresult T) : list Z :=
    obs_tfa (r_tfa r)
    ++ match r_tfa r with
       | Ok _ =>
           zlen (r_steps r) :: concat (map obs_step (r_steps r))
           ++ match r_cleanup r with
              | Some o => out_tag o ++ obs_left (r_wrapper r)
              | None => [5]
              end
       | _ => [0; 5]
       end
    ++ [ (if list_eqb (b_owner (r_acct r)) pid then 1 else 0); b_lamports (r_acct r); b_delta (r_acct r);
         zlen (b_data (r_acct r)) ] ++ b_data (r_acct r)
    ++ obs_client (client_deserialize T (c_de c) w d (b_data (r_acct r))).

  (* input: foreign init_kind ... (after the type id) *)
  Definition run_generic (input : list Z) : list Z :=
    Z.of_nat w :: d ++ [hd 0 pid] ++
    match input with
    | foreign :: kind :: r =>
        let init :=
          if kind =? 0 then
            match c_of c r with
            | Some (v, r') => Some (client_serialize T (c_ser c) d v, r')
            | None => None
            end
          else
            match r with
            | n :: r' => take n r'
            | [] => None
            end in
        match init with
        | Some (data, n :: r') =>
            match parse_instrs (Z.to_nat n) r' with
            | Some is =>
                let a := mkB (if foreign =? 0 then pid else FOREIGN) true data 0 1000000 in
                concat (map obs_result (exec_seq T (c_ser c) (c_de c) fixed pid w d a is))
            | None => [-3]
            end
        | _ => [-3]
        end
    | _ => [-3]
    end.
End Runner.

(* ---- the programs / account types compiled into the harness ---- *)
Definition fx_mut3 (x : Z) (v : TFx) : TFx := let '(a, (b, cd)) := v in (a, (x, cd)).
Definition fx_mut4 (x : Z) (v : TFx) : TFx := let '(a, bcd) := v in (x, bcd).
Definition bv_mut3 (x : Z) (v : list Z) : list Z := v ++ [x].
Definition bv_mut4 (x : Z) (v : list Z) : list Z := ztake x v.
Definition st_mut3 (x : Z) (v : list Z) : list Z := v ++ [x].
Definition st_mut4 (x : Z) (v : list Z) : list Z := [].
Definition ns_mut3 (x : Z) (v : TNs) : TNs :=
  let '(id, (inner, (items, opt))) := v in (id, (inner, (items ++ [(x, [7; 7; 7])], opt))).
Definition ns_mut4 (x : Z) (v : TNs) : TNs :=
  let '(id, ((flag, label), (items, opt))) := v in (id, ((negb flag, label), (items, Some x))).

(* BTreeSet::insert(x as u8) / BTreeSet::remove(&(x as u8)) *)
Definition sb_mut3 (x : Z) (v : list Z) : list Z := set_ins (x mod 256) v.
Definition sb_mut4 (x : Z) (v : list Z) : list Z := set_del (x mod 256) v.

Definition PID_A : key := repeat 21 32.
Definition PID_B : key := repeat 22 32.
Definition PID_C : key := repeat 23 32.
Definition DISC_FX : list Z := [1; 2; 3; 4; 5; 6; 7; 8].
Definition DISC_BV : list Z := [176; 177; 178; 179; 180; 181; 182; 183].
Definition DISC_ST : list Z := [90].
Definition DISC_NS : list Z := [222; 192; 222; 192].
Definition DISC_SB : list Z := [164; 83; 66; 95; 115; 101; 116; 33].
(* struct Zd { vec: Vec<u8> } of program PB with the all-zero discriminant 0u8 *)
Definition DISC_ZD : list Z := [0].

Definition run_c15_with (fixed : bool) (input : list Z) : list Z :=
  match input with
  | ty :: r =>
      if ty =? 0 then run_generic TFx c_fx fx_mut3 fx_mut4 fixed PID_A 8 DISC_FX r
      else if ty =? 1 then run_generic (list Z) c_bv bv_mut3 bv_mut4 fixed PID_A 8 DISC_BV r
      else if ty =? 2 then run_generic (list Z) c_st st_mut3 st_mut4 fixed PID_B 1 DISC_ST r
      else if ty =? 3 then run_generic TNs c_ns ns_mut3 ns_mut4 fixed PID_C 4 DISC_NS r
      else if ty =? 4 then run_generic (list Z) c_sb sb_mut3 sb_mut4 fixed PID_A 8 DISC_SB r
      else if ty =? 5 then run_generic (list Z) c_bv bv_mut3 bv_mut4 fixed PID_B 1 DISC_ZD r
      else [-2]
  | [] => [-2]
  end.

(* the code as repaired (the model the check compares /repo with) *)
Definition run_c15 : list Z -> list Z := run_c15_with true.
(* the code as shipped before the D6 repair (development aid and the refutation witness) *)
Definition run_c15u : list Z -> list Z := run_c15_with false.
