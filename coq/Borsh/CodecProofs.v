(* C15 - proofs about Borsh/Codec.v: every codec built from the combinators satisfies [codec_ok]
   (round trip with exact consumption, non-empty encodings, decoded values are well-formed,
   encodings are bytes). *)
From SF Require Import Base.Prelude Borsh.Codec.

Record codec_ok {T} (c : codec T) : Prop := mkOk {
  ok_rt : forall t tl, c_wf c t -> c_de c (c_ser c t ++ tl) = Some (t, tl);
  ok_ne : forall t, c_wf c t -> 0 < zlen (c_ser c t);
  ok_nil : c_de c [] = None;
  ok_dewf : forall bs t tl, c_de c bs = Some (t, tl) -> c_wf c t;
  ok_bytes : forall t, c_wf c t -> bytes_ok (c_ser c t) = true;
}.

Lemma bytes_ok_app a b : bytes_ok (a ++ b) = bytes_ok a && bytes_ok b.
Proof. unfold bytes_ok. apply forallb_app. Qed.

(* ---------------- take ---------------- *)
Lemma take_app {A} (a b : list A) : take (zlen a) (a ++ b) = Some (a, b).
Proof.
  unfold take. pose proof (zlen_nonneg a). rewrite zlen_app.
  pose proof (zlen_nonneg b).
  replace ((0 <=? zlen a) && (zlen a <=? zlen a + zlen b)) with true.
  2:{ symmetry. apply andb_true_iff. split; apply Z.leb_le; lia. }
  unfold ztake, zdrop, zlen. rewrite Nat2Z.id.
  rewrite firstn_app, Nat.sub_diag, firstn_all, skipn_app, Nat.sub_diag, skipn_all. cbn [firstn skipn].
  now rewrite app_nil_r.
Qed.

Lemma take_some {A} n (l x r : list A) : take n l = Some (x, r) -> l = x ++ r /\ zlen x = n.
Proof.
  unfold take. destruct ((0 <=? n) && (n <=? zlen l)) eqn:E; [|discriminate].
  intros H. injection H as <- <-. zb. split.
  - symmetry. apply ztake_zdrop.
  - apply zlen_ztake. lia.
Qed.

Lemma take_nil_pos {A} n : 0 < n -> take n (@nil A) = None.
Proof.
  intros H. unfold take. change (zlen (@nil A)) with 0.
  replace (n <=? 0) with false by (symmetry; apply Z.leb_gt; lia). now rewrite andb_false_r.
Qed.

(* ---------------- integers ---------------- *)
Lemma uint_rt w z tl : 0 <= z < 256 ^ Z.of_nat w -> uint_de w (le_bytes w z ++ tl) = Some (z, tl).
Proof.
  intros H. unfold uint_de.
  rewrite <- (zlen_le_bytes w z), take_app, le_bytes_ok, le_decode_le_bytes; auto.
Qed.

Lemma uint_some w l z r : uint_de w l = Some (z, r) ->
  exists bs, l = bs ++ r /\ zlen bs = Z.of_nat w /\ bytes_ok bs = true /\ z = le_decode bs /\ 0 <= z < 256 ^ Z.of_nat w.
Proof.
  unfold uint_de. destruct (take (Z.of_nat w) l) as [[bs r']|] eqn:E; [|discriminate].
  destruct (bytes_ok bs) eqn:B; [|discriminate].
  intros H. injection H as <- <-. apply take_some in E as [-> L].
  exists bs. repeat split; auto.
  - pose proof (le_decode_bound bs B). lia.
  - pose proof (le_decode_bound bs B). rewrite L in H. lia.
Qed.

Lemma c_uint_ok w : (0 < w)%nat -> codec_ok (c_uint w).
Proof.
  intros Hw. constructor; cbn [c_uint c_ser c_de c_wf].
  - intros. now apply uint_rt.
  - intros. rewrite zlen_le_bytes. lia.
  - unfold uint_de. rewrite take_nil_pos by lia. reflexivity.
  - intros bs t tl H. apply uint_some in H as (x & _ & _ & _ & _ & H). exact H.
  - intros. apply le_bytes_ok.
Qed.

(* ---------------- bool ---------------- *)
Lemma c_bool_ok : codec_ok c_bool.
Proof.
  constructor; cbn [c_bool c_ser c_de c_wf]; auto.
  - intros [|] tl _; reflexivity.
  - intros. rewrite zlen_cons. pose proof (@zlen_nonneg Z []). lia.
  - intros [|]; reflexivity.
Qed.

(* ---------------- Vec<u8> / String ---------------- *)
Lemma u32_pow : 256 ^ Z.of_nat 4 = U32_LIMIT.
Proof. reflexivity. Qed.

Lemma bytes_rt l tl : bytes_ok l = true -> zlen l < U32_LIMIT -> bytes_de (bytes_ser l ++ tl) = Some (l, tl).
Proof.
  intros B L. unfold bytes_de, bytes_ser. rewrite <- app_assoc.
  rewrite uint_rt by (rewrite u32_pow; pose proof (zlen_nonneg l); lia).
  now rewrite take_app, B.
Qed.

Lemma bytes_some l bs r : bytes_de l = Some (bs, r) ->
  bytes_ok bs = true /\ zlen bs < U32_LIMIT /\ l = bytes_ser bs ++ r.
Proof.
  unfold bytes_de. destruct (uint_de 4 l) as [[n r0]|] eqn:E; [|discriminate].
  destruct (take n r0) as [[x r1]|] eqn:E2; [|discriminate].
  destruct (bytes_ok x) eqn:B; [|discriminate].
  intros H. injection H as <- <-.
  apply uint_some in E as (hb & -> & Lh & Bh & -> & Hr).
  apply take_some in E2 as [-> Lx]. rewrite u32_pow in Hr.
  repeat split; auto; try lia.
  unfold bytes_ser. rewrite Lx, <- app_assoc. f_equal.
  replace 4%nat with (length hb) by (unfold zlen in Lh; lia).
  now rewrite le_bytes_le_decode.
Qed.

Lemma bytes_ser_len l : zlen (bytes_ser l) = 4 + zlen l.
Proof. unfold bytes_ser. rewrite zlen_app, zlen_le_bytes. lia. Qed.

Lemma bytes_de_nil : bytes_de [] = None.
Proof. reflexivity. Qed.

Lemma c_bytes_ok : codec_ok c_bytes.
Proof.
  constructor; cbn [c_bytes c_ser c_de c_wf].
  - intros t tl [B L]. now apply bytes_rt.
  - intros. rewrite bytes_ser_len. pose proof (zlen_nonneg t). lia.
  - reflexivity.
  - intros bs t tl H. apply bytes_some in H. tauto.
  - intros t [B L]. unfold bytes_ser. now rewrite bytes_ok_app, le_bytes_ok, B.
Qed.

Lemma c_string_ok : codec_ok c_string.
Proof.
  constructor; cbn [c_string c_ser c_de c_wf].
  - intros t tl (B & L & U). unfold string_de. now rewrite bytes_rt, U.
  - intros. rewrite bytes_ser_len. pose proof (zlen_nonneg t). lia.
  - reflexivity.
  - intros bs t tl. unfold string_de. destruct (bytes_de bs) as [[x r]|] eqn:E; [|discriminate].
    destruct (utf8_valid x) eqn:U; [|discriminate].
    intros H. injection H as <- <-. apply bytes_some in E. tauto.
  - intros t (B & L & U). unfold bytes_ser. now rewrite bytes_ok_app, le_bytes_ok, B.
Qed.

(* ---------------- BTreeSet<u8> ---------------- *)
Lemma asc_from_asc lo l : asc_from lo l -> asc l.
Proof. destruct l as [|x r]; cbn [asc_from asc]; tauto. Qed.

Lemma set_ins_asc_from x : forall l lo, lo < x -> asc_from lo l -> asc_from lo (set_ins x l).
Proof.
  induction l as [|y r IH]; intros lo Hx H; cbn [set_ins asc_from] in *.
  - auto.
  - destruct H as [H1 H2].
    destruct (x <? y) eqn:E1; zb.
    + cbn [asc_from]. repeat split; auto.
    + destruct (x =? y) eqn:E2; zb.
      * cbn [asc_from]. auto.
      * cbn [asc_from]. split; [exact H1|]. apply IH; [lia|exact H2].
Qed.

Lemma set_ins_asc x l : asc l -> asc (set_ins x l).
Proof.
  destruct l as [|y r]; cbn [set_ins asc]; [auto|]. intros H.
  destruct (x <? y) eqn:E1; zb.
  - cbn [asc asc_from]. auto.
  - destruct (x =? y) eqn:E2; zb.
    + exact H.
    + cbn [asc]. apply set_ins_asc_from; [lia|exact H].
Qed.

Lemma set_norm_asc l : asc (set_norm l).
Proof. induction l as [|x r IH]; cbn [set_norm]; [exact I|]. now apply set_ins_asc. Qed.

(* inserting below a strictly ascending list is a cons *)
Lemma set_ins_below x l : asc_from x l -> set_ins x l = x :: l.
Proof.
  destruct l as [|y r]; cbn [set_ins asc_from]; [reflexivity|]. intros [H _].
  replace (x <? y) with true by (symmetry; apply Z.ltb_lt; lia). reflexivity.
Qed.

(* canonical lists are fixed points of the normalisation *)
Lemma set_norm_id l : asc l -> set_norm l = l.
Proof.
  induction l as [|x r IH]; [reflexivity|]. cbn [asc set_norm]. intros H.
  rewrite IH by (eapply asc_from_asc; exact H). now apply set_ins_below.
Qed.

Lemma set_ins_bytes x l : is_byte x = true -> bytes_ok l = true -> bytes_ok (set_ins x l) = true.
Proof.
  intros Hx. induction l as [|y r IH]; cbn [set_ins]; intros H.
  - cbn [bytes_ok forallb]. now rewrite Hx.
  - destruct (x <? y).
    + change (bytes_ok (x :: y :: r)) with (is_byte x && bytes_ok (y :: r)). now rewrite Hx, H.
    + destruct (x =? y); [exact H|].
      change (bytes_ok (y :: r)) with (is_byte y && bytes_ok r) in H.
      change (bytes_ok (y :: set_ins x r)) with (is_byte y && bytes_ok (set_ins x r)).
      apply andb_true_iff in H as [Hy Hr]. now rewrite Hy, IH.
Qed.

Lemma set_norm_bytes l : bytes_ok l = true -> bytes_ok (set_norm l) = true.
Proof.
  induction l as [|x r IH]; cbn [set_norm]; [auto|]. intros H.
  change (bytes_ok (x :: r)) with (is_byte x && bytes_ok r) in H. apply andb_true_iff in H as [Hx Hr].
  apply set_ins_bytes; auto.
Qed.

Lemma set_ins_len x l : zlen (set_ins x l) <= 1 + zlen l.
Proof.
  induction l as [|y r IH]; cbn [set_ins].
  - rewrite zlen_cons. lia.
  - destruct (x <? y); [rewrite (zlen_cons x); lia|].
    destruct (x =? y); [pose proof (zlen_nonneg (y :: r)); lia|].
    rewrite !zlen_cons. lia.
Qed.

Lemma set_norm_len l : zlen (set_norm l) <= zlen l.
Proof.
  induction l as [|x r IH]; cbn [set_norm]; [lia|].
  pose proof (set_ins_len x (set_norm r)). rewrite zlen_cons. lia.
Qed.

Lemma c_set_ok : codec_ok c_set.
Proof.
  constructor; cbn [c_set c_ser c_de c_wf].
  - intros t tl (A & B & L). unfold set_de. rewrite bytes_rt by auto. now rewrite set_norm_id.
  - intros. rewrite bytes_ser_len. pose proof (zlen_nonneg t). lia.
  - reflexivity.
  - intros bs t tl. unfold set_de. destruct (bytes_de bs) as [[x r]|] eqn:E; [|discriminate].
    intros H. injection H as <- <-. apply bytes_some in E as (B & L & _).
    split; [apply set_norm_asc|]. split; [now apply set_norm_bytes|].
    pose proof (set_norm_len x). lia.
  - intros t (A & B & L). unfold bytes_ser. now rewrite bytes_ok_app, le_bytes_ok, B.
Qed.

(* ---------------- struct fields ---------------- *)
Lemma c_pair_ok {A B} (ca : codec A) (cb : codec B) : codec_ok ca -> codec_ok cb -> codec_ok (c_pair ca cb).
Proof.
  intros Ha Hb. constructor; cbn [c_pair c_ser c_de c_wf].
  - intros [a b] tl [Wa Wb]. cbn [fst snd] in *. unfold pair_de.
    now rewrite <- app_assoc, (ok_rt _ Ha), (ok_rt _ Hb).
  - intros [a b] [Wa Wb]. cbn [fst snd] in *. rewrite zlen_app.
    pose proof (ok_ne _ Ha a Wa). pose proof (zlen_nonneg (c_ser cb b)). lia.
  - unfold pair_de. now rewrite (ok_nil _ Ha).
  - intros bs [a b] tl. unfold pair_de.
    destruct (c_de ca bs) as [[a' r]|] eqn:Ea; [|discriminate].
    destruct (c_de cb r) as [[b' r']|] eqn:Eb; [|discriminate].
    intros H. injection H as <- <- <-. cbn [fst snd]. split.
    + eapply (ok_dewf _ Ha); eauto.
    + eapply (ok_dewf _ Hb); eauto.
  - intros [a b] [Wa Wb]. cbn [fst snd] in *. now rewrite bytes_ok_app, (ok_bytes _ Ha), (ok_bytes _ Hb).
Qed.

(* ---------------- Option<T> ---------------- *)
Lemma c_option_ok {A} (ca : codec A) : codec_ok ca -> codec_ok (c_option ca).
Proof.
  intros Ha. constructor; cbn [c_option c_ser c_de c_wf].
  - intros [a|] tl W; cbn [option_de app Z.eqb]; [|reflexivity].
    change (1 =? 0) with false. change (1 =? 1) with true. cbn iota. now rewrite (ok_rt _ Ha).
  - intros [a|] W; [rewrite zlen_cons; pose proof (zlen_nonneg (c_ser ca a)); lia|reflexivity].
  - reflexivity.
  - intros bs o tl. unfold option_de. destruct bs as [|tag r]; [discriminate|].
    destruct (tag =? 0). { intros H. now injection H as <- <-. }
    destruct (tag =? 1); [|discriminate].
    destruct (c_de ca r) as [[a r']|] eqn:E; [|discriminate].
    intros H. injection H as <- <-. eapply (ok_dewf _ Ha); eauto.
  - intros [a|] W; [|reflexivity]. cbn [bytes_ok forallb]. change (is_byte 1) with true.
    cbn [andb]. now apply (ok_bytes _ Ha).
Qed.

(* ---------------- Vec<T> ---------------- *)
Section Vec.
  Context {A : Type}.
  Variable ca : codec A.
  Hypothesis Ha : codec_ok ca.

  Lemma items_rt l tl : Forall (c_wf ca) l ->
    items_de (c_de ca) (length l) (concat (map (c_ser ca) l) ++ tl) = Some (l, tl).
  Proof.
    induction 1 as [|a l W _ IH]; [reflexivity|].
    cbn [length map concat items_de]. now rewrite <- app_assoc, (ok_rt _ Ha), IH.
  Qed.

  Lemma items_len l : Forall (c_wf ca) l -> zlen l <= zlen (concat (map (c_ser ca) l)).
  Proof.
    induction 1 as [|a l W _ IH]; [cbn; unfold zlen; cbn; lia|].
    cbn [map concat]. rewrite zlen_cons, zlen_app. pose proof (ok_ne _ Ha a W). lia.
  Qed.

  Lemma items_bytes l : Forall (c_wf ca) l -> bytes_ok (concat (map (c_ser ca) l)) = true.
  Proof.
    induction 1 as [|a l W _ IH]; [reflexivity|].
    cbn [map concat]. now rewrite bytes_ok_app, (ok_bytes _ Ha), IH.
  Qed.

  Lemma items_some n : forall l t r, items_de (c_de ca) n l = Some (t, r) -> Forall (c_wf ca) t /\ length t = n.
  Proof.
    induction n as [|n IH]; intros l t r; cbn [items_de].
    - intros H. injection H as <- <-. auto.
    - destruct (c_de ca l) as [[a r0]|] eqn:E; [|discriminate].
      destruct (items_de (c_de ca) n r0) as [[t' r']|] eqn:E2; [|discriminate].
      intros H. injection H as <- <-. apply IH in E2 as [F L]. split.
      + constructor; auto. eapply (ok_dewf _ Ha); eauto.
      + cbn [length]. lia.
  Qed.

  Lemma c_vec_ok : codec_ok (c_vec ca).
  Proof.
    constructor; cbn [c_vec c_ser c_de c_wf].
    - intros l tl [F L]. unfold vec_de. rewrite <- app_assoc.
      rewrite uint_rt by (rewrite u32_pow; pose proof (zlen_nonneg l); lia).
      pose proof (items_len l F). pose proof (zlen_nonneg tl).
      replace (zlen (concat (map (c_ser ca) l) ++ tl) <? zlen l) with false
        by (symmetry; apply Z.ltb_ge; rewrite zlen_app; lia).
      unfold zlen at 1. rewrite Nat2Z.id. now apply items_rt.
    - intros l _. rewrite zlen_app, zlen_le_bytes. pose proof (zlen_nonneg (concat (map (c_ser ca) l))). lia.
    - reflexivity.
    - intros bs t tl. unfold vec_de. destruct (uint_de 4 bs) as [[n r]|] eqn:E; [|discriminate].
      destruct (zlen r <? n); [discriminate|]. intros H.
      apply items_some in H as [F L]. apply uint_some in E as (_ & _ & _ & _ & _ & Hn).
      rewrite u32_pow in Hn. split; auto. unfold zlen. rewrite L. lia.
    - intros l [F L]. now rewrite bytes_ok_app, le_bytes_ok, items_bytes.
  Qed.
End Vec.

(* ---------------- the account types of the harness ---------------- *)
Lemma c_fx_ok : codec_ok c_fx.
Proof. repeat apply c_pair_ok; try apply c_uint_ok; try apply c_bool_ok; lia. Qed.

Lemma c_bv_ok : codec_ok c_bv.
Proof. exact c_bytes_ok. Qed.

Lemma c_st_ok : codec_ok c_st.
Proof. exact c_string_ok. Qed.

Lemma c_it_ok : codec_ok c_it.
Proof. apply c_pair_ok; [apply c_uint_ok; lia|apply c_bytes_ok]. Qed.

Lemma c_ns_ok : codec_ok c_ns.
Proof.
  repeat apply c_pair_ok; try (apply c_uint_ok; lia); try apply c_bool_ok; try apply c_string_ok.
  - apply c_vec_ok, c_it_ok.
  - apply c_option_ok, c_uint_ok. lia.
Qed.

Lemma c_sb_ok : codec_ok c_sb.
Proof. exact c_set_ok. Qed.
