(* C15 - proofs about Borsh/BorshAccount.v.

   The value type is a Section oracle (T, ser, de, wf) with the hypotheses
     Hrt    : wf t -> de (ser t ++ tl) = Some (t, tl)      round trip, exact consumption
     Hne    : wf t -> 0 < |ser t|                            encodings are not empty
     Hnil   : de [] = None
     Hdewf  : de bs = Some (t, tl) -> wf t                   decoded values are representable
     Hbytes : wf t -> bytes_ok (ser t)                       encodings are bytes
   (all five are proved for the codec combinators in Borsh/CodecProofs.v), the program id is a key and
   the discriminant has w bytes.  All theorems about the write-back are for fixed = true (the repaired
   serialize) unless they quantify over [fixed]. *)
From SF Require Import Base.Prelude Gen.Generated Account.Validate Account.ValidateProofs.
From SF Require Import Borsh.Codec Borsh.CodecProofs Borsh.BorshAccount.

Section Proofs.
  Variable T : Type.
  Variable ser : T -> list Z.
  Variable de : list Z -> option (T * list Z).
  Variable wf : T -> Prop.
  Variable pid : key.
  Variable w : nat.
  Variable d : list Z.
  Hypothesis Hrt : forall t tl, wf t -> de (ser t ++ tl) = Some (t, tl).
  Hypothesis Hne : forall t, wf t -> 0 < zlen (ser t).
  Hypothesis Hnil : de [] = None.
  Hypothesis Hdewf : forall bs t tl, de bs = Some (t, tl) -> wf t.
  Hypothesis Hbytes : forall t, wf t -> bytes_ok (ser t) = true.
  Hypothesis Hpid : key_ok pid.
  Hypothesis Hdl : length d = w.
  Hypothesis Hdb : bytes_ok d = true.

  Notation wz := (Z.of_nat w).
  Notation tfs := (try_from_slice T de).
  Notation decode := (decode T de w).
  Notation validate := (validate pid w d).
  Notation tfa := (try_from_accounts T de pid w d).
  Notation client := (client_deserialize T de w d).
  Notation serialize := (serialize T ser).
  Notation close := (close w).
  Notation step := (step T ser de).
  Notation run_ops := (run_ops T ser de).
  Notation exec_instr := (exec_instr T ser de).
  Notation exec_seq := (exec_seq T ser de).

  Definition acct_ok (a : bacct) : Prop := key_ok (b_owner a) /\ bytes_ok (b_data a) = true.

  Definition op_wf (o : op T) : Prop :=
    match o with
    | OSet v => wf v
    | OMut f => forall t, wf t -> wf (f t)
    | OSetOwner k => key_ok k
    | _ => True
    end.

  Definition instr_wf (i : instr T) : Prop := Forall op_wf (i_ops i).

  (* the account holds discriminant ++ an encoding that decodes (with nothing left) to v *)
  Definition good (a : bacct) (v : T) : Prop :=
    firstn w (b_data a) = d /\ zlen (b_data a) > wz /\ tfs (skipn w (b_data a)) = Ok v.

  (* ---------------- small facts ---------------- *)
  Lemma wz_eq : BorshAccount.wz w = wz.
  Proof. reflexivity. Qed.

  Lemma list_eqb_refl l : list_eqb l l = true.
  Proof. now apply list_eqb_eq. Qed.

  Lemma list_eqb_neq a b : a <> b -> list_eqb a b = false.
  Proof. intros H. destruct (list_eqb a b) eqn:E; auto. apply list_eqb_eq in E. contradiction. Qed.

  Lemma tfs_ok bs t : tfs bs = Ok t -> de bs = Some (t, []).
  Proof.
    unfold try_from_slice. destruct (de bs) as [[t' [|x r]]|]; try discriminate. now intros [= ->].
  Qed.

  Lemma tfs_wf bs t : tfs bs = Ok t -> wf t.
  Proof. intros H. apply tfs_ok in H. eauto. Qed.

  Lemma tfs_ser t : wf t -> tfs (ser t) = Ok t.
  Proof. intros H. unfold try_from_slice. rewrite <- (app_nil_r (ser t)), Hrt; auto. Qed.

  Lemma tfs_no_panic bs : tfs bs <> Panic /\ tfs bs <> Fault.
  Proof. unfold try_from_slice. destruct (de bs) as [[t' [|x r]]|]; split; discriminate. Qed.

  Lemma validate_ok_iff a : acct_ok a -> (validate a = Ok tt <-> b_owner a = pid /\ firstn w (b_data a) = d).
  Proof.
    intros [Ko Bd]. unfold BorshAccount.validate. apply validate_iff; [|reflexivity].
    unfold c08_wf, to_v; cbn [a_owner a_data]. auto.
  Qed.

  Lemma firstn_d_len l : firstn w l = d -> wz <= zlen l.
  Proof.
    intros H. assert (length (firstn w l) = w) as L by (rewrite H; exact Hdl).
    rewrite firstn_length in L. unfold zlen. lia.
  Qed.

  Lemma firstn_pre (pre p : list Z) : length pre = w -> firstn w (pre ++ p) = pre.
  Proof. intros L. rewrite firstn_app, L, Nat.sub_diag, <- L, firstn_all. cbn [firstn]. apply app_nil_r. Qed.

  Lemma skipn_pre (pre p : list Z) : length pre = w -> skipn w (pre ++ p) = p.
  Proof. intros L. rewrite skipn_app, L, Nat.sub_diag, <- L, skipn_all. reflexivity. Qed.

  Lemma firstn_w_len (l : list Z) : wz <= zlen l -> length (firstn w l) = w.
  Proof. unfold zlen. intros H. rewrite firstn_length. lia. Qed.

  (* ---------------- resize ---------------- *)
  Lemma resize_list_len n l : 0 <= n -> zlen (resize_list n l) = n.
  Proof.
    intros H. unfold resize_list. destruct (n <=? zlen l) eqn:E; zb.
    - apply zlen_ztake. lia.
    - rewrite zlen_app, zlen_zrepeat; lia.
  Qed.

  Lemma resize_list_prefix n l : wz <= n -> wz <= zlen l -> firstn w (resize_list n l) = firstn w l.
  Proof.
    intros H1 H2. unfold resize_list. destruct (n <=? zlen l) eqn:E; zb.
    - unfold ztake. rewrite firstn_firstn. f_equal. lia.
    - rewrite firstn_app. replace (w - length l)%nat with 0%nat by (unfold zlen in H2; lia).
      cbn [firstn]. apply app_nil_r.
  Qed.

  Lemma bytes_ok_zrepeat0 n : bytes_ok (zrepeat 0 n) = true.
  Proof. unfold zrepeat. now apply bytes_ok_repeat. Qed.

  Lemma resize_list_bytes n l : bytes_ok l = true -> bytes_ok (resize_list n l) = true.
  Proof.
    intros B. unfold resize_list. destruct (n <=? zlen l).
    - now apply bytes_ok_firstn.
    - now rewrite CodecProofs.bytes_ok_app, B, bytes_ok_zrepeat0.
  Qed.

  Lemma resize_ok a n a' : resize a n = Ok a' -> 0 <= n ->
    zlen (b_data a') = n /\ b_owner a' = b_owner a /\ b_writable a' = b_writable a /\
    (bytes_ok (b_data a) = true -> bytes_ok (b_data a') = true) /\
    (wz <= n -> wz <= zlen (b_data a) -> firstn w (b_data a') = firstn w (b_data a)).
  Proof.
    unfold resize. intros H Hn.
    destruct (n >? I32_MAX); [discriminate|].
    destruct (n =? zlen (b_data a)) eqn:E.
    - injection H as <-. zb. auto.
    - destruct (_ >? MAX_PERMITTED_DATA_INCREASE); [discriminate|]. injection H as <-.
      cbn [b_data b_owner b_writable]. repeat split; auto.
      + now apply resize_list_len.
      + now apply resize_list_bytes.
      + now apply resize_list_prefix.
  Qed.

  Lemma resize_no_panic a n : resize a n <> Panic /\ resize a n <> Fault.
  Proof.
    unfold resize. destruct (n >? I32_MAX); [split; discriminate|].
    destruct (n =? _); [split; discriminate|]. destruct (_ >? _); split; discriminate.
  Qed.

  (* ---------------- serialize ---------------- *)
  (* read-only, foreign-owned, closed / uninitialised: nothing is written, whatever the wrapper holds *)
  Lemma serialize_noop fixed a ov :
    b_writable a = false \/ b_owner a <> pid \/ zlen (b_data a) <= wz ->
    serialize fixed pid w a ov = Ok a.
  Proof.
    intros H. unfold BorshAccount.serialize. rewrite wz_eq.
    destruct H as [H|[H|H]].
    - now rewrite H.
    - rewrite (list_eqb_neq _ _ H). now rewrite andb_false_r.
    - replace (zlen (b_data a) >? wz) with false by (symmetry; rewrite Z.gtb_ltb; apply Z.ltb_ge; lia).
      now rewrite andb_false_r.
  Qed.

  Lemma serialize_cond_true a :
    b_writable a = true -> zlen (b_data a) > wz -> b_owner a = pid ->
    b_writable a && (zlen (b_data a) >? wz) && list_eqb (b_owner a) pid = true.
  Proof.
    intros -> H ->. rewrite list_eqb_refl.
    replace (zlen (b_data a) >? wz) with true by (symmetry; rewrite Z.gtb_ltb; apply Z.ltb_lt; lia).
    reflexivity.
  Qed.

  Lemma serialize_cond_split a :
    b_writable a && (zlen (b_data a) >? wz) && list_eqb (b_owner a) pid = true ->
    b_writable a = true /\ zlen (b_data a) > wz /\ b_owner a = pid.
  Proof. intros H. zb. repeat split; auto; try lia. now apply list_eqb_eq. Qed.

  (* the repaired write-back: resize to discriminant + |ser v|, keep the discriminant, write ser v *)
  Lemma serialize_writes a v a' :
    b_writable a = true -> zlen (b_data a) > wz -> b_owner a = pid ->
    serialize true pid w a (Some v) = Ok a' ->
    b_data a' = firstn w (b_data a) ++ ser v /\ zlen (b_data a') = wz + zlen (ser v) /\
    b_owner a' = b_owner a /\ b_writable a' = b_writable a.
  Proof.
    intros Hw Hl Ho. unfold BorshAccount.serialize. rewrite wz_eq, (serialize_cond_true a Hw Hl Ho).
    cbn [payload]. destruct (resize a (wz + zlen (ser v))) as [a1| | |] eqn:E; cbn [obind]; try discriminate.
    intros H. injection H as <-. pose proof (zlen_nonneg (ser v)).
    apply resize_ok in E as (L & O & W & _ & P); [|lia].
    cbn [set_data b_data b_owner b_writable]. rewrite P by lia. repeat split; auto.
    rewrite zlen_app. unfold zlen at 1. rewrite firstn_w_len by lia. lia.
  Qed.

  (* size changes: the write-back succeeds exactly when the new length fits i32 and the growth
     accumulated in this instruction stays within the realloc allowance; otherwise InvalidRealloc *)
  Lemma serialize_size a v :
    b_writable a = true -> zlen (b_data a) > wz -> b_owner a = pid ->
    let n := wz + zlen (ser v) in
    (n <= I32_MAX /\ (n = zlen (b_data a) \/ b_delta a + (n - zlen (b_data a)) <= MAX_PERMITTED_DATA_INCREASE) ->
       exists a', serialize true pid w a (Some v) = Ok a' /\ b_data a' = firstn w (b_data a) ++ ser v /\
                  zlen (b_data a') = n) /\
    (~ (n <= I32_MAX /\ (n = zlen (b_data a) \/ b_delta a + (n - zlen (b_data a)) <= MAX_PERMITTED_DATA_INCREASE)) ->
       serialize true pid w a (Some v) = Err PE_INVALID_ACCOUNT_DATA_REALLOC).
  Proof.
    intros Hw Hl Ho n.
    assert (forall a', serialize true pid w a (Some v) = Ok a' ->
              b_data a' = firstn w (b_data a) ++ ser v /\ zlen (b_data a') = n) as Hpost.
    { intros a' H. apply serialize_writes in H; tauto. }
    unfold BorshAccount.serialize in *. rewrite wz_eq, (serialize_cond_true a Hw Hl Ho) in *.
    cbn [payload] in *. fold n in Hpost |- *. unfold resize in *.
    destruct (n >? I32_MAX) eqn:E1; zb.
    { split; [lia|reflexivity]. }
    destruct (n =? zlen (b_data a)) eqn:E2; zb; cbn [obind] in *.
    { split; [|lia]. intros _. eexists. split; [reflexivity|]. now apply Hpost. }
    destruct (b_delta a + (n - zlen (b_data a)) >? MAX_PERMITTED_DATA_INCREASE) eqn:E3; zb; cbn [obind] in *.
    { split; [lia|reflexivity]. }
    split; [|lia]. intros _. eexists. split; [reflexivity|]. now apply Hpost.
  Qed.

  Lemma serialize_no_panic fixed a ov : serialize fixed pid w a ov <> Panic /\ serialize fixed pid w a ov <> Fault.
  Proof.
    unfold BorshAccount.serialize. destruct (_ && _ && _); [|split; discriminate].
    destruct (payload T ser fixed ov) as [p|]; [|split; discriminate].
    pose proof (resize_no_panic a (BorshAccount.wz w + zlen p)) as [H1 H2].
    destruct (resize a _); cbn [obind]; split; congruence.
  Qed.

  Lemma close_no_panic a : close a <> Panic /\ close a <> Fault.
  Proof.
    unfold BorshAccount.close. pose proof (resize_no_panic a (BorshAccount.wz w)) as [H1 H2].
    destruct (resize a _); cbn [obind]; split; congruence.
  Qed.

  (* ---------------- reading a good account ---------------- *)
  Lemma good_reads a v : acct_ok a -> b_owner a = pid -> good a v ->
    (forall wr, tfa (begin_instr wr a) = Ok (Some v)) /\ client (b_data a) = Ok v.
  Proof.
    intros Hok Ho (Hp & Hl & Ht). split.
    - intros wr. unfold try_from_accounts, BorshAccount.decode. cbn [begin_instr b_data]. rewrite wz_eq.
      replace (zlen (b_data a) >? wz) with true by (symmetry; rewrite Z.gtb_ltb; apply Z.ltb_lt; lia).
      rewrite Ht. cbn [obind].
      assert (validate (begin_instr wr a) = Ok tt) as ->; [|reflexivity].
      apply validate_ok_iff; [exact Hok|]. cbn [begin_instr b_owner b_data]. auto.
    - unfold client_deserialize. rewrite wz_eq.
      replace (zlen (b_data a) <? wz) with false by (symmetry; apply Z.ltb_ge; lia).
      now rewrite Hp, list_eqb_refl.
  Qed.

  Lemma written_good pre v : length pre = w -> wf v -> forall a, b_data a = pre ++ ser v ->
    firstn w (b_data a) = pre /\ zlen (b_data a) > wz /\ tfs (skipn w (b_data a)) = Ok v.
  Proof.
    intros L W a ->. rewrite firstn_pre, skipn_pre, zlen_app by exact L. repeat split.
    - pose proof (Hne v W). unfold zlen at 1. lia.
    - now apply tfs_ser.
  Qed.

  (* ---------------- the invariant of an instruction body ---------------- *)
  Definition inv (a : bacct) (ov : option T) : Prop :=
    acct_ok a /\
    (zlen (b_data a) > wz -> firstn w (b_data a) = d) /\
    (forall v, ov = Some v -> wf v) /\
    (b_writable a = false -> zlen (b_data a) > wz -> forall v, ov = Some v -> tfs (skipn w (b_data a)) = Ok v).

  Lemma inv_start a ov : acct_ok a -> tfa a = Ok ov -> inv a ov /\ b_owner a = pid.
  Proof.
    intros Hok H. unfold try_from_accounts in H.
    destruct (decode a) as [ov'| | |] eqn:Ed; cbn [obind] in H; try discriminate.
    destruct (validate a) as [[]| | |] eqn:Ev; cbn [obind] in H; try discriminate.
    injection H as ->. apply validate_ok_iff in Ev as [Ho Hp]; [|exact Hok].
    unfold BorshAccount.decode in Ed. rewrite wz_eq in Ed.
    split; [|exact Ho]. split; [exact Hok|split; [intros _; exact Hp|split]].
    - intros v ->. destruct (zlen (b_data a) >? wz); [|discriminate].
      destruct (tfs (skipn w (b_data a))) eqn:Et; cbn [obind] in Ed; try discriminate.
      injection Ed as ->. eapply tfs_wf; eauto.
    - intros _ _ v ->. destruct (zlen (b_data a) >? wz); [|discriminate].
      destruct (tfs (skipn w (b_data a))) eqn:Et; cbn [obind] in Ed; try discriminate.
      now injection Ed as ->.
  Qed.

  (* a successful serialize keeps the invariant; when it wrote, the account is good for the value *)
  Lemma serialize_inv a ov a' : inv a ov -> serialize true pid w a ov = Ok a' ->
    inv a' ov /\ b_writable a' = b_writable a /\ b_owner a' = b_owner a /\
    (b_writable a = true -> zlen (b_data a) > wz -> b_owner a = pid ->
       forall v, ov = Some v -> b_data a' = d ++ ser v).
  Proof.
    intros (Hok & Hp & Hw & Hs) H.
    destruct (b_writable a && (zlen (b_data a) >? wz) && list_eqb (b_owner a) pid) eqn:C.
    - apply serialize_cond_split in C as (Cw & Cl & Co).
      destruct ov as [v|].
      + apply serialize_writes in H as (D & L & O & W); auto.
        rewrite (Hp Cl) in D.
        pose proof (written_good d v Hdl (Hw v eq_refl) a' D) as (G1 & G2 & G3).
        split; [|split; [exact W|split; [exact O|]]].
        * split; [split|split; [|split]].
          -- rewrite O. apply Hok.
          -- rewrite D, CodecProofs.bytes_ok_app, Hdb. apply Hbytes. now apply Hw.
          -- intros _. exact G1.
          -- exact Hw.
          -- rewrite W, Cw. discriminate.
        * intros _ _ _ v' [= <-]. exact D.
      + unfold BorshAccount.serialize in H. rewrite wz_eq, (serialize_cond_true a Cw Cl Co) in H.
        cbn [payload] in H. injection H as <-.
        split; [split; [exact Hok|split; [exact Hp|split; [exact Hw|exact Hs]]]|].
        split; [reflexivity|split; [reflexivity|]]. discriminate.
    - rewrite serialize_noop in H.
      + injection H as <-.
        split; [split; [exact Hok|split; [exact Hp|split; [exact Hw|exact Hs]]]|].
        split; [reflexivity|split; [reflexivity|]].
        intros A B E. rewrite (serialize_cond_true a A B E) in C. discriminate.
      + destruct (b_writable a); [|now left]. cbn [andb] in C.
        destruct (zlen (b_data a) >? wz) eqn:E; cbn [andb] in C.
        * right; left. intros E'. rewrite E', list_eqb_refl in C. discriminate.
        * right; right. zb. lia.
  Qed.

  Lemma close_inv a ov a' : inv a ov -> close a = Ok a' ->
    inv a' ov /\ b_writable a' = b_writable a /\ zlen (b_data a') = wz.
  Proof.
    intros (Hok & Hp & Hw & Hs) H. unfold BorshAccount.close in H. rewrite wz_eq in H.
    destruct (resize a wz) as [a1| | |] eqn:E; cbn [obind] in H; try discriminate.
    injection H as <-. apply resize_ok in E as (L & O & W & _ & _); [|lia].
    unfold inv, acct_ok. cbn [b_data b_owner b_writable]. rewrite zlen_repeat.
    split; [split; [split|split; [|split]]|split; [exact W|reflexivity]].
    - rewrite O. apply Hok.
    - now apply bytes_ok_repeat.
    - intros; lia.
    - exact Hw.
    - intros; lia.
  Qed.

  Lemma inv_same_acct a ov ov' : inv a ov -> (forall v, ov' = Some v -> wf v) ->
    (b_writable a = false -> zlen (b_data a) > wz -> forall v, ov' = Some v -> tfs (skipn w (b_data a)) = Ok v) ->
    inv a ov'.
  Proof. intros (H1 & H2 & _ & _) A B. split; [exact H1|split; [exact H2|split; [exact A|exact B]]]. Qed.

  Lemma step_inv o a ov r a' ov' : op_wf o -> inv a ov -> step true pid w o a ov = (r, a', ov') ->
    inv a' ov' /\ b_writable a' = b_writable a.
  Proof.
    intros Wo I H. pose proof I as (Hok & Hp & Hw & Hs).
    destruct o as [v|f| | | |k|]; cbn [BorshAccount.step op_wf] in *.
    - (* set_inner *)
      destruct (b_writable a) eqn:E; injection H as <- <- <-; [|auto].
      split; [|congruence]. apply (inv_same_acct a ov); auto.
      + now intros v' [= <-].
      + congruence.
    - (* DerefMut *)
      destruct (b_writable a) eqn:E; [destruct ov as [t|]|]; injection H as <- <- <-; auto.
      split; [|congruence]. apply (inv_same_acct a (Some t)); auto.
      + intros v' [= <-]. apply Wo. now apply Hw.
      + congruence.
    - destruct ov; injection H as <- <- <-; auto.
    - (* manual serialize *)
      destruct (serialize true pid w a ov) as [a1| | |] eqn:E; injection H as <- <- <-; auto.
      apply serialize_inv in E; tauto.
    - (* reload *)
      rewrite wz_eq in H. destruct (zlen (b_data a) <? wz) eqn:El. { injection H as <- <- <-; auto. }
      destruct (tfs (skipn w (b_data a))) as [t| | |] eqn:E; injection H as <- <- <-; auto.
      split; [|congruence]. apply (inv_same_acct a ov); auto.
      + intros v' [= <-]. eapply tfs_wf; eauto.
      + now intros _ _ v' [= <-].
    - (* owner change *)
      injection H as <- <- <-. split; [|reflexivity].
      unfold inv, acct_ok. cbn [set_owner b_owner b_data b_writable].
      split; [split; [exact Wo|apply Hok]|split; [exact Hp|split; [exact Hw|exact Hs]]].
    - (* close *)
      destruct (close a) as [a1| | |] eqn:E; injection H as <- <- <-; auto.
      apply close_inv with (ov := ov) in E; tauto.
  Qed.

  Lemma run_ops_inv ops : forall a ov rs alive a' ov', Forall op_wf ops -> inv a ov ->
    run_ops true pid w ops a ov = (rs, alive, a', ov') -> inv a' ov' /\ b_writable a' = b_writable a.
  Proof.
    induction ops as [|o ops IH]; intros a ov rs alive a' ov' F I H; cbn [BorshAccount.run_ops] in H.
    - injection H as <- <- <- <-. auto.
    - pose proof (Forall_inv F) as Wo. pose proof (Forall_inv_tail F) as F'.
      destruct (step true pid w o a ov) as [[r a1] ov1] eqn:Es.
      apply step_inv in Es as [I1 W1]; auto.
      destruct (is_panic T r).
      + injection H as <- <- <- <-. auto.
      + destruct (run_ops true pid w ops a1 ov1) as [[[rs' al'] a2] ov2] eqn:Er.
        injection H as <- <- <- <-. eapply IH in Er as [I2 W2]; [|exact F'|exact I1]. split; [auto|congruence].
  Qed.

  Lemma begin_ok wr a : acct_ok a -> acct_ok (begin_instr wr a).
  Proof. unfold acct_ok. cbn [begin_instr b_owner b_data]. auto. Qed.

  (* every way an instruction can end leaves a well-formed account *)
  Lemma exec_acct_ok a i : acct_ok a -> instr_wf i -> acct_ok (r_acct (exec_instr true pid w d a i)).
  Proof.
    intros Hok Wi. unfold BorshAccount.exec_instr.
    destruct (tfa (begin_instr (i_wr i) a)) as [ov| | |] eqn:Et; cbn [r_acct]; try now apply begin_ok.
    apply inv_start in Et as [I0 _]; [|now apply begin_ok].
    destruct (run_ops true pid w (i_ops i) (begin_instr (i_wr i) a) ov) as [[[rs alive] a1] ov1] eqn:Er.
    apply run_ops_inv in Er as [I1 _]; auto.
    destruct alive; cbn [r_acct]; [|apply I1].
    destruct (cleanup T ser true pid w (i_close i) a1 ov1) as [a2| | |] eqn:Ec; cbn [r_acct]; try apply I1.
    unfold cleanup in Ec. destruct (i_close i).
    - apply close_inv with (ov := ov1) in Ec; auto. apply Ec.
    - apply serialize_inv in Ec; auto. apply Ec.
  Qed.

  Lemma exec_tfa fixed a i : r_tfa (exec_instr fixed pid w d a i) = tfa (begin_instr (i_wr i) a).
  Proof.
    unfold BorshAccount.exec_instr. destruct (tfa (begin_instr (i_wr i) a)) as [ov| | |]; try reflexivity.
    destruct (run_ops fixed pid w (i_ops i) (begin_instr (i_wr i) a) ov) as [[[rs alive] a1] ov1].
    destruct alive; [|reflexivity].
    destruct (cleanup T ser fixed pid w (i_close i) a1 ov1); reflexivity.
  Qed.

  (* ---------------- persist ---------------- *)
  (* a completed instruction that leaves v in the wrapper of a still program-owned, not closed account
     leaves an account that is good for v; if the instruction was writable the image is exact *)
  Lemma exec_done a i v : acct_ok a -> instr_wf i ->
    let r := exec_instr true pid w d a i in
    r_end r = IDone (Some v) -> b_owner (r_acct r) = pid -> zlen (b_data (r_acct r)) > wz ->
    good (r_acct r) v /\ (i_wr i = true -> b_data (r_acct r) = d ++ ser v).
  Proof.
    intros Hok Wi. unfold BorshAccount.exec_instr.
    destruct (tfa (begin_instr (i_wr i) a)) as [ov| | |] eqn:Et; cbn [r_end r_acct]; try discriminate.
    apply inv_start in Et as [I0 _]; [|now apply begin_ok].
    destruct (run_ops true pid w (i_ops i) (begin_instr (i_wr i) a) ov) as [[[rs alive] a1] ov1] eqn:Er.
    apply run_ops_inv in Er as [I1 W1]; auto. cbn [begin_instr b_writable] in W1.
    destruct alive; cbn [r_end r_acct]; [|discriminate].
    destruct (cleanup T ser true pid w (i_close i) a1 ov1) as [a2| | |] eqn:Ec; cbn [r_end r_acct]; try discriminate.
    intros [= ->] Ho Hl. unfold cleanup in Ec. destruct (i_close i).
    - apply close_inv with (ov := Some v) in Ec as (_ & _ & L); auto. lia.
    - pose proof I1 as (Hok1 & Hp1 & Hw1 & Hs1).
      destruct (b_writable a1 && (zlen (b_data a1) >? wz) && list_eqb (b_owner a1) pid) eqn:C.
      + apply serialize_cond_split in C as (Cw & Cl & Co).
        apply serialize_inv in Ec as (_ & _ & _ & D); auto. specialize (D Cw Cl Co v eq_refl).
        split; [|intros _; exact D].
        unfold good. now apply written_good; auto.
      + assert (a2 = a1) as ->.
        { rewrite serialize_noop in Ec; [now injection Ec|].
          destruct (b_writable a1); [|now left]. cbn [andb] in C.
          destruct (zlen (b_data a1) >? wz) eqn:E; cbn [andb] in C.
          - right; left. intros E'. rewrite E', list_eqb_refl in C. discriminate.
          - right; right. zb. lia. }
        assert (b_writable a1 = false) as Wf.
        { destruct (b_writable a1) eqn:Ew; [|reflexivity]. exfalso.
          rewrite Ho, list_eqb_refl in C.
          assert (zlen (b_data a1) >? wz = true) as Eg by (rewrite Z.gtb_ltb; apply Z.ltb_lt; lia).
          rewrite Eg in C. discriminate. }
        split.
        * unfold good. repeat split; auto.
        * intros E. congruence.
  Qed.

  Lemma persist a i v : acct_ok a -> instr_wf i ->
    let r := exec_instr true pid w d a i in
    r_end r = IDone (Some v) -> b_owner (r_acct r) = pid -> zlen (b_data (r_acct r)) > wz ->
    (forall wr, tfa (begin_instr wr (r_acct r)) = Ok (Some v)) /\
    client (b_data (r_acct r)) = Ok v.
  Proof.
    intros Hok Wi r He Ho Hl.
    apply good_reads; auto.
    - now apply exec_acct_ok.
    - now apply exec_done.
  Qed.

  Lemma exec_seq_acct_ok l : forall a, acct_ok a -> Forall instr_wf l ->
    Forall (fun r => acct_ok (r_acct r)) (exec_seq true pid w d a l).
  Proof.
    induction l as [|i l IH]; intros a Hok F; cbn [BorshAccount.exec_seq]; [constructor|].
    pose proof (Forall_inv F) as Wi. pose proof (Forall_inv_tail F) as F'. pose proof (exec_acct_ok a i Hok Wi).
    constructor; auto.
  Qed.

  (* over a whole history: what instruction k leaves is what instruction k+1 decodes (and what the
     client reads in between), for every k *)
  Lemma persist_seq l : forall a k r r' v, acct_ok a -> Forall instr_wf l ->
    nth_error (exec_seq true pid w d a l) k = Some r ->
    nth_error (exec_seq true pid w d a l) (S k) = Some r' ->
    r_end r = IDone (Some v) -> b_owner (r_acct r) = pid -> zlen (b_data (r_acct r)) > wz ->
    r_tfa r' = Ok (Some v) /\ client (b_data (r_acct r)) = Ok v.
  Proof.
    induction l as [|i l IH]; intros a k r r' v Hok F Hk Hk'; [destruct k; discriminate|].
    pose proof (Forall_inv F) as Wi. pose proof (Forall_inv_tail F) as F'. cbn [BorshAccount.exec_seq] in Hk, Hk'.
    destruct k as [|k].
    - cbn [nth_error] in Hk, Hk'. injection Hk as <-.
      destruct l as [|i' l]; [discriminate|]. cbn [BorshAccount.exec_seq nth_error] in Hk'. injection Hk' as <-.
      intros He Ho Hl. rewrite exec_tfa.
      pose proof (persist a i v Hok Wi He Ho Hl) as [P1 P2]. split; auto.
    - exact (IH (r_acct (exec_instr true pid w d a i)) k r r' v (exec_acct_ok a i Hok Wi) F' Hk Hk').
  Qed.

  (* ---------------- len_exact ---------------- *)
  Lemma len_exact a i v : acct_ok a -> instr_wf i ->
    let r := exec_instr true pid w d a i in
    i_wr i = true -> r_end r = IDone (Some v) -> b_owner (r_acct r) = pid -> zlen (b_data (r_acct r)) > wz ->
    b_data (r_acct r) = d ++ ser v /\ zlen (b_data (r_acct r)) = wz + zlen (ser v).
  Proof.
    intros Hok Wi r Hw He Ho Hl.
    pose proof (exec_done a i v Hok Wi He Ho Hl) as [_ D]. specialize (D Hw).
    split; [exact D|]. fold r in D. rewrite D, zlen_app. unfold zlen at 1. rewrite Hdl. reflexivity.
  Qed.

  (* ---------------- no_write ---------------- *)
  Lemma step_readonly fixed o a ov r a' ov' : b_writable a = false -> o <> OClose ->
    step fixed pid w o a ov = (r, a', ov') -> b_data a' = b_data a /\ b_writable a' = false.
  Proof.
    intros Hw Hc H. destruct o as [v|f| | | |k|]; cbn [BorshAccount.step] in H; try rewrite Hw in H.
    - now injection H as <- <- <-.
    - now injection H as <- <- <-.
    - destruct ov; now injection H as <- <- <-.
    - rewrite serialize_noop in H by now left. now injection H as <- <- <-.
    - destruct (_ <? _). { now injection H as <- <- <-. }
      destruct (tfs _); now injection H as <- <- <-.
    - now injection H as <- <- <-.
    - contradiction.
  Qed.

  Lemma run_ops_readonly fixed ops : forall a ov rs alive a' ov', b_writable a = false -> ~ In OClose ops ->
    run_ops fixed pid w ops a ov = (rs, alive, a', ov') -> b_data a' = b_data a /\ b_writable a' = false.
  Proof.
    induction ops as [|o ops IH]; intros a ov rs alive a' ov' Hw Hc H; cbn [BorshAccount.run_ops] in H.
    - now injection H as <- <- <- <-.
    - destruct (step fixed pid w o a ov) as [[r a1] ov1] eqn:Es.
      apply step_readonly in Es as [D1 W1]; auto.
      2:{ intros ->. apply Hc. now left. }
      destruct (is_panic T r).
      + injection H as <- <- <- <-. auto.
      + destruct (run_ops fixed pid w ops a1 ov1) as [[[rs' al'] a2] ov2] eqn:Er.
        injection H as <- <- <- <-. apply IH in Er as [D2 W2]; auto.
        * split; congruence.
        * intros Hin. apply Hc. now right.
  Qed.

  (* a read-only instruction that does not explicitly close the account never changes the data,
     with either write-back *)
  Lemma no_write_readonly fixed a i : i_wr i = false -> i_close i = false -> ~ In OClose (i_ops i) ->
    b_data (r_acct (exec_instr fixed pid w d a i)) = b_data a.
  Proof.
    intros Hw Hc Hn. unfold BorshAccount.exec_instr.
    destruct (tfa (begin_instr (i_wr i) a)) as [ov| | |]; cbn [r_acct]; try reflexivity.
    destruct (run_ops fixed pid w (i_ops i) (begin_instr (i_wr i) a) ov) as [[[rs alive] a1] ov1] eqn:Er.
    apply run_ops_readonly in Er as [D1 W1]; [|cbn [begin_instr b_writable]; exact Hw|exact Hn].
    cbn [begin_instr b_data] in D1.
    destruct alive; cbn [r_acct]; auto.
    unfold cleanup. rewrite Hc, serialize_noop by now left. cbn [r_acct]. exact D1.
  Qed.

  (* an account that is not owned by the program, or does not start with the discriminant, is turned
     away by try_from_accounts: the instruction does not run and the data is untouched *)
  Lemma no_write_rejected fixed a i : acct_ok a -> b_owner a <> pid \/ firstn w (b_data a) <> d ->
    let r := exec_instr fixed pid w d a i in
    r_end r = IRejected /\ b_data (r_acct r) = b_data a /\ b_owner (r_acct r) = b_owner a.
  Proof.
    intros Hok Hbad. unfold BorshAccount.exec_instr.
    destruct (tfa (begin_instr (i_wr i) a)) as [ov| | |] eqn:Et; cbn [r_end r_acct begin_instr b_data b_owner]; auto.
    exfalso. unfold try_from_accounts in Et.
    destruct (decode (begin_instr (i_wr i) a)); cbn [obind] in Et; try discriminate.
    destruct (validate (begin_instr (i_wr i) a)) as [[]| | |] eqn:Ev; cbn [obind] in Et; try discriminate.
    apply validate_ok_iff in Ev; [|now apply begin_ok]. cbn [begin_instr b_owner b_data] in Ev. tauto.
  Qed.

  (* ---------------- size_change_ok ---------------- *)
  Definition set_instr (v : T) : instr T := mkInstr true false [OSet v].

  Fixpoint growth_ok (len : Z) (vs : list T) : Prop :=
    match vs with
    | [] => True
    | v :: r =>
        let n := wz + zlen (ser v) in
        n - len <= MAX_PERMITTED_DATA_INCREASE /\ n <= I32_MAX /\ growth_ok n r
    end.

  Fixpoint chain (a : bacct) (vs : list T) : Prop :=
    match vs with
    | [] => True
    | v :: r =>
        let res := exec_instr true pid w d a (set_instr v) in
        r_end res = IDone (Some v) /\ b_data (r_acct res) = d ++ ser v /\
        (forall wr, tfa (begin_instr wr (r_acct res)) = Ok (Some v)) /\
        client (b_data (r_acct res)) = Ok v /\ chain (r_acct res) r
    end.

  Lemma set_instr_exec a v0 v : acct_ok a -> b_owner a = pid -> good a v0 -> wf v ->
    let a0 := begin_instr true a in
    exec_instr true pid w d a (set_instr v) =
      match serialize true pid w a0 (Some v) with
      | Ok a2 => mkRes T (Ok (Some v0)) [SOk] (Some (Ok tt)) (Some v) (IDone (Some v)) a2
      | Err c => mkRes T (Ok (Some v0)) [SOk] (Some (Err c)) (Some v) (ICleanupFailed c) a0
      | _ => mkRes T (Ok (Some v0)) [SOk] (Some Panic) (Some v) ICleanupPanic a0
      end.
  Proof.
    intros Hok Ho G W a0. unfold BorshAccount.exec_instr. cbn [set_instr i_wr i_ops i_close].
    pose proof (good_reads a v0 Hok Ho G) as [R _]. rewrite (R true).
    cbn [BorshAccount.run_ops BorshAccount.step begin_instr b_writable is_panic cleanup]. reflexivity.
  Qed.

  Lemma size_change_ok vs : forall a v0, acct_ok a -> b_owner a = pid -> good a v0 -> Forall wf vs ->
    growth_ok (zlen (b_data a)) vs -> chain a vs.
  Proof.
    induction vs as [|v vs IH]; intros a v0 Hok Ho G F Hg; cbn [chain]; [exact I|].
    pose proof (Forall_inv F) as W. pose proof (Forall_inv_tail F) as F'. cbn [growth_ok] in Hg. destruct Hg as (G1 & G2 & G3).
    rewrite (set_instr_exec a v0 v Hok Ho G W).
    set (a0 := begin_instr true a).
    assert (b_writable a0 = true /\ zlen (b_data a0) > wz /\ b_owner a0 = pid /\ b_delta a0 = 0 /\ b_data a0 = b_data a)
      as (Aw & Al & Ao & Ad & Adata) by (cbn; repeat split; auto; apply G).
    pose proof (serialize_size a0 v Aw Al Ao) as [Hs _].
    destruct Hs as (a2 & Es & D & L).
    { split; [exact G2|]. right. rewrite Ad, Adata. lia. }
    rewrite Es. cbn [r_end r_acct].
    assert (firstn w (b_data a0) = d) as Hp by (rewrite Adata; apply G).
    rewrite Hp in D.
    pose proof (serialize_writes a0 v a2 Aw Al Ao Es) as (_ & _ & O2 & _).
    assert (acct_ok a2) as Hok2.
    { split; [rewrite O2, Ao; exact Hpid|]. rewrite D, CodecProofs.bytes_ok_app, Hdb. now apply Hbytes. }
    assert (good a2 v) as G2' by (unfold good; now apply written_good).
    assert (b_owner a2 = pid) as Ho2 by congruence.
    pose proof (good_reads a2 v Hok2 Ho2 G2') as [R1 R2].
    repeat split; auto.
    apply (IH a2 v); auto. now rewrite L.
  Qed.

  (* growth beyond the allowance in one instruction: the cleanup fails with InvalidRealloc and the
     account is exactly as the instruction found it *)
  Lemma growth_refused a v0 v : acct_ok a -> b_owner a = pid -> good a v0 -> wf v ->
    wz + zlen (ser v) - zlen (b_data a) > MAX_PERMITTED_DATA_INCREASE ->
    let res := exec_instr true pid w d a (set_instr v) in
    r_end res = ICleanupFailed PE_INVALID_ACCOUNT_DATA_REALLOC /\ b_data (r_acct res) = b_data a /\
    (forall wr, tfa (begin_instr wr (r_acct res)) = Ok (Some v0)).
  Proof.
    intros Hok Ho G W Hbig. cbn zeta. rewrite (set_instr_exec a v0 v Hok Ho G W).
    set (a0 := begin_instr true a).
    assert (b_writable a0 = true /\ zlen (b_data a0) > wz /\ b_owner a0 = pid /\ b_delta a0 = 0 /\ b_data a0 = b_data a)
      as (Aw & Al & Ao & Ad & Adata) by (cbn; repeat split; auto; apply G).
    pose proof (serialize_size a0 v Aw Al Ao) as [_ Hs].
    rewrite Hs by (rewrite Ad, Adata; unfold MAX_PERMITTED_DATA_INCREASE in *; lia). cbn [r_end r_acct]. repeat split; auto.
    intros wr. pose proof (good_reads a v0 Hok Ho G) as [R _]. exact (R wr).
  Qed.
End Proofs.

(* ================================================================================================ *)
(* packaged statements (what Properties/C15.v exposes)                                               *)
(* what is assumed of a value type's borsh implementation *)
Record oracle_ok {T} (ser : T -> list Z) (de : list Z -> option (T * list Z)) (wf : T -> Prop) : Prop := mkOracle {
  o_rt : forall t tl, wf t -> de (ser t ++ tl) = Some (t, tl);
  o_ne : forall t, wf t -> 0 < zlen (ser t);
  o_nil : de [] = None;
  o_dewf : forall bs t tl, de bs = Some (t, tl) -> wf t;
  o_bytes : forall t, wf t -> bytes_ok (ser t) = true;
}.

(* the owning program's id is a key, the discriminant has w bytes *)
Definition prog_ok (pid : key) (w : nat) (d : list Z) : Prop :=
  key_ok pid /\ length d = w /\ bytes_ok d = true.

Lemma codec_oracle {T} (c : codec T) : codec_ok c -> oracle_ok (c_ser c) (c_de c) (c_wf c).
Proof. intros [H1 H2 H3 H4 H5]. constructor; auto. Qed.

Section Packaged.
  Variable T : Type.
  Variable ser : T -> list Z.
  Variable de : list Z -> option (T * list Z).
  Variable wf : T -> Prop.
  Variable pid : key.
  Variable w : nat.
  Variable d : list Z.
  Hypothesis HO : oracle_ok ser de wf.
  Hypothesis HP : prog_ok pid w d.

  Let Hrt := o_rt _ _ _ HO.
  Let Hne := o_ne _ _ _ HO.
  Let Hdewf := o_dewf _ _ _ HO.
  Let Hbytes := o_bytes _ _ _ HO.
  Let Hpid := proj1 HP.
  Let Hdl := proj1 (proj2 HP).
  Let Hdb := proj2 (proj2 HP).

  Lemma p_persist a i v : acct_ok a -> instr_wf T wf i ->
    let r := exec_instr T ser de true pid w d a i in
    r_end r = IDone (Some v) -> b_owner (r_acct r) = pid -> zlen (b_data (r_acct r)) > Z.of_nat w ->
    (forall wr, try_from_accounts T de pid w d (begin_instr wr (r_acct r)) = Ok (Some v)) /\
    client_deserialize T de w d (b_data (r_acct r)) = Ok v.
  Proof. apply (persist T ser de wf pid w d Hrt Hne Hdewf Hbytes Hpid Hdl Hdb). Qed.

  Lemma p_persist_seq l a k r r' v : acct_ok a -> Forall (instr_wf T wf) l ->
    nth_error (exec_seq T ser de true pid w d a l) k = Some r ->
    nth_error (exec_seq T ser de true pid w d a l) (S k) = Some r' ->
    r_end r = IDone (Some v) -> b_owner (r_acct r) = pid -> zlen (b_data (r_acct r)) > Z.of_nat w ->
    r_tfa r' = Ok (Some v) /\ client_deserialize T de w d (b_data (r_acct r)) = Ok v.
  Proof. apply (persist_seq T ser de wf pid w d Hrt Hne Hdewf Hbytes Hpid Hdl Hdb). Qed.

  Lemma p_len_exact a i v : acct_ok a -> instr_wf T wf i ->
    let r := exec_instr T ser de true pid w d a i in
    i_wr i = true -> r_end r = IDone (Some v) -> b_owner (r_acct r) = pid -> zlen (b_data (r_acct r)) > Z.of_nat w ->
    b_data (r_acct r) = d ++ ser v /\ zlen (b_data (r_acct r)) = Z.of_nat w + zlen (ser v).
  Proof. apply (len_exact T ser de wf pid w d Hrt Hne Hdewf Hbytes Hpid Hdl Hdb). Qed.

  Lemma p_size_change_ok vs a v0 : acct_ok a -> b_owner a = pid -> good T de w d a v0 -> Forall wf vs ->
    growth_ok T ser w (zlen (b_data a)) vs -> chain T ser de pid w d a vs.
  Proof. apply (size_change_ok T ser de wf pid w d Hrt Hne Hbytes Hpid Hdl Hdb). Qed.

  Lemma p_growth_refused a v0 v : acct_ok a -> b_owner a = pid -> good T de w d a v0 -> wf v ->
    Z.of_nat w + zlen (ser v) - zlen (b_data a) > MAX_PERMITTED_DATA_INCREASE ->
    let res := exec_instr T ser de true pid w d a (set_instr T v) in
    r_end res = ICleanupFailed PE_INVALID_ACCOUNT_DATA_REALLOC /\ b_data (r_acct res) = b_data a /\
    (forall wr, try_from_accounts T de pid w d (begin_instr wr (r_acct res)) = Ok (Some v0)).
  Proof. apply (growth_refused T ser de wf pid w d Hpid Hdl Hdb). Qed.

  Lemma p_no_write_rejected fixed a i : acct_ok a -> b_owner a <> pid \/ firstn w (b_data a) <> d ->
    let r := exec_instr T ser de fixed pid w d a i in
    r_end r = IRejected /\ b_data (r_acct r) = b_data a /\ b_owner (r_acct r) = b_owner a.
  Proof. apply (no_write_rejected T ser de pid w d Hpid Hdl Hdb). Qed.
End Packaged.

(* statements that need nothing of the value type's borsh implementation *)
Section PackagedAny.
  Variable T : Type.
  Variable ser : T -> list Z.
  Variable de : list Z -> option (T * list Z).
  Variable pid : key.
  Variable w : nat.
  Variable d : list Z.
  Hypothesis HP : prog_ok pid w d.
  Let Hdl := proj1 (proj2 HP).

  Lemma p_no_write fixed a ov :
    b_writable a = false \/ b_owner a <> pid \/ zlen (b_data a) <= Z.of_nat w ->
    serialize T ser fixed pid w a ov = Ok a.
  Proof. apply (serialize_noop T ser pid w d Hdl). Qed.

  Lemma p_no_write_readonly fixed a i : i_wr i = false -> i_close i = false -> ~ In OClose (i_ops i) ->
    b_data (r_acct (exec_instr T ser de fixed pid w d a i)) = b_data a.
  Proof. apply (no_write_readonly T ser de pid w d Hdl). Qed.

  Lemma p_serialize_size a v :
    b_writable a = true -> zlen (b_data a) > Z.of_nat w -> b_owner a = pid ->
    let n := Z.of_nat w + zlen (ser v) in
    (n <= I32_MAX /\ (n = zlen (b_data a) \/ b_delta a + (n - zlen (b_data a)) <= MAX_PERMITTED_DATA_INCREASE) ->
       exists a', serialize T ser true pid w a (Some v) = Ok a' /\ b_data a' = firstn w (b_data a) ++ ser v /\
                  zlen (b_data a') = n) /\
    (~ (n <= I32_MAX /\ (n = zlen (b_data a) \/ b_delta a + (n - zlen (b_data a)) <= MAX_PERMITTED_DATA_INCREASE)) ->
       serialize T ser true pid w a (Some v) = Err PE_INVALID_ACCOUNT_DATA_REALLOC).
  Proof. apply (serialize_size T ser pid w d Hdl). Qed.
End PackagedAny.

(* ================================================================================================ *)
(* the concrete programs of the harness                                                              *)
Lemma key_ok_repeat b : is_byte b = true -> key_ok (repeat b 32).
Proof. intros H. split; [apply repeat_length|now apply bytes_ok_repeat]. Qed.

Lemma instances_ok :
  oracle_ok (c_ser c_fx) (c_de c_fx) (c_wf c_fx) /\ oracle_ok (c_ser c_bv) (c_de c_bv) (c_wf c_bv) /\
  oracle_ok (c_ser c_st) (c_de c_st) (c_wf c_st) /\ oracle_ok (c_ser c_ns) (c_de c_ns) (c_wf c_ns) /\
  oracle_ok (c_ser c_sb) (c_de c_sb) (c_wf c_sb) /\
  prog_ok PID_A 8 DISC_FX /\ prog_ok PID_A 8 DISC_BV /\ prog_ok PID_B 1 DISC_ST /\ prog_ok PID_C 4 DISC_NS /\
  prog_ok PID_A 8 DISC_SB /\ prog_ok PID_B 1 DISC_ZD.
Proof.
  split; [apply codec_oracle, c_fx_ok|]. split; [apply codec_oracle, c_bv_ok|].
  split; [apply codec_oracle, c_st_ok|]. split; [apply codec_oracle, c_ns_ok|].
  split; [apply codec_oracle, c_sb_ok|].
  unfold prog_ok. repeat split; reflexivity.
Qed.

Lemma persist_unrepaired_refuted :
  exists (a : bacct) (i : instr (list Z)) (v : list Z),
    acct_ok a /\ instr_wf (list Z) (c_wf c_bv) i /\
    let r := exec_instr (list Z) (c_ser c_bv) (c_de c_bv) false PID_A 8 DISC_BV a i in
    r_end r = IDone (Some v) /\ b_owner (r_acct r) = PID_A /\ zlen (b_data (r_acct r)) > 8 /\
    b_data (r_acct r) = DISC_BV ++ [1; 4; 0; 0; 0; 1; 2; 3; 4] /\
    try_from_accounts (list Z) (c_de c_bv) PID_A 8 DISC_BV (begin_instr true (r_acct r)) = Err EC_IO_ERROR /\
    client_deserialize (list Z) (c_de c_bv) 8 DISC_BV (b_data (r_acct r)) = Err EC_IO_ERROR /\
    zlen (b_data (r_acct r)) <> 8 + zlen (c_ser c_bv v).
Proof.
  exists (mkB PID_A true (DISC_BV ++ [0; 0; 0; 0]) 0 1000000),
         (mkInstr true false [OSet [1; 2; 3; 4]]), [1; 2; 3; 4].
  split; [split; [apply key_ok_repeat|]; reflexivity|].
  split.
  { constructor; [|constructor]. cbn. split; [reflexivity|]. unfold U32_LIMIT. cbn. lia. }
  vm_compute. repeat split; try reflexivity; discriminate.
Qed.

Lemma nonvacuous :
  let a := mkB PID_A true (DISC_BV ++ [0; 0; 0; 0]) 0 1000000 in
  let l := [mkInstr true false [OSet [1; 2; 3]; OMut (bv_mut3 4)];
            mkInstr true false [OMut (bv_mut4 1)];
            mkInstr false false [ORead; OSerialize]] in
  acct_ok a /\
  map (fun r => (r_tfa r, r_end r, b_data (r_acct r)))
      (exec_seq (list Z) (c_ser c_bv) (c_de c_bv) true PID_A 8 DISC_BV a l) =
  [ (Ok (Some []), IDone (Some [1; 2; 3; 4]), DISC_BV ++ [4; 0; 0; 0; 1; 2; 3; 4]);
    (Ok (Some [1; 2; 3; 4]), IDone (Some [1]), DISC_BV ++ [1; 0; 0; 0; 1]);
    (Ok (Some [1]), IDone (Some [1]), DISC_BV ++ [1; 0; 0; 0; 1]) ].
Proof.
  split; [split; [apply key_ok_repeat|]; reflexivity|]. vm_compute. reflexivity.
Qed.

(* a value type whose decoder accepts encodings its serializer never writes (BTreeSet<u8>: elements in any
   order, duplicates): a read-only instruction (read, manual serialize, reload, default cleanup) leaves the
   non-canonical image byte for byte, the next writable instruction rewrites it in canonical form (and
   shorter), and all three decode the same value *)
Lemma noncanonical_image :
  let a := mkB PID_A true (DISC_SB ++ [4; 0; 0; 0; 9; 2; 9; 5]) 0 1000000 in
  let l := [mkInstr false false [ORead; OSerialize; OReload];
            mkInstr true false [];
            mkInstr false false [ORead]] in
  acct_ok a /\
  map (fun r => (r_tfa r, r_end r, b_data (r_acct r)))
      (exec_seq (list Z) (c_ser c_sb) (c_de c_sb) true PID_A 8 DISC_SB a l) =
  [ (Ok (Some [2; 5; 9]), IDone (Some [2; 5; 9]), DISC_SB ++ [4; 0; 0; 0; 9; 2; 9; 5]);
    (Ok (Some [2; 5; 9]), IDone (Some [2; 5; 9]), DISC_SB ++ [3; 0; 0; 0; 2; 5; 9]);
    (Ok (Some [2; 5; 9]), IDone (Some [2; 5; 9]), DISC_SB ++ [3; 0; 0; 0; 2; 5; 9]) ].
Proof.
  split; [split; [apply key_ok_repeat|]; reflexivity|]. vm_compute. reflexivity.
Qed.

Lemma empty_encoding_not_written :
  let ser := fun _ : unit => @nil Z in
  let de := fun l : list Z => Some (tt, l) in
  (forall t tl, de (ser t ++ tl) = Some (t, tl)) /\
  let r := exec_instr unit ser de true PID_B 1 DISC_ST (mkB PID_B true DISC_ST 0 1) (mkInstr true false [OSet tt]) in
  r_end r = IDone (Some tt) /\
  try_from_accounts unit de PID_B 1 DISC_ST (begin_instr true (r_acct r)) = Ok None.
Proof.
  split; [intros [] tl; reflexivity|]. vm_compute. split; reflexivity.
Qed.
