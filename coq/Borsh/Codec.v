(* C15 - a small model of borsh 1.x for the value types of borsh-backed accounts.  Definitions only
   (proofs: Borsh/CodecProofs.v).

   A [codec T] packages, for one Rust type:
     c_ser  : T -> bytes               BorshSerialize::serialize (object_length = its length)
     c_de   : bytes -> (T * rest)      BorshDeserialize::deserialize_reader on a slice reader
     c_wf   : T -> Prop                the values the Rust type can hold (integer ranges, u32 lengths,
                                       valid UTF-8) - the domain on which the round trip is claimed
     c_to / c_of : the integer representation of values in the case / observation files of the
                   correspondence check (plumbing, not borsh).
   Integers are little endian at their width; bool is one byte 0/1 (anything else is an error);
   Vec<T> = u32 length then the items; Vec<u8> / String = u32 length then the bytes (String: the bytes
   must be well-formed UTF-8, core::str::from_utf8); Option<T> = tag 0 | 1 then the value (other
   tags are errors); a struct = its fields in declaration order; BTreeSet<u8> = u32 length then the
   elements, written ascending and read in any order, duplicates dropped.
   Bytes are Z in 0..255; decoders reject integers outside that range (such inputs do not exist on
   the Rust side; this makes "decoded values are well-formed" hold without a side condition). *)
From SF Require Import Base.Prelude.

Record codec (T : Type) : Type := mkCodec {
  c_ser : T -> list Z;
  c_de : list Z -> option (T * list Z);
  c_wf : T -> Prop;
  c_to : T -> list Z;
  c_of : list Z -> option (T * list Z);
}.
Arguments mkCodec {T}.
Arguments c_ser {T}.
Arguments c_de {T}.
Arguments c_wf {T}.
Arguments c_to {T}.
Arguments c_of {T}.

(* checked split: the first n elements and the rest *)
Definition take {A} (n : Z) (l : list A) : option (list A * list A) :=
  if (0 <=? n) && (n <=? zlen l) then Some (ztake n l, zdrop n l) else None.

(* ---------------- integers ---------------- *)
Definition uint_de (w : nat) (l : list Z) : option (Z * list Z) :=
  match take (Z.of_nat w) l with
  | Some (bs, r) => if bytes_ok bs then Some (le_decode bs, r) else None
  | None => None
  end.

Definition one_of (l : list Z) : option (Z * list Z) :=
  match l with
  | z :: r => Some (z, r)
  | [] => None
  end.

Definition c_uint (w : nat) : codec Z :=
  mkCodec (le_bytes w) (uint_de w) (fun z => 0 <= z < 256 ^ Z.of_nat w) (fun z => [z]) one_of.

(* ---------------- bool ---------------- *)
Definition bool_de (l : list Z) : option (bool * list Z) :=
  match l with
  | b :: r => if b =? 0 then Some (false, r) else if b =? 1 then Some (true, r) else None
  | [] => None
  end.

Definition c_bool : codec bool :=
  mkCodec (fun b : bool => [if b then 1 else 0]) bool_de (fun _ : bool => True)
          (fun b : bool => [if b then 1 else 0])
          (fun l => match l with z :: r => Some (negb (z =? 0), r) | [] => None end).

(* ---------------- Vec<u8> ---------------- *)
Definition U32_LIMIT : Z := 4294967296.

Definition bytes_ser (l : list Z) : list Z := le_bytes 4 (zlen l) ++ l.

Definition bytes_de (l : list Z) : option (list Z * list Z) :=
  match uint_de 4 l with
  | Some (n, r) =>
      match take n r with
      | Some (bs, r') => if bytes_ok bs then Some (bs, r') else None
      | None => None
      end
  | None => None
  end.

(* compact form of long byte strings in case files: -1 n s k  =  byte i = (s + k*i) mod 256 *)
Fixpoint pattern (n : nat) (cur k : Z) : list Z :=
  match n with
  | O => []
  | S m => cur mod 256 :: pattern m ((cur + k) mod 256) k
  end.

Definition bytes_of (l : list Z) : option (list Z * list Z) :=
  match l with
  | n :: r =>
      if n =? -1 then
        match r with
        | n' :: s :: k :: r' => Some (pattern (Z.to_nat n') s k, r')
        | _ => None
        end
      else take n r
  | [] => None
  end.

Definition bytes_to (l : list Z) : list Z := zlen l :: l.

Definition c_bytes : codec (list Z) :=
  mkCodec bytes_ser bytes_de (fun l => bytes_ok l = true /\ zlen l < U32_LIMIT) bytes_to bytes_of.

(* ---------------- BTreeSet<u8> ---------------- *)
(* borsh 1.5.7 without the `de_strict_order` feature reads a BTreeSet<T> as a Vec<T> and collects it: the
   elements are accepted in ANY order and with duplicates; the serializer iterates the set, i.e. writes the
   elements strictly ascending.  So one value has many accepted encodings and exactly one written encoding.
   A value is represented by the strictly ascending list of its elements. *)
Fixpoint set_ins (x : Z) (l : list Z) : list Z :=
  match l with
  | [] => [x]
  | y :: r => if x <? y then x :: l else if x =? y then l else y :: set_ins x r
  end.

Fixpoint set_norm (l : list Z) : list Z :=
  match l with
  | [] => []
  | x :: r => set_ins x (set_norm r)
  end.

Definition set_del (x : Z) (l : list Z) : list Z := filter (fun y => negb (y =? x)) l.

(* lo < every element, and the elements are strictly ascending *)
Fixpoint asc_from (lo : Z) (l : list Z) : Prop :=
  match l with
  | [] => True
  | x :: r => lo < x /\ asc_from x r
  end.

Definition asc (l : list Z) : Prop :=
  match l with
  | [] => True
  | x :: r => asc_from x r
  end.

Definition set_de (l : list Z) : option (list Z * list Z) :=
  match bytes_de l with
  | Some (bs, r) => Some (set_norm bs, r)
  | None => None
  end.

(* case files may list the elements in any order: parsed values are normalised *)
Definition set_of (l : list Z) : option (list Z * list Z) :=
  match bytes_of l with
  | Some (bs, r) => Some (set_norm bs, r)
  | None => None
  end.

Definition c_set : codec (list Z) :=
  mkCodec bytes_ser set_de (fun l => asc l /\ bytes_ok l = true /\ zlen l < U32_LIMIT) bytes_to set_of.

(* ---------------- String ---------------- *)
Definition cont (b : Z) : bool := (128 <=? b) && (b <=? 191).
Definition between (lo b hi : Z) : bool := (lo <=? b) && (b <=? hi).

(* well-formed UTF-8 (Unicode 15 table 3-7), what core::str::from_utf8 accepts *)
Fixpoint utf8_valid (l : list Z) : bool :=
  match l with
  | [] => true
  | b0 :: r0 =>
    if b0 <? 128 then utf8_valid r0 else
    match r0 with
    | [] => false
    | b1 :: r1 =>
      if between 194 b0 223 then cont b1 && utf8_valid r1 else
      match r1 with
      | [] => false
      | b2 :: r2 =>
        if between 224 b0 239 then
          (if b0 =? 224 then between 160 b1 191
           else if b0 =? 237 then between 128 b1 159
           else cont b1) && cont b2 && utf8_valid r2
        else
        match r2 with
        | [] => false
        | b3 :: r3 =>
          if between 240 b0 244 then
            (if b0 =? 240 then between 144 b1 191
             else if b0 =? 244 then between 128 b1 143
             else cont b1) && cont b2 && cont b3 && utf8_valid r3
          else false
        end
      end
    end
  end.

Definition string_de (l : list Z) : option (list Z * list Z) :=
  match bytes_de l with
  | Some (bs, r) => if utf8_valid bs then Some (bs, r) else None
  | None => None
  end.

(* a String is represented by its UTF-8 bytes *)
Definition c_string : codec (list Z) :=
  mkCodec bytes_ser string_de
          (fun l => bytes_ok l = true /\ zlen l < U32_LIMIT /\ utf8_valid l = true) bytes_to bytes_of.

(* ---------------- struct fields ---------------- *)
Definition pair_de {A B} (da : list Z -> option (A * list Z)) (db : list Z -> option (B * list Z))
  (l : list Z) : option ((A * B) * list Z) :=
  match da l with
  | Some (a, r) => match db r with Some (b, r') => Some ((a, b), r') | None => None end
  | None => None
  end.

Definition c_pair {A B} (ca : codec A) (cb : codec B) : codec (A * B) :=
  mkCodec (fun p => c_ser ca (fst p) ++ c_ser cb (snd p))
          (pair_de (c_de ca) (c_de cb))
          (fun p => c_wf ca (fst p) /\ c_wf cb (snd p))
          (fun p => c_to ca (fst p) ++ c_to cb (snd p))
          (pair_de (c_of ca) (c_of cb)).

(* ---------------- Option<T> ---------------- *)
Definition option_de {A} (da : list Z -> option (A * list Z)) (l : list Z) : option (option A * list Z) :=
  match l with
  | tag :: r =>
      if tag =? 0 then Some (None, r)
      else if tag =? 1 then match da r with Some (a, r') => Some (Some a, r') | None => None end
      else None
  | [] => None
  end.

Definition c_option {A} (ca : codec A) : codec (option A) :=
  mkCodec (fun o => match o with None => [0] | Some a => 1 :: c_ser ca a end)
          (option_de (c_de ca))
          (fun o => match o with None => True | Some a => c_wf ca a end)
          (fun o => match o with None => [0] | Some a => 1 :: c_to ca a end)
          (option_de (c_of ca)).

(* ---------------- Vec<T> (T not u8, every T takes at least one byte) ---------------- *)
Fixpoint items_de {A} (da : list Z -> option (A * list Z)) (n : nat) (l : list Z) : option (list A * list Z) :=
  match n with
  | O => Some ([], l)
  | S m =>
      match da l with
      | Some (a, r) => match items_de da m r with Some (t, r') => Some (a :: t, r') | None => None end
      | None => None
      end
  end.

(* the count is checked against the remaining input before iterating: every item needs at least
   one byte, so borsh's item loop hits the end of input exactly when the count exceeds it *)
Definition vec_de {A} (da : list Z -> option (A * list Z)) (l : list Z) : option (list A * list Z) :=
  match uint_de 4 l with
  | Some (n, r) => if zlen r <? n then None else items_de da (Z.to_nat n) r
  | None => None
  end.

Definition vec_of {A} (da : list Z -> option (A * list Z)) (l : list Z) : option (list A * list Z) :=
  match l with
  | n :: r => if (n <? 0) || (zlen r <? n) then None else items_de da (Z.to_nat n) r
  | [] => None
  end.

Definition c_vec {A} (ca : codec A) : codec (list A) :=
  mkCodec (fun l => le_bytes 4 (zlen l) ++ concat (map (c_ser ca) l))
          (vec_de (c_de ca))
          (fun l => Forall (c_wf ca) l /\ zlen l < U32_LIMIT)
          (fun l => zlen l :: concat (map (c_to ca) l))
          (vec_of (c_of ca)).

(* ---------------- the five account types of the harness (harness/src/bin/vh_c15.rs) ---------------- *)
(* struct Fx { a: u64, b: u32, c: u8, d: bool } *)
Definition TFx : Type := Z * (Z * (Z * bool)).
Definition c_fx : codec TFx := c_pair (c_uint 8) (c_pair (c_uint 4) (c_pair (c_uint 1) c_bool)).
(* struct Bv { vec: Vec<u8> }  (example_programs/account_test MyBorshAccount) *)
Definition c_bv : codec (list Z) := c_bytes.
(* struct St { name: String } *)
Definition c_st : codec (list Z) := c_string.
(* struct Ns { id: u32, inner: In { flag: bool, label: String }, items: Vec<It { k: u16, v: Vec<u8> }>, opt: Option<u64> } *)
Definition TNs : Type := Z * ((bool * list Z) * (list (Z * list Z) * option Z)).
Definition c_it : codec (Z * list Z) := c_pair (c_uint 2) c_bytes.
Definition c_ns : codec TNs :=
  c_pair (c_uint 4) (c_pair (c_pair c_bool c_string) (c_pair (c_vec c_it) (c_option (c_uint 8)))).
(* struct Sb { set: BTreeSet<u8> }  (a type with non-canonical accepted encodings) *)
Definition c_sb : codec (list Z) := c_set.
