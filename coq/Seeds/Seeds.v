(* C10 - seeded accounts: executable model (no proofs here).

   Mirrors
     solana-address 1.0.0 src/syscalls.rs   create_program_address 393-447, try_find_program_address 302-345,
                                            find_program_address 279-282   (off-chain branch; the on-chain syscall has the same contract)
     star_frame/src/account_set/modifiers/seeded.rs
                                            GetSeeds (blanket impl 51-58), Seed 60-70, SeedsWithBump::seeds_with_bump 83-94,
                                            validate_and_set_seeds 241-255, validate_and_set_seeds_with_bump 257-275,
                                            access_seeds 283-285, signer_seeds 294-296
     star_frame_proc/src/get_seeds.rs       derived seeds() 143-159
     star_frame/src/client.rs               FindProgramAddress 58-72

   SHA-256 and the ed25519 curve test are NOT modelled: everything lives in a Section over
     H        : preimage bytes -> 32 hash bytes       (nothing is assumed of it)
     on_curve : hash bytes -> bool                    (nothing is assumed of it)
   The runner instantiates them by lookup in the oracle table shipped with each case. *)
From SF Require Import Base.Prelude Gen.Generated.

(* b"ProgramDerivedAddress"  (solana-address lib.rs 59) *)
Definition PDA_MARKER : list Z :=
  [80;114;111;103;114;97;109;68;101;114;105;118;101;100;65;100;100;114;101;115;115].
Definition MAX_SEEDS : Z := 16.      (* lib.rs 53 *)
Definition MAX_SEED_LEN : Z := 32.   (* lib.rs 51 *)

Fixpoint bytes_eqb (a b : list Z) : bool :=
  match a, b with
  | [], [] => true
  | x :: a', y :: b' => (x =? y) && bytes_eqb a' b'
  | _, _ => false
  end.

Definition is_nil {A} (l : list A) : bool := match l with [] => true | _ => false end.

(* SeedsWithBump::seeds_with_bump (seeded.rs 83-94): a trailing EMPTY seed is replaced by the bump,
   otherwise the bump is pushed. *)
Fixpoint with_bump (l : list (list Z)) (b : Z) : list (list Z) :=
  match l with
  | [] => [[b]]
  | x :: r =>
      match r with
      | [] => if is_nil x then [[b]] else [x; [b]]
      | _ :: _ => x :: with_bump r b
      end
  end.

(* ---- derived GetSeeds (get_seeds.rs 143-159) ------------------------------------------------ *)
(* field values of a seed struct; `Seed::seed` = bytemuck::bytes_of (seeded.rs 63-70):
   Pubkey = its 32 raw bytes, an integer = little-endian bytes of its width (two's complement for a
   negative value: le_bytes uses floor division), [u8; N] = the raw bytes *)
Inductive fval :=
| VKey (k : list Z)
| VInt (w : nat) (n : Z)
| VBytes (bs : list Z).

Definition field_seed (v : fval) : list Z :=
  match v with
  | VKey k => k
  | VInt w n => le_bytes w n
  | VBytes bs => bs
  end.

Record sstruct := mkS { s_const : option (list Z); s_fields : list fval }.

Definition const_seed (c : option (list Z)) : list (list Z) :=
  match c with Some x => [x] | None => [] end.

(* vec![ seed_const?, self.f1.seed(), ..., self.fn.seed(), &[] ] *)
Definition seeds_of (S : sstruct) : list (list Z) :=
  const_seed (s_const S) ++ map field_seed (s_fields S) ++ [[]].

Section PDA.
  Variable H : list Z -> list Z.
  Variable on_curve : list Z -> bool.

  (* Pubkey::create_program_address (syscalls.rs 393-434) *)
  Definition create_pda (seeds : list (list Z)) (pid : list Z) : out (list Z) :=
    if MAX_SEEDS <? zlen seeds then Err PE_MAX_SEED_LENGTH_EXCEEDED
    else if existsb (fun s => MAX_SEED_LEN <? zlen s) seeds then Err PE_MAX_SEED_LENGTH_EXCEEDED
    else
      let h := H (concat seeds ++ pid ++ PDA_MARKER) in
      if on_curve h then Err PE_INVALID_SEEDS else Ok h.

  (* try_find_program_address (syscalls.rs 309-326): `for _ in 0..u8::MAX` = 255 iterations starting
     at bump 255 (bump 0 is never tried); any error other than InvalidSeeds ends the search *)
  Fixpoint try_find (fuel : nat) (bump : Z) (seeds : list (list Z)) (pid : list Z) : option (list Z * Z) :=
    match fuel with
    | O => None
    | S k =>
        match create_pda (seeds ++ [[bump]]) pid with
        | Ok a => Some (a, bump)
        | Err c => if c =? PE_INVALID_SEEDS then try_find k (bump - 1) seeds pid else None
        | _ => None
        end
    end.
  Definition find_pda (seeds : list (list Z)) (pid : list Z) : option (list Z * Z) :=
    try_find 255 255 seeds pid.
  (* find_program_address = try_find...unwrap_or_else(panic) (syscalls.rs 279-282) *)
  Definition find_program_address (seeds : list (list Z)) (pid : list Z) : out (list Z * Z) :=
    match find_pda seeds pid with Some r => Ok r | None => Panic end.

  (* the create_program_address result of every candidate the search looks at, in order (what the
     harness prints as the oracle rows of the case) *)
  Fixpoint find_trace (fuel : nat) (bump : Z) (seeds : list (list Z)) (pid : list Z) : list (out (list Z)) :=
    match fuel with
    | O => []
    | S k =>
        let r := create_pda (seeds ++ [[bump]]) pid in
        r :: match r with
             | Err c => if c =? PE_INVALID_SEEDS then find_trace k (bump - 1) seeds pid else []
             | _ => []
             end
    end.

  (* Seeded.seeds : Option<SeedsWithBump<S>>; the seed value S is represented by what S.seeds() returns *)
  Definition sstate := option (list (list Z) * Z).

  (* seeded.rs 241-255; `l` = seeds.seeds(), `pid` = P::id(ctx), `key` = the account's key *)
  Definition validate_and_set_seeds (st : sstate) (l : list (list Z)) (pid key : list Z) : out sstate :=
    match st with
    | Some _ => Ok st
    | None =>
        do r <- find_program_address l pid;
        if bytes_eqb (fst r) key then Ok (Some (l, snd r)) else Err EC_ADDRESS_MISMATCH
    end.

  (* seeded.rs 257-275 *)
  Definition validate_and_set_seeds_with_bump (st : sstate) (l : list (list Z)) (b : Z) (pid key : list Z)
    : out sstate :=
    match st with
    | Some _ => Ok st
    | None =>
        do addr <- create_pda (with_bump l b) pid;
        if bytes_eqb addr key then Ok (Some (l, b)) else Err EC_ADDRESS_MISMATCH
    end.

  (* access_seeds().seeds_with_bump()  (283-285: expect("Seeds not set!"), 294-296) *)
  Definition signer_seeds (st : sstate) : out (list (list Z)) :=
    match st with
    | Some (l, b) => Ok (with_bump l b)
    | None => Panic
    end.

  (* client.rs 58-72.  client_create is the REPAIRED helper (proposed/C10-client-bump.patch: same
     replace-a-trailing-empty-seed rule as on chain); client_create_shipped is the code before the fix,
     which pushes the bump after the trailing empty seed (finding D8). *)
  Definition client_find (l : list (list Z)) (cpid : list Z) : out (list Z * Z) := find_program_address l cpid.
  Definition client_create (l : list (list Z)) (b : Z) (cpid : list Z) : out (list Z) :=
    create_pda (with_bump l b) cpid.
  Definition client_create_shipped (l : list (list Z)) (b : Z) (cpid : list Z) : out (list Z) :=
    create_pda (l ++ [[b]]) cpid.
End PDA.

(* ------------------------------------------------------------------------------------------ *)
(* runner entry point                                                                          *)
(* case:  struct_id pid(32) cpid(32) prog_mode trailing has_const [clen c..] nfields {field} ncand {key(32) mode bump}
          nclient {bump} ntable {len pre.. hash(32) curve}
   field: 0 k(32) | 1 w n | 2 len b..                                                          *)
Definition bool_of_z (z : Z) : bool := negb (z =? 0).

Definition take (n : Z) (l : list Z) : list Z * list Z := (ztake n l, zdrop n l).

Fixpoint parse_fields (n : nat) (l : list Z) : list fval * list Z :=
  match n with
  | O => ([], l)
  | S k =>
      match l with
      | 0 :: r => let '(key, r1) := take 32 r in
                  let '(fs, r2) := parse_fields k r1 in (VKey key :: fs, r2)
      | 1 :: w :: n0 :: r => let '(fs, r2) := parse_fields k r in (VInt (Z.to_nat w) n0 :: fs, r2)
      | 2 :: len :: r => let '(bs, r1) := take len r in
                         let '(fs, r2) := parse_fields k r1 in (VBytes bs :: fs, r2)
      | _ => ([], [])
      end
  end.

Fixpoint parse_cands (n : nat) (l : list Z) : list (list Z * Z * Z) * list Z :=
  match n with
  | O => ([], l)
  | S k =>
      let '(key, r1) := take 32 l in
      match r1 with
      | mode :: bump :: r2 => let '(cs, r3) := parse_cands k r2 in ((key, mode, bump) :: cs, r3)
      | _ => ([], [])
      end
  end.

Fixpoint parse_table (n : nat) (l : list Z) : list (list Z * list Z * bool) :=
  match n with
  | O => []
  | S k =>
      match l with
      | len :: r =>
          let '(pre, r1) := take len r in
          let '(h, r2) := take 32 r1 in
          match r2 with
          | c :: r3 => (pre, h, bool_of_z c) :: parse_table k r3
          | [] => []
          end
      | [] => []
      end
  end.

Fixpoint lookup_h (t : list (list Z * list Z * bool)) (pre : list Z) : list Z :=
  match t with
  | [] => []
  | (p, h, _) :: r => if bytes_eqb p pre then h else lookup_h r pre
  end.
Fixpoint lookup_c (t : list (list Z * list Z * bool)) (h : list Z) : bool :=
  match t with
  | [] => false
  | (_, h', c) :: r => if bytes_eqb h' h then c else lookup_c r h
  end.

Definition seedvec (l : list (list Z)) : list Z := zlen l :: concat (map (fun s => zlen s :: s) l).
Definition out_addr (r : out (list Z)) : list Z :=
  match r with Ok a => 0 :: a | Err c => [1; c] | Panic => [2] | Fault => [3] end.
Definition bump_of (st : option (list (list Z) * Z)) : Z := match st with Some (_, b) => b | None => -1 end.

Definition run_c10 (input : list Z) : list Z :=
  let '(pid, r0) := take 32 (tl input) in
  let '(cpid, r1) := take 32 r0 in
  match r1 with
  | pmode :: trailing :: hasc :: r2 =>
      let '(c, r3) := if bool_of_z hasc
                      then match r2 with
                           | clen :: r => let '(cb, r') := take clen r in (Some cb, r')
                           | [] => (None, [])
                           end
                      else (None, r2) in
      match r3 with
      | nf :: r4 =>
          let '(fs, r5) := parse_fields (Z.to_nat nf) r4 in
          match r5 with
          | nc :: r6 =>
              let '(cands, r7) := parse_cands (Z.to_nat nc) r6 in
              match r7 with
              | ncl :: r8 =>
                  let '(cbumps, r9) := take ncl r8 in
                  match r9 with
                  | nt :: r10 =>
                      let tbl := parse_table (Z.to_nat nt) r10 in
                      let Hf := lookup_h tbl in
                      let oc := lookup_c tbl in
                      let l0 := seeds_of (mkS c fs) in
                      let l := if bool_of_z trailing then l0 else removelast l0 in
                      let spid := if bool_of_z pmode then cpid else pid in
                      let trace := find_trace Hf oc 255 255 l spid in
                      let cand_obs := fun '(key, mode, bump) =>
                        (* modes: 0 Seeds / 1 SeedsWithBump through Seeded's own validate; 2 / 3 the same two decisions reached
                           through Init<Seeded<Account<_>>> + CreateIfNeeded on an account that already exists *)
                        let r := if (mode =? 0) || (mode =? 3) then validate_and_set_seeds Hf oc None l spid key
                                 else validate_and_set_seeds_with_bump Hf oc None l bump spid key in
                        match r with
                        | Ok st =>
                            [0; bump_of st]
                            ++ match signer_seeds st with
                               | Ok ss => 0 :: seedvec ss ++ out_addr (create_pda Hf oc ss spid)
                               | _ => [2]
                               end
                            ++ match validate_and_set_seeds_with_bump Hf oc st l ((bump_of st + 1) mod 256) spid key with
                               | Ok st' => [0; bump_of st']
                               | Err e => [1; e]
                               | _ => [2]
                               end
                        (* a refused validation records nothing: through Seeded's own validate the harness asks again with the
                           same arguments and gets the same answer (the state is still None) *)
                        | Err e => if mode <? 2 then [1; e; 1; e] else [1; e]
                        | Panic => [2]
                        | Fault => [3]
                        end in
                      seedvec l
                      ++ zlen trace :: concat (map out_addr trace)
                      ++ concat (map cand_obs cands)
                      ++ match client_find Hf oc l cpid with
                         | Ok (a, b) => 0 :: a ++ [b]
                         | Err e => [1; e]
                         | _ => [2]
                         end
                      ++ concat (map (fun b => out_addr (client_create Hf oc l b cpid)) cbumps)
                  | [] => []
                  end
              | [] => []
              end
          | [] => []
          end
      | [] => []
      end
  | _ => []
  end.
