(* C10 - proofs about the seeded-account model (Seeds.v). Axiom-free; H and on_curve are Section
   variables of which nothing is assumed. *)
From SF Require Import Base.Prelude Gen.Generated Seeds.Seeds.

Lemma bytes_eqb_eq a b : bytes_eqb a b = true <-> a = b.
Proof.
  revert b; induction a as [|x a IH]; intros [|y b]; cbn [bytes_eqb]; split; intros Hx;
    try reflexivity; try discriminate.
  - apply andb_true_iff in Hx as [H1 H2]. apply Z.eqb_eq in H1. apply IH in H2. now subst.
  - inversion Hx; subst. rewrite Z.eqb_refl. cbn. now apply IH.
Qed.

Lemma bytes_eqb_refl a : bytes_eqb a a = true.
Proof. now apply bytes_eqb_eq. Qed.

(* ---- the trailing empty seed ---------------------------------------------------------------- *)
Lemma empty_elided (l r : list (list Z)) : concat (l ++ [[]] ++ r) = concat (l ++ r).
Proof. rewrite !concat_app. reflexivity. Qed.

Lemma with_bump_cons x y r b : with_bump (x :: y :: r) b = x :: with_bump (y :: r) b.
Proof. reflexivity. Qed.

Lemma with_bump_trailing l b : with_bump (l ++ [[]]) b = l ++ [[b]].
Proof.
  induction l as [|x l IH]; [reflexivity|].
  destruct l as [|y l].
  - reflexivity.
  - change ((x :: y :: l) ++ [[]]) with (x :: y :: (l ++ [[]])).
    rewrite with_bump_cons. change (y :: l ++ [[]]) with ((y :: l) ++ [[]]). rewrite IH. reflexivity.
Qed.

Lemma with_bump_nonempty_last l x b : x <> [] -> with_bump (l ++ [x]) b = l ++ [x; [b]].
Proof.
  intros Hx. induction l as [|y l IH].
  - cbn. destruct x; [contradiction|reflexivity].
  - destruct l as [|z l].
    + cbn [app] in *. rewrite with_bump_cons, IH. reflexivity.
    + change ((y :: z :: l) ++ [x]) with (y :: z :: (l ++ [x])).
      rewrite with_bump_cons. change (z :: l ++ [x]) with ((z :: l) ++ [x]). rewrite IH. reflexivity.
Qed.

Lemma list_last_cases {A} (l : list A) : l = [] \/ exists l' x, l = l' ++ [x].
Proof.
  induction l as [|y l IH]; [now left|right].
  destruct IH as [->|(l' & x & ->)].
  - now exists [], y.
  - now exists (y :: l'), x.
Qed.

Lemma with_bump_cases l b :
  (exists l', l = l' ++ [[]] /\ with_bump l b = l' ++ [[b]]) \/
  ((forall l', l <> l' ++ [[]]) /\ with_bump l b = l ++ [[b]]).
Proof.
  destruct (list_last_cases l) as [->|(l' & x & ->)].
  - right. split; [|reflexivity]. intros l' E. destruct l'; discriminate.
  - destruct x as [|x0 x].
    + left. exists l'. split; [reflexivity|apply with_bump_trailing].
    + right. split.
      * intros l'' E. apply app_inj_tail in E as [_ E]. discriminate.
      * rewrite with_bump_nonempty_last by discriminate. now rewrite <- app_assoc.
Qed.

Lemma zlen_elide (l r : list (list Z)) : zlen (l ++ [[]] ++ r) = zlen (l ++ r) + 1.
Proof. rewrite !zlen_app, zlen_cons, zlen_nil. lia. Qed.

Lemma existsb_elide (l r : list (list Z)) :
  existsb (fun s => MAX_SEED_LEN <? zlen s) (l ++ [[]] ++ r) = existsb (fun s => MAX_SEED_LEN <? zlen s) (l ++ r).
Proof. rewrite !existsb_app. cbn [existsb]. reflexivity. Qed.

Section PDA.
  Variable H : list Z -> list Z.
  Variable on_curve : list Z -> bool.
  Notation create_pda := (create_pda H on_curve).
  Notation try_find := (try_find H on_curve).
  Notation find_pda := (find_pda H on_curve).
  Notation find_program_address := (find_program_address H on_curve).
  Notation validate_and_set_seeds := (validate_and_set_seeds H on_curve).
  Notation validate_and_set_seeds_with_bump := (validate_and_set_seeds_with_bump H on_curve).
  Notation client_find := (client_find H on_curve).
  Notation client_create := (client_create H on_curve).
  Notation client_create_shipped := (client_create_shipped H on_curve).

  (* ---- create_program_address ------------------------------------------------------------- *)
  Lemma create_pda_ok seeds pid k :
    create_pda seeds pid = Ok k <->
    zlen seeds <= MAX_SEEDS /\ Forall (fun s => zlen s <= MAX_SEED_LEN) seeds /\
    k = H (concat seeds ++ pid ++ PDA_MARKER) /\ on_curve k = false.
  Proof.
    unfold create_pda.
    destruct (MAX_SEEDS <? zlen seeds) eqn:E1.
    { split; [discriminate|]. intros (Hn & _). zb. lia. }
    destruct (existsb (fun s => MAX_SEED_LEN <? zlen s) seeds) eqn:E2.
    { split; [discriminate|]. intros (_ & Hf & _). apply existsb_exists in E2 as (s & Hin & Hs).
      rewrite Forall_forall in Hf. specialize (Hf s Hin). zb. lia. }
    cbv zeta. destruct (on_curve (H (concat seeds ++ pid ++ PDA_MARKER))) eqn:E3.
    { split; [discriminate|]. intros (_ & _ & -> & Hc). congruence. }
    split.
    - intros [= <-]. zb. repeat split; auto; try lia.
      apply Forall_forall. intros s Hin.
      destruct (MAX_SEED_LEN <? zlen s) eqn:E4; zb; [|lia].
      exfalso. assert (existsb (fun s => MAX_SEED_LEN <? zlen s) seeds = true).
      { apply existsb_exists. exists s. split; auto. now apply Z.ltb_lt. }
      congruence.
    - intros (_ & _ & -> & _). reflexivity.
  Qed.

  (* every outcome of create_program_address *)
  Lemma create_pda_outcomes seeds pid :
    (exists k, create_pda seeds pid = Ok k) \/ create_pda seeds pid = Err PE_MAX_SEED_LENGTH_EXCEEDED \/
    create_pda seeds pid = Err PE_INVALID_SEEDS.
  Proof.
    unfold create_pda.
    destruct (MAX_SEEDS <? zlen seeds); [now right; left|].
    destruct (existsb _ seeds); [now right; left|].
    cbv zeta. destruct (on_curve _); [now right; right|left; eauto].
  Qed.

  (* an empty seed only counts toward the 16-seed limit *)
  Lemma create_elide l r pid :
    zlen (l ++ [[]] ++ r) <= MAX_SEEDS -> create_pda (l ++ [[]] ++ r) pid = create_pda (l ++ r) pid.
  Proof.
    intros Hn. unfold create_pda. rewrite existsb_elide, empty_elided.
    pose proof (zlen_elide l r).
    destruct (MAX_SEEDS <? zlen (l ++ [[]] ++ r)) eqn:E1; zb; [lia|].
    destruct (MAX_SEEDS <? zlen (l ++ r)) eqn:E2; zb; [lia|]. reflexivity.
  Qed.

  Lemma create_elide_ok l r pid k :
    create_pda (l ++ [[]] ++ r) pid = Ok k -> create_pda (l ++ r) pid = Ok k.
  Proof.
    intros Hc. rewrite <- create_elide; auto.
    apply create_pda_ok in Hc. tauto.
  Qed.

  (* what validation with a bump derives is what `find` looked at *)
  Lemma create_with_bump l b pid k :
    create_pda (l ++ [[b]]) pid = Ok k -> create_pda (with_bump l b) pid = Ok k.
  Proof.
    intros Hc. destruct (with_bump_cases l b) as [(l' & -> & ->)|(_ & ->)]; auto.
    rewrite <- app_assoc in Hc. now apply create_elide_ok in Hc.
  Qed.

  (* ---- find_program_address --------------------------------------------------------------- *)
  Lemma try_find_spec n top l pid k b :
    try_find n top l pid = Some (k, b) <->
    top - Z.of_nat n < b <= top /\ create_pda (l ++ [[b]]) pid = Ok k /\
    forall b', b < b' <= top -> create_pda (l ++ [[b']]) pid = Err PE_INVALID_SEEDS.
  Proof.
    revert top; induction n as [|n IH]; intros top.
    - cbn [try_find]. split; [discriminate|]. intros (Hb & _). lia.
    - cbn [try_find]. destruct (create_pda (l ++ [[top]]) pid) as [a|c| |] eqn:E.
      + split.
        * intros [= <- <-]. split; [lia|]. split; auto. intros b' Hb'. lia.
        * intros (Hb & Hk & Hall). destruct (Z.eq_dec b top) as [->|Hne].
          { congruence. }
          rewrite (Hall top) in E by lia. discriminate.
      + destruct (c =? PE_INVALID_SEEDS) eqn:Ec.
        * apply Z.eqb_eq in Ec. subst c. rewrite IH. split.
          { intros (Hb & Hk & Hall). split; [lia|]. split; auto.
            intros b' Hb'. destruct (Z.eq_dec b' top) as [->|Hne]; auto. apply Hall. lia. }
          { intros (Hb & Hk & Hall). destruct (Z.eq_dec b top) as [->|Hne]; [congruence|].
            split; [lia|]. split; auto. intros b' Hb'. apply Hall. lia. }
        * apply Z.eqb_neq in Ec. split; [discriminate|].
          intros (Hb & Hk & Hall). destruct (Z.eq_dec b top) as [->|Hne]; [congruence|].
          rewrite (Hall top) in E by lia. congruence.
      + split; [discriminate|]. intros (Hb & Hk & Hall).
        destruct (Z.eq_dec b top) as [->|Hne]; [congruence|]. rewrite (Hall top) in E by lia. discriminate.
      + split; [discriminate|]. intros (Hb & Hk & Hall).
        destruct (Z.eq_dec b top) as [->|Hne]; [congruence|]. rewrite (Hall top) in E by lia. discriminate.
  Qed.

  (* the canonical address: the highest bump in 255..1 whose hash is off the curve *)
  Theorem find_spec l pid k b :
    find_pda l pid = Some (k, b) <->
    1 <= b <= 255 /\ create_pda (l ++ [[b]]) pid = Ok k /\
    forall b', b < b' <= 255 -> create_pda (l ++ [[b']]) pid = Err PE_INVALID_SEEDS.
  Proof.
    unfold find_pda. rewrite try_find_spec. change (Z.of_nat 255) with 255.
    split; intros (Hb & Hr); (split; [lia|exact Hr]).
  Qed.

  Lemma try_find_ext n top l l' pid :
    (forall b, create_pda (l ++ [[b]]) pid = create_pda (l' ++ [[b]]) pid) ->
    try_find n top l pid = try_find n top l' pid.
  Proof.
    intros He. revert top; induction n as [|n IH]; intros top; cbn [try_find]; [reflexivity|].
    rewrite He. destruct (create_pda (l' ++ [[top]]) pid); auto.
    destruct (_ =? _); auto.
  Qed.

  (* the trailing empty seed does not change the canonical address while the seed count permits *)
  Theorem find_elide l pid : zlen l <= 14 -> find_pda (l ++ [[]]) pid = find_pda l pid.
  Proof.
    intros Hn. unfold find_pda. apply try_find_ext. intros b.
    rewrite <- app_assoc. apply create_elide.
    rewrite !zlen_app, !zlen_cons, !zlen_nil. unfold MAX_SEEDS. lia.
  Qed.

  (* the seed-count limit of the find path: 16 entries (15 real seeds and the trailing empty one) *)
  Theorem find_limit l pid : 16 <= zlen l -> find_pda l pid = None.
  Proof.
    intros Hn. unfold find_pda. cbn [try_find]. unfold create_pda.
    rewrite zlen_app, zlen_cons, zlen_nil.
    destruct (MAX_SEEDS <? zlen l + (1 + 0)) eqn:E; zb; [|unfold MAX_SEEDS in *; lia].
    reflexivity.
  Qed.

  (* ---- validation ---------------------------------------------------------------------------- *)
  Theorem seeds_ok l pid key b :
    validate_and_set_seeds None l pid key = Ok (Some (l, b)) <-> find_pda l pid = Some (key, b).
  Proof.
    unfold validate_and_set_seeds, Seeds.find_program_address.
    destruct (find_pda l pid) as [[a b0]|] eqn:E; cbn [obind fst snd].
    - destruct (bytes_eqb a key) eqn:Eq.
      + apply bytes_eqb_eq in Eq. subst a. split; intros [= ->]; reflexivity.
      + split; [discriminate|]. intros [= -> ->]. now rewrite bytes_eqb_refl in Eq.
    - split; discriminate.
  Qed.

  (* every outcome of validation with Seeds(S) *)
  Theorem seeds_outcomes l pid key :
    match validate_and_set_seeds None l pid key with
    | Ok st => exists b, st = Some (l, b) /\ find_pda l pid = Some (key, b)
    | Err c => c = EC_ADDRESS_MISMATCH /\ exists a b, find_pda l pid = Some (a, b) /\ a <> key
    | Panic => find_pda l pid = None
    | Fault => False
    end.
  Proof.
    unfold validate_and_set_seeds, Seeds.find_program_address.
    destruct (find_pda l pid) as [[a b0]|] eqn:E; cbn [obind fst snd]; auto.
    destruct (bytes_eqb a key) eqn:Eq.
    - apply bytes_eqb_eq in Eq. subst. eauto.
    - split; auto. exists a, b0. split; auto. intros ->. now rewrite bytes_eqb_refl in Eq.
  Qed.

  Theorem bump_ok l b pid key :
    validate_and_set_seeds_with_bump None l b pid key = Ok (Some (l, b)) <->
    create_pda (with_bump l b) pid = Ok key.
  Proof.
    unfold validate_and_set_seeds_with_bump.
    destruct (create_pda (with_bump l b) pid) as [a|c| |] eqn:E; cbn [obind]; try (split; discriminate).
    destruct (bytes_eqb a key) eqn:Eq.
    - apply bytes_eqb_eq in Eq. subst. split; reflexivity.
    - split; [discriminate|]. intros [= ->]. now rewrite bytes_eqb_refl in Eq.
  Qed.

  Theorem bump_outcomes l b pid key :
    match validate_and_set_seeds_with_bump None l b pid key with
    | Ok st => st = Some (l, b) /\ create_pda (with_bump l b) pid = Ok key
    | Err c => (c = EC_ADDRESS_MISMATCH /\ exists a, create_pda (with_bump l b) pid = Ok a /\ a <> key) \/
               create_pda (with_bump l b) pid = Err c
    | _ => False
    end.
  Proof.
    unfold validate_and_set_seeds_with_bump.
    destruct (create_pda_outcomes (with_bump l b) pid) as [(a & ->)|[-> | ->]]; cbn [obind]; auto.
    destruct (bytes_eqb a key) eqn:Eq.
    - apply bytes_eqb_eq in Eq. subst. auto.
    - left. split; auto. exists a. split; auto. intros ->. now rewrite bytes_eqb_refl in Eq.
  Qed.

  (* a second validation never replaces recorded seeds (seeded.rs 242-244, 262-264) *)
  Theorem validated_once st0 l b pid key :
    validate_and_set_seeds (Some st0) l pid key = Ok (Some st0) /\
    validate_and_set_seeds_with_bump (Some st0) l b pid key = Ok (Some st0).
  Proof. split; reflexivity. Qed.

  (* after either validation the recorded bump and the signer seeds recreate the account's key *)
  Theorem signer_agrees l b pid key st :
    validate_and_set_seeds None l pid key = Ok st \/
    validate_and_set_seeds_with_bump None l b pid key = Ok st ->
    exists ss, signer_seeds st = Ok ss /\ create_pda ss pid = Ok key.
  Proof.
    intros [Hv|Hv].
    - pose proof (seeds_outcomes l pid key) as Ho. rewrite Hv in Ho.
      destruct Ho as (b0 & -> & Hf). apply find_spec in Hf as (_ & Hc & _).
      exists (with_bump l b0). split; [reflexivity|]. now apply create_with_bump.
    - pose proof (bump_outcomes l b pid key) as Ho. rewrite Hv in Ho.
      destruct Ho as (-> & Hc). exists (with_bump l b). split; [reflexivity|exact Hc].
  Qed.

  (* ---- client helpers (client.rs 58-72) ------------------------------------------------------ *)
  (* the (repaired) client helpers compute what validation recorded: after validation with Seeds(S)
     the client's find returns the account key and the recorded bump, and after either validation the
     client's create with the recorded bump returns the account key *)
  Theorem client_agrees l b pid key st :
    (validate_and_set_seeds None l pid key = Ok st ->
       exists b0, st = Some (l, b0) /\ client_find l pid = Ok (key, b0) /\ client_create l b0 pid = Ok key) /\
    (validate_and_set_seeds_with_bump None l b pid key = Ok st ->
       st = Some (l, b) /\ client_create l b pid = Ok key).
  Proof.
    split; intros Hv.
    - pose proof (seeds_outcomes l pid key) as Ho. rewrite Hv in Ho.
      destruct Ho as (b0 & -> & Hf). exists b0. split; [reflexivity|]. split.
      + unfold Seeds.client_find, Seeds.find_program_address. now rewrite Hf.
      + apply find_spec in Hf as (_ & Hc & _). now apply create_with_bump.
    - pose proof (bump_outcomes l b pid key) as Ho. rewrite Hv in Ho. exact Ho.
  Qed.

  (* as functions, too: both sides make the same library call on the same list *)
  Theorem client_same_calls l b pid :
    client_find l pid = find_program_address l pid /\ client_create l b pid = create_pda (with_bump l b) pid.
  Proof. split; reflexivity. Qed.

  (* the helper as shipped (bump pushed after the trailing empty seed) agrees only below the limit ... *)
  Theorem client_shipped_agrees l b pid :
    zlen l <= 15 -> client_create_shipped l b pid = client_create l b pid.
  Proof.
    intros Hn. unfold Seeds.client_create_shipped, Seeds.client_create.
    destruct (with_bump_cases l b) as [(l' & -> & ->)|(_ & ->)]; auto.
    rewrite <- app_assoc. apply create_elide.
    rewrite zlen_app, zlen_cons, zlen_nil in Hn.
    rewrite !zlen_app, !zlen_cons, !zlen_nil. unfold MAX_SEEDS. lia.
  Qed.

  (* ... and at the limit (15 real seeds + the trailing empty one) it fails where validation succeeds: D8 *)
  Theorem client_shipped_refuted l' b pid :
    zlen l' = 15 -> Forall (fun s => zlen s <= MAX_SEED_LEN) l' -> 0 <= b < 256 ->
    client_create_shipped (l' ++ [[]]) b pid = Err PE_MAX_SEED_LENGTH_EXCEEDED /\
    (on_curve (H (concat (l' ++ [[b]]) ++ pid ++ PDA_MARKER)) = false ->
     exists key, validate_and_set_seeds_with_bump None (l' ++ [[]]) b pid key = Ok (Some (l' ++ [[]], b)) /\
                 signer_seeds (Some (l' ++ [[]], b)) = Ok (l' ++ [[b]]) /\
                 create_pda (l' ++ [[b]]) pid = Ok key).
  Proof.
    intros Hn Hf Hb. split.
    - unfold Seeds.client_create_shipped, Seeds.create_pda.
      rewrite !zlen_app, !zlen_cons, !zlen_nil, Hn. reflexivity.
    - intros Hc. set (key := H (concat (l' ++ [[b]]) ++ pid ++ PDA_MARKER)).
      assert (Hk : create_pda (l' ++ [[b]]) pid = Ok key).
      { apply create_pda_ok. split; [|split; [|split]]; auto.
        - rewrite zlen_app, zlen_cons, zlen_nil, Hn. unfold MAX_SEEDS. lia.
        - apply Forall_app. split; auto. constructor; [|constructor].
          rewrite zlen_cons, zlen_nil. unfold MAX_SEED_LEN. lia. }
      exists key. split; [|split]; auto.
      + apply bump_ok. now rewrite with_bump_trailing.
      + cbn [signer_seeds]. now rewrite with_bump_trailing.
  Qed.
End PDA.

(* ---- derived seeds: order, constant prefix, field encodings -------------------------------- *)
Theorem field_encoding S :
  seeds_of S = const_seed (s_const S) ++ map field_seed (s_fields S) ++ [[]] /\
  (forall i v, nth_error (s_fields S) i = Some v ->
     nth_error (seeds_of S) (length (const_seed (s_const S)) + i) = Some (field_seed v)) /\
  (forall c, s_const S = Some c -> nth_error (seeds_of S) 0 = Some c) /\
  (forall b, with_bump (seeds_of S) b = const_seed (s_const S) ++ map field_seed (s_fields S) ++ [[b]]).
Proof.
  split; [reflexivity|]. split; [|split].
  - intros i v Hi. unfold seeds_of.
    rewrite nth_error_app2 by lia. replace (_ + i - _)%nat with i by lia.
    rewrite nth_error_app1.
    + now rewrite nth_error_map, Hi.
    + rewrite map_length. apply nth_error_Some. congruence.
  - intros c Hc. unfold seeds_of. rewrite Hc. reflexivity.
  - intros b. unfold seeds_of. rewrite app_assoc, with_bump_trailing, <- app_assoc. reflexivity.
Qed.

(* integers are little-endian of their width, keys and byte arrays are raw; the encoding of a field is
   lossless for a given field type *)
Definition same_ty (v v' : fval) : Prop :=
  match v, v' with
  | VKey _, VKey _ => True
  | VInt w n, VInt w' n' => w = w' /\ 0 <= n < 256 ^ Z.of_nat w /\ 0 <= n' < 256 ^ Z.of_nat w
  | VBytes a, VBytes b => True
  | _, _ => False
  end.

Theorem int_seed_le w n :
  length (field_seed (VInt w n)) = w /\ bytes_ok (field_seed (VInt w n)) = true /\
  (0 <= n < 256 ^ Z.of_nat w -> le_decode (field_seed (VInt w n)) = n).
Proof.
  cbn [field_seed]. split; [apply le_bytes_length|]. split; [apply le_bytes_ok|apply le_decode_le_bytes].
Qed.

Theorem field_seed_inj v v' : same_ty v v' -> field_seed v = field_seed v' -> v = v'.
Proof.
  destruct v, v'; cbn [same_ty field_seed]; try contradiction; try (intros _ ->; reflexivity).
  intros (<- & Hn & Hn') He. f_equal.
  rewrite <- (le_decode_le_bytes w n Hn), <- (le_decode_le_bytes w n0 Hn'). now rewrite He.
Qed.

Theorem seeds_of_inj S S' :
  s_const S = s_const S' -> Forall2 same_ty (s_fields S) (s_fields S') ->
  seeds_of S = seeds_of S' -> S = S'.
Proof.
  destruct S as [c fs], S' as [c' fs']. cbn [s_const s_fields]. intros <- Hf He.
  f_equal. unfold seeds_of in He. cbn [s_const s_fields] in He.
  apply app_inv_head in He. apply app_inv_tail in He.
  induction Hf as [|v v' fs fs' Hv Hf IH]; [reflexivity|].
  cbn [map] in He. inversion He as [[H1 H2]]. f_equal; [now apply field_seed_inj|now apply IH].
Qed.
