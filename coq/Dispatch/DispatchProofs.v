(* C11 - proofs about dispatch (model: Dispatch.v). *)
From SF Require Import Base.Prelude Gen.Generated Dispatch.Dispatch.
Open Scope Z_scope.

Lemma bytes_eqb_eq a b : bytes_eqb a b = true <-> a = b.
Proof.
  unfold bytes_eqb. split.
  - revert b. induction a as [|x a IH]; intros [|y b] H; cbn in H; try discriminate; [reflexivity|].
    apply andb_true_iff in H as [Hl H]. apply andb_true_iff in H as [Hxy H].
    apply Z.eqb_eq in Hxy. subst y. f_equal. apply IH.
    apply andb_true_iff. split; assumption.
  - intros <-. apply andb_true_iff. split; [apply Nat.eqb_refl|].
    induction a as [|x a IH]; cbn; [reflexivity|]. rewrite Z.eqb_refl. exact IH.
Qed.

Lemma find_arm_some ds d : forall k i,
  find_arm ds d k = Some i ->
  exists j, i = (k + j)%nat /\ nth_error ds j = Some d.
Proof.
  induction ds as [|c ds IH]; intros k i H; cbn [find_arm] in H; [discriminate|].
  destruct (bytes_eqb c d) eqn:E.
  - inversion H; subst. apply bytes_eqb_eq in E. subst. exists 0%nat. split; [lia|reflexivity].
  - destruct (IH _ _ H) as [j [Hi Hj]]. exists (S j). split; [lia|exact Hj].
Qed.

Lemma find_arm_none ds d : forall k, find_arm ds d k = None -> ~ In d ds.
Proof.
  induction ds as [|c ds IH]; intros k H; cbn [find_arm] in H; [intros []|].
  destruct (bytes_eqb c d) eqn:E; [discriminate|].
  intros [->|Hin].
  - assert (bytes_eqb d d = true) by now apply bytes_eqb_eq. congruence.
  - exact (IH _ H Hin).
Qed.

Lemma find_arm_in ds d : forall k, In d ds -> exists i, find_arm ds d k = Some i.
Proof.
  intros k Hin. destruct (find_arm ds d k) eqn:E; [eauto|]. exfalso. exact (find_arm_none _ _ _ E Hin).
Qed.

(* exactly the variant whose constant prefixes the data is selected; the rest of the data is passed on *)
Theorem dispatch_exact : forall w align1 ds aligned data,
  NoDup ds -> Forall (fun d => length d = w) ds -> align1 || aligned = true ->
  forall i, (i < length ds)%nat ->
    (dispatch w align1 ds aligned data = Ok (i, skipn w data) <-> firstn w data = nth i ds []).
Proof.
  intros w align1 ds aligned data Hnd Hlen Hal i Hi.
  assert (Hne : ds <> []) by (intros ->; cbn in Hi; lia).
  unfold dispatch. destruct ds as [|d0 ds0] eqn:Eds; [congruence|]. rewrite <- Eds in *. clear Hne.
  rewrite Hal. cbn [negb].
  split.
  - intros H. destruct (length data <? w)%nat eqn:El; [discriminate|].
    destruct (find_arm ds (firstn w data) 0) as [j|] eqn:Ef; [|discriminate].
    inversion H; subst j. destruct (find_arm_some _ _ _ _ Ef) as [j [Hj Hn]]. cbn in Hj. subst j.
    symmetry. now apply nth_error_nth.
  - intros H.
    assert (Hw : length (firstn w data) = w).
    { rewrite H. rewrite Forall_forall in Hlen. apply Hlen. now apply nth_In. }
    rewrite firstn_length in Hw.
    assert (El : (length data <? w)%nat = false) by (apply Nat.ltb_ge; lia).
    rewrite El.
    assert (Hin : In (firstn w data) ds) by (rewrite H; now apply nth_In).
    destruct (find_arm_in _ _ 0%nat Hin) as [j Ej]. rewrite Ej.
    destruct (find_arm_some _ _ _ _ Ej) as [j' [Hj Hn]]. cbn in Hj. subst j'.
    assert (Hni : nth_error ds i = Some (firstn w data)).
    { rewrite H. now apply nth_error_nth'. }
    assert (j = i).
    { rewrite NoDup_nth_error in Hnd. symmetry. apply Hnd; [exact Hi|congruence]. }
    now subst.
Qed.

(* anything else is rejected with an error; dispatch never panics *)
Theorem dispatch_total : forall w align1 ds aligned data,
  (exists i, (i < length ds)%nat /\ dispatch w align1 ds aligned data = Ok (i, skipn w data) /\
             firstn w data = nth i ds [] /\ (w <= length data)%nat) \/
  (exists c, dispatch w align1 ds aligned data = Err c /\
     (c = PE_INVALID_INSTRUCTION_DATA \/ c = EC_ADVANCE_ERROR \/ c = EC_POD_CAST_ERROR)).
Proof.
  intros w align1 ds aligned data. unfold dispatch.
  destruct ds as [|d0 ds0] eqn:Eds; [right; eauto|]. rewrite <- Eds.
  destruct (length data <? w)%nat eqn:El; [right; eauto|].
  destruct (negb (align1 || aligned)); [right; eauto 6|].
  destruct (find_arm ds (firstn w data) 0) as [j|] eqn:Ef; [|right; eauto].
  left. destruct (find_arm_some _ _ _ _ Ef) as [j' [Hj Hn]]. cbn in Hj. subst j'.
  exists j. apply Nat.ltb_ge in El.
  assert (Hjl : (j < length ds)%nat) by (apply nth_error_Some; congruence).
  repeat split; auto. symmetry. now apply nth_error_nth.
Qed.

Theorem dispatch_reject : forall w align1 ds aligned data,
  (forall i, (i < length ds)%nat -> firstn w data <> nth i ds []) ->
  exists c, dispatch w align1 ds aligned data = Err c.
Proof.
  intros w align1 ds aligned data Hno.
  destruct (dispatch_total w align1 ds aligned data) as [[i [Hi [_ [Hm _]]]]|[c [Hc _]]].
  - exfalso. exact (Hno i Hi Hm).
  - eauto.
Qed.

(* discriminants *)
Lemma repr_disc_length w v : length (repr_disc w v) = w.
Proof. apply le_bytes_length. Qed.

Lemma enum_discs_length vs : forall n, length (enum_discs vs n) = length vs.
Proof. induction vs as [|v vs IH]; intros n; cbn [enum_discs length]; auto. Qed.

Lemma enum_discs_implicit : forall k n, enum_discs (repeat None k) n = map (fun i => n + Z.of_nat i) (seq 0 k).
Proof.
  induction k as [|k IH]; intros n; [reflexivity|].
  cbn [repeat enum_discs seq map]. rewrite IH. f_equal; [lia|].
  rewrite <- seq_shift, map_map. apply map_ext. intros i. lia.
Qed.

Lemma sighash_length H name : (8 <= length (H (sighash_preimage name)))%nat -> length (sighash H name) = 8%nat.
Proof. intros Hl. unfold sighash. rewrite firstn_length. lia. Qed.
