(* C11 - the order in which derive(AccountSet) validates the fields of a struct
   (star_frame_proc/src/account_set/struct_impl/validate.rs).  MODEL ONLY, no proofs.

   Fields are identified by natural numbers (the macro compares field NAMES, which are distinct in a Rust
   struct); `req f` is the list written in `#[validate(requires = [..])]` on field f.

   Two algorithms live here:
     order_shipped : the insertion procedure the macro shipped with (validate.rs 256-286 before the D4 fix),
                     transcribed statement by statement.  It is NOT a topological sort (C11_order_shipped_refuted).
     order_fixed   : the repaired procedure (proposed/C11-requires-toposort.patch): a stable topological sort,
                     "repeatedly emit the first remaining field, in declaration order, whose requirements have
                     all been emitted".  This is what `run_c11` executes and what the correspondence compares
                     with the real macro's expansion. *)
From SF Require Import Base.Prelude.
Open Scope nat_scope.

Definition memb (x : nat) (l : list nat) : bool := existsb (Nat.eqb x) l.

(* ------------------------------------------------------------------------------------------ *)
(* shipped algorithm.                                                                          *)
(*   let mut out = Vec::new();                                                                 *)
(*   for ((validate, required), field_name) in validates.zip(requires).zip(names).rev() {      *)
(*       let insert_index = out.iter().enumerate().rev()                                       *)
(*           .find(|(_, (_, name))| required.contains(name))     // find from the end          *)
(*           .map(|(index, _)| index + 1).unwrap_or(0);                                        *)
(*       out.insert(insert_index, (validate, field_name));                                     *)
(*   }                                                                                         *)

(* index of the LAST element of `out` (scanned from position i) that `required` contains *)
Fixpoint last_required_from (required out : list nat) (i : nat) (acc : option nat) : option nat :=
  match out with
  | [] => acc
  | name :: r => last_required_from required r (S i) (if memb name required then Some i else acc)
  end.

Definition insert_index (required out : list nat) : nat :=
  match last_required_from required out 0 None with
  | Some i => S i
  | None => 0
  end.

(* Vec::insert *)
Definition insert_at (i x : nat) (l : list nat) : list nat := firstn i l ++ x :: skipn i l.

Definition shipped_step (req : nat -> list nat) (out : list nat) (f : nat) : list nat :=
  insert_at (insert_index (req f) out) f out.

Definition order_shipped (req : nat -> list nat) (fields : list nat) : list nat :=
  fold_left (shipped_step req) (rev fields) [].

(* ------------------------------------------------------------------------------------------ *)
(* repaired algorithm (the patch):                                                             *)
(*   let mut pending = validates.zip(requires).zip(names).collect::<Vec<_>>();                 *)
(*   let mut placed = Vec::new();  let mut out = Vec::new();                                   *)
(*   while !pending.is_empty() {                                                               *)
(*       let next = pending.iter()                                                             *)
(*           .position(|((_, required), _)| required.iter().all(|r| placed.contains(r)))       *)
(*           .expect("`requires` cycles are rejected above");                                  *)
(*       let ((validate, _), name) = pending.remove(next);                                     *)
(*       placed.push(name);  out.push(validate);                                               *)
(*   }                                                                                         *)

Definition ready (req : nat -> list nat) (placed : list nat) (f : nat) : bool :=
  forallb (fun r => memb r placed) (req f).

(* position + remove: the first ready field and the remaining fields, in order *)
Fixpoint pick (req : nat -> list nat) (placed pending : list nat) : option (nat * list nat) :=
  match pending with
  | [] => None
  | f :: rest =>
    if ready req placed f then Some (f, rest)
    else match pick req placed rest with
         | Some (g, rest') => Some (g, f :: rest')
         | None => None
         end
  end.

(* the while loop; `fuel` = number of pending fields (each iteration removes one).  The `None` branch is the
   `expect`: unreachable after the macro's cycle check (validate.rs 162-177) and its "Field not found" abort
   (pick_none_cycle in ReqOrderProofs.v); there the macro panics at expansion time, i.e. nothing is compiled;
   the model returns the remaining fields in declaration order to stay total. *)
Fixpoint kahn (fuel : nat) (req : nat -> list nat) (placed pending : list nat) : list nat :=
  match fuel with
  | O => pending
  | S k =>
    match pick req placed pending with
    | Some (f, rest) => f :: kahn k req (placed ++ [f]) rest
    | None => pending
    end
  end.

Definition order_fixed (req : nat -> list nat) (fields : list nat) : list nat :=
  kahn (length fields) req [] fields.

(* ------------------------------------------------------------------------------------------ *)
(* specification vocabulary                                                                    *)

(* r occurs strictly before (an occurrence of) f in o *)
Definition before (r f : nat) (o : list nat) : Prop :=
  exists l1 l2, o = l1 ++ f :: l2 /\ In r l1.

(* boolean version, for Examples and for the runner's self-check *)
Fixpoint beforeb (r f : nat) (o : list nat) (seen_r : bool) : bool :=
  match o with
  | [] => false
  | x :: t => if Nat.eqb x f then seen_r else beforeb r f t (seen_r || Nat.eqb x r)
  end.

(* the `requires` relation restricted to the struct's fields: f requires r *)
Definition requires (fields : list nat) (req : nat -> list nat) (f r : nat) : Prop :=
  In f fields /\ In r (req f).

(* transitive closure, as an inductive with the step on the left *)
Inductive reaches (R : nat -> nat -> Prop) : nat -> nat -> Prop :=
| reach_one : forall a b, R a b -> reaches R a b
| reach_step : forall a b c, R a b -> reaches R b c -> reaches R a c.

(* what daggy's add_edge enforces edge by edge (WouldCycle): no field reaches itself *)
Definition acyclic (fields : list nat) (req : nat -> list nat) : Prop :=
  forall f, ~ reaches (requires fields req) f f.

(* the macro aborts with "Field not found" otherwise (validate.rs 170) *)
Definition closed (fields : list nat) (req : nat -> list nat) : Prop :=
  forall f r, In f fields -> In r (req f) -> In r fields.

Definition respects (fields : list nat) (req : nat -> list nat) (o : list nat) : Prop :=
  forall f r, In f fields -> In r (req f) -> before r f o.

(* req as an association list by position, the form the runner and the lifecycle model use *)
Definition req_of (rs : list (list nat)) (f : nat) : list nat := nth f rs [].
