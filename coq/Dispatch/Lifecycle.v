(* C11 - the instruction lifecycle.  MODEL ONLY, no proofs.

   star_frame/src/instruction/mod.rs 137-176 (`impl Instruction for T: StarFrameInstruction`),
   star_frame/src/program/mod.rs 33-41 (entrypoint), the templates of derive(AccountSet)
   (star_frame_proc/src/account_set/struct_impl/{decode,validate,cleanup}.rs),
   star_frame/src/errors.rs 218-225 + star_frame_proc/src/star_frame_error.rs 54-58 (error codes).

   Observation = (trace, outcome): the trace is the list of events written by the probes of the generated
   programs (every leaf account set, struct-level hook and handler logs one event and then fails if the event
   is armed); the outcome is `Ok` or `Err c` with c = u64::from(ProgramError::from(error)), the value the
   entrypoint hands back to the runtime. *)
From SF Require Import Base.Prelude Gen.Generated Dispatch.ReqOrder Dispatch.Dispatch.
Open Scope Z_scope.

(* ------------------------------------------------------------------------------------------ *)
(* generic short-circuiting sequence of phases (the `?` after each phase of process_from_raw)   *)
Definition phase (S : Type) : Type := S -> list Z * out S.

Fixpoint seq_phases {S : Type} (ps : list (phase S)) (s : S) : list Z * out S :=
  match ps with
  | [] => ([], Ok s)
  | p :: r =>
    match p s with
    | (t, Ok s') => let (t', o) := seq_phases r s' in (t ++ t', o)
    | (t, Err c) => (t, Err c)
    | (t, Panic) => (t, Panic)
    | (t, Fault) => (t, Fault)
    end
  end.

(* the same sequence, recording WHICH phases were entered (phases carry a tag) *)
Fixpoint entered {S : Type} (ps : list (Z * phase S)) (s : S) : list Z :=
  match ps with
  | [] => []
  | (tag, p) :: r =>
    match p s with
    | (_, Ok s') => tag :: entered r s'
    | _ => [tag]
    end
  end.

(* ------------------------------------------------------------------------------------------ *)
(* account sets of the generated programs                                                      *)
(*   Leaf id : `Probe<id>`, one account: decode = AccountInfo's decode (advancer: AdvanceError when the list
               is exhausted) then event; validate / cleanup = event                            *)
(*   Node id hb he hc fs req : #[derive(AccountSet)] struct with fields fs (declaration order),
               `requires` lists by field position, and optional struct-level hooks
               #[validate(before_validation = event(4000+id), extra_validation = event(5000+id))]
               #[cleanup(extra_cleanup = event(6000+id))]                                       *)
Inductive aset :=
| Leaf (id : Z)
| Node (id : Z) (hb he hc : bool) (fs : list aset) (req : list (list nat)).

Definition EV_DECODE : Z := 1000.
Definition EV_VALIDATE : Z := 2000.
Definition EV_CLEANUP : Z := 3000.
Definition EV_BEFORE : Z := 4000.
Definition EV_EXTRA : Z := 5000.
Definition EV_EXTRA_CLEANUP : Z := 6000.
Definition EV_PROCESS : Z := 7000.

Inductive step :=
| SDecode (ev : Z)     (* take one account from the list, then log ev *)
| SEvent (ev : Z).     (* log ev *)

Definition step_ev (s : step) : Z := match s with SDecode e => e | SEvent e => e end.

Definition opt_step (b : bool) (ev : Z) : list step := if b then [SEvent ev] else [].

(* decode.rs 163-180: `Ok(Self { f0: <T0>::decode_accounts(accounts, arg, ctx)?, f1: ... })`, declaration order *)
Fixpoint decode_steps (a : aset) : list step :=
  match a with
  | Leaf id => [SDecode (EV_DECODE + id)]
  | Node _ _ _ _ fs _ => flat_map decode_steps fs
  end.

(* the list of per-field blocks, re-ordered *)
Definition permute {A} (order : list nat) (blocks : list (list A)) : list (list A) :=
  map (fun i => nth i blocks []) order.

(* validate.rs 304-317: before_validation; the per-field validate calls in the order computed at 256-286;
   extra_validation *)
Fixpoint validate_steps (a : aset) : list step :=
  match a with
  | Leaf id => [SEvent (EV_VALIDATE + id)]
  | Node id hb he _ fs req =>
    opt_step hb (EV_BEFORE + id) ++
    concat (permute (order_fixed (req_of req) (seq 0 (length fs))) (map validate_steps fs)) ++
    opt_step he (EV_EXTRA + id)
  end.

(* cleanup.rs 166-178: fields in declaration order, then extra_cleanup *)
Fixpoint cleanup_steps (a : aset) : list step :=
  match a with
  | Leaf id => [SEvent (EV_CLEANUP + id)]
  | Node id _ _ hc fs _ => flat_map cleanup_steps fs ++ opt_step hc (EV_EXTRA_CLEANUP + id)
  end.

(* failure injection: `armed` maps an event to the code its probe raises right after logging it *)
Fixpoint armed_code (armed : list (Z * Z)) (ev : Z) : option Z :=
  match armed with
  | [] => None
  | (e, c) :: r => if e =? ev then Some c else armed_code r ev
  end.

(* a block of generated statements `step?; step?; ...` ; state = number of accounts not yet consumed *)
Fixpoint run_steps (armed : list (Z * Z)) (ss : list step) (acc : nat) : list Z * out nat :=
  match ss with
  | [] => ([], Ok acc)
  | SDecode ev :: r =>
    match acc with
    | O => ([], Err EC_ADVANCE_ERROR)            (* "Not enough accounts to decode AccountInfo" *)
    | S acc' =>
      match armed_code armed ev with
      | Some c => ([ev], Err c)
      | None => let (t, o) := run_steps armed r acc' in (ev :: t, o)
      end
    end
  | SEvent ev :: r =>
    match armed_code armed ev with
    | Some c => ([ev], Err c)
    | None => let (t, o) := run_steps armed r acc in (ev :: t, o)
    end
  end.

(* ------------------------------------------------------------------------------------------ *)
Record instr := mkInstr {
  ix_args_len : nat;      (* borsh size of the instruction struct (fixed-size fields) *)
  ix_process_ev : Z;      (* event logged by the handler *)
  ix_accounts : aset;
}.

(* `<T as BorshDeserialize>::deserialize(&mut data)`: reads exactly the struct's bytes, trailing bytes are
   left alone; a short read is an io::Error -> ErrorCode::IoError (errors.rs 443-452) *)
Definition ph_args (need : nat) (data : list Z) : phase nat :=
  fun acc => if (length data <? need)%nat then ([], Err EC_IO_ERROR) else ([], Ok acc).

Definition PH_ARGS : Z := 0.
Definition PH_DECODE : Z := 1.
Definition PH_VALIDATE : Z := 2.
Definition PH_PROCESS : Z := 3.
Definition PH_CLEANUP : Z := 4.

(* instruction/mod.rs 142-175, in source order *)
Definition ix_phases (armed : list (Z * Z)) (ix : instr) (data : list Z) : list (Z * phase nat) :=
  [ (PH_ARGS,     ph_args (ix_args_len ix) data);                          (* 148-149 deserialize *)
    (PH_DECODE,   run_steps armed (decode_steps (ix_accounts ix)));        (* 156-162 decode_accounts *)
    (PH_VALIDATE, run_steps armed (validate_steps (ix_accounts ix)));      (* 163-165 validate_accounts *)
    (PH_PROCESS,  run_steps armed [SEvent (ix_process_ev ix)]);            (* 166-167 Self::process *)
    (PH_CLEANUP,  run_steps armed (cleanup_steps (ix_accounts ix))) ].     (* 168-170 cleanup_accounts *)

Definition process_from_raw (armed : list (Z * Z)) (ix : instr) (data : list Z) (nacc : nat) : list Z * out nat :=
  seq_phases (map snd (ix_phases armed ix data)) nacc.

(* all steps of an instruction in the order a run without failure performs them *)
Definition ix_steps (ix : instr) : list step :=
  decode_steps (ix_accounts ix) ++ validate_steps (ix_accounts ix) ++
  [SEvent (ix_process_ev ix)] ++ cleanup_steps (ix_accounts ix).

(* ------------------------------------------------------------------------------------------ *)
(* error codes handed to the runtime                                                           *)
(*   star_frame_error.rs 54-58: variant code = ((offset as u32) << 16) + discriminant           *)
(*   errors.rs 218-225: ProgramError kept, custom -> ProgramError::Custom(code)                 *)
(*   pinocchio program_error.rs: u64::from: builtin n -> n << 32, Custom(0) -> CUSTOM_ZERO, Custom(c) -> c *)
Definition sfe_code (offset disc : Z) : Z := offset * 65536 + disc.
Definition custom_u64 (c : Z) : Z := if c =? 0 then PE_CUSTOM_ZERO else c.
Definition builtin_u64 (n : Z) : Z := n * 4294967296.

(* an error enum declared with #[star_frame_error(offset = o)]: variants' optional explicit discriminants *)
Definition err_enum : Type := (Z * list (option Z))%type.

Definition raised_u64 (enums : list err_enum) (kind val : Z) : Z :=
  if kind =? 0 then builtin_u64 val
  else if kind =? 1 then custom_u64 val
  else match nth_error enums (Z.to_nat (kind - 2)) with
       | Some (offset, vs) => custom_u64 (sfe_code offset (nth (Z.to_nat val) (enum_discs vs 0) 0))
       | None => 0
       end.

(* ------------------------------------------------------------------------------------------ *)
Record program := mkProgram {
  p_mode : disc_mode;
  p_names : list (list Z);            (* variant identifiers *)
  p_explicit : list (option Z);       (* `Variant(T) = expr` *)
  p_ixs : list instr;
}.

Definition program_discs (H : list Z -> list Z) (p : program) : list (list Z) :=
  ix_discs H (p_mode p) (p_names p) (p_explicit p).

Definition strip {S} (r : list Z * out S) : list Z * out unit :=
  (fst r, obind (snd r) (fun _ => Ok tt)).

(* program/mod.rs 33-41 + the derived `dispatch` *)
Definition entrypoint (H : list Z -> list Z) (p : program) (aligned : bool) (data : list Z) (nacc : nat)
  (armed : list (Z * Z)) : list Z * out unit :=
  match dispatch (disc_width (p_mode p)) (mode_align1 (p_mode p)) (program_discs H p) aligned data with
  | Ok (i, rest) =>
    match nth_error (p_ixs p) i with
    | Some ix => strip (process_from_raw armed ix rest nacc)
    | None => ([], Panic)       (* not reachable: one instruction per variant *)
    end
  | Err c => ([], Err c)
  | Panic => ([], Panic)
  | Fault => ([], Fault)
  end.
