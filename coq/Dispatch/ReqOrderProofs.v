(* C11 - proofs about the field-validation order (model: ReqOrder.v). *)
From SF Require Import Base.Prelude Dispatch.ReqOrder.
From Coq Require Import Permutation.
Open Scope nat_scope.

Lemma memb_In x l : memb x l = true <-> In x l.
Proof.
  unfold memb. rewrite existsb_exists. split.
  - intros [y [Hy He]]. apply Nat.eqb_eq in He. now subst.
  - intros H. exists x. split; [exact H|apply Nat.eqb_refl].
Qed.

Lemma memb_false x l : memb x l = false <-> ~ In x l.
Proof.
  split.
  - intros H C. apply memb_In in C. congruence.
  - intros H. destruct (memb x l) eqn:E; [|reflexivity]. apply memb_In in E. contradiction.
Qed.

Lemma ready_true req placed f : ready req placed f = true <-> (forall r, In r (req f) -> In r placed).
Proof.
  unfold ready. rewrite forallb_forall. split; intros H r Hr.
  - apply memb_In. now apply H.
  - apply memb_In. now apply H.
Qed.

Lemma forallb_false_ex {A} (p : A -> bool) l : forallb p l = false -> exists x, In x l /\ p x = false.
Proof.
  induction l as [|a l IH]; cbn [forallb]; intros H; [discriminate|].
  destruct (p a) eqn:Ha.
  - cbn [andb] in H. destruct (IH H) as [x [Hx Hp]]. exists x. split; [now right|exact Hp].
  - exists a. split; [now left|exact Ha].
Qed.

Lemma ready_false req placed f : ready req placed f = false -> exists r, In r (req f) /\ ~ In r placed.
Proof.
  unfold ready. intros H. apply forallb_false_ex in H as [r [Hr Hm]].
  exists r. split; [exact Hr|]. now apply memb_false.
Qed.

(* ------------------------------------------------------------------------------------------ *)
(* pick = position + remove                                                                    *)
Lemma pick_some req placed pending f rest :
  pick req placed pending = Some (f, rest) ->
  exists l1 l2, pending = l1 ++ f :: l2 /\ rest = l1 ++ l2 /\ ready req placed f = true /\
                Forall (fun g => ready req placed g = false) l1.
Proof.
  revert f rest. induction pending as [|g pending IH]; intros f rest H; cbn [pick] in H; [discriminate|].
  destruct (ready req placed g) eqn:Hg.
  - inversion H; subst. exists [], rest. repeat split; auto.
  - destruct (pick req placed pending) as [[h rest']|] eqn:Hp; [|discriminate].
    inversion H; subst. destruct (IH _ _ eq_refl) as [l1 [l2 [E1 [E2 [Hr Hall]]]]].
    exists (g :: l1), l2. subst.
    split; [reflexivity|split; [reflexivity|split; [exact Hr|constructor; assumption]]].
Qed.

Lemma pick_none req placed pending :
  pick req placed pending = None -> Forall (fun g => ready req placed g = false) pending.
Proof.
  induction pending as [|g pending IH]; intros H; cbn [pick] in H; [constructor|].
  destruct (ready req placed g) eqn:Hg; [discriminate|].
  destruct (pick req placed pending) as [[h rest']|] eqn:Hp; [discriminate|].
  constructor; auto.
Qed.

(* ------------------------------------------------------------------------------------------ *)
(* a finite non-empty set in which every element has a successor contains a cycle              *)
Lemma reaches_trans R a b c : reaches R a b -> reaches R b c -> reaches R a c.
Proof.
  intros H. revert c. induction H as [a b Hab|a b d Hab Hbd IH]; intros c Hc.
  - eapply reach_step; eauto.
  - eapply reach_step; [exact Hab|]. now apply IH.
Qed.

Lemma reaches_mono (R R' : nat -> nat -> Prop) :
  (forall a b, R' a b -> reaches R a b) -> forall a b, reaches R' a b -> reaches R a b.
Proof.
  intros Hsub a b H. induction H as [a b Hab|a b c Hab Hbc IH].
  - now apply Hsub.
  - apply (reaches_trans R a b c); [apply Hsub; exact Hab|exact IH].
Qed.

Lemma sink_free_cycle : forall (l : list nat) (R : nat -> nat -> Prop),
  l <> [] -> (forall x, In x l -> exists y, In y l /\ R x y) -> exists x, reaches R x x.
Proof.
  induction l as [|x l IH]; intros R Hne Hsucc; [congruence|].
  destruct (Hsucc x (or_introl eq_refl)) as [y [Hy Rxy]].
  destruct (Nat.eq_dec y x) as [->|Hyx].
  - exists x. now constructor.
  - assert (Hyl : In y l) by (destruct Hy as [Hy|Hy]; [congruence|exact Hy]).
    set (R' := fun a b => R a b \/ (R a x /\ R x b)).
    assert (Hl : l <> []) by (intros ->; exact Hyl).
    destruct (IH R' Hl) as [z Hz].
    + intros a Ha. destruct (Hsucc a (or_intror Ha)) as [b [Hb Rab]].
      destruct Hb as [<-|Hb].
      * exists y. split; [exact Hyl|]. right. split; assumption.
      * exists b. split; [exact Hb|]. now left.
    + exists z. revert Hz. apply reaches_mono. intros a b [Hab|[Hax Hxb]].
      * now constructor.
      * eapply reach_step; [exact Hax|now constructor].
Qed.

(* a rank function witnesses acyclicity (used for concrete graphs) *)
Lemma rank_acyclic fields req (rank : nat -> nat) :
  (forall f r, In f fields -> In r (req f) -> rank r < rank f) -> acyclic fields req.
Proof.
  intros Hrank f Hc.
  assert (H : forall a b, reaches (requires fields req) a b -> rank b < rank a).
  { intros a b Hr. induction Hr as [a b [Ha Hb]|a b c [Ha Hb] _ IH].
    - now apply Hrank.
    - specialize (Hrank _ _ Ha Hb). lia. }
  specialize (H _ _ Hc). lia.
Qed.

(* ------------------------------------------------------------------------------------------ *)
Lemma before_cons x r f o : before r f o -> before r f (x :: o).
Proof.
  intros [l1 [l2 [E Hin]]]. exists (x :: l1), l2. subst. split; [reflexivity|now right].
Qed.

Lemma before_head r f o : In f o -> before r f (r :: o).
Proof.
  intros Hin. apply in_split in Hin as [a [b E]]. exists (r :: a), b. subst. split; [reflexivity|now left].
Qed.

Section Kahn.
  Variable fields : list nat.
  Variable req : nat -> list nat.
  Hypothesis Hclosed : closed fields req.
  Hypothesis Hacyclic : acyclic fields req.

  (* the `expect` of the patch never fires *)
  Lemma pick_none_cycle placed pending :
    (forall x, In x pending -> In x fields) ->
    (forall x, In x fields -> In x placed \/ In x pending) ->
    pick req placed pending = None -> pending = [].
  Proof.
    intros Hsub Hcov Hp.
    destruct pending as [|p0 pending'] eqn:Epend; [reflexivity|exfalso].
    rewrite <- Epend in *.
    assert (Hne : pending <> []) by (rewrite Epend; discriminate).
    apply pick_none in Hp. rewrite Forall_forall in Hp.
    destruct (sink_free_cycle pending (requires fields req) Hne) as [z Hz].
    - intros x Hx. destruct (ready_false _ _ _ (Hp x Hx)) as [r [Hr Hnp]].
      exists r. split.
      + destruct (Hcov r (Hclosed _ _ (Hsub _ Hx) Hr)) as [H|H]; [contradiction|exact H].
      + split; [now apply Hsub|exact Hr].
    - exact (Hacyclic z Hz).
  Qed.

  Lemma kahn_spec : forall fuel placed pending,
    length pending <= fuel ->
    (forall x, In x pending -> In x fields) ->
    (forall x, In x fields -> In x placed \/ In x pending) ->
    Permutation (kahn fuel req placed pending) pending /\
    (forall f r, In f pending -> In r (req f) -> In r placed \/ before r f (kahn fuel req placed pending)).
  Proof.
    induction fuel as [|k IH]; intros placed pending Hlen Hsub Hcov.
    - destruct pending; [|cbn in Hlen; lia]. cbn [kahn]. split; [constructor|intros f r []].
    - cbn [kahn]. destruct (pick req placed pending) as [[f rest]|] eqn:Hp.
      + destruct (pick_some _ _ _ _ _ Hp) as [l1 [l2 [E1 [E2 [Hr _]]]]].
        assert (Hlen' : length rest <= k).
        { subst. rewrite app_length in *. cbn [length] in Hlen. lia. }
        assert (Hsub' : forall x, In x rest -> In x fields).
        { intros x Hx. apply Hsub. subst. apply in_app_or in Hx. apply in_or_app.
          destruct Hx; [now left|right; now right]. }
        assert (Hcov' : forall x, In x fields -> In x (placed ++ [f]) \/ In x rest).
        { intros x Hx. destruct (Hcov x Hx) as [H|H].
          - left. apply in_or_app. now left.
          - subst. apply in_app_or in H. destruct H as [H|[H|H]].
            + right. apply in_or_app. now left.
            + left. apply in_or_app. right. now left.
            + right. apply in_or_app. now right. }
        destruct (IH (placed ++ [f]) rest Hlen' Hsub' Hcov') as [Hperm Hbef].
        split.
        * subst pending rest. now apply Permutation_cons_app.
        * intros g r Hg Hgr.
          assert (Hg' : g = f \/ In g rest).
          { subst pending rest. apply in_app_or in Hg. destruct Hg as [Hg|[Hg|Hg]].
            - right. apply in_or_app. now left.
            - now left.
            - right. apply in_or_app. now right. }
          destruct Hg' as [->|Hg'].
          -- left. rewrite ready_true in Hr. now apply Hr.
          -- destruct (Hbef g r Hg' Hgr) as [H|H].
             ++ apply in_app_or in H. destruct H as [H|[<-|[]]].
                ** now left.
                ** right. apply before_head. apply Permutation_sym in Hperm.
                   eapply Permutation_in; eauto.
             ++ right. now apply before_cons.
      + rewrite (pick_none_cycle _ _ Hsub Hcov Hp). split; [constructor|intros f r []].
  Qed.
End Kahn.

(* ------------------------------------------------------------------------------------------ *)
(* THE ordering theorem, for the repaired algorithm, all field lists, all acyclic graphs        *)
Theorem order_correct : forall (fields : list nat) (req : nat -> list nat),
  NoDup fields -> closed fields req -> acyclic fields req ->
  Permutation (order_fixed req fields) fields /\
  NoDup (order_fixed req fields) /\
  respects fields req (order_fixed req fields).
Proof.
  intros fields req Hnd Hcl Hac. unfold order_fixed.
  destruct (kahn_spec fields req Hcl Hac (length fields) [] fields (le_n _)) as [Hperm Hbef].
  - auto.
  - intros x Hx. now right.
  - split; [exact Hperm|]. split.
    + eapply Permutation_NoDup; [apply Permutation_sym; exact Hperm|exact Hnd].
    + intros f r Hf Hr. destruct (Hbef f r Hf Hr) as [[]|H]. exact H.
Qed.

(* every field is validated exactly once *)
Corollary order_once : forall fields req f,
  NoDup fields -> closed fields req -> acyclic fields req ->
  count_occ Nat.eq_dec (order_fixed req fields) f = count_occ Nat.eq_dec fields f /\
  (In f fields -> count_occ Nat.eq_dec (order_fixed req fields) f = 1).
Proof.
  intros fields req f Hnd Hcl Hac.
  destruct (order_correct fields req Hnd Hcl Hac) as [Hperm [Hnd' _]].
  split.
  - revert f. now apply (Permutation_count_occ Nat.eq_dec).
  - intros Hf. apply NoDup_count_occ'; [exact Hnd'|].
    eapply Permutation_in; [apply Permutation_sym; exact Hperm|exact Hf].
Qed.

(* declaration order when nothing is required *)
Lemma kahn_default req : (forall f, req f = []) ->
  forall fuel placed pending, length pending <= fuel -> kahn fuel req placed pending = pending.
Proof.
  intros Hreq. induction fuel as [|k IH]; intros placed pending Hlen; [reflexivity|].
  destruct pending as [|f rest]; [reflexivity|].
  cbn [kahn pick]. unfold ready. rewrite Hreq. cbn [forallb].
  rewrite IH; [reflexivity|cbn [length] in Hlen; lia].
Qed.

Theorem order_default : forall fields req, (forall f, req f = []) -> order_fixed req fields = fields.
Proof. intros fields req H. unfold order_fixed. now apply kahn_default. Qed.

(* stability: the field emitted at each step is the FIRST ready one in declaration order *)
Theorem order_first_ready : forall req placed pending f rest,
  pick req placed pending = Some (f, rest) ->
  exists l1 l2, pending = l1 ++ f :: l2 /\ rest = l1 ++ l2 /\
    (forall r, In r (req f) -> In r placed) /\
    (forall g, In g l1 -> exists r, In r (req g) /\ ~ In r placed).
Proof.
  intros req placed pending f rest H.
  destruct (pick_some _ _ _ _ _ H) as [l1 [l2 [E1 [E2 [Hr Hall]]]]].
  exists l1, l2. repeat split; auto.
  - now apply ready_true.
  - intros g Hg. rewrite Forall_forall in Hall. now apply ready_false, Hall.
Qed.

(* the shipped algorithm also keeps declaration order when nothing is required *)
Lemma fold_cons_rev (l acc : list nat) : fold_left (fun out f => f :: out) (rev l) acc = l ++ acc.
Proof.
  revert acc. induction l as [|x l IH]; intros acc; [reflexivity|].
  cbn [rev]. rewrite fold_left_app. cbn [fold_left]. now rewrite IH.
Qed.

Lemma shipped_default : forall fields req, (forall f, req f = []) -> order_shipped req fields = fields.
Proof.
  intros fields req H. unfold order_shipped.
  assert (E : forall l acc, fold_left (shipped_step req) l acc = fold_left (fun out f => f :: out) l acc).
  { induction l as [|x l IH]; intros acc; [reflexivity|]. cbn [fold_left]. rewrite IH. f_equal.
    unfold shipped_step, insert_index. rewrite H.
    assert (E0 : forall o i, last_required_from [] o i None = None).
    { induction o as [|y o IHo]; intros i; [reflexivity|]. cbn [last_required_from memb existsb]. apply IHo. }
    rewrite E0. reflexivity. }
  rewrite E, fold_cons_rev. apply app_nil_r.
Qed.

(* ------------------------------------------------------------------------------------------ *)
(* D4: the shipped insertion procedure is not a topological sort.                              *)
(*   struct S { #[validate(requires = [c])] a, #[validate(requires = [a])] b, c }              *)
Definition d4_fields : list nat := [0; 1; 2].
Definition d4_req (f : nat) : list nat := match f with 0 => [2] | 1 => [0] | _ => [] end.

Lemma d4_shipped_order : order_shipped d4_req d4_fields = [1; 2; 0].
Proof. vm_compute. reflexivity. Qed.

Lemma d4_fixed_order : order_fixed d4_req d4_fields = [2; 0; 1].
Proof. vm_compute. reflexivity. Qed.

Theorem order_shipped_refuted :
  exists fields req, NoDup fields /\ closed fields req /\ acyclic fields req /\
    ~ respects fields req (order_shipped req fields).
Proof.
  exists d4_fields, d4_req. split; [|split; [|split]].
  - unfold d4_fields. repeat constructor; cbn; intuition lia.
  - intros f r Hf Hr. unfold d4_fields in *. cbn in Hf.
    destruct Hf as [<-|[<-|[<-|[]]]]; cbn in Hr; intuition (subst; cbn; auto).
  - apply (rank_acyclic _ _ (fun f => match f with 2 => 0 | 0 => 1 | _ => 2 end)).
    intros f r Hf Hr. unfold d4_fields in Hf. cbn in Hf.
    destruct Hf as [<-|[<-|[<-|[]]]]; cbn in Hr; intuition (subst; lia).
  - intros H. rewrite d4_shipped_order in H.
    (* b (1) requires a (0): a would have to come before b in [b; c; a] *)
    destruct (H 1 0) as [l1 [l2 [E Hin]]]; [cbn; auto|cbn; auto|].
    destruct l1 as [|x l1]; [destruct Hin|].
    inversion E as [[Ex E']]. subst x.
    destruct l1 as [|y l1]; [discriminate|].
    inversion E' as [[Ey E'']]. subst y.
    destruct l1 as [|z l1]; [discriminate|].
    inversion E'' as [[Ez E''']]. destruct l1; discriminate.
Qed.
