(* C11 - instruction discriminants and dispatch.  MODEL ONLY, no proofs.

   star_frame_proc/src/instruction_set.rs (derive(InstructionSet)), star_frame_proc/src/hash.rs (sighash!),
   star_frame_proc/src/util/mod.rs 320-333 (enum_discriminants), heck 0.5 `to_snake_case` (ASCII identifiers).

   Bytes are Z in 0..255.  SHA-256 is an ORACLE: every function that needs it takes `H : list Z -> list Z` as an
   argument (nothing is assumed of it); the runner instantiates it with a finite table shipped in the case
   (computed by Python's hashlib), the theorems quantify over it. *)
From SF Require Import Base.Prelude Gen.Generated.
Open Scope Z_scope.

(* ------------------------------------------------------------------------------------------ *)
(* heck::ToSnakeCase on ASCII identifiers (heck-0.5.0/src/lib.rs `transform`, snake.rs)        *)
Definition is_lower (c : Z) : bool := (97 <=? c) && (c <=? 122).
Definition is_upper (c : Z) : bool := (65 <=? c) && (c <=? 90).
Definition is_digit (c : Z) : bool := (48 <=? c) && (c <=? 57).
Definition is_alnum (c : Z) : bool := is_lower c || is_upper c || is_digit c.
Definition to_lower (c : Z) : Z := if is_upper c then c + 32 else c.

(* WordMode: the case of the last cased character of the current word *)
Inductive wmode := MBoundary | MLower | MUpper.
Definition wmode_eqb (a b : wmode) : bool :=
  match a, b with MBoundary, MBoundary | MLower, MLower | MUpper, MUpper => true | _, _ => false end.

(* one alphanumeric run (`word` of `s.split(|c| !c.is_alphanumeric())`); `cur` = word[init..i] reversed *)
Fixpoint heck_words (cs : list Z) (mode : wmode) (cur : list Z) : list (list Z) :=
  match cs with
  | [] => match cur with [] => [] | _ => [rev cur] end       (* only reached for an empty run *)
  | c :: rest =>
    match rest with
    | [] => [rev (c :: cur)]                                 (* "Collect trailing characters as a word" *)
    | next :: _ =>
      let next_mode := if is_lower c then MLower else if is_upper c then MUpper else mode in
      if wmode_eqb next_mode MLower && is_upper next then
        (* word boundary after c *)
        rev (c :: cur) :: heck_words rest MBoundary []
      else if wmode_eqb mode MUpper && is_upper c && is_lower next then
        (* word boundary before c; init = i, mode = Boundary *)
        rev cur :: heck_words rest MBoundary [c]
      else heck_words rest next_mode (c :: cur)
    end
  end.

(* split on non-alphanumeric characters *)
Fixpoint alnum_runs (cs : list Z) (cur : list Z) : list (list Z) :=
  match cs with
  | [] => [rev cur]
  | c :: rest => if is_alnum c then alnum_runs rest (c :: cur) else rev cur :: alnum_runs rest []
  end.

Fixpoint join_underscore (ws : list (list Z)) : list Z :=
  match ws with
  | [] => []
  | [w] => w
  | w :: r => w ++ 95 :: join_underscore r
  end.

Definition snake_case (name : list Z) : list Z :=
  join_underscore (map (map to_lower) (flat_map (fun run => heck_words run MBoundary []) (alnum_runs name []))).

(* ------------------------------------------------------------------------------------------ *)
(* default discriminant: sighash!("global", snake_name) = first 8 bytes of sha256("global:" ++ snake_name)
   (instruction_set.rs 75-81, hash.rs 11-30: the arguments are joined with ":") *)
Definition global_prefix : list Z := [103; 108; 111; 98; 97; 108; 58].   (* "global:" *)

Definition sighash_preimage (name : list Z) : list Z := global_prefix ++ snake_case name.

Definition sighash (H : list Z -> list Z) (name : list Z) : list Z := firstn 8 (H (sighash_preimage name)).

(* ------------------------------------------------------------------------------------------ *)
(* util::enum_discriminants: an explicit discriminant is taken as written, otherwise previous + 1,
   starting from 0 *)
Fixpoint enum_discs (vs : list (option Z)) (next : Z) : list Z :=
  match vs with
  | [] => []
  | v :: r => let d := match v with Some e => e | None => next end in d :: enum_discs r (d + 1)
  end.

(* `use_repr`: the discriminant type is the enum's integer repr of w bytes; the constant is the variant's
   value; `bytemuck::try_from_bytes` reads it in native (little-endian) order, two's complement for signed *)
Definition repr_disc (w : nat) (v : Z) : list Z := le_bytes w (v mod 256 ^ Z.of_nat w).

(* ------------------------------------------------------------------------------------------ *)
(* the instruction set as the dispatcher sees it *)
Inductive disc_mode :=
| DSighash                      (* type Discriminant = [u8; 8] *)
| DRepr (w : nat).              (* #[ix_set(use_repr)] #[repr(uN / iN)], w = N / 8 *)

Definition disc_width (m : disc_mode) : nat := match m with DSighash => 8%nat | DRepr w => w end.

(* names (for sighash) and optional explicit discriminants (for repr), in declaration order *)
Definition ix_discs (H : list Z -> list Z) (m : disc_mode) (names : list (list Z)) (explicit : list (option Z))
  : list (list Z) :=
  match m with
  | DSighash => map (sighash H) names
  | DRepr w => map (repr_disc w) (enum_discs explicit 0)
  end.

Definition bytes_eqb (a b : list Z) : bool :=
  (Nat.eqb (length a) (length b)) && forallb (fun p => fst p =? snd p) (combine a b).

(* `match discriminant { C_0 => .., C_1 => .., x => bail!(InvalidInstructionData) }`: first matching arm *)
Fixpoint find_arm (ds : list (list Z)) (d : list Z) (i : nat) : option nat :=
  match ds with
  | [] => None
  | c :: r => if bytes_eqb c d then Some i else find_arm r d (S i)
  end.

(* instruction_set.rs 124-149.  `aligned` = the address of the instruction data is a multiple of the
   discriminant type's alignment (always true for [u8; 8] and u8; the runtime's input buffer gives 8-byte
   alignment, the harness also feeds misaligned data).  Result: index of the selected variant and the
   remaining instruction data. *)
Definition dispatch (w : nat) (align1 : bool) (ds : list (list Z)) (aligned : bool) (data : list Z)
  : out (nat * list Z) :=
  match ds with
  | [] => Err PE_INVALID_INSTRUCTION_DATA        (* "No instructions in this instruction set" *)
  | _ =>
    if (length data <? w)%nat then Err EC_ADVANCE_ERROR          (* Advance::try_advance(.., size_of::<D>()) *)
    else if negb (align1 || aligned) then Err EC_POD_CAST_ERROR  (* bytemuck::try_from_bytes: TargetAlignmentGreaterAndInputNotAligned *)
    else match find_arm ds (firstn w data) 0 with
         | Some i => Ok (i, skipn w data)
         | None => Err PE_INVALID_INSTRUCTION_DATA               (* "Invalid ix discriminant" *)
         end
  end.

Definition mode_align1 (m : disc_mode) : bool :=
  match m with DSighash => true | DRepr w => (w <=? 1)%nat end.
