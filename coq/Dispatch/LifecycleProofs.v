(* C11 - proofs about the lifecycle (model: Lifecycle.v). *)
From SF Require Import Base.Prelude Gen.Generated Gen.Gen_c11 Dispatch.ReqOrder Dispatch.ReqOrderProofs
  Dispatch.Dispatch Dispatch.DispatchProofs Dispatch.Lifecycle.
From Coq Require Import Permutation.
Open Scope Z_scope.

Definition failed {S} (o : out S) : Prop := match o with Ok _ => False | _ => True end.

(* ------------------------------------------------------------------------------------------ *)
(* generic: a sequence of phases runs a prefix of the phase list, cut exactly at the first failure *)
Theorem phases_ordered : forall (S : Type) (ps : list (Z * phase S)) (s : S),
  (* all phases ran, in order, each once *)
  (entered ps s = map fst ps /\ exists s', snd (seq_phases (map snd ps) s) = Ok s') \/
  (* or the run stops in the first failing phase, whose outcome is the outcome of the whole *)
  (exists pre tag p post t1 s1,
      ps = pre ++ (tag, p) :: post /\
      seq_phases (map snd pre) s = (t1, Ok s1) /\
      failed (snd (p s1)) /\
      seq_phases (map snd ps) s = (t1 ++ fst (p s1), snd (p s1)) /\
      entered ps s = map fst pre ++ [tag]).
Proof.
  intros S ps. induction ps as [|[tag p] ps IH]; intros s.
  - left. split; [reflexivity|]. exists s. reflexivity.
  - cbn [map snd fst seq_phases entered].
    destruct (p s) as [t o] eqn:Ep. destruct o as [s'|c| |].
    + destruct (IH s') as [[He [s'' Hs]]|[pre [tag' [p' [post [t1 [s1 [E [Hpre [Hf [Hall He]]]]]]]]]]].
      * left. split; [now rewrite He|].
        exists s''. destruct (seq_phases (map snd ps) s') as [t' o']. cbn [snd] in *. exact Hs.
      * right. exists ((tag, p) :: pre), tag', p', post, (t ++ t1), s1.
        split; [now rewrite E|]. split.
        { cbn [map snd seq_phases]. rewrite Ep, Hpre. reflexivity. }
        split; [exact Hf|]. split.
        { rewrite Hall. now rewrite app_assoc. }
        { rewrite He. reflexivity. }
    + right. exists [], tag, p, ps, [], s. rewrite Ep. cbn. repeat split; auto.
    + right. exists [], tag, p, ps, [], s. rewrite Ep. cbn. repeat split; auto.
    + right. exists [], tag, p, ps, [], s. rewrite Ep. cbn. repeat split; auto.
Qed.

Lemma entered_prefix : forall (S : Type) (ps : list (Z * phase S)) (s : S),
  exists rest, map fst ps = entered ps s ++ rest.
Proof.
  intros S ps s. destruct (phases_ordered S ps s) as [[He _]|[pre [tag [p [post [t1 [s1 [E [_ [_ [_ He]]]]]]]]]]].
  - exists []. now rewrite He, app_nil_r.
  - exists (map fst post). rewrite He, E, map_app. cbn [map fst]. now rewrite <- app_assoc.
Qed.

Lemma nodup_app_l {A} (a b : list A) : NoDup (a ++ b) -> NoDup a.
Proof.
  induction a as [|x a IH]; intros H; [constructor|].
  cbn [app] in H. inversion H as [|y l Hn Hd]; subst. constructor.
  - intros Hin. apply Hn. apply in_or_app. now left.
  - now apply IH.
Qed.

(* each phase at most once *)
Corollary entered_nodup : forall (S : Type) (ps : list (Z * phase S)) (s : S),
  NoDup (map fst ps) -> NoDup (entered ps s).
Proof.
  intros S ps s Hnd. destruct (entered_prefix S ps s) as [rest E]. rewrite E in Hnd.
  now apply nodup_app_l in Hnd.
Qed.

(* ------------------------------------------------------------------------------------------ *)
(* blocks of steps *)
Fixpoint ndec (ss : list step) : nat :=
  match ss with
  | [] => 0
  | SDecode _ :: r => S (ndec r)
  | SEvent _ :: r => ndec r
  end.

Lemma ndec_app a b : ndec (a ++ b) = (ndec a + ndec b)%nat.
Proof. induction a as [|[e|e] a IH]; cbn [ndec app]; lia. Qed.

Definition unarmed (armed : list (Z * Z)) (ss : list step) : Prop :=
  forall s, In s ss -> armed_code armed (step_ev s) = None.

Lemma run_steps_app armed a b acc :
  run_steps armed (a ++ b) acc = seq_phases [run_steps armed a; run_steps armed b] acc.
Proof.
  revert acc. induction a as [|[e|e] a IH]; intros acc; cbn [app run_steps seq_phases].
  - destruct (run_steps armed b acc) as [t [s'|c| |]]; cbn; now rewrite ?app_nil_r.
  - destruct acc as [|acc']; [reflexivity|].
    destruct (armed_code armed e); [reflexivity|].
    rewrite IH. cbn [seq_phases].
    destruct (run_steps armed a acc') as [t [s'|c| |]]; try reflexivity.
    destruct (run_steps armed b s') as [t' [s''|c| |]]; cbn; now rewrite ?app_nil_r.
  - destruct (armed_code armed e); [reflexivity|].
    rewrite IH. cbn [seq_phases].
    destruct (run_steps armed a acc) as [t [s'|c| |]]; try reflexivity.
    destruct (run_steps armed b s') as [t' [s''|c| |]]; cbn; now rewrite ?app_nil_r.
Qed.

(* THE cut theorem for a block: the trace is the events of a prefix of the block, cut exactly at the first
   failing step; the error is the armed code of that step (or AdvanceError when the accounts ran out) *)
Theorem run_steps_spec : forall armed ss acc,
  (* success: every step ran, none was armed, the accounts sufficed *)
  (run_steps armed ss acc = (map step_ev ss, Ok (acc - ndec ss)%nat) /\ unarmed armed ss /\ (ndec ss <= acc)%nat) \/
  (* failure at step s *)
  (exists pre s post, ss = pre ++ s :: post /\ unarmed armed pre /\ (ndec pre <= acc)%nat /\
     ((exists c, armed_code armed (step_ev s) = Some c /\ (ndec (pre ++ [s]) <= acc)%nat /\
                 run_steps armed ss acc = (map step_ev pre ++ [step_ev s], Err c)) \/
      (exists ev, s = SDecode ev /\ ndec pre = acc /\
                 run_steps armed ss acc = (map step_ev pre, Err EC_ADVANCE_ERROR)))).
Proof.
  intros armed ss. induction ss as [|s ss IH]; intros acc.
  - left. cbn. rewrite Nat.sub_0_r. repeat split; [intros s []|lia].
  - destruct s as [e|e]; cbn [run_steps].
    + destruct acc as [|acc'].
      * right. exists [], (SDecode e), ss. repeat split; [intros s []|cbn; lia|].
        right. exists e. repeat split.
      * destruct (armed_code armed e) as [c|] eqn:Ea.
        -- right. exists [], (SDecode e), ss. repeat split; [intros s []|cbn; lia|].
           left. exists c. cbn. repeat split; [exact Ea|lia].
        -- destruct (IH acc') as [[Hr [Hu Hn]]|[pre [s [post [E [Hu [Hn Hcase]]]]]]].
           ++ left. rewrite Hr. cbn [map step_ev ndec]. repeat split; [|lia].
              intros s [<-|Hs]; [exact Ea|now apply Hu].
           ++ right. exists (SDecode e :: pre), s, post. subst ss. repeat split.
              ** intros s' [<-|Hs]; [exact Ea|now apply Hu].
              ** cbn [ndec]. lia.
              ** destruct Hcase as [[c [Hc [Hn' Hr]]]|[ev [Es [Hn' Hr]]]].
                 --- left. exists c. rewrite Hr. cbn [app ndec map step_ev] in *. repeat split; [exact Hc|lia].
                 --- right. exists ev. rewrite Hr. cbn [ndec map step_ev]. repeat split; [exact Es|lia].
    + destruct (armed_code armed e) as [c|] eqn:Ea.
      * right. exists [], (SEvent e), ss. repeat split; [intros s []|cbn; lia|].
        left. exists c. cbn. repeat split; [exact Ea|lia].
      * destruct (IH acc) as [[Hr [Hu Hn]]|[pre [s [post [E [Hu [Hn Hcase]]]]]]].
        -- left. rewrite Hr. cbn [map step_ev ndec]. repeat split; [|lia].
           intros s [<-|Hs]; [exact Ea|now apply Hu].
        -- right. exists (SEvent e :: pre), s, post. subst ss. repeat split.
           ++ intros s' [<-|Hs]; [exact Ea|now apply Hu].
           ++ cbn [ndec]. lia.
           ++ destruct Hcase as [[c [Hc [Hn' Hr]]]|[ev [Es [Hn' Hr]]]].
              ** left. exists c. rewrite Hr. cbn [app ndec map step_ev] in *. repeat split; [exact Hc|lia].
              ** right. exists ev. rewrite Hr. cbn [ndec map step_ev]. repeat split; [exact Es|lia].
Qed.

Lemma run_steps_no_panic armed ss acc : snd (run_steps armed ss acc) <> Panic /\ snd (run_steps armed ss acc) <> Fault.
Proof.
  destruct (run_steps_spec armed ss acc) as [[Hr _]|[pre [s [post [_ [_ [_ [[c [_ [_ Hr]]]|[ev [_ [_ Hr]]]]]]]]]]];
    rewrite Hr; cbn; split; discriminate.
Qed.

(* ------------------------------------------------------------------------------------------ *)
(* process_from_raw is one block after the argument deserialisation *)
Lemma process_flat armed ix data nacc :
  process_from_raw armed ix data nacc =
  if (length data <? ix_args_len ix)%nat then ([], Err EC_IO_ERROR)
  else run_steps armed (ix_steps ix) nacc.
Proof.
  unfold process_from_raw, ix_phases, ix_steps. cbn [map snd seq_phases]. unfold ph_args.
  destruct (length data <? ix_args_len ix)%nat; [reflexivity|].
  rewrite (run_steps_app armed (decode_steps (ix_accounts ix))). cbn [seq_phases].
  destruct (run_steps armed (decode_steps (ix_accounts ix)) nacc) as [t1 [s1|c| |]]; try reflexivity.
  rewrite (run_steps_app armed (validate_steps (ix_accounts ix))). cbn [seq_phases].
  destruct (run_steps armed (validate_steps (ix_accounts ix)) s1) as [t2 [s2|c| |]];
    try (cbn [app]; now rewrite ?app_nil_r).
  rewrite (run_steps_app armed [SEvent (ix_process_ev ix)]). cbn [seq_phases].
  destruct (run_steps armed [SEvent (ix_process_ev ix)] s2) as [t3 [s3|c| |]];
    try (cbn [app]; now rewrite ?app_nil_r).
  destruct (run_steps armed (cleanup_steps (ix_accounts ix)) s3) as [t4 [s4|c| |]];
    cbn [app]; now rewrite ?app_nil_r.
Qed.

(* the lifecycle theorem: the trace of an instruction is a prefix of its full step sequence
   (arguments, then decode / validate / process / cleanup in that order), cut exactly at the first
   failing step, and the code handed back is the one that step raised *)
Theorem lifecycle_cut : forall armed ix data nacc,
  let full := ix_steps ix in
  (* the instruction data is too short for the arguments: nothing runs *)
  ((length data < ix_args_len ix)%nat /\ process_from_raw armed ix data nacc = ([], Err EC_IO_ERROR)) \/
  (* complete run *)
  ((ix_args_len ix <= length data)%nat /\ unarmed armed full /\ (ndec full <= nacc)%nat /\
     process_from_raw armed ix data nacc = (map step_ev full, Ok (nacc - ndec full)%nat)) \/
  (* cut at the first failing step *)
  ((ix_args_len ix <= length data)%nat /\
   exists pre s post, full = pre ++ s :: post /\ unarmed armed pre /\ (ndec pre <= nacc)%nat /\
     ((exists c, armed_code armed (step_ev s) = Some c /\ (ndec (pre ++ [s]) <= nacc)%nat /\
         process_from_raw armed ix data nacc = (map step_ev pre ++ [step_ev s], Err c)) \/
      (exists ev, s = SDecode ev /\ ndec pre = nacc /\
         process_from_raw armed ix data nacc = (map step_ev pre, Err EC_ADVANCE_ERROR)))).
Proof.
  intros armed ix data nacc full. rewrite process_flat.
  destruct (length data <? ix_args_len ix)%nat eqn:El.
  - left. apply Nat.ltb_lt in El. split; [exact El|reflexivity].
  - right. apply Nat.ltb_ge in El.
    destruct (run_steps_spec armed full nacc) as [[Hr [Hu Hn]]|H].
    + left. repeat split; assumption.
    + right. split; [exact El|exact H].
Qed.

(* phases at the level of process_from_raw: tags 0..4 in order, each at most once *)
Theorem ix_phases_ordered : forall armed ix data nacc,
  exists rest, [PH_ARGS; PH_DECODE; PH_VALIDATE; PH_PROCESS; PH_CLEANUP] = entered (ix_phases armed ix data) nacc ++ rest.
Proof. intros. apply (entered_prefix nat (ix_phases armed ix data) nacc). Qed.

(* ------------------------------------------------------------------------------------------ *)
(* entrypoint = dispatch then the selected instruction; nothing runs when dispatch rejects      *)
Theorem entrypoint_selected : forall H p aligned data nacc armed i ix,
  NoDup (program_discs H p) ->
  Forall (fun d => length d = disc_width (p_mode p)) (program_discs H p) ->
  mode_align1 (p_mode p) || aligned = true ->
  (i < length (program_discs H p))%nat -> nth_error (p_ixs p) i = Some ix ->
  firstn (disc_width (p_mode p)) data = nth i (program_discs H p) [] ->
  entrypoint H p aligned data nacc armed =
  strip (process_from_raw armed ix (skipn (disc_width (p_mode p)) data) nacc).
Proof.
  intros H p aligned data nacc armed i ix Hnd Hlen Hal Hi Hix Hm. unfold entrypoint.
  apply (dispatch_exact _ _ _ _ _ Hnd Hlen Hal i Hi) in Hm. rewrite Hm, Hix. reflexivity.
Qed.

Theorem entrypoint_rejected : forall H p aligned data nacc armed,
  (forall i, (i < length (program_discs H p))%nat ->
     firstn (disc_width (p_mode p)) data <> nth i (program_discs H p) []) ->
  exists c, entrypoint H p aligned data nacc armed = ([], Err c).
Proof.
  intros H p aligned data nacc armed Hno. unfold entrypoint.
  destruct (dispatch_reject _ (mode_align1 (p_mode p)) _ aligned _ Hno) as [c Hc]. rewrite Hc. eauto.
Qed.

(* ------------------------------------------------------------------------------------------ *)
(* validation inside one derived struct: every field's block exactly once, after the blocks of the
   fields it requires                                                                           *)
Lemma kahn_perm req : forall fuel placed pending, Permutation (kahn fuel req placed pending) pending.
Proof.
  induction fuel as [|k IH]; intros placed pending; cbn [kahn]; [apply Permutation_refl|].
  destruct (pick req placed pending) as [[f rest]|] eqn:Hp; [|apply Permutation_refl].
  destruct (pick_some _ _ _ _ _ Hp) as [l1 [l2 [E1 [E2 _]]]]. subst.
  apply Permutation_cons_app. apply IH.
Qed.

Lemma permute_seq {A} (blocks : list (list A)) : permute (seq 0 (length blocks)) blocks = blocks.
Proof.
  unfold permute. apply nth_ext with (d := []) (d' := []).
  - now rewrite map_length, seq_length.
  - intros n Hn. rewrite map_length, seq_length in Hn.
    rewrite (nth_indep _ [] (nth (length blocks) blocks [])) by (now rewrite map_length, seq_length).
    rewrite (map_nth (fun i => nth i blocks [])). now rewrite seq_nth.
Qed.

Theorem validate_once : forall id hb he hc fs req,
  Permutation (validate_steps (Node id hb he hc fs req))
              (opt_step hb (EV_BEFORE + id) ++ concat (map validate_steps fs) ++ opt_step he (EV_EXTRA + id)).
Proof.
  intros. cbn [validate_steps]. apply Permutation_app_head. apply Permutation_app_tail.
  set (blocks := map validate_steps fs).
  replace (length fs) with (length blocks) by (unfold blocks; apply map_length).
  transitivity (concat (permute (seq 0 (length blocks)) blocks)).
  - unfold permute. rewrite <- !flat_map_concat_map.
    apply Permutation_flat_map. unfold order_fixed. apply kahn_perm.
  - rewrite permute_seq. apply Permutation_refl.
Qed.

Theorem validate_after_required : forall id hb he hc fs req i j,
  closed (seq 0 (length fs)) (req_of req) -> acyclic (seq 0 (length fs)) (req_of req) ->
  (i < length fs)%nat -> In j (req_of req i) ->
  exists s1 s2 s3,
    validate_steps (Node id hb he hc fs req) =
    s1 ++ validate_steps (nth j fs (Leaf 0)) ++ s2 ++ validate_steps (nth i fs (Leaf 0)) ++ s3.
Proof.
  intros id hb he hc fs req i j Hcl Hac Hi Hj.
  destruct (order_correct (seq 0 (length fs)) (req_of req) (seq_NoDup _ _) Hcl Hac) as [_ [_ Hresp]].
  assert (Hin : In i (seq 0 (length fs))) by (apply in_seq; lia).
  destruct (Hresp i j Hin Hj) as [l1 [l2 [Eo Hjl]]].
  apply in_split in Hjl as [l1a [l1b El1]].
  assert (Hjlt : (j < length fs)%nat).
  { specialize (Hcl i j Hin Hj). apply in_seq in Hcl. lia. }
  cbn [validate_steps]. rewrite Eo, El1. unfold permute.
  set (F := fun k : nat => nth k (map validate_steps fs) []).
  assert (Hnth : forall k, (k < length fs)%nat -> F k = validate_steps (nth k fs (Leaf 0))).
  { intros k Hk. unfold F. rewrite (nth_indep _ [] (validate_steps (Leaf 0))) by (now rewrite map_length).
    apply map_nth. }
  exists (opt_step hb (EV_BEFORE + id) ++ concat (map F l1a)), (concat (map F l1b)),
         (concat (map F l2) ++ opt_step he (EV_EXTRA + id)).
  rewrite !map_app. cbn [map]. rewrite !concat_app. cbn [concat].
  rewrite (Hnth j Hjlt), (Hnth i Hi). rewrite <- !app_assoc. reflexivity.
Qed.

(* declaration order when the struct declares no `requires` *)
Theorem validate_default : forall id hb he hc fs req,
  (forall f, req_of req f = []) ->
  validate_steps (Node id hb he hc fs req) =
  opt_step hb (EV_BEFORE + id) ++ concat (map validate_steps fs) ++ opt_step he (EV_EXTRA + id).
Proof.
  intros id hb he hc fs req H. cbn [validate_steps]. rewrite order_default by exact H.
  replace (length fs) with (length (map validate_steps fs)) by apply map_length.
  now rewrite permute_seq.
Qed.

(* ------------------------------------------------------------------------------------------ *)
(* error codes *)
Lemma custom_u64_nonzero c : 0 <= c -> custom_u64 c <> 0.
Proof. unfold custom_u64, PE_CUSTOM_ZERO. intros H. destruct (c =? 0) eqn:E; zb; lia. Qed.

Lemma sfe_code_inj o1 d1 o2 d2 :
  0 <= d1 < 65536 -> 0 <= d2 < 65536 -> sfe_code o1 d1 = sfe_code o2 d2 -> o1 = o2 /\ d1 = d2.
Proof. unfold sfe_code. intros. lia. Qed.

(* ------------------------------------------------------------------------------------------ *)
(* the literals of the model are the constants / the call order found in the Rust sources by
   tools/gen_extra_c11.py on this run (coq/Gen/Gen_c11.v) *)
Theorem source_ties :
  C11_SIGHASH_NAMESPACE ++ [C11_SIGHASH_SEP] = global_prefix /\
  (forall H name, sighash H name = firstn (Z.to_nat C11_SIGHASH_LEN) (H (sighash_preimage name))) /\
  Z.of_nat (disc_width DSighash) = C11_DEFAULT_DISC_WIDTH /\
  (forall offset disc, sfe_code offset disc = offset * 2 ^ C11_SFE_SHIFT + disc) /\
  (forall vs, enum_discs vs C11_ENUM_DISC_START = enum_discs vs 0) /\ C11_ENUM_DISC_STEP = 1 /\
  C11_PHASE_ORDER = [PH_ARGS; PH_DECODE; PH_VALIDATE; PH_PROCESS; PH_CLEANUP] /\
  (forall armed ix data, map fst (ix_phases armed ix data) = C11_PHASE_ORDER).
Proof. repeat split; reflexivity. Qed.
