(* C11 - runner entry points: decode a case from integers, run the model, encode the observation.
   (trusted plumbing, no proofs; the encoding is documented in lib/props/c11.py)

   case  := 0, n, (k, r_1 .. r_k) * n                                   graph: field i requires r_1 .. r_k
          | 1, P, DL, desc (DL integers), input                         program run (P = index in the generated crate)
   desc  := mode (0 sighash | 1 2 4 8 repr width), signed, nix, ix * nix, nenum, enum * nenum, ntab, tab * ntab
   ix    := namelen, name bytes, has_explicit, explicit, args_len, process_event, aset
   aset  := 0, id | 1, id, hb, he, hc, nf, aset * nf, (k, r_1 .. r_k) * nf
   enum  := offset, nvar, (has, val) * nvar
   tab   := plen, preimage bytes, dlen, digest bytes                     (the SHA-256 oracle, computed by hashlib)
   input := mis, nd, data bytes, nacc, narmed, (event, kind, val) * narmed
   observation: graph -> the validation order (field positions); run -> code (0 = Ok), trace events        *)
From SF Require Import Base.Prelude Gen.Generated Dispatch.ReqOrder Dispatch.Dispatch Dispatch.Lifecycle.
Open Scope Z_scope.

Definition parser (A : Type) : Type := list Z -> option (A * list Z).

Definition p_int : parser Z := fun l => match l with x :: r => Some (x, r) | [] => None end.

Fixpoint p_rep {A} (p : parser A) (n : nat) : parser (list A) :=
  fun l =>
  match n with
  | O => Some ([], l)
  | S k => match p l with
           | Some (a, r) => match p_rep p k r with Some (xs, r') => Some (a :: xs, r') | None => None end
           | None => None
           end
  end.

(* length-prefixed list of integers *)
Definition p_ints : parser (list Z) :=
  fun l => match l with n :: r => p_rep p_int (Z.to_nat n) r | [] => None end.

Definition p_nats : parser (list nat) :=
  fun l => match p_ints l with Some (xs, r) => Some (map Z.to_nat xs, r) | None => None end.

Fixpoint p_aset (fuel : nat) : parser aset :=
  fun l =>
  match fuel with
  | O => None
  | S k =>
    match l with
    | 0 :: id :: r => Some (Leaf id, r)
    | 1 :: id :: hb :: he :: hc :: nf :: r =>
      match p_rep (p_aset k) (Z.to_nat nf) r with
      | Some (fs, r1) =>
        match p_rep p_nats (Z.to_nat nf) r1 with
        | Some (rq, r2) => Some (Node id (hb =? 1) (he =? 1) (hc =? 1) fs rq, r2)
        | None => None
        end
      | None => None
      end
    | _ => None
    end
  end.

(* name, explicit discriminant, instruction *)
Definition p_ix (fuel : nat) : parser (list Z * option Z * instr) :=
  fun l =>
  match p_ints l with
  | Some (name, has :: ex :: alen :: ev :: r) =>
    match p_aset fuel r with
    | Some (a, r') => Some ((name, if has =? 1 then Some ex else None, mkInstr (Z.to_nat alen) ev a), r')
    | None => None
    end
  | _ => None
  end.

Definition p_opt : parser (option Z) :=
  fun l => match l with has :: v :: r => Some (if has =? 1 then Some v else None, r) | _ => None end.

Definition p_enum : parser err_enum :=
  fun l =>
  match l with
  | offset :: nvar :: r =>
    match p_rep p_opt (Z.to_nat nvar) r with Some (vs, r') => Some ((offset, vs), r') | None => None end
  | _ => None
  end.

Definition p_tab : parser (list Z * list Z) :=
  fun l =>
  match p_ints l with
  | Some (pre, r) => match p_ints r with Some (dig, r') => Some ((pre, dig), r') | None => None end
  | None => None
  end.

Definition p_armed : parser (Z * Z * Z) :=
  fun l => match l with e :: k :: v :: r => Some ((e, k, v), r) | _ => None end.

(* the oracle as a finite table; an unlisted preimage hashes to [] (no discriminant then matches 8 bytes) *)
Fixpoint table_oracle (tab : list (list Z * list Z)) (x : list Z) : list Z :=
  match tab with
  | [] => []
  | (p, d) :: r => if bytes_eqb p x then d else table_oracle r x
  end.

Definition mode_of (m : Z) : disc_mode := if m =? 0 then DSighash else DRepr (Z.to_nat m).

Definition mode_align (m : disc_mode) : Z := match m with DSighash => 1 | DRepr w => Z.of_nat w end.

Definition encode_result (r : list Z * out unit) : list Z :=
  match r with
  | (t, Ok _) => 0 :: t
  | (t, Err c) => c :: t
  | (t, Panic) => -1 :: t
  | (t, Fault) => -2 :: t
  end.

Definition run_program (l : list Z) : list Z :=
  let fuel := length l in
  match l with
  | m :: _signed :: nix :: r0 =>
    match p_rep (p_ix fuel) (Z.to_nat nix) r0 with
    | Some (ixs, nenum :: r1) =>
      match p_rep p_enum (Z.to_nat nenum) r1 with
      | Some (enums, ntab :: r2) =>
        match p_rep p_tab (Z.to_nat ntab) r2 with
        | Some (tab, mis :: r3) =>
          match p_ints r3 with
          | Some (data, nacc :: narmed :: r4) =>
            match p_rep p_armed (Z.to_nat narmed) r4 with
            | Some (arm, []) =>
              let mode := mode_of m in
              let prog := mkProgram mode (map (fun x => fst (fst x)) ixs) (map (fun x => snd (fst x)) ixs) (map snd ixs) in
              let armed := map (fun a => match a with (e, k, v) => (e, raised_u64 enums k v) end) arm in
              let aligned := (mis mod mode_align mode) =? 0 in
              encode_result (entrypoint (table_oracle tab) prog aligned data (Z.to_nat nacc) armed)
            | _ => [-9]
            end
          | _ => [-9]
          end
        | _ => [-9]
        end
      | _ => [-9]
      end
    | _ => [-9]
    end
  | _ => [-9]
  end.

Definition run_graph (ord : (nat -> list nat) -> list nat -> list nat) (l : list Z) : list Z :=
  match l with
  | n :: r =>
    match p_rep p_nats (Z.to_nat n) r with
    | Some (rq, []) => map Z.of_nat (ord (req_of rq) (seq 0 (Z.to_nat n)))
    | _ => [-9]
    end
  | [] => [-9]
  end.

(* the model of the code AFTER the D4 repair (what the correspondence expects of /repo) *)
Definition run_c11 (l : list Z) : list Z :=
  match l with
  | 0 :: r => run_graph order_fixed r
  | 1 :: _p :: _dl :: r => run_program r
  | _ => [-9]
  end.

(* diagnostics: the shipped insertion procedure on graph cases *)
Definition run_c11s (l : list Z) : list Z :=
  match l with
  | 0 :: r => run_graph order_shipped r
  | _ => run_c11 l
  end.
