//! vh_c20: correspondence harness of C20 (trusted plumbing; see DESIGN.md section 8).
//!
//! The REAL source file of the CLI is compiled into this binary (`include!`), so the private functions
//! `validate_program_name`, `TemplateValues::new`, `render_template`, `program_keypair_relative_path` are the code
//! of /repo's working tree, called directly.  cargo tracks the included file: the binary is rebuilt when it changes.
//!
//!   vh_c20 <casefile> names <template-dir> <template-file>...
//!       case line:  <id> <|pk|> <pk chars...> <raw name chars...>          (Unicode scalar values, decimal)
//!       output   :  <id> <reason 1..6>                                    rejected
//!                   <id> 0 lp(name) lp(underscore) lp(upper) lp(pascal) lp(keypair file name) [(len hash) per template]
//!   vh_c20 <keypair.json> pubkey      prints the base58 public key of a keypair file
#![allow(dead_code, unused_imports, clippy::all)]

mod real {
    // VERIF_REPO is fixed at build time by lib/props/c20.py (default /repo)
    include!(concat!(env!("VERIF_REPO"), "/star_frame_cli/src/new_project.rs"));

    /// (reason code | accepted name) of the real `new_project_in` line 27: trim, then validate
    pub fn hook_validate(raw: &str) -> Result<String, i64> {
        match validate_program_name(raw.trim()) {
            Ok(n) => Ok(n),
            Err(e) => {
                let m = e.to_string();
                let code = if !m.contains("Invalid program name") {
                    90
                } else if m.contains("name cannot be empty") {
                    1
                } else if m.contains("must start with a lowercase ASCII letter") {
                    2
                } else if m.contains("cannot contain consecutive") {
                    3
                } else if m.contains("can only include lowercase letters") {
                    4
                } else if m.contains("cannot end with") {
                    5
                } else if m.contains("cannot be a Rust keyword") {
                    6
                } else {
                    91
                };
                Err(code)
            }
        }
    }

    pub fn hook_values(name: &str, pubkey: &str) -> [String; 5] {
        let v = TemplateValues::new(name, pubkey.to_owned());
        [
            v.name_lowercase.clone(),
            v.name_lowercase_underscore.clone(),
            v.name_uppercase.clone(),
            v.name_pascalcase.clone(),
            v.pubkey.clone(),
        ]
    }

    pub fn hook_render(template: &str, name: &str, pubkey: &str) -> String {
        render_template(template, &TemplateValues::new(name, pubkey.to_owned()))
    }

    pub fn hook_keypair_file(name: &str) -> String {
        program_keypair_relative_path(name)
            .file_name()
            .unwrap()
            .to_str()
            .unwrap()
            .to_owned()
    }
}

use std::io::{BufRead, Write};

fn lp(out: &mut Vec<i128>, s: &str) {
    out.push(s.chars().count() as i128);
    out.extend(s.chars().map(|c| c as u32 as i128));
}

fn poly_hash(s: &str) -> i128 {
    let mut h: u128 = 7;
    for c in s.chars() {
        h = (h * 1000003 + (c as u32 as u128) + 1) % 2305843009213693951u128;
    }
    h as i128
}

fn main() {
    let args: Vec<String> = std::env::args().collect();
    if args.len() >= 3 && args[2] == "pubkey" {
        use solana_signer::Signer;
        match solana_keypair::read_keypair_file(&args[1]) {
            Ok(k) => println!("{}", k.pubkey()),
            Err(e) => {
                println!("ERROR {e}");
                std::process::exit(1)
            }
        }
        return;
    }
    if args.len() < 4 || args[2] != "names" {
        eprintln!("usage: vh_c20 <casefile> names <template-dir> <template-file>... | vh_c20 <keypair.json> pubkey");
        std::process::exit(2);
    }
    let tdir = std::path::Path::new(&args[3]);
    let templates: Vec<String> = args[4..]
        .iter()
        .map(|f| std::fs::read_to_string(tdir.join(f)).expect("template"))
        .collect();
    let f = std::fs::File::open(&args[1]).expect("case file");
    let stdout = std::io::stdout();
    let mut w = std::io::BufWriter::new(stdout.lock());
    for line in std::io::BufReader::new(f).lines() {
        let line = line.unwrap();
        let mut toks = line.split_whitespace();
        let Some(id) = toks.next() else { continue };
        let ints: Vec<u32> = toks.map(|t| t.parse::<u32>().unwrap_or(u32::MAX)).collect();
        let npk = *ints.first().unwrap_or(&0) as usize;
        let conv = |xs: &[u32]| -> Option<String> { xs.iter().map(|&c| char::from_u32(c)).collect() };
        let (pk, raw) = if ints.len() >= 1 + npk {
            (conv(&ints[1..1 + npk]), conv(&ints[1 + npk..]))
        } else {
            (None, None)
        };
        let mut out: Vec<i128> = Vec::new();
        match (pk, raw) {
            (Some(pk), Some(raw)) => match real::hook_validate(&raw) {
                Err(code) => out.push(code as i128),
                Ok(name) => {
                    out.push(0);
                    let v = real::hook_values(&name, &pk);
                    lp(&mut out, &v[0]);
                    lp(&mut out, &v[1]);
                    lp(&mut out, &v[2]);
                    lp(&mut out, &v[3]);
                    lp(&mut out, &real::hook_keypair_file(&name));
                    if !pk.is_empty() {
                        for t in &templates {
                            let r = real::hook_render(t, &name, &pk);
                            out.push(r.chars().count() as i128);
                            out.push(poly_hash(&r));
                        }
                    }
                }
            },
            _ => out.push(-1),
        }
        write!(w, "{id}").unwrap();
        for x in out {
            write!(w, " {x}").unwrap();
        }
        writeln!(w).unwrap();
    }
}
