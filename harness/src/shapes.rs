//! The concrete family of Rust shapes standing for the model's inductive universe (DESIGN.md C01),
//! with their `Node` implementations (generated structs / enums need one each).
#![allow(clippy::all)]
use crate::nodes::*;
use crate::Cur;
use star_frame::prelude::*;
use star_frame::unsize::impls::UnsizedListPtr;
use star_frame::unsize::init::DefaultInit;
use star_frame::unsize::wrapper::ExclusiveRecurse;
use star_frame::Result;

/// implements Node for a generated unsized struct
#[macro_export]
macro_rules! struct_node {
    ($t:ident, $owned:ident, sized: [$(($sf:ident, $sty:ty)),*], unsized: [$(($idx:expr, $f:ident, $fty:ty)),*]) => {
        impl Node for $t {
            fn desc(o: &mut Vec<i128>) {
                let sized: Vec<Vec<i128>> = vec![$({ let mut v = vec![]; <$sty as Fx>::fdesc(&mut v); v }),*];
                let nuns = [$($idx),*].len() as i128;
                o.push(4);
                o.push(nuns + if sized.is_empty() { 0 } else { 1 });
                if !sized.is_empty() {
                    o.extend([0, 3, sized.len() as i128]);
                    for s in sized { o.extend(s); }
                }
                $( <$fty as Node>::desc(o); )*
            }
            #[allow(unused_mut, unused_variables)]
            fn from_val(c: &mut Cur) -> $owned {
                assert_eq!(c.next(), Some(3));
                let _n = c.next().unwrap();
                let names: [&str; 0 $(+ { let _ = stringify!($sf); 1 })*] = [$(stringify!($sf)),*]; let has_sized = names.len() > 0;
                let mut sb: Vec<u8> = vec![];
                if has_sized {
                    assert_eq!(c.next(), Some(0));
                    sb = cur_bytes(c);
                }
                let mut off = 0usize;
                $( let $sf: $sty = { let n = <$sty as Fx>::size(); let v = fx_from::<$sty>(&sb[off..off + n]); off += n; v }; )*
                $( let $f = <$fty as Node>::from_val(c); )*
                $owned { $($sf,)* $($f,)* }
            }
            #[allow(unused_mut)]
            fn to_val(o: &$owned, out: &mut Vec<i128>) {
                let names: [&str; 0 $(+ { let _ = stringify!($sf); 1 })*] = [$(stringify!($sf)),*]; let has_sized = names.len() > 0;
                let nuns = [$($idx),*].len() as i128;
                out.push(3);
                out.push(nuns + if has_sized { 1 } else { 0 });
                if has_sized {
                    let mut b: Vec<u8> = vec![];
                    $( b.extend_from_slice(star_frame::bytemuck::bytes_of(&{ o.$sf })); )*
                    out.push(0);
                    out.push(b.len() as i128);
                    out.extend(b.iter().map(|x| *x as i128));
                }
                $( <$fty as Node>::to_val(&o.$f, out); )*
            }
            #[allow(unused_variables, unused_mut)]
            fn apply<'p, 't, P>(w: &mut ExclusiveWrapper<'p, 't, <Self as UnsizedType>::Ptr, P>, c: &mut Cur, out: &mut Vec<i128>) -> Result<()>
            where
                ExclusiveWrapper<'p, 't, <Self as UnsizedType>::Ptr, P>: ExclusiveRecurse,
            {
                let op = c.next().unwrap();
                match op {
                    70 => return w.set_from_owned(<Self as Node>::from_val(c)),
                    71 => { let kind = c.next().unwrap(); return <Self as Node>::set_init(w, kind); }
                    1 => {
                        let i = c.next().unwrap();
                        $( if i == $idx { let mut ch = w.$f(); return <$fty as Node>::apply(&mut ch, c, out); } )*
                        return unsupported();
                    }
                    72 => {
                        // overwrite the whole sized part through the live pointer
                        let b = cur_bytes(c);
                        let mut off = 0usize;
                        $( { let n = <$sty as Fx>::size(); let v = fx_from::<$sty>(&b[off..off + n]); off += n; w.$sf = v; } )*
                        return Ok(());
                    }
                    _ => return unsupported(),
                }
            }
            fn scan(p: &<Self as UnsizedType>::Ptr, input: (usize, usize), out: &mut Vec<i128>) -> Result<()> {
                $( <$fty as Node>::scan(&p.$f, input, out)?; )*
                Ok(())
            }
            $crate::default_only_inits!();
        }
    };
}

// ---- generated structs -------------------------------------------------------------------------
#[unsized_type(skip_idl)]
pub struct S1 {
    pub s: u8,
    pub flag: bool,
    #[unsized_start]
    pub a: List<u8>,
    pub b: List<PackedValue<u16>, u8>,
}
struct_node!(S1, S1Owned, sized: [(s, u8), (flag, bool)], unsized: [(1, a, List<u8>), (2, b, List<PackedValue<u16>, u8>)]);

#[unsized_type(skip_idl)]
pub struct S2 {
    #[unsized_start]
    pub a: List<u8>,
    pub inner: UnsizedList<List<u8>>,
    pub rest: RemainingBytes,
}
struct_node!(S2, S2Owned, sized: [], unsized: [(0, a, List<u8>), (1, inner, UnsizedList<List<u8>>), (2, rest, RemainingBytes)]);

#[unsized_type(skip_idl)]
pub struct S3 {
    #[unsized_start]
    pub a: List<u8>,
    pub b: List<u8>,
    pub c: List<u8>,
}
struct_node!(S3, S3Owned, sized: [], unsized: [(0, a, List<u8>), (1, b, List<u8>), (2, c, List<u8>)]);

/// nested struct between siblings
#[unsized_type(skip_idl)]
pub struct S4 {
    pub k: PackedValue<u32>,
    #[unsized_start]
    pub x: List<u8, u8>,
    pub mid: S1,
    pub y: UnsizedList<S1>,
    pub z: List<u8>,
}
struct_node!(S4, S4Owned, sized: [(k, PackedValue<u32>)], unsized: [(1, x, List<u8, u8>), (2, mid, S1), (3, y, UnsizedList<S1>), (4, z, List<u8>)]);

/// two sibling lists of unsized elements followed by a plain list (the D7 shape)
#[unsized_type(skip_idl)]
pub struct S5 {
    #[unsized_start]
    pub a: List<u8>,
    pub b: UnsizedList<List<u8>>,
    pub c: UnsizedList<UnsizedList<List<u8>>>,
    pub d: List<u8>,
}
struct_node!(S5, S5Owned, sized: [], unsized: [(0, a, List<u8>), (1, b, UnsizedList<List<u8>>), (2, c, UnsizedList<UnsizedList<List<u8>>>), (3, d, List<u8>)]);

/// maps and strings between siblings
#[unsized_type(skip_idl)]
pub struct S6 {
    #[unsized_start]
    pub m: Map<u8, PackedValue<u16>, u8>,
    pub um: UnsizedMap<u8, List<u8, u8>>,
    pub st: UnsizedString<u8>,
    pub set: Set<PackedValue<u32>>,
    pub um2: UnsizedMap<u8, S3>,
}
struct_node!(S6, S6Owned, sized: [], unsized: [(0, m, Map<u8, PackedValue<u16>, u8>), (1, um, UnsizedMap<u8, List<u8, u8>>), (2, st, UnsizedString<u8>), (3, set, Set<PackedValue<u32>>), (4, um2, UnsizedMap<u8, S3>)]);

/// generic structs: the sized part's CheckedBitPattern impl is written by the macro, not by bytemuck's derive
/// (with and without the leading PhantomData marker)
#[unsized_type(skip_idl, skip_phantom_generics)]
pub struct G1<A: star_frame::unsize::impls::UnsizedGenerics, B>
where
    B: star_frame::unsize::impls::UnsizedGenerics,
{
    pub g1: A,
    pub g2: B,
    pub g3: u8,
    #[unsized_start]
    pub l: List<u8>,
}
pub type G1bb = G1<bool, bool>;
pub type G1bbOwned = G1Owned<bool, bool>;
struct_node!(G1bb, G1bbOwned, sized: [(g1, bool), (g2, bool), (g3, u8)], unsized: [(1, l, List<u8>)]);

#[unsized_type(skip_idl)]
pub struct G2<A: star_frame::unsize::impls::UnsizedGenerics> {
    pub h1: bool,
    pub h2: PackedValue<u16>,
    #[unsized_start]
    pub l: List<A, u8>,
    pub m: List<u8>,
}
pub type G2b = G2<bool>;
pub type G2bOwned = G2Owned<bool>;
struct_node!(G2b, G2bOwned, sized: [(h1, bool), (h2, PackedValue<u16>)], unsized: [(1, l, List<bool, u8>), (2, m, List<u8>)]);

// ---- the family ----------------------------------------------------------------------------------
/// call `$m!(index, Type)` for the selected shape
#[macro_export]
macro_rules! with_shape {
    ($idx:expr, $m:ident) => {
        match $idx {
            0 => $m!(List<u8>),
            1 => $m!(List<PackedValue<u16>, u8>),
            2 => $m!(List<bool, u16>),
            3 => $m!(RemainingBytes),
            4 => $m!(UnsizedList<List<u8>>),
            5 => $m!(UnsizedList<UnsizedList<List<u8>>>),
            6 => $m!($crate::shapes::S1),
            7 => $m!($crate::shapes::S2),
            8 => $m!(UnsizedList<$crate::shapes::S1>),
            9 => $m!(UnsizedMap<u8, List<u8>>),
            10 => $m!(Map<u8, PackedValue<u16>, u8>),
            11 => $m!(Set<PackedValue<u32>>),
            12 => $m!(UnsizedString<u8>),
            13 => $m!($crate::shapes::S3),
            14 => $m!($crate::shapes::S4),
            15 => $m!($crate::shapes::S5),
            16 => $m!($crate::shapes::S6),
            17 => $m!(UnsizedList<List<u8, u8>>),
            18 => $m!(UnsizedMap<u8, $crate::shapes::S3>),
            19 => $m!($crate::shapes::G1bb),
            20 => $m!($crate::shapes::G2b),
            _ => panic!("unknown shape"),
        }
    };
}
pub const N_SHAPES: i128 = 21;
