//! The concrete family of Rust shapes standing for the model's inductive universe (DESIGN.md C01),
//! with their `Node` implementations (generated structs / enums need one each).
#![allow(clippy::all)]
use crate::nodes::*;
use crate::Cur;
use star_frame::prelude::*;
use star_frame::unsize::impls::UnsizedListPtr;
use star_frame::unsize::init::DefaultInit;
use star_frame::unsize::wrapper::ExclusiveRecurse;
use star_frame::Result;

/// implements Node for a generated unsized struct
#[macro_export]
macro_rules! struct_node {
    ($t:ident, $owned:ident, sized: [$(($sf:ident, $sty:ty)),*], unsized: [$(($idx:expr, $f:ident, $fty:ty)),*]) => {
        impl Node for $t {
            fn desc(o: &mut Vec<i128>) {
                let sized: Vec<Vec<i128>> = vec![$({ let mut v = vec![]; <$sty as Fx>::fdesc(&mut v); v }),*];
                let nuns = [$($idx),*].len() as i128;
                o.push(4);
                o.push(nuns + if sized.is_empty() { 0 } else { 1 });
                if !sized.is_empty() {
                    o.extend([0, 3, sized.len() as i128]);
                    for s in sized { o.extend(s); }
                }
                $( <$fty as Node>::desc(o); )*
            }
            #[allow(unused_mut, unused_variables)]
            fn from_val(c: &mut Cur) -> $owned {
                assert_eq!(c.next(), Some(3));
                let _n = c.next().unwrap();
                let names: [&str; 0 $(+ { let _ = stringify!($sf); 1 })*] = [$(stringify!($sf)),*]; let has_sized = names.len() > 0;
                let mut sb: Vec<u8> = vec![];
                if has_sized {
                    assert_eq!(c.next(), Some(0));
                    sb = cur_bytes(c);
                }
                let mut off = 0usize;
                $( let $sf: $sty = { let n = <$sty as Fx>::size(); let v = fx_from::<$sty>(&sb[off..off + n]); off += n; v }; )*
                $( let $f = <$fty as Node>::from_val(c); )*
                $owned { $($sf,)* $($f,)* }
            }
            #[allow(unused_mut)]
            fn to_val(o: &$owned, out: &mut Vec<i128>) {
                let names: [&str; 0 $(+ { let _ = stringify!($sf); 1 })*] = [$(stringify!($sf)),*]; let has_sized = names.len() > 0;
                let nuns = [$($idx),*].len() as i128;
                out.push(3);
                out.push(nuns + if has_sized { 1 } else { 0 });
                if has_sized {
                    let mut b: Vec<u8> = vec![];
                    $( b.extend_from_slice(star_frame::bytemuck::bytes_of(&{ o.$sf })); )*
                    out.push(0);
                    out.push(b.len() as i128);
                    out.extend(b.iter().map(|x| *x as i128));
                }
                $( <$fty as Node>::to_val(&o.$f, out); )*
            }
            #[allow(unused_variables, unused_mut)]
            fn apply<'p, 't, P>(w: &mut ExclusiveWrapper<'p, 't, <Self as UnsizedType>::Ptr, P>, c: &mut Cur, out: &mut Vec<i128>) -> Result<()>
            where
                ExclusiveWrapper<'p, 't, <Self as UnsizedType>::Ptr, P>: ExclusiveRecurse,
            {
                let op = c.next().unwrap();
                match op {
                    70 => return w.set_from_owned(<Self as Node>::from_val(c)),
                    71 => { let kind = c.next().unwrap(); return <Self as Node>::set_init(w, kind); }
                    1 => {
                        let i = c.next().unwrap();
                        $( if i == $idx { let mut ch = w.$f(); return <$fty as Node>::apply(&mut ch, c, out); } )*
                        return unsupported();
                    }
                    72 => {
                        // overwrite the whole sized part through the live pointer
                        let b = cur_bytes(c);
                        let mut off = 0usize;
                        $( { let n = <$sty as Fx>::size(); let v = fx_from::<$sty>(&b[off..off + n]); off += n; w.$sf = v; } )*
                        return Ok(());
                    }
                    _ => return unsupported(),
                }
            }
            fn scan(p: &<Self as UnsizedType>::Ptr, input: (usize, usize), out: &mut Vec<i128>) -> Result<()> {
                $( <$fty as Node>::scan(&p.$f, input, out)?; )*
                Ok(())
            }
            #[allow(unused_variables)]
            fn scan_mut(p: &mut <Self as UnsizedType>::Ptr, input: (usize, usize), out: &mut Vec<i128>) {
                // the sized part through DerefMut, then every unsized field's pointer
                $( $crate::nodes::acc(out, || { let r: &mut $sty = &mut p.$sf; $crate::nodes::fx_at(&*r, input); 1 }); )*
                $( {
                    out.push($crate::nodes::inside::<$fty>(&p.$f, input));
                    <$fty as Node>::scan_mut(&mut p.$f, input, out);
                } )*
            }
            #[allow(unused_variables)]
            fn scan_excl<'p, 't, P>(w: &mut ExclusiveWrapper<'p, 't, <Self as UnsizedType>::Ptr, P>, input: (usize, usize), out: &mut Vec<i128>)
            where
                ExclusiveWrapper<'p, 't, <Self as UnsizedType>::Ptr, P>: ExclusiveRecurse,
            {
                // the sized part through the wrapper's DerefMut, then the generated child wrapper of every unsized field
                $( $crate::nodes::acc(out, || { let r: &mut $sty = &mut w.$sf; $crate::nodes::fx_at(&*r, input); 1 }); )*
                $( {
                    let mut sub = vec![];
                    $crate::nodes::acc(out, || {
                        let mut ch = w.$f();
                        let f = $crate::nodes::inside::<$fty>(&*ch, input);
                        <$fty as Node>::scan_excl(&mut ch, input, &mut sub);
                        f
                    });
                    out.extend(sub);
                } )*
            }
            $crate::default_only_inits!();
        }
    };
}

/// implements Node for a generated unsized enum (star_frame_proc/src/unsize/enum_impl.rs).
/// `$discs` = the generated `<Enum>Discriminants` enum (the descriptor's discriminant values are read from it, not
/// repeated here); `default:` = the variant carrying `#[default_init]`, listed FIRST in the descriptor (the model's
/// DefaultInit of `TEnum rw vs` initialises the first listed variant; the order of `vs` means nothing else).
/// Op codes at an enum node:
///   1 d rest   `get()`: if the live variant is not the one with discriminant d -> extra [-1]; a unit variant -> extra [-2];
///              otherwise `rest` is applied to the payload's wrapper
///   60 d rest  `set_<variant d>(DefaultInit)` (`set_<variant d>()` for a unit variant); for a data variant a non-empty
///              `rest` is applied to the wrapper the setter returns
///   70 val     set_from_owned          71 0   set_from_init(DefaultInit)
#[macro_export]
macro_rules! enum_node {
    ($t:ident, $owned:ident, $excl:ident, $discs:ident, repr: $rw:expr, default: $def:ident,
     data: [$(($dv:ident, $dset:ident, $dty:ty)),*], unit: [$(($uv:ident, $uset:ident)),*]) => {
        impl Node for $t {
            fn desc(o: &mut Vec<i128>) {
                let mut vars: Vec<(i128, Vec<i128>)> = vec![];
                $( { let mut v = vec![]; <$dty as Node>::desc(&mut v); vars.push(($discs::$dv as i128, v)); } )*
                $( vars.push(($discs::$uv as i128, vec![4, 0])); )*
                let def = $discs::$def as i128;
                vars.sort_by_key(|(d, _)| (*d != def, *d));
                assert_eq!(std::mem::size_of::<$discs>() as i128, $rw);
                o.extend([5, $rw, vars.len() as i128]);
                for (d, v) in vars {
                    o.push(d);
                    o.extend(v);
                }
            }
            fn from_val(c: &mut Cur) -> $owned {
                assert_eq!(c.next(), Some(4));
                let d = c.next().unwrap();
                $( if d == $discs::$dv as i128 { return $owned::$dv(<$dty as Node>::from_val(c)); } )*
                $( if d == $discs::$uv as i128 {
                    assert_eq!(c.next(), Some(3));
                    assert_eq!(c.next(), Some(0));
                    return $owned::$uv;
                } )*
                panic!("generator produced an unknown discriminant");
            }
            fn to_val(o: &$owned, out: &mut Vec<i128>) {
                match o {
                    $( $owned::$dv(inner) => {
                        out.extend([4, $discs::$dv as i128]);
                        <$dty as Node>::to_val(inner, out);
                    } )*
                    $( $owned::$uv => out.extend([4, $discs::$uv as i128, 3, 0]), )*
                }
            }
            #[allow(unused_variables, unused_mut)]
            fn apply<'p, 't, P>(w: &mut ExclusiveWrapper<'p, 't, <Self as UnsizedType>::Ptr, P>, c: &mut Cur, out: &mut Vec<i128>) -> Result<()>
            where
                ExclusiveWrapper<'p, 't, <Self as UnsizedType>::Ptr, P>: ExclusiveRecurse,
            {
                let op = c.next().unwrap();
                match op {
                    70 => w.set_from_owned(<Self as Node>::from_val(c)),
                    71 => {
                        let kind = c.next().unwrap();
                        <Self as Node>::set_init(w, kind)
                    }
                    1 => {
                        let d = c.next().unwrap();
                        match w.get() {
                            $( $excl::$dv(mut ch) => {
                                if d == $discs::$dv as i128 {
                                    <$dty as Node>::apply(&mut ch, c, out)
                                } else {
                                    out.push(-1);
                                    Ok(())
                                }
                            } )*
                            $( $excl::$uv => {
                                out.push(if d == $discs::$uv as i128 { -2 } else { -1 });
                                Ok(())
                            } )*
                        }
                    }
                    60 => {
                        let d = c.next().unwrap();
                        $( if d == $discs::$dv as i128 {
                            let mut ch = w.$dset(DefaultInit)?;
                            if c.done() {
                                return Ok(());
                            }
                            return <$dty as Node>::apply(&mut ch, c, out);
                        } )*
                        $( if d == $discs::$uv as i128 {
                            return w.$uset();
                        } )*
                        unsupported()
                    }
                    _ => unsupported(),
                }
            }
            fn scan(p: &<Self as UnsizedType>::Ptr, input: (usize, usize), out: &mut Vec<i128>) -> Result<()> {
                match &p.data {
                    $( $t::$dv(inner) => {
                        out.push($discs::$dv as i128);
                        out.push($crate::nodes::inside::<$dty>(inner, input));
                        <$dty as Node>::scan(inner, input, out)
                    } )*
                    $( $t::$uv => {
                        out.push($discs::$uv as i128);
                        Ok(())
                    } )*
                }
            }
            fn scan_mut(p: &mut <Self as UnsizedType>::Ptr, input: (usize, usize), out: &mut Vec<i128>) {
                // the live variant's payload pointer
                match &mut p.data {
                    $( $t::$dv(inner) => {
                        out.push($discs::$dv as i128);
                        out.push($crate::nodes::inside::<$dty>(&*inner, input));
                        <$dty as Node>::scan_mut(inner, input, out);
                    } )*
                    $( $t::$uv => out.push($discs::$uv as i128), )*
                }
            }
            fn scan_excl<'p, 't, P>(w: &mut ExclusiveWrapper<'p, 't, <Self as UnsizedType>::Ptr, P>, input: (usize, usize), out: &mut Vec<i128>)
            where
                ExclusiveWrapper<'p, 't, <Self as UnsizedType>::Ptr, P>: ExclusiveRecurse,
            {
                // the generated `get()`: the live variant's child wrapper
                let mut sub = vec![];
                $crate::nodes::acc(out, || match w.get() {
                    $( $excl::$dv(mut ch) => {
                        sub.push($crate::nodes::inside::<$dty>(&*ch, input));
                        <$dty as Node>::scan_excl(&mut ch, input, &mut sub);
                        $discs::$dv as i128
                    } )*
                    $( $excl::$uv => $discs::$uv as i128, )*
                });
                out.extend(sub);
            }
            $crate::default_only_inits!();
        }
    };
}

// ---- generated structs -------------------------------------------------------------------------
#[unsized_type(skip_idl)]
pub struct S1 {
    pub s: u8,
    pub flag: bool,
    #[unsized_start]
    pub a: List<u8>,
    pub b: List<PackedValue<u16>, u8>,
}
struct_node!(S1, S1Owned, sized: [(s, u8), (flag, bool)], unsized: [(1, a, List<u8>), (2, b, List<PackedValue<u16>, u8>)]);

#[unsized_type(skip_idl)]
pub struct S2 {
    #[unsized_start]
    pub a: List<u8>,
    pub inner: UnsizedList<List<u8>>,
    pub rest: RemainingBytes,
}
struct_node!(S2, S2Owned, sized: [], unsized: [(0, a, List<u8>), (1, inner, UnsizedList<List<u8>>), (2, rest, RemainingBytes)]);

#[unsized_type(skip_idl)]
pub struct S3 {
    #[unsized_start]
    pub a: List<u8>,
    pub b: List<u8>,
    pub c: List<u8>,
}
struct_node!(S3, S3Owned, sized: [], unsized: [(0, a, List<u8>), (1, b, List<u8>), (2, c, List<u8>)]);

/// nested struct between siblings
#[unsized_type(skip_idl)]
pub struct S4 {
    pub k: PackedValue<u32>,
    #[unsized_start]
    pub x: List<u8, u8>,
    pub mid: S1,
    pub y: UnsizedList<S1>,
    pub z: List<u8>,
}
struct_node!(S4, S4Owned, sized: [(k, PackedValue<u32>)], unsized: [(1, x, List<u8, u8>), (2, mid, S1), (3, y, UnsizedList<S1>), (4, z, List<u8>)]);

/// two sibling lists of unsized elements followed by a plain list (the D7 shape)
#[unsized_type(skip_idl)]
pub struct S5 {
    #[unsized_start]
    pub a: List<u8>,
    pub b: UnsizedList<List<u8>>,
    pub c: UnsizedList<UnsizedList<List<u8>>>,
    pub d: List<u8>,
}
struct_node!(S5, S5Owned, sized: [], unsized: [(0, a, List<u8>), (1, b, UnsizedList<List<u8>>), (2, c, UnsizedList<UnsizedList<List<u8>>>), (3, d, List<u8>)]);

/// maps and strings between siblings
#[unsized_type(skip_idl)]
pub struct S6 {
    #[unsized_start]
    pub m: Map<u8, PackedValue<u16>, u8>,
    pub um: UnsizedMap<u8, List<u8, u8>>,
    pub st: UnsizedString<u8>,
    pub set: Set<PackedValue<u32>>,
    pub um2: UnsizedMap<u8, S3>,
}
struct_node!(S6, S6Owned, sized: [], unsized: [(0, m, Map<u8, PackedValue<u16>, u8>), (1, um, UnsizedMap<u8, List<u8, u8>>), (2, st, UnsizedString<u8>), (3, set, Set<PackedValue<u32>>), (4, um2, UnsizedMap<u8, S3>)]);

/// generic structs: the sized part's CheckedBitPattern impl is written by the macro, not by bytemuck's derive
/// (with and without the leading PhantomData marker)
#[unsized_type(skip_idl, skip_phantom_generics)]
pub struct G1<A: star_frame::unsize::impls::UnsizedGenerics, B>
where
    B: star_frame::unsize::impls::UnsizedGenerics,
{
    pub g1: A,
    pub g2: B,
    pub g3: u8,
    #[unsized_start]
    pub l: List<u8>,
}
pub type G1bb = G1<bool, bool>;
pub type G1bbOwned = G1Owned<bool, bool>;
struct_node!(G1bb, G1bbOwned, sized: [(g1, bool), (g2, bool), (g3, u8)], unsized: [(1, l, List<u8>)]);

#[unsized_type(skip_idl)]
pub struct G2<A: star_frame::unsize::impls::UnsizedGenerics> {
    pub h1: bool,
    pub h2: PackedValue<u16>,
    #[unsized_start]
    pub l: List<A, u8>,
    pub m: List<u8>,
}
pub type G2b = G2<bool>;
pub type G2bOwned = G2Owned<bool>;
struct_node!(G2b, G2bOwned, sized: [(h1, bool), (h2, PackedValue<u16>)], unsized: [(1, l, List<bool, u8>), (2, m, List<u8>)]);

// ---- generated enums ---------------------------------------------------------------------------
/// data variants (a plain list, a struct with a sized part) and a unit variant; explicit and implicit discriminants
#[unsized_type(skip_idl)]
#[repr(u8)]
pub enum E1 {
    #[default_init]
    A(List<u8>),
    B(S1) = 3,
    C,
}
enum_node!(E1, E1Owned, E1Exclusive, E1Discriminants, repr: 1, default: A,
    data: [(A, set_a, List<u8>), (B, set_b, S1)], unit: [(C, set_c)]);

/// the enum BETWEEN two siblings
#[unsized_type(skip_idl)]
pub struct S7 {
    #[unsized_start]
    pub a: List<u8>,
    pub e: E1,
    pub d: List<u8>,
}
struct_node!(S7, S7Owned, sized: [], unsized: [(0, a, List<u8>), (1, e, E1), (2, d, List<u8>)]);

/// two-byte discriminants, the #[default_init] variant is a unit variant and not the first one, a list of enums inside
/// an enum, and a payload that consumes the rest of the buffer
#[unsized_type(skip_idl)]
#[repr(u16)]
pub enum E2 {
    P(UnsizedList<E1>) = 2,
    #[default_init]
    Q,
    R(RemainingBytes) = 300,
}
enum_node!(E2, E2Owned, E2Exclusive, E2Discriminants, repr: 2, default: Q,
    data: [(P, set_p, UnsizedList<E1>), (R, set_r, RemainingBytes)], unit: [(Q, set_q)]);

/// an enum in tail position after a sized part and a sibling
#[unsized_type(skip_idl)]
pub struct S8 {
    pub n: PackedValue<u16>,
    #[unsized_start]
    pub x: List<u8>,
    pub e: E2,
}
struct_node!(S8, S8Owned, sized: [(n, PackedValue<u16>)], unsized: [(1, x, List<u8>), (2, e, E2)]);

/// a unit variant FIRST, the #[default_init] variant a data variant in the middle, another data variant of another size last
#[unsized_type(skip_idl)]
#[repr(u8)]
pub enum E3 {
    U,
    #[default_init]
    V(List<u8>),
    W(S1) = 9,
}
enum_node!(E3, E3Owned, E3Exclusive, E3Discriminants, repr: 1, default: V,
    data: [(V, set_v, List<u8>), (W, set_w, S1)], unit: [(U, set_u)]);

// ---- the family ----------------------------------------------------------------------------------
/// call `$m!(index, Type)` for the selected shape
#[macro_export]
macro_rules! with_shape {
    ($idx:expr, $m:ident) => {
        match $idx {
            0 => $m!(List<u8>),
            1 => $m!(List<PackedValue<u16>, u8>),
            2 => $m!(List<bool, u16>),
            3 => $m!(RemainingBytes),
            4 => $m!(UnsizedList<List<u8>>),
            5 => $m!(UnsizedList<UnsizedList<List<u8>>>),
            6 => $m!($crate::shapes::S1),
            7 => $m!($crate::shapes::S2),
            8 => $m!(UnsizedList<$crate::shapes::S1>),
            9 => $m!(UnsizedMap<u8, List<u8>>),
            10 => $m!(Map<u8, PackedValue<u16>, u8>),
            11 => $m!(Set<PackedValue<u32>>),
            12 => $m!(UnsizedString<u8>),
            13 => $m!($crate::shapes::S3),
            14 => $m!($crate::shapes::S4),
            15 => $m!($crate::shapes::S5),
            16 => $m!($crate::shapes::S6),
            17 => $m!(UnsizedList<List<u8, u8>>),
            18 => $m!(UnsizedMap<u8, $crate::shapes::S3>),
            19 => $m!($crate::shapes::G1bb),
            20 => $m!($crate::shapes::G2b),
            21 => $m!($crate::shapes::E1),
            22 => $m!($crate::shapes::S7),
            23 => $m!(UnsizedList<$crate::shapes::E1>),
            24 => $m!($crate::shapes::S8),
            // keyed containers whose items have forbidden bit patterns (parse / encode properties only)
            25 => $m!(Map<u8, bool, u8>),
            26 => $m!(Set<bool, u8>),
            // a length prefix as wide as usize over multi-byte items: count x size can wrap
            27 => $m!(List<PackedValue<u32>, u64>),
            28 => $m!($crate::shapes::E3),
            // a length prefix as wide as usize over ONE-byte items: count = byte length, so a count near 2^64 is an advance
            // near usize::MAX (pointer arithmetic on the cursor can wrap)
            29 => $m!(List<u8, u64>),
            _ => panic!("unknown shape"),
        }
    };
}
pub const N_SHAPES: i128 = 30;
