//! A generic interpreter of (path, op) histories over the REAL wrapper API, for a family of
//! unsized shapes.  Every shape implements `Node`: its `ty` descriptor (the model's universe),
//! conversions between its Owned type and the model's `val` integer form, reading through live
//! pointers, and applying one operation at a path through `ExclusiveWrapper`.
#![allow(clippy::all)]
use crate::Cur;
use star_frame::align1::Align1;
use star_frame::bytemuck::{self, CheckedBitPattern, NoUninit};
use star_frame::prelude::*;
use star_frame::unsize::impls::{UnsizedListPtr, UnsizedGenerics};
use star_frame::unsize::init::{DefaultInit, UnsizedInit};
use star_frame::unsize::wrapper::ExclusiveRecurse;
use star_frame::unsize::{FromOwned, UnsizedTypePtr};
use star_frame::errors::ErrorCode;
use star_frame::Result;
use std::collections::{BTreeMap, BTreeSet};

// ---------------------------------------------------------------- fixed-size leaves
pub trait Fx: CheckedBitPattern + NoUninit + Align1 + Copy + 'static {
    fn fdesc(out: &mut Vec<i128>);
    fn size() -> usize {
        std::mem::size_of::<Self>()
    }
}
impl Fx for u8 {
    fn fdesc(o: &mut Vec<i128>) {
        o.extend([0, 1]);
    }
}
impl Fx for bool {
    fn fdesc(o: &mut Vec<i128>) {
        o.extend([1]);
    }
}
impl Fx for PackedValue<u16> {
    fn fdesc(o: &mut Vec<i128>) {
        o.extend([0, 2]);
    }
}
impl Fx for PackedValue<u32> {
    fn fdesc(o: &mut Vec<i128>) {
        o.extend([0, 4]);
    }
}
impl Fx for PackedValue<u64> {
    fn fdesc(o: &mut Vec<i128>) {
        o.extend([0, 8]);
    }
}
impl Fx for [u8; 3] {
    fn fdesc(o: &mut Vec<i128>) {
        o.extend([0, 3]);
    }
}

pub fn fx_from<T: Fx>(b: &[u8]) -> T {
    *bytemuck::checked::try_from_bytes::<T>(b).expect("generator produced an invalid bit pattern")
}
/// announced size vs what `init` really writes: `kind INIT_BYTES 0 consumed tail_untouched nbytes bytes.. reparse`
/// (reparse: 0 = `owned` of exactly the written bytes succeeds) or `kind INIT_BYTES 1 code` / `kind INIT_BYTES 2`
pub fn probe_init<T, I>(kind: i128, arg: I, out: &mut Vec<i128>)
where
    T: UnsizedType + star_frame::unsize::init::UnsizedInit<I> + ?Sized,
{
    let n = <T as star_frame::unsize::init::UnsizedInit<I>>::INIT_BYTES;
    out.push(kind);
    out.push(n as i128);
    let mut buf = vec![0xEEu8; n + 4];
    let total = buf.len();
    let mut left = 0usize;
    let r = {
        let mut sl: &mut [u8] = &mut buf[..];
        let r = crate::guarded(|| <T as star_frame::unsize::init::UnsizedInit<I>>::init(&mut sl, arg));
        left = sl.len();
        r
    };
    match r {
        Ok(Ok(())) => {
            let consumed = total - left;
            out.push(0);
            out.push(consumed as i128);
            out.push(buf[consumed.max(n).min(total)..].iter().all(|b| *b == 0xEE) as i128);
            out.push(consumed as i128);
            out.extend(buf[..consumed].iter().map(|b| *b as i128));
            out.push(match crate::guarded(|| T::owned(&buf[..consumed])) {
                Ok(Ok(_)) => 0,
                _ => 1,
            });
        }
        Ok(Err(e)) => {
            out.push(1);
            out.push(crate::err_code(e) as i128);
        }
        Err(()) => out.push(2),
    }
}

thread_local! {
    /// number of fixed-size values handed out by SHARED accessors whose bytes are not a valid bit pattern of their type
    pub static INVALID: std::cell::Cell<i128> = const { std::cell::Cell::new(0) };
}
/// a value reached through a shared view: its raw bytes must pass the type's own validity check
pub fn fx_seen<T: Fx>(t: &T) {
    let b = bytemuck::bytes_of(t);
    if bytemuck::checked::try_from_bytes::<T>(b).is_err() {
        INVALID.with(|c| c.set(c.get() + 1));
    }
}
/// a value reached through an EXCLUSIVE view: valid bit pattern (INVALID) and located inside the input (OUTSIDE)
pub fn fx_at<T: Fx>(t: &T, input: (usize, usize)) {
    fx_seen(t);
    span_inside(t as *const T as usize, std::mem::size_of::<T>(), input);
}
/// `[start, start+len)` must lie inside the input
pub fn span_inside(start: usize, len: usize, input: (usize, usize)) -> i128 {
    let ok = start >= input.0 && start.checked_add(len).map_or(false, |e| e <= input.0 + input.1);
    if !ok {
        OUTSIDE.with(|c| c.set(c.get() + 1));
    }
    ok as i128
}
/// one accessor under `catch_unwind`: pushes what it returns, -2 for a controlled panic
pub fn acc(out: &mut Vec<i128>, f: impl FnOnce() -> i128) {
    match crate::guarded(f) {
        Ok(v) => out.push(v),
        Err(()) => out.push(-2),
    }
}
pub fn fx_push_bytes<T: Fx>(t: &T, out: &mut Vec<i128>) {
    let b = bytemuck::bytes_of(t);
    out.push(b.len() as i128);
    out.extend(b.iter().map(|x| *x as i128));
}
pub fn cur_bytes(c: &mut Cur) -> Vec<u8> {
    let n = c.next().unwrap() as usize;
    c.take(n).unwrap().iter().map(|x| *x as u8).collect()
}
fn push_bytes(b: &[u8], out: &mut Vec<i128>) {
    out.push(b.len() as i128);
    out.extend(b.iter().map(|x| *x as i128));
}
fn ones<T: Fx>() -> T {
    fx_from::<T>(&vec![1u8; T::size()])
}

/// list length prefix types
pub trait Lw: star_frame::unsize::impls::ListLength + num_traits::Zero + 'static {
    const W: i128;
}
impl Lw for u8 {
    const W: i128 = 1;
}
impl Lw for u16 {
    const W: i128 = 2;
}
impl Lw for u32 {
    const W: i128 = 4;
}
impl Lw for u64 {
    const W: i128 = 8;
}

// ---------------------------------------------------------------- the trait
pub const SKIP: i128 = 9;

pub trait Node: UnsizedType + FromOwned + 'static
where
    Self::Ptr: UnsizedTypePtr<UnsizedType = Self>,
{
    fn desc(out: &mut Vec<i128>);
    fn from_val(c: &mut Cur) -> Self::Owned;
    fn to_val(o: &Self::Owned, out: &mut Vec<i128>);
    /// apply the operation encoded at the cursor at/below this node; pushes extra result ints
    fn apply<'p, 't, P>(
        w: &mut ExclusiveWrapper<'p, 't, Self::Ptr, P>,
        c: &mut Cur,
        out: &mut Vec<i128>,
    ) -> Result<()>
    where
        ExclusiveWrapper<'p, 't, Self::Ptr, P>: ExclusiveRecurse;

    /// set_from_init with initializer `kind`
    fn set_init<'p, 't, P>(w: &mut ExclusiveWrapper<'p, 't, Self::Ptr, P>, kind: i128) -> Result<()>
    where
        ExclusiveWrapper<'p, 't, Self::Ptr, P>: ExclusiveRecurse;

    /// `UnsizedInit<I>` of this type for the initializer kinds it supports (0 = DefaultInit, ...): for each kind
    /// `kind INIT_BYTES tag [consumed tail_untouched nbytes bytes.. reparse]` (see `probe_init`)
    fn init_probe(out: &mut Vec<i128>);

    /// exercise every shared accessor (iteration, indexing) below this pointer; `input` = (address, length)
    /// of the byte string the value was parsed from; pushes what was read and, for every element an
    /// iterator yields, whether its extent lies inside the input
    fn scan(_p: &Self::Ptr, _input: (usize, usize), _out: &mut Vec<i128>) -> Result<()> {
        Ok(())
    }

    /// exercise every MUTABLE accessor (`&mut self` methods of the pointer and of what it derefs to: mutable iteration,
    /// indexing, slices, by key) below this pointer, which belongs to an EXCLUSIVE view over `input`; every accessor
    /// runs under `catch_unwind` on its own (-1 = None, -2 = controlled panic, -3 = error), every fixed-size value
    /// reached goes through `fx_at` (INVALID / OUTSIDE) and every element pointer through `inside` (OUTSIDE)
    fn scan_mut(_p: &mut Self::Ptr, _input: (usize, usize), _out: &mut Vec<i128>) {}

    /// the same through the CHILD WRAPPERS of an exclusive wrapper (`get_exclusive`, generated field accessors, the
    /// generated enum `get()`); a node without children walks its pointer
    fn scan_excl<'p, 't, P>(w: &mut ExclusiveWrapper<'p, 't, Self::Ptr, P>, input: (usize, usize), out: &mut Vec<i128>)
    where
        ExclusiveWrapper<'p, 't, Self::Ptr, P>: ExclusiveRecurse,
    {
        Self::scan_mut(&mut **w, input, out)
    }

    /// insert `keys.len()` new elements of this type into a parent list of unsized elements
    fn ulist_insert<'p, 't, P, C>(
        w: &mut ExclusiveWrapper<'p, 't, UnsizedListPtr<Self, C>, P>,
        idx: usize,
        kind: i128,
        keys: Vec<C::ListOffsetInit>,
    ) -> Result<()>
    where
        C: star_frame::unsize::impls::UnsizedListOffset,
        ExclusiveWrapper<'p, 't, UnsizedListPtr<Self, C>, P>: ExclusiveRecurse;

    /// UnsizedMap<u8, Self>::insert(k, initializer `kind`)
    fn umap_insert<'p, 't, P>(
        w: &mut ExclusiveWrapper<'p, 't, <UnsizedMap<u8, Self> as UnsizedType>::Ptr, P>,
        k: u8,
        kind: i128,
    ) -> Result<bool>
    where
        ExclusiveWrapper<'p, 't, <UnsizedMap<u8, Self> as UnsizedType>::Ptr, P>: ExclusiveRecurse;
}

/// set_init / ulist_insert / umap_insert for shapes whose only generic initializer is DefaultInit
#[macro_export]
macro_rules! default_only_inits {
    () => {
        fn init_probe(out: &mut Vec<i128>) {
            $crate::nodes::probe_init::<Self, DefaultInit>(0, DefaultInit, out);
        }
        fn set_init<'p, 't, P>(w: &mut ExclusiveWrapper<'p, 't, Self::Ptr, P>, kind: i128) -> Result<()>
        where
            ExclusiveWrapper<'p, 't, Self::Ptr, P>: ExclusiveRecurse,
        {
            match kind {
                0 => w.set_from_init(DefaultInit),
                _ => $crate::nodes::unsupported(),
            }
        }
        fn ulist_insert<'p, 't, P, C>(
            w: &mut ExclusiveWrapper<'p, 't, UnsizedListPtr<Self, C>, P>,
            idx: usize,
            kind: i128,
            keys: Vec<C::ListOffsetInit>,
        ) -> Result<()>
        where
            C: star_frame::unsize::impls::UnsizedListOffset,
            ExclusiveWrapper<'p, 't, UnsizedListPtr<Self, C>, P>: ExclusiveRecurse,
        {
            match kind {
                0 => w.insert_all_with_offsets(idx, keys.into_iter().map(|k| (DefaultInit, k))),
                _ => $crate::nodes::unsupported(),
            }
        }
        fn umap_insert<'p, 't, P>(
            w: &mut ExclusiveWrapper<'p, 't, <UnsizedMap<u8, Self> as UnsizedType>::Ptr, P>,
            k: u8,
            kind: i128,
        ) -> Result<bool>
        where
            ExclusiveWrapper<'p, 't, <UnsizedMap<u8, Self> as UnsizedType>::Ptr, P>: ExclusiveRecurse,
        {
            match kind {
                0 => w.insert(k, DefaultInit),
                _ => $crate::nodes::unsupported().map(|_| false),
            }
        }
    };
}

/// ops available at every node
fn common<'p, 't, T, P>(
    w: &mut ExclusiveWrapper<'p, 't, T::Ptr, P>,
    op: i128,
    c: &mut Cur,
) -> Option<Result<()>>
where
    T: Node + ?Sized,
    T::Ptr: UnsizedTypePtr<UnsizedType = T>,
    ExclusiveWrapper<'p, 't, T::Ptr, P>: ExclusiveRecurse,
{
    match op {
        70 => Some(w.set_from_owned(T::from_val(c))),
        71 => {
            let kind = c.next().unwrap();
            Some(T::set_init(w, kind))
        }
        _ => None,
    }
}

pub fn unsupported() -> Result<()> {
    Err(star_frame::error!(ErrorCode::UnsizedUnexpected, "harness: unsupported op"))
}

thread_local! {
    /// number of elements yielded by shared accessors whose extent was NOT inside the input
    pub static OUTSIDE: std::cell::Cell<i128> = const { std::cell::Cell::new(0) };
}

pub fn inside<T>(p: &T::Ptr, input: (usize, usize)) -> i128
where
    T: UnsizedType + ?Sized,
{
    let start = T::start_ptr(p) as usize;
    let len = T::data_len(p);
    let ok = start >= input.0 && start.checked_add(len).map_or(false, |e| e <= input.0 + input.1);
    if !ok {
        OUTSIDE.with(|c| c.set(c.get() + 1));
    }
    ok as i128
}

// ---------------------------------------------------------------- List<T, L>
impl<T: Fx, L: Lw> Node for List<T, L> {
    fn desc(o: &mut Vec<i128>) {
        o.push(1);
        T::fdesc(o);
        o.push(L::W);
    }
    fn from_val(c: &mut Cur) -> Vec<T> {
        assert_eq!(c.next(), Some(1));
        let n = c.next().unwrap() as usize;
        (0..n).map(|_| fx_from::<T>(&cur_bytes(c))).collect()
    }
    fn to_val(o: &Vec<T>, out: &mut Vec<i128>) {
        out.push(1);
        out.push(o.len() as i128);
        for t in o {
            fx_push_bytes(t, out);
        }
    }
    fn apply<'p, 't, P>(w: &mut ExclusiveWrapper<'p, 't, Self::Ptr, P>, c: &mut Cur, _out: &mut Vec<i128>) -> Result<()>
    where
        ExclusiveWrapper<'p, 't, Self::Ptr, P>: ExclusiveRecurse,
    {
        let op = c.next().unwrap();
        if let Some(r) = common::<Self, P>(w, op, c) {
            return r;
        }
        match op {
            10 => {
                let idx = c.next().unwrap() as usize;
                let n = c.next().unwrap() as usize;
                let items: Vec<T> = (0..n).map(|_| fx_from::<T>(&cur_bytes(c))).collect();
                w.insert_all(idx, items)
            }
            11 => {
                let s = c.next().unwrap() as usize;
                let e = c.next().unwrap() as usize;
                w.remove_range(s..e)
            }
            12 => w.pop().map(|_| ()),
            13 => w.clear(),
            14 => {
                let idx = c.next().unwrap() as usize;
                let item = fx_from::<T>(&cur_bytes(c));
                match w.get_mut(idx) {
                    Some(slot) => {
                        *slot = item;
                        Ok(())
                    }
                    None => Err(star_frame::error!(ErrorCode::IndexOutOfBounds, "harness get_mut")),
                }
            }
            15 => {
                let item = fx_from::<T>(&cur_bytes(c));
                w.push(item)
            }
            _ => unsupported(),
        }
    }
    fn scan(p: &Self::Ptr, _input: (usize, usize), out: &mut Vec<i128>) -> Result<()> {
        out.push(p.len() as i128);
        for item in p.iter() {
            fx_seen(item);
            fx_push_bytes(item, out);
        }
        Ok(())
    }
    fn scan_mut(p: &mut Self::Ptr, input: (usize, usize), out: &mut Vec<i128>) {
        let l: &mut List<T, L> = &mut **p;
        let n = l.len();
        out.push(n as i128);
        // mutable iteration: iter_mut and `for x in &mut list`
        acc(out, || {
            let mut k = 0;
            for item in l.iter_mut() {
                fx_at(&*item, input);
                k += 1;
            }
            k
        });
        acc(out, || {
            let mut k = 0;
            for item in &mut *l {
                fx_at(&*item, input);
                k += 1;
            }
            k
        });
        // by index: get_mut(i), IndexMut<usize>; one past the end
        for i in 0..n.min(64) {
            acc(out, || match l.get_mut(i) {
                Some(x) => {
                    fx_at(&*x, input);
                    1
                }
                None => -1,
            });
            acc(out, || {
                let x: &mut T = &mut l[i];
                fx_at(&*x, input);
                1
            });
        }
        acc(out, || match l.get_mut(n) {
            Some(x) => {
                fx_at(&*x, input);
                1
            }
            None => -1,
        });
        // slices: as_checked_mut_slice, IndexMut over every kind of range (`as_mut_slice` / DerefMut exist for Pod items only,
        // which have no invalid bit pattern)
        fn all<T: Fx>(s: &mut [T], input: (usize, usize)) -> i128 {
            for x in s.iter_mut() {
                fx_at(&*x, input);
            }
            s.len() as i128
        }
        acc(out, || match l.as_checked_mut_slice() {
            Ok(s) => all(s, input),
            Err(_) => -3,
        });
        acc(out, || all(&mut l[..], input));
        acc(out, || all(&mut l[0..n], input));
        acc(out, || all(&mut l[n / 2..], input));
        acc(out, || all(&mut l[..n], input));
        if n > 0 {
            acc(out, || all(&mut l[0..=n - 1], input));
            acc(out, || all(&mut l[..=n - 1], input));
        }
    }
    fn set_init<'p, 't, P>(w: &mut ExclusiveWrapper<'p, 't, Self::Ptr, P>, kind: i128) -> Result<()>
    where
        ExclusiveWrapper<'p, 't, Self::Ptr, P>: ExclusiveRecurse,
    {
        match kind {
            0 => w.set_from_init(DefaultInit),
            1 => w.set_from_init([ones::<T>(); 3]),
            2 => w.set_from_init([ones::<T>(); 300]),
            _ => unsupported(),
        }
    }
    fn init_probe(out: &mut Vec<i128>) {
        probe_init::<Self, DefaultInit>(0, DefaultInit, out);
        probe_init::<Self, [T; 3]>(1, [ones::<T>(); 3], out);
        probe_init::<Self, [T; 300]>(2, [ones::<T>(); 300], out);
    }
    fn ulist_insert<'p, 't, P, C>(
        w: &mut ExclusiveWrapper<'p, 't, UnsizedListPtr<Self, C>, P>,
        idx: usize,
        kind: i128,
        keys: Vec<C::ListOffsetInit>,
    ) -> Result<()>
    where
        C: star_frame::unsize::impls::UnsizedListOffset,
        ExclusiveWrapper<'p, 't, UnsizedListPtr<Self, C>, P>: ExclusiveRecurse,
    {
        match kind {
            0 => w.insert_all_with_offsets(idx, keys.into_iter().map(|k| (DefaultInit, k))),
            1 => w.insert_all_with_offsets(idx, keys.into_iter().map(|k| ([ones::<T>(); 3], k))),
            2 => w.insert_all_with_offsets(idx, keys.into_iter().map(|k| ([ones::<T>(); 300], k))),
            _ => unsupported(),
        }
    }
    fn umap_insert<'p, 't, P>(
        w: &mut ExclusiveWrapper<'p, 't, <UnsizedMap<u8, Self> as UnsizedType>::Ptr, P>,
        k: u8,
        kind: i128,
    ) -> Result<bool>
    where
        ExclusiveWrapper<'p, 't, <UnsizedMap<u8, Self> as UnsizedType>::Ptr, P>: ExclusiveRecurse,
    {
        match kind {
            0 => w.insert(k, DefaultInit),
            1 => w.insert(k, [ones::<T>(); 3]),
            2 => w.insert(k, [ones::<T>(); 300]),
            _ => unsupported().map(|_| false),
        }
    }
}

// ---------------------------------------------------------------- RemainingBytes
impl Node for RemainingBytes {
    fn desc(o: &mut Vec<i128>) {
        o.push(2);
    }
    fn from_val(c: &mut Cur) -> Vec<u8> {
        assert_eq!(c.next(), Some(0));
        cur_bytes(c)
    }
    fn to_val(o: &Vec<u8>, out: &mut Vec<i128>) {
        out.push(0);
        push_bytes(o, out);
    }
    fn apply<'p, 't, P>(w: &mut ExclusiveWrapper<'p, 't, Self::Ptr, P>, c: &mut Cur, _out: &mut Vec<i128>) -> Result<()>
    where
        ExclusiveWrapper<'p, 't, Self::Ptr, P>: ExclusiveRecurse,
    {
        let op = c.next().unwrap();
        if let Some(r) = common::<Self, P>(w, op, c) {
            return r;
        }
        match op {
            20 => {
                let n = c.next().unwrap() as usize;
                w.set_len(n)
            }
            21 => {
                let idx = c.next().unwrap() as usize;
                let b = c.next().unwrap() as u8;
                match w.get_mut(idx) {
                    Some(slot) => {
                        *slot = b;
                        Ok(())
                    }
                    None => Err(star_frame::error!(ErrorCode::IndexOutOfBounds, "harness write")),
                }
            }
            _ => unsupported(),
        }
    }
    fn scan_mut(p: &mut Self::Ptr, input: (usize, usize), out: &mut Vec<i128>) {
        // DerefMut to the byte slice
        acc(out, || {
            let b: &mut [u8] = &mut **p;
            span_inside(b.as_ptr() as usize, b.len(), input);
            for x in b.iter_mut() {
                fx_at(&*x, input);
            }
            b.len() as i128
        });
    }
    fn set_init<'p, 't, P>(w: &mut ExclusiveWrapper<'p, 't, Self::Ptr, P>, kind: i128) -> Result<()>
    where
        ExclusiveWrapper<'p, 't, Self::Ptr, P>: ExclusiveRecurse,
    {
        match kind {
            0 => w.set_from_init(DefaultInit),
            1 => w.set_from_init([1u8; 3]),
            _ => unsupported(),
        }
    }
    fn init_probe(out: &mut Vec<i128>) {
        probe_init::<Self, DefaultInit>(0, DefaultInit, out);
        probe_init::<Self, [u8; 3]>(1, [1u8; 3], out);
    }
    fn ulist_insert<'p, 't, P, C>(
        _w: &mut ExclusiveWrapper<'p, 't, UnsizedListPtr<Self, C>, P>,
        _idx: usize,
        _kind: i128,
        _keys: Vec<C::ListOffsetInit>,
    ) -> Result<()>
    where
        C: star_frame::unsize::impls::UnsizedListOffset,
        ExclusiveWrapper<'p, 't, UnsizedListPtr<Self, C>, P>: ExclusiveRecurse,
    {
        unsupported()
    }
    fn umap_insert<'p, 't, P>(
        _w: &mut ExclusiveWrapper<'p, 't, <UnsizedMap<u8, Self> as UnsizedType>::Ptr, P>,
        _k: u8,
        _kind: i128,
    ) -> Result<bool>
    where
        ExclusiveWrapper<'p, 't, <UnsizedMap<u8, Self> as UnsizedType>::Ptr, P>: ExclusiveRecurse,
    {
        unsupported().map(|_| false)
    }
}

// ---------------------------------------------------------------- UnsizedList<T>
impl<T> Node for UnsizedList<T>
where
    T: Node + ?Sized,
    T::Ptr: UnsizedTypePtr<UnsizedType = T>,
{
    fn desc(o: &mut Vec<i128>) {
        o.push(3);
        o.push(0);
        T::desc(o);
    }
    fn from_val(c: &mut Cur) -> Vec<T::Owned> {
        assert_eq!(c.next(), Some(2));
        let n = c.next().unwrap() as usize;
        (0..n)
            .map(|_| {
                let k = cur_bytes(c);
                assert!(k.is_empty());
                T::from_val(c)
            })
            .collect()
    }
    fn to_val(o: &Vec<T::Owned>, out: &mut Vec<i128>) {
        out.push(2);
        out.push(o.len() as i128);
        for e in o {
            out.push(0);
            T::to_val(e, out);
        }
    }
    fn apply<'p, 't, P>(w: &mut ExclusiveWrapper<'p, 't, Self::Ptr, P>, c: &mut Cur, out: &mut Vec<i128>) -> Result<()>
    where
        ExclusiveWrapper<'p, 't, Self::Ptr, P>: ExclusiveRecurse,
    {
        let op = c.next().unwrap();
        if let Some(r) = common::<Self, P>(w, op, c) {
            return r;
        }
        match op {
            1 => {
                // descend into element i
                let i = c.next().unwrap() as usize;
                let mut child = w.index_exclusive(i)?;
                T::apply(&mut child, c, out)
            }
            30 => {
                let idx = c.next().unwrap() as usize;
                let n = c.next().unwrap() as usize;
                let kind = c.next().unwrap();
                T::ulist_insert(w, idx, kind, vec![(); n])
            }
            31 => {
                let s = c.next().unwrap() as usize;
                let e = c.next().unwrap() as usize;
                w.remove_range(s..e)
            }
            32 => w.pop().map(|_| ()),
            33 => w.clear(),
            34 => {
                // touch element i through get_mut (records the inner pointer), report its size
                let i = c.next().unwrap() as usize;
                match w.get_mut(i)? {
                    Some(p) => {
                        out.push(T::data_len(p) as i128);
                        Ok(())
                    }
                    None => {
                        out.push(-1);
                        Ok(())
                    }
                }
            }
            35 => {
                // shared read of element i through get
                let i = c.next().unwrap() as usize;
                match w.get(i)? {
                    Some(p) => {
                        let o = T::owned_from_ptr(&*p)?;
                        T::to_val(&o, out);
                        Ok(())
                    }
                    None => {
                        out.push(-1);
                        Ok(())
                    }
                }
            }
            _ => unsupported(),
        }
    }
    fn scan(p: &Self::Ptr, input: (usize, usize), out: &mut Vec<i128>) -> Result<()> {
        out.push(p.len() as i128);
        let mut yielded = 0;
        // the iterator may refuse malformed offsets; indexing is a separate accessor and is exercised regardless
        let mut iter_err = None;
        for r in p.iter() {
            match r {
                Ok(e) => {
                    yielded += 1;
                    out.push(inside::<T>(&*e, input));
                    if let Err(x) = T::scan(&*e, input, out) {
                        iter_err = Some(x);
                        break;
                    }
                }
                Err(x) => {
                    iter_err = Some(x);
                    break;
                }
            }
        }
        out.push(yielded);
        for i in 0..p.len().min(64) {
            // -1 = None, -2 = controlled panic (slice index), -3 = error
            match crate::guarded(|| p.get(i).map(|o| o.map(|e| inside::<T>(&*e, input)))) {
                Ok(Ok(Some(f))) => out.push(f),
                Ok(Ok(None)) => out.push(-1),
                Ok(Err(_)) => out.push(-3),
                Err(()) => out.push(-2),
            }
        }
        match iter_err {
            Some(x) => Err(x),
            None => Ok(()),
        }
    }
    fn scan_mut(p: &mut Self::Ptr, input: (usize, usize), out: &mut Vec<i128>) {
        let n = p.len();
        out.push(n as i128);
        // there is no mutable iterator over unsized elements: get_mut / index_mut / first_mut / last_mut
        for i in 0..n.min(64) {
            let mut sub = vec![];
            acc(out, || match p.get_mut(i) {
                Ok(Some(e)) => {
                    let f = inside::<T>(&*e, input);
                    T::scan_mut(e, input, &mut sub);
                    f
                }
                Ok(None) => -1,
                Err(_) => -3,
            });
            out.extend(sub);
            acc(out, || match p.index_mut(i) {
                Ok(e) => inside::<T>(&*e, input),
                Err(_) => -3,
            });
        }
        acc(out, || match p.get_mut(n) {
            Ok(Some(e)) => inside::<T>(&*e, input),
            Ok(None) => -1,
            Err(_) => -3,
        });
        acc(out, || match p.first_mut() {
            Ok(Some(e)) => inside::<T>(&*e, input),
            Ok(None) => -1,
            Err(_) => -3,
        });
        acc(out, || match p.last_mut() {
            Ok(Some(e)) => inside::<T>(&*e, input),
            Ok(None) => -1,
            Err(_) => -3,
        });
    }
    fn scan_excl<'p, 't, P>(w: &mut ExclusiveWrapper<'p, 't, Self::Ptr, P>, input: (usize, usize), out: &mut Vec<i128>)
    where
        ExclusiveWrapper<'p, 't, Self::Ptr, P>: ExclusiveRecurse,
    {
        let n = w.len();
        out.push(n as i128);
        for i in 0..n.min(64) {
            let mut sub = vec![];
            acc(out, || match w.get_exclusive(i) {
                Ok(Some(mut ch)) => {
                    let f = inside::<T>(&*ch, input);
                    T::scan_excl(&mut ch, input, &mut sub);
                    f
                }
                Ok(None) => -1,
                Err(_) => -3,
            });
            out.extend(sub);
            acc(out, || match w.index_exclusive(i) {
                Ok(ch) => inside::<T>(&*ch, input),
                Err(_) => -3,
            });
        }
        acc(out, || match w.get_exclusive(n) {
            Ok(Some(ch)) => inside::<T>(&*ch, input),
            Ok(None) => -1,
            Err(_) => -3,
        });
        acc(out, || match w.first_exclusive() {
            Ok(Some(ch)) => inside::<T>(&*ch, input),
            Ok(None) => -1,
            Err(_) => -3,
        });
        acc(out, || match w.last_exclusive() {
            Ok(Some(ch)) => inside::<T>(&*ch, input),
            Ok(None) => -1,
            Err(_) => -3,
        });
    }
    crate::default_only_inits!();
}

// ---------------------------------------------------------------- Map / Set / UnsizedString / UnsizedMap
impl<K, V, L> Node for Map<K, V, L>
where
    K: Fx + UnsizedGenerics + Ord,
    V: Fx + UnsizedGenerics,
    L: Lw,
{
    fn desc(o: &mut Vec<i128>) {
        // struct { list: List<ListItemSized<K,V>, L> }
        o.extend([4, 1, 1, 3, 2]);
        K::fdesc(o);
        V::fdesc(o);
        o.push(L::W);
    }
    fn from_val(c: &mut Cur) -> BTreeMap<K, V> {
        assert_eq!(c.next(), Some(3));
        assert_eq!(c.next(), Some(1));
        assert_eq!(c.next(), Some(1));
        let n = c.next().unwrap() as usize;
        (0..n)
            .map(|_| {
                let b = cur_bytes(c);
                (fx_from::<K>(&b[..K::size()]), fx_from::<V>(&b[K::size()..]))
            })
            .collect()
    }
    fn to_val(o: &BTreeMap<K, V>, out: &mut Vec<i128>) {
        out.extend([3, 1, 1, o.len() as i128]);
        for (k, v) in o {
            let mut b = bytemuck::bytes_of(k).to_vec();
            b.extend_from_slice(bytemuck::bytes_of(v));
            push_bytes(&b, out);
        }
    }
    fn scan(p: &Self::Ptr, _input: (usize, usize), out: &mut Vec<i128>) -> Result<()> {
        // every shared accessor: iteration, by index, by key
        out.push(p.len() as i128);
        for (k, v) in p.iter() {
            fx_seen(k);
            fx_seen(v);
        }
        for i in 0..p.len().min(64) {
            if let Some((k, v)) = p.get_by_index(i) {
                fx_seen(k);
                fx_seen(v);
                if let Some(v2) = p.get(k) {
                    fx_seen(v2);
                }
            }
        }
        Ok(())
    }
    fn scan_mut(p: &mut Self::Ptr, input: (usize, usize), out: &mut Vec<i128>) {
        let n = p.len();
        out.push(n as i128);
        // mutable iteration: iter_mut, `for (k, v) in &mut map`, values_mut
        acc(out, || {
            let mut c = 0;
            for (k, v) in p.iter_mut() {
                fx_at(k, input);
                fx_at(&*v, input);
                c += 1;
            }
            c
        });
        acc(out, || {
            let mut c = 0;
            for (k, v) in &mut *p {
                fx_at(k, input);
                fx_at(&*v, input);
                c += 1;
            }
            c
        });
        acc(out, || {
            let mut c = 0;
            for v in p.values_mut() {
                fx_at(&*v, input);
                c += 1;
            }
            c
        });
        // by index and by key
        for i in 0..n.min(64) {
            let mut key: Option<K> = None;
            acc(out, || match p.get_by_index_mut(i) {
                Some((k, v)) => {
                    fx_at(k, input);
                    fx_at(&*v, input);
                    key = Some(*k);
                    1
                }
                None => -1,
            });
            if let Some(k) = key {
                acc(out, || match p.get_mut(&k) {
                    Some(v) => {
                        fx_at(&*v, input);
                        1
                    }
                    None => -1,
                });
            }
        }
        acc(out, || match p.get_by_index_mut(n) {
            Some((k, v)) => {
                fx_at(k, input);
                fx_at(&*v, input);
                1
            }
            None => -1,
        });
    }
    fn apply<'p, 't, P>(w: &mut ExclusiveWrapper<'p, 't, Self::Ptr, P>, c: &mut Cur, out: &mut Vec<i128>) -> Result<()>
    where
        ExclusiveWrapper<'p, 't, Self::Ptr, P>: ExclusiveRecurse,
    {
        let op = c.next().unwrap();
        if let Some(r) = common::<Self, P>(w, op, c) {
            return r;
        }
        match op {
            40 => {
                let k = fx_from::<K>(&cur_bytes(c));
                let v = fx_from::<V>(&cur_bytes(c));
                let r = w.insert(k, v)?;
                out.push(r.is_some() as i128);
                Ok(())
            }
            41 => {
                let k = fx_from::<K>(&cur_bytes(c));
                let r = w.remove(&k)?;
                out.push(r.is_some() as i128);
                Ok(())
            }
            42 => w.clear(),
            43 => {
                let k = fx_from::<K>(&cur_bytes(c));
                match w.get(&k) {
                    Some(v) => fx_push_bytes(v, out),
                    None => out.push(-1),
                }
                Ok(())
            }
            _ => unsupported(),
        }
    }
    crate::default_only_inits!();
}

impl<T, L> Node for Set<T, L>
where
    T: Fx + UnsizedGenerics + Ord,
    L: Lw,
{
    fn desc(o: &mut Vec<i128>) {
        o.extend([4, 1, 1]);
        T::fdesc(o);
        o.push(L::W);
    }
    fn from_val(c: &mut Cur) -> BTreeSet<T> {
        assert_eq!(c.next(), Some(3));
        assert_eq!(c.next(), Some(1));
        assert_eq!(c.next(), Some(1));
        let n = c.next().unwrap() as usize;
        (0..n).map(|_| fx_from::<T>(&cur_bytes(c))).collect()
    }
    fn to_val(o: &BTreeSet<T>, out: &mut Vec<i128>) {
        out.extend([3, 1, 1, o.len() as i128]);
        for t in o {
            fx_push_bytes(t, out);
        }
    }
    fn scan(p: &Self::Ptr, _input: (usize, usize), out: &mut Vec<i128>) -> Result<()> {
        out.push(p.len() as i128);
        for i in 0..p.len().min(64) {
            if let Some(t) = p.get_by_index(i) {
                fx_seen(t);
            }
        }
        Ok(())
    }
    fn scan_mut(p: &mut Self::Ptr, input: (usize, usize), out: &mut Vec<i128>) {
        // a Set has no `&mut self` accessor that hands out items: its shared accessors, reached through the exclusive view
        let n = p.len();
        out.push(n as i128);
        acc(out, || {
            let mut c = 0;
            for t in p.iter() {
                fx_at(t, input);
                c += 1;
            }
            c
        });
        acc(out, || {
            let mut c = 0;
            for t in &*p {
                fx_at(t, input);
                c += 1;
            }
            c
        });
        for i in 0..n.min(64) {
            let mut item: Option<T> = None;
            acc(out, || match p.get_by_index(i) {
                Some(t) => {
                    fx_at(t, input);
                    item = Some(*t);
                    1
                }
                None => -1,
            });
            if let Some(t) = item {
                acc(out, || p.contains(&t) as i128);
            }
        }
    }
    fn apply<'p, 't, P>(w: &mut ExclusiveWrapper<'p, 't, Self::Ptr, P>, c: &mut Cur, out: &mut Vec<i128>) -> Result<()>
    where
        ExclusiveWrapper<'p, 't, Self::Ptr, P>: ExclusiveRecurse,
    {
        let op = c.next().unwrap();
        if let Some(r) = common::<Self, P>(w, op, c) {
            return r;
        }
        match op {
            45 => {
                let v = fx_from::<T>(&cur_bytes(c));
                let r = w.insert(v)?;
                out.push(r as i128);
                Ok(())
            }
            46 => {
                let v = fx_from::<T>(&cur_bytes(c));
                let r = w.remove(&v)?;
                out.push(r as i128);
                Ok(())
            }
            47 => w.clear(),
            48 => {
                let v = fx_from::<T>(&cur_bytes(c));
                out.push(w.contains(&v) as i128);
                Ok(())
            }
            _ => unsupported(),
        }
    }
    crate::default_only_inits!();
}

impl<L: Lw> Node for UnsizedString<L> {
    fn desc(o: &mut Vec<i128>) {
        o.extend([4, 1, 1, 0, 1, L::W]);
    }
    fn from_val(c: &mut Cur) -> String {
        assert_eq!(c.next(), Some(3));
        assert_eq!(c.next(), Some(1));
        assert_eq!(c.next(), Some(1));
        let n = c.next().unwrap() as usize;
        let b: Vec<u8> = (0..n).map(|_| cur_bytes(c)[0]).collect();
        String::from_utf8(b).expect("generator produces valid UTF-8")
    }
    fn to_val(o: &String, out: &mut Vec<i128>) {
        out.extend([3, 1, 1, o.len() as i128]);
        for b in o.bytes() {
            out.extend([1, b as i128]);
        }
    }
    fn scan_mut(p: &mut Self::Ptr, input: (usize, usize), out: &mut Vec<i128>) {
        // as_mut_str: a `&mut str` must hold valid UTF-8 and lie inside the input
        acc(out, || match p.as_mut_str() {
            Ok(s) => {
                span_inside(s.as_ptr() as usize, s.len(), input);
                if std::str::from_utf8(s.as_bytes()).is_err() {
                    INVALID.with(|c| c.set(c.get() + 1));
                }
                s.len() as i128
            }
            Err(_) => -3,
        });
    }
    fn apply<'p, 't, P>(w: &mut ExclusiveWrapper<'p, 't, Self::Ptr, P>, c: &mut Cur, _out: &mut Vec<i128>) -> Result<()>
    where
        ExclusiveWrapper<'p, 't, Self::Ptr, P>: ExclusiveRecurse,
    {
        let op = c.next().unwrap();
        if let Some(r) = common::<Self, P>(w, op, c) {
            return r;
        }
        match op {
            55 => {
                let b = cur_bytes(c);
                w.set(String::from_utf8(b).expect("valid UTF-8"))
            }
            _ => unsupported(),
        }
    }
    crate::default_only_inits!();
}

/// UnsizedMap<u8, V>: struct { list: UnsizedList<V, OrdOffset<u8>> }
impl<V> Node for UnsizedMap<u8, V>
where
    V: Node + ?Sized,
    V::Ptr: UnsizedTypePtr<UnsizedType = V>,
{
    fn desc(o: &mut Vec<i128>) {
        o.extend([4, 1, 3, 1]);
        V::desc(o);
    }
    fn from_val(c: &mut Cur) -> BTreeMap<u8, V::Owned> {
        assert_eq!(c.next(), Some(3));
        assert_eq!(c.next(), Some(1));
        assert_eq!(c.next(), Some(2));
        let n = c.next().unwrap() as usize;
        (0..n)
            .map(|_| {
                let k = cur_bytes(c);
                (k[0], V::from_val(c))
            })
            .collect()
    }
    fn to_val(o: &BTreeMap<u8, V::Owned>, out: &mut Vec<i128>) {
        out.extend([3, 1, 2, o.len() as i128]);
        for (k, v) in o {
            out.extend([1, *k as i128]);
            V::to_val(v, out);
        }
    }
    fn apply<'p, 't, P>(w: &mut ExclusiveWrapper<'p, 't, Self::Ptr, P>, c: &mut Cur, out: &mut Vec<i128>) -> Result<()>
    where
        ExclusiveWrapper<'p, 't, Self::Ptr, P>: ExclusiveRecurse,
    {
        let op = c.next().unwrap();
        if let Some(r) = common::<Self, P>(w, op, c) {
            return r;
        }
        match op {
            2 => {
                // descend by key
                let k = c.next().unwrap() as u8;
                match w.get_exclusive(&k)? {
                    Some(mut child) => V::apply(&mut child, c, out),
                    None => {
                        out.push(-1);
                        Ok(())
                    }
                }
            }
            50 => {
                let k = c.next().unwrap() as u8;
                let kind = c.next().unwrap();
                let r = V::umap_insert(w, k, kind)?;
                out.push(r as i128);
                Ok(())
            }
            51 => {
                let k = c.next().unwrap() as u8;
                let r = w.remove(&k)?;
                out.push(r as i128);
                Ok(())
            }
            52 => w.clear(),
            53 => {
                let k = c.next().unwrap() as u8;
                match w.get(&k)? {
                    Some(p) => {
                        let o = V::owned_from_ptr(&*p)?;
                        V::to_val(&o, out);
                    }
                    None => out.push(-1),
                }
                Ok(())
            }
            54 => {
                let k = c.next().unwrap() as u8;
                match w.get_mut(&k)? {
                    Some(p) => out.push(V::data_len(p) as i128),
                    None => out.push(-1),
                }
                Ok(())
            }
            _ => unsupported(),
        }
    }
    fn scan(p: &Self::Ptr, input: (usize, usize), out: &mut Vec<i128>) -> Result<()> {
        out.push(p.len() as i128);
        let mut yielded = 0;
        for r in p.iter() {
            let (k, e) = r?;
            yielded += 1;
            out.push(k as i128);
            out.push(inside::<V>(&*e, input));
            V::scan(&*e, input, out)?;
        }
        out.push(yielded);
        // by index and by key: separate accessors, exercised under catch_unwind (-1 None, -2 panic, -3 error)
        for i in 0..p.len().min(64) {
            match crate::guarded(|| p.get_by_index(i).map(|o| o.map(|(k, e)| (k, inside::<V>(&*e, input))))) {
                Ok(Ok(Some((k, f)))) => {
                    out.push(f);
                    match crate::guarded(|| p.get(&k).map(|o| o.map(|e| inside::<V>(&*e, input)))) {
                        Ok(Ok(Some(f2))) => out.push(f2),
                        Ok(Ok(None)) => out.push(-1),
                        Ok(Err(_)) => out.push(-3),
                        Err(()) => out.push(-2),
                    }
                }
                Ok(Ok(None)) => out.push(-1),
                Ok(Err(_)) => out.push(-3),
                Err(()) => out.push(-2),
            }
        }
        Ok(())
    }
    fn scan_mut(p: &mut Self::Ptr, input: (usize, usize), out: &mut Vec<i128>) {
        let n = p.len();
        out.push(n as i128);
        // there is no mutable iterator: get_by_index_mut, get_mut by key
        for i in 0..n.min(64) {
            let mut sub = vec![];
            let mut key: Option<u8> = None;
            acc(out, || match p.get_by_index_mut(i) {
                Ok(Some((k, e))) => {
                    key = Some(k);
                    let f = inside::<V>(&*e, input);
                    V::scan_mut(e, input, &mut sub);
                    f
                }
                Ok(None) => -1,
                Err(_) => -3,
            });
            out.extend(sub);
            if let Some(k) = key {
                acc(out, || match p.get_mut(&k) {
                    Ok(Some(e)) => inside::<V>(&*e, input),
                    Ok(None) => -1,
                    Err(_) => -3,
                });
            }
        }
        acc(out, || match p.get_by_index_mut(n) {
            Ok(Some((_, e))) => inside::<V>(&*e, input),
            Ok(None) => -1,
            Err(_) => -3,
        });
    }
    fn scan_excl<'p, 't, P>(w: &mut ExclusiveWrapper<'p, 't, Self::Ptr, P>, input: (usize, usize), out: &mut Vec<i128>)
    where
        ExclusiveWrapper<'p, 't, Self::Ptr, P>: ExclusiveRecurse,
    {
        let n = w.len();
        out.push(n as i128);
        for i in 0..n.min(64) {
            // the key of entry i (shared accessor), then the child wrapper by key
            let mut key: Option<u8> = None;
            acc(out, || match w.get_by_index(i) {
                Ok(Some((k, e))) => {
                    key = Some(k);
                    inside::<V>(&*e, input)
                }
                Ok(None) => -1,
                Err(_) => -3,
            });
            if let Some(k) = key {
                let mut sub = vec![];
                acc(out, || match w.get_exclusive(&k) {
                    Ok(Some(mut ch)) => {
                        let f = inside::<V>(&*ch, input);
                        V::scan_excl(&mut ch, input, &mut sub);
                        f
                    }
                    Ok(None) => -1,
                    Err(_) => -3,
                });
                out.extend(sub);
            }
        }
    }
    crate::default_only_inits!();
}

