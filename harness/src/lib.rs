//! Shared plumbing of the correspondence harness (trusted; see DESIGN.md section 8):
//! native pinocchio accounts, case-file reading, outcome encoding.
#![allow(clippy::all)]
use star_frame::pinocchio::account_info::AccountInfo;
use star_frame::pinocchio::program_error::ProgramError;
use std::io::{BufRead, Write};
use std::panic::{catch_unwind, AssertUnwindSafe};

pub const HDR: usize = 88;
pub const HEADROOM: usize = 10 * 1024;

/// A runtime account built natively: pinocchio's 88-byte `Account` header, the data, and the
/// runtime's 10 KiB realloc headroom, in one 8-aligned allocation (the layout the loader produces).
pub struct NativeAccount {
    buf: Vec<u64>,
    pub orig_len: usize,
}

impl NativeAccount {
    pub fn new(
        key: [u8; 32],
        owner: [u8; 32],
        lamports: u64,
        data: &[u8],
        is_signer: bool,
        is_writable: bool,
        executable: bool,
    ) -> Self {
        let total = HDR + data.len() + HEADROOM + 16;
        let mut buf = vec![0u64; (total + 7) / 8];
        let p = buf.as_mut_ptr().cast::<u8>();
        unsafe {
            *p = 0xFF; // NOT_BORROWED
            *p.add(1) = is_signer as u8;
            *p.add(2) = is_writable as u8;
            *p.add(3) = executable as u8;
            p.add(4).cast::<i32>().write(0);
            std::ptr::copy_nonoverlapping(key.as_ptr(), p.add(8), 32);
            std::ptr::copy_nonoverlapping(owner.as_ptr(), p.add(40), 32);
            p.add(72).cast::<u64>().write(lamports);
            p.add(80).cast::<u64>().write(data.len() as u64);
            std::ptr::copy_nonoverlapping(data.as_ptr(), p.add(HDR), data.len());
        }
        NativeAccount { buf, orig_len: data.len() }
    }

    fn p(&self) -> *mut u8 {
        self.buf.as_ptr().cast::<u8>().cast_mut()
    }

    pub fn info(&self) -> AccountInfo {
        // AccountInfo is #[repr(C)] struct { raw: *mut Account }
        unsafe { std::mem::transmute::<*mut u8, AccountInfo>(self.p()) }
    }
    pub fn borrow_state(&self) -> u8 {
        unsafe { *self.p() }
    }
    pub fn set_flags(&self, is_signer: bool, is_writable: bool) {
        unsafe {
            *self.p().add(1) = is_signer as u8;
            *self.p().add(2) = is_writable as u8;
        }
    }
    pub fn resize_delta(&self) -> i32 {
        unsafe { self.p().add(4).cast::<i32>().read() }
    }
    /// what the runtime does between instructions: the delta restarts from the current length
    pub fn next_instruction(&mut self) {
        unsafe {
            self.p().add(4).cast::<i32>().write(0);
            *self.p() = 0xFF;
        }
        self.orig_len = self.data_len();
    }
    pub fn key(&self) -> [u8; 32] {
        let mut k = [0u8; 32];
        unsafe { std::ptr::copy_nonoverlapping(self.p().add(8), k.as_mut_ptr(), 32) };
        k
    }
    pub fn owner(&self) -> [u8; 32] {
        let mut k = [0u8; 32];
        unsafe { std::ptr::copy_nonoverlapping(self.p().add(40), k.as_mut_ptr(), 32) };
        k
    }
    pub fn set_owner(&self, owner: &[u8; 32]) {
        unsafe { std::ptr::copy_nonoverlapping(owner.as_ptr(), self.p().add(40), 32) };
    }
    pub fn lamports(&self) -> u64 {
        unsafe { self.p().add(72).cast::<u64>().read() }
    }
    pub fn set_lamports(&self, l: u64) {
        unsafe { self.p().add(72).cast::<u64>().write(l) }
    }
    pub fn data_len(&self) -> usize {
        unsafe { self.p().add(80).cast::<u64>().read() as usize }
    }
    pub fn data(&self) -> Vec<u8> {
        let n = self.data_len();
        let mut v = vec![0u8; n];
        unsafe { std::ptr::copy_nonoverlapping(self.p().add(HDR), v.as_mut_ptr(), n) };
        v
    }
    /// capacity behind the data pointer that this allocation really has
    pub fn capacity(&self) -> usize {
        self.buf.len() * 8 - HDR
    }
}

pub fn err_code(e: star_frame::errors::Error) -> u64 {
    u64::from(ProgramError::from(e))
}

pub fn perr_code(e: ProgramError) -> u64 {
    u64::from(e)
}

/// Run `f` catching panics; Err(()) = panicked.
pub fn guarded<T>(f: impl FnOnce() -> T) -> Result<T, ()> {
    catch_unwind(AssertUnwindSafe(f)).map_err(|_| ())
}

pub fn quiet_panics() {
    std::panic::set_hook(Box::new(|_| {}));
}

/// cases: `<id> <int>...` per line
pub fn read_cases(path: &str) -> Vec<(String, Vec<i128>)> {
    let f = std::fs::File::open(path).expect("open case file");
    let mut out = vec![];
    for line in std::io::BufReader::new(f).lines() {
        let line = line.unwrap();
        let mut it = line.split_whitespace();
        let Some(id) = it.next() else { continue };
        let ints = it.map(|t| t.parse::<i128>().expect("int")).collect();
        out.push((id.to_string(), ints));
    }
    out
}

pub struct Out {
    w: std::io::BufWriter<std::io::Stdout>,
}
impl Out {
    pub fn new() -> Self {
        Out { w: std::io::BufWriter::new(std::io::stdout()) }
    }
    pub fn line(&mut self, id: &str, obs: &[i128]) {
        write!(self.w, "{id}").unwrap();
        for o in obs {
            write!(self.w, " {o}").unwrap();
        }
        writeln!(self.w).unwrap();
    }
    pub fn flush(&mut self) {
        self.w.flush().unwrap();
    }
}

/// Cursor over a case's integers.
pub struct Cur<'a> {
    pub v: &'a [i128],
    pub i: usize,
}
impl<'a> Cur<'a> {
    pub fn new(v: &'a [i128]) -> Self {
        Cur { v, i: 0 }
    }
    pub fn next(&mut self) -> Option<i128> {
        let x = self.v.get(self.i).copied();
        if x.is_some() {
            self.i += 1;
        }
        x
    }
    pub fn take(&mut self, n: usize) -> Option<&'a [i128]> {
        if self.i + n > self.v.len() {
            return None;
        }
        let s = &self.v[self.i..self.i + n];
        self.i += n;
        Some(s)
    }
    pub fn rest(&self) -> &'a [i128] {
        &self.v[self.i..]
    }
    pub fn done(&self) -> bool {
        self.i >= self.v.len()
    }
}

pub fn checksum(f: &[u8]) -> i128 {
    let mut a: u64 = 7;
    for b in f {
        a = (a * 31 + *b as u64) % 65521;
    }
    a as i128
}
pub mod guard;
pub mod nodes;
pub mod shapes;
