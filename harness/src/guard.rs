//! A data access for unsized types over an mmap'ed allocation placed flush against an inaccessible
//! guard page (before or after), with canary-filled slack on the other side, an exact capacity
//! (orig_len + MAX_PERMITTED_DATA_INCREASE, like a runtime account) and an injectable refusal of the
//! k-th growing realloc.  Plus fork-per-case execution so that a SIGSEGV is an observation.
use star_frame::errors::Error;
use star_frame::pinocchio::program_error::ProgramError;
use star_frame::unsize::wrapper::{DataMutDrop, UnsizedDataMut, UnsizedTypeDataAccess};
use star_frame::Result;
use std::cell::{Cell, Ref, RefCell, RefMut};
use std::ops::Deref;

pub const PAGE: usize = 4096;
pub const MAX_INC: usize = 10 * 1024;
const CANARY: u8 = 0xC5;

#[derive(Clone, Copy, PartialEq, Eq, Debug)]
pub enum Flush {
    /// allocation ends exactly at a PROT_NONE page (catches overruns)
    Right,
    /// allocation starts exactly after a PROT_NONE page (catches underruns)
    Left,
}

pub struct GuardBuf {
    map: *mut u8,
    map_len: usize,
    data: *mut u8,
    cap: usize,
    flush: Flush,
    len: Cell<usize>,
    borrow: RefCell<()>,
    grow_count: Cell<usize>,
    /// refuse every growing realloc while set (the harness sets it for the duration of one step)
    pub refuse_now: Cell<bool>,
}

struct SharedGuard<'a> {
    _g: Ref<'a, ()>,
    ptr: *const u8,
    len: usize,
}
impl Deref for SharedGuard<'_> {
    type Target = [u8];
    fn deref(&self) -> &[u8] {
        unsafe { std::slice::from_raw_parts(self.ptr, self.len) }
    }
}
struct MutGuard<'a>(#[allow(dead_code)] RefMut<'a, ()>);
impl DataMutDrop for MutGuard<'_> {}

impl GuardBuf {
    pub fn new(initial: &[u8], flush: Flush) -> Self {
        let cap = initial.len() + MAX_INC;
        let body_pages = (cap + PAGE - 1) / PAGE + 1;
        let map_len = (body_pages + 2) * PAGE;
        unsafe {
            let map = libc::mmap(
                std::ptr::null_mut(),
                map_len,
                libc::PROT_READ | libc::PROT_WRITE,
                libc::MAP_PRIVATE | libc::MAP_ANONYMOUS,
                -1,
                0,
            ) as *mut u8;
            assert!(map as isize != -1, "mmap failed");
            std::ptr::write_bytes(map, CANARY, map_len);
            let first_guard = map;
            let last_guard = map.add(map_len - PAGE);
            let data = match flush {
                Flush::Right => last_guard.sub(cap),
                Flush::Left => map.add(PAGE),
            };
            std::ptr::write_bytes(data, 0, cap);
            std::ptr::copy_nonoverlapping(initial.as_ptr(), data, initial.len());
            assert_eq!(libc::mprotect(first_guard.cast(), PAGE, libc::PROT_NONE), 0);
            assert_eq!(libc::mprotect(last_guard.cast(), PAGE, libc::PROT_NONE), 0);
            GuardBuf {
                map,
                map_len,
                data,
                cap,
                flush,
                len: Cell::new(initial.len()),
                borrow: RefCell::new(()),
                grow_count: Cell::new(0),
                refuse_now: Cell::new(false),
            }
        }
    }
    pub fn len(&self) -> usize {
        self.len.get()
    }
    pub fn bytes(&self) -> Vec<u8> {
        unsafe { std::slice::from_raw_parts(self.data, self.len.get()).to_vec() }
    }
    pub fn grow_count(&self) -> usize {
        self.grow_count.get()
    }
    /// true iff every byte of the mapping outside [data, data+cap) that is accessible still holds the canary
    pub fn canaries_intact(&self) -> bool {
        unsafe {
            let lo = self.map.add(PAGE);
            let hi = self.map.add(self.map_len - PAGE);
            let mut p = lo;
            while p < hi {
                let inside = p >= self.data && p < self.data.add(self.cap);
                if !inside && *p != CANARY {
                    return false;
                }
                p = p.add(1);
            }
        }
        true
    }
    pub fn flush(&self) -> Flush {
        self.flush
    }
}

impl Drop for GuardBuf {
    fn drop(&mut self) {
        unsafe {
            libc::munmap(self.map.cast(), self.map_len);
        }
    }
}

unsafe impl UnsizedTypeDataAccess for GuardBuf {
    unsafe fn unsized_data_realloc(this: &Self, data: &mut *mut [u8], new_len: usize) -> Result<()> {
        let cur = this.len.get();
        if new_len > cur {
            let k = this.grow_count.get();
            this.grow_count.set(k + 1);
            if this.refuse_now.get() {
                return Err(Error::from(ProgramError::InvalidRealloc));
            }
        }
        if new_len > this.cap {
            return Err(Error::from(ProgramError::InvalidRealloc));
        }
        this.len.set(new_len);
        if new_len > cur {
            unsafe { std::ptr::write_bytes(this.data.add(cur), 0, new_len - cur) };
        }
        *data = std::ptr::slice_from_raw_parts_mut(data.cast::<u8>(), new_len);
        Ok(())
    }

    fn data_ref(this: &Self) -> Result<impl Deref<Target = [u8]>> {
        let g = this
            .borrow
            .try_borrow()
            .map_err(|_| Error::from(ProgramError::AccountBorrowFailed))?;
        Ok(SharedGuard { _g: g, ptr: this.data, len: this.len.get() })
    }

    fn data_mut(this: &Self) -> Result<UnsizedDataMut<'_>> {
        let g = this
            .borrow
            .try_borrow_mut()
            .map_err(|_| Error::from(ProgramError::AccountBorrowFailed))?;
        let ptr: *mut [u8] = std::ptr::slice_from_raw_parts_mut(this.data, this.len.get());
        let start = this.data as usize;
        Ok((ptr, start..start + this.cap, Box::new(MutGuard(g))))
    }
}

/// Run `f(case)` for every case in a forked child; a child killed by a signal yields `[-11, signal]`.
pub fn run_forked(cases: &[(String, Vec<i128>)], f: impl Fn(&[i128]) -> Vec<i128>) {
    use std::io::Write;
    let stdout = std::io::stdout();
    let mut w = std::io::BufWriter::new(stdout.lock());
    for (id, ints) in cases {
        let mut fds = [0i32; 2];
        unsafe {
            assert_eq!(libc::pipe(fds.as_mut_ptr()), 0);
            w.flush().unwrap();
            let pid = libc::fork();
            assert!(pid >= 0);
            if pid == 0 {
                libc::close(fds[0]);
                let obs = f(ints);
                let mut s = String::new();
                for o in obs {
                    s.push(' ');
                    s.push_str(&o.to_string());
                }
                let b = s.as_bytes();
                let mut off = 0;
                while off < b.len() {
                    let n = libc::write(fds[1], b[off..].as_ptr().cast(), b.len() - off);
                    if n <= 0 {
                        break;
                    }
                    off += n as usize;
                }
                libc::_exit(0);
            }
            libc::close(fds[1]);
            let mut buf = Vec::new();
            let mut chunk = [0u8; 65536];
            loop {
                let n = libc::read(fds[0], chunk.as_mut_ptr().cast(), chunk.len());
                if n <= 0 {
                    break;
                }
                buf.extend_from_slice(&chunk[..n as usize]);
            }
            libc::close(fds[0]);
            let mut status = 0i32;
            libc::waitpid(pid, &mut status, 0);
            if libc::WIFSIGNALED(status) {
                writeln!(w, "{id} -11 {}", libc::WTERMSIG(status)).unwrap();
            } else {
                writeln!(w, "{id}{}", String::from_utf8_lossy(&buf)).unwrap();
            }
        }
    }
    w.flush().unwrap();
}
