//! spike
use star_frame::account_set::modifiers::{Create, CreateIfNeeded};
use star_frame::account_set::system_account::SystemAccount;
use star_frame::account_set::{AccountSetDecode, AccountSetValidate, TryFromAccounts as _, TryFromAccountsWithArgs as _};
use star_frame::pinocchio::sysvars::rent::Rent;
use star_frame::prelude::*;
use star_frame::verif_hooks::{set_cpi_handler, set_rent, CpiRecord};
use vh::*;

pub const PROG_ID: Pubkey = Pubkey::new_from_array([77; 32]);

pub mod p8 {
    use star_frame::borsh::{BorshDeserialize, BorshSerialize};
    use star_frame::prelude::*;
    #[derive(StarFrameProgram)]
    #[program(instruction_set = (), id = super::PROG_ID, account_discriminant = [u8; 8], no_entrypoint, skip_idl)]
    pub struct P8;

    #[zero_copy(pod)]
    #[derive(Default, Debug, Eq, PartialEq, ProgramAccount)]
    #[program_account(skip_idl, program = P8, discriminant = [1, 2, 3, 4, 5, 6, 7, 8], seeds = super::VSeeds)]
    pub struct Fix {
        pub a: u64,
        pub b: [u8; 5],
    }

    #[unsized_type(program_account, skip_idl, program = P8, discriminant = [9, 8, 7, 6, 5, 4, 3, 2], seeds = super::VSeeds)]
    pub struct Uns {
        pub tag: u16,
        #[unsized_start]
        pub list: List<u8>,
    }

    #[derive(ProgramAccount, BorshSerialize, BorshDeserialize, Debug, Default, Clone)]
    #[borsh(crate = "star_frame::borsh")]
    #[program_account(skip_idl, program = P8, discriminant = [0xB0, 0, 0, 0, 0, 0, 0, 1], seeds = super::VSeeds)]
    pub struct Bo {
        pub v: Vec<u8>,
    }
}
use p8::*;

#[derive(Debug, Clone)]
pub struct VSeeds(pub Vec<Vec<u8>>);
impl GetSeeds for VSeeds {
    fn seeds(&self) -> Vec<&[u8]> {
        self.0.iter().map(|s| s.as_slice()).collect()
    }
}

fn main() {
    quiet_panics();
    let rent = Rent { lamports_per_byte_year: 3480, exemption_threshold: 2.0, burn_percent: 50 };
    set_rent(Some(rent));
    set_cpi_handler(Some(Box::new(|rec: &CpiRecord| {
        eprintln!("CPI prog={:?} data={:?} metas={:?} seeds={:?}", &rec.program_id[..2], rec.data, rec.metas.iter().map(|m| (m.0[0], m.1, m.2)).collect::<Vec<_>>(), rec.signer_seeds);
        Ok(())
    })));
    let f = NativeAccount::new([3; 32], [0; 32], 10_000_000, &[], true, true, false);
    let t = NativeAccount::new([4; 32], [0; 32], 0, &[], true, true, false);
    let mut ctx = Context::new(&PROG_ID);
    let finfo = f.info();
    let tinfo = t.info();
    let funder = <Mut<Signer>>::try_from_account(&finfo, &mut ctx).unwrap();
    let mut acct = <Init<Signer<Account<Fix>>>>::decode_accounts(&mut &[tinfo][..], (), &mut ctx).unwrap();
    let r = guarded(|| acct.validate_accounts(Create((|| Fix { a: 5, b: [1, 2, 3, 4, 5] }, &funder)), &mut ctx));
    eprintln!("{:?}", r.map(|x| x.map_err(err_code)));
    eprintln!("min {}", rent.minimum_balance(21));
}
