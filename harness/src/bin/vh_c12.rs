//! C12 harness: the REAL Init<..> validation with Create(..) / CreateIfNeeded(..) arguments, run natively against
//! the system-program simulator (rent_sim.rs) installed behind the CPI hook, Rent injected through the sysvar hook.
//!
//! case   : kind mode seeded argform fkind cache (0 empty, 1 the funder, 2 ANOTHER account) lpby mult  FUNDER TARGET  tseeds tbump fseeds  findt findf  pda-table  ival
//!          (ACC = key[32] owner[32] lamports signer writable dlen data..; seeds = n (len bytes..)*;
//!           find = key[32] bump; pda-table = n (seeds res key[32])*; ival = n bytes..)
//!          the find / pda-table entries are the model's oracle and are ignored here (the real functions are used)
//! obs    : 0 needed_init ACC' ACC' held cpi-log | 1 code | 2 (panic) | 3 code (funder rejected) | 4 code (decode failed)
#[path = "../rent_sim.rs"]
mod rent_sim;
use star_frame::account_set::modifiers::{Create, CreateIfNeeded};
use star_frame::account_set::system_account::SystemAccount;
use star_frame::account_set::{AccountSetDecode, AccountSetValidate, CanFundRent, TryFromAccounts as _, TryFromAccountsWithArgs as _};
use star_frame::pinocchio::sysvars::rent::Rent;
use star_frame::prelude::*;
use star_frame::verif_hooks::{set_cpi_handler, set_rent};
use vh::*;

pub const PROG_ID: Pubkey = Pubkey::new_from_array([77; 32]);

#[derive(Debug, Clone)]
pub struct VSeeds(pub Vec<Vec<u8>>);
impl GetSeeds for VSeeds {
    fn seeds(&self) -> Vec<&[u8]> {
        self.0.iter().map(|s| s.as_slice()).collect()
    }
}

pub mod p8 {
    use star_frame::borsh::{BorshDeserialize, BorshSerialize};
    use star_frame::prelude::*;
    #[derive(StarFrameProgram)]
    #[program(instruction_set = (), id = super::PROG_ID, account_discriminant = [u8; 8], no_entrypoint, skip_idl)]
    pub struct P8;

    #[zero_copy(pod)]
    #[derive(Default, Debug, Eq, PartialEq, ProgramAccount)]
    #[program_account(skip_idl, program = P8, discriminant = [1, 2, 3, 4, 5, 6, 7, 8], seeds = super::VSeeds)]
    pub struct Fix {
        pub a: u64,
        pub b: [u8; 5],
    }

    /// the same fields under a discriminant that contains zero bytes (an initialised account is not "all zero")
    #[zero_copy(pod)]
    #[derive(Default, Debug, Eq, PartialEq, ProgramAccount)]
    #[program_account(skip_idl, program = P8, discriminant = [7, 0, 0, 0, 0, 0, 0, 0], seeds = super::VSeeds)]
    pub struct FixZ {
        pub a: u64,
        pub b: [u8; 5],
    }

    #[unsized_type(program_account, skip_idl, program = P8, discriminant = [9, 8, 7, 6, 5, 4, 3, 2], seeds = super::VSeeds)]
    pub struct Uns {
        pub tag: u16,
        #[unsized_start]
        pub list: List<u8>,
    }

    #[derive(ProgramAccount, BorshSerialize, BorshDeserialize, Debug, Default, Clone)]
    #[borsh(crate = "star_frame::borsh")]
    #[program_account(skip_idl, program = P8, discriminant = [0xB0, 0, 0, 0, 0, 0, 0, 1], seeds = super::VSeeds)]
    pub struct Bo {
        pub v: Vec<u8>,
    }
}
pub mod p1 {
    use star_frame::prelude::*;
    #[derive(StarFrameProgram)]
    #[program(instruction_set = (), id = super::PROG_ID, account_discriminant = u8, no_entrypoint, skip_idl)]
    pub struct P1;

    #[zero_copy(pod)]
    #[derive(Default, Debug, Eq, PartialEq, ProgramAccount)]
    #[program_account(skip_idl, program = P1, discriminant = 0xA5u8, seeds = super::VSeeds)]
    pub struct Fix1 {
        pub a: [u8; 3],
    }
}
use p1::*;
use p8::*;

struct AccSpec {
    key: [u8; 32],
    owner: [u8; 32],
    lamports: u64,
    signer: bool,
    writable: bool,
    data: Vec<u8>,
}
fn rd_key(c: &mut Cur) -> Option<[u8; 32]> {
    let s = c.take(32)?;
    let mut k = [0u8; 32];
    for i in 0..32 {
        k[i] = s[i] as u8;
    }
    Some(k)
}
fn rd_acc(c: &mut Cur) -> Option<AccSpec> {
    let key = rd_key(c)?;
    let owner = rd_key(c)?;
    let lamports = c.next()? as u64;
    let signer = c.next()? != 0;
    let writable = c.next()? != 0;
    let n = c.next()? as usize;
    let data = c.take(n)?.iter().map(|x| *x as u8).collect();
    Some(AccSpec { key, owner, lamports, signer, writable, data })
}
fn rd_bytes(c: &mut Cur) -> Option<Vec<u8>> {
    let n = c.next()? as usize;
    Some(c.take(n)?.iter().map(|x| *x as u8).collect())
}
fn rd_seeds(c: &mut Cur) -> Option<Vec<Vec<u8>>> {
    let n = c.next()? as usize;
    (0..n).map(|_| rd_bytes(c)).collect()
}

enum SArg {
    Find(VSeeds),
    Bump(VSeeds, u8),
}

fn go_unseeded<W, C>(set: &mut W, ifn: bool, c: C, ctx: &mut Context) -> Result<()>
where
    W: AccountSetValidate<Create<C>> + AccountSetValidate<CreateIfNeeded<C>>,
{
    if ifn {
        set.validate_accounts(CreateIfNeeded(c), ctx)
    } else {
        set.validate_accounts(Create(c), ctx)
    }
}

fn go_seeded<W, C>(set: &mut W, ifn: bool, c: C, sarg: &SArg, ctx: &mut Context) -> Result<()>
where
    W: AccountSetValidate<(Create<C>, Seeds<VSeeds>)>
        + AccountSetValidate<(CreateIfNeeded<C>, Seeds<VSeeds>)>
        + AccountSetValidate<(Create<C>, SeedsWithBump<VSeeds>)>
        + AccountSetValidate<(CreateIfNeeded<C>, SeedsWithBump<VSeeds>)>,
{
    match (sarg, ifn) {
        (SArg::Find(s), false) => set.validate_accounts((Create(c), Seeds(s.clone())), ctx),
        (SArg::Find(s), true) => set.validate_accounts((CreateIfNeeded(c), Seeds(s.clone())), ctx),
        (SArg::Bump(s, b), false) => set.validate_accounts((Create(c), SeedsWithBump { seeds: s.clone(), bump: *b }), ctx),
        (SArg::Bump(s, b), true) => {
            set.validate_accounts((CreateIfNeeded(c), SeedsWithBump { seeds: s.clone(), bump: *b }), ctx)
        }
    }
}

struct Env<'a> {
    ifn: bool,
    argform: i128,
    sarg: Option<SArg>,
    tinfo: AccountInfo,
    f0: Option<&'a Mut<Signer>>,
    fdyn: &'a dyn CanFundRent,
    ival: Vec<u8>,
}

/// result of the validation: Ok((needed_init, held value bytes))
type R = Result<(bool, Option<Vec<u8>>)>;

macro_rules! forms_unseeded {
    ($e:expr, $ctx:expr, $set:expr, $val:expr) => {{
        let e = $e;
        // argument forms: 0 `()`  1 `(&funder,)`  2 `|| value`  3 `(|| value, &funder)`
        match (e.argform, e.f0) {
            (0, _) => go_unseeded($set, e.ifn, (), $ctx),
            (1, Some(f)) => go_unseeded($set, e.ifn, (f,), $ctx),
            (1, None) => go_unseeded($set, e.ifn, (e.fdyn,), $ctx),
            (3, Some(f)) => go_unseeded($set, e.ifn, ($val, f), $ctx),
            (3, None) => go_unseeded($set, e.ifn, ($val, e.fdyn), $ctx),
            (_, _) => go_unseeded($set, e.ifn, $val, $ctx),
        }
    }};
}
macro_rules! forms_seeded {
    ($e:expr, $s:expr, $ctx:expr, $set:expr, $val:expr) => {{
        let e = $e;
        let s = $s;
        match (e.argform, e.f0) {
            (0, _) => go_seeded($set, e.ifn, (), s, $ctx),
            (1, Some(f)) => go_seeded($set, e.ifn, (f,), s, $ctx),
            (1, None) => go_seeded($set, e.ifn, (e.fdyn,), s, $ctx),
            (3, Some(f)) => go_seeded($set, e.ifn, ($val, f), s, $ctx),
            (3, None) => go_seeded($set, e.ifn, ($val, e.fdyn), s, $ctx),
            (_, _) => go_seeded($set, e.ifn, $val, s, $ctx),
        }
    }};
}

macro_rules! run_kind {
    ($name:ident, $A:ty, $mkval:expr, $held:expr) => {
        fn $name(e: &Env, ctx: &mut Context) -> std::result::Result<R, i128> {
            let iv = e.ival.clone();
            let mkval = $mkval;
            if let Some(sa) = &e.sarg {
                let mut set =
                    <Init<Seeded<$A, VSeeds>>>::decode_accounts(&mut &[e.tinfo][..], (), ctx).map_err(|x| err_code(x) as i128)?;
                let r = forms_seeded!(e, sa, ctx, &mut set, { let iv = iv.clone(); move || mkval(&iv) });
                Ok(r.map(|_| (set.needed_init(), $held(&**set))))
            } else {
                let mut set = <Init<Signer<$A>>>::decode_accounts(&mut &[e.tinfo][..], (), ctx).map_err(|x| err_code(x) as i128)?;
                let r = forms_unseeded!(e, ctx, &mut set, { let iv = iv.clone(); move || mkval(&iv) });
                Ok(r.map(|_| (set.needed_init(), $held(&**set))))
            }
        }
    };
}

fn arr<const N: usize>(v: &[u8], o: usize) -> [u8; N] {
    let mut a = [0u8; N];
    for i in 0..N {
        a[i] = *v.get(o + i).unwrap_or(&0);
    }
    a
}

run_kind!(run_fix, Account<Fix>, |iv: &Vec<u8>| Fix { a: u64::from_le_bytes(arr::<8>(iv, 0)), b: arr::<5>(iv, 8) }, |_a: &Account<Fix>| None::<Vec<u8>>);
run_kind!(run_fixz, Account<FixZ>, |iv: &Vec<u8>| FixZ { a: u64::from_le_bytes(arr::<8>(iv, 0)), b: arr::<5>(iv, 8) }, |_a: &Account<FixZ>| None::<Vec<u8>>);
run_kind!(run_uns, Account<Uns>, |_iv: &Vec<u8>| star_frame::unsize::init::DefaultInit, |_a: &Account<Uns>| None::<Vec<u8>>);
run_kind!(run_bo, BorshAccount<Bo>, |iv: &Vec<u8>| Bo { v: iv.clone() }, |a: &BorshAccount<Bo>| guarded(|| star_frame::borsh::to_vec(&**a).unwrap()).ok());
run_kind!(run_fix1, Account<Fix1>, |iv: &Vec<u8>| Fix1 { a: arr::<3>(iv, 0) }, |_a: &Account<Fix1>| None::<Vec<u8>>);

fn acc_obs(a: &NativeAccount, kidx: &dyn Fn(&[u8; 32]) -> i128, out: &mut Vec<i128>) {
    out.push(a.lamports() as i128);
    out.push(kidx(&a.owner()));
    let d = a.data();
    out.push(d.len() as i128);
    out.extend(d.iter().map(|b| *b as i128));
}

fn run(c: &[i128]) -> Option<Vec<i128>> {
    let mut cur = Cur::new(c);
    let kind = cur.next()?;
    let mode = cur.next()?;
    let seeded = cur.next()?;
    let argform = cur.next()?;
    let fkind = cur.next()?;
    let cache = cur.next()?;
    let lpby = cur.next()? as u64;
    let mult = cur.next()?;
    let fs = rd_acc(&mut cur)?;
    let ts = rd_acc(&mut cur)?;
    let tseeds = rd_seeds(&mut cur)?;
    let tbump = cur.next()? as u8;
    let fseeds = rd_seeds(&mut cur)?;
    let _findt = (rd_key(&mut cur)?, cur.next()?);
    let _findf = (rd_key(&mut cur)?, cur.next()?);
    let npda = cur.next()? as usize;
    for _ in 0..npda {
        rd_seeds(&mut cur)?;
        cur.next()?;
        rd_key(&mut cur)?;
    }
    let ival = rd_bytes(&mut cur)?;

    #[allow(deprecated)]
    set_rent(Some(Rent { lamports_per_byte_year: lpby, exemption_threshold: if mult == 1 { 1.0 } else { 2.0 }, burn_percent: 50 }));
    let log = rent_sim::install(PROG_ID);

    let fna = NativeAccount::new(fs.key, fs.owner, fs.lamports, &fs.data, fs.signer, fs.writable, false);
    let tna = NativeAccount::new(ts.key, ts.owner, ts.lamports, &ts.data, ts.signer, ts.writable, false);
    let known: Vec<[u8; 32]> = vec![[0; 32], PROG_ID.to_bytes(), fs.key, ts.key, fs.owner, ts.owner];
    let kidx = move |k: &[u8; 32]| known.iter().position(|x| x == k).map(|i| i as i128).unwrap_or(-1);

    let mut ctx = Context::new(&PROG_ID);
    let finfo = fna.info();
    let tinfo = tna.info();
    let mut out = vec![];

    // the funder, validated as its account-set type
    let f0: Option<Mut<Signer>>;
    let f1: Option<Mut<Seeded<SystemAccount, VSeeds>>>;
    let f2: Option<Signer<Mut<SystemAccount>>>;
    match fkind {
        0 => {
            match <Mut<Signer>>::try_from_account(&finfo, &mut ctx) {
                Ok(f) => f0 = Some(f),
                Err(e) => return Some(vec![3, err_code(e) as i128]),
            }
            f1 = None;
            f2 = None;
        }
        1 => {
            match <Mut<Seeded<SystemAccount, VSeeds>>>::try_from_account_with_args(&finfo, (), Seeds(VSeeds(fseeds.clone())), &mut ctx) {
                Ok(f) => f1 = Some(f),
                Err(e) => return Some(vec![3, err_code(e) as i128]),
            }
            f0 = None;
            f2 = None;
        }
        _ => {
            match <Signer<Mut<SystemAccount>>>::try_from_account(&finfo, &mut ctx) {
                Ok(f) => f2 = Some(f),
                Err(e) => return Some(vec![3, err_code(e) as i128]),
            }
            f0 = None;
            f1 = None;
        }
    }
    let fdyn: &dyn CanFundRent = match (&f0, &f1, &f2) {
        (Some(f), _, _) => f,
        (_, Some(f), _) => f,
        (_, _, Some(f)) => f,
        _ => unreachable!(),
    };
    // what `#[validate(funder)]` expands to (star_frame_proc validate.rs 232-236)
    if cache == 1 && ctx.get_funder().is_none() {
        match (&f0, &f1, &f2) {
            (Some(f), _, _) => ctx.set_funder(Box::new(f.clone())),
            (_, Some(f), _) => ctx.set_funder(Box::new(f.clone())),
            (_, _, Some(f)) => ctx.set_funder(Box::new(f.clone())),
            _ => {}
        }
    }
    // cache == 2: ANOTHER funder (rich, signing, writable) sits in the cache while the case hands its own funder over
    // explicitly: the explicit one has to pay
    let decoy = NativeAccount::new([0xC1; 32], [0; 32], u64::MAX / 4, &[], true, true, false);
    let dinfo = decoy.info();
    if cache == 2 {
        if let Ok(d) = <Mut<Signer>>::try_from_account(&dinfo, &mut ctx) {
            ctx.set_funder(Box::new(d));
        }
    }
    let sarg = match seeded {
        0 => None,
        1 => Some(SArg::Find(VSeeds(tseeds.clone()))),
        _ => Some(SArg::Bump(VSeeds(tseeds.clone()), tbump)),
    };
    let env = Env { ifn: mode == 1, argform, sarg, tinfo, f0: f0.as_ref(), fdyn, ival };
    let r = guarded(|| match kind {
        0 => run_fix(&env, &mut ctx),
        1 => run_uns(&env, &mut ctx),
        2 => run_bo(&env, &mut ctx),
        4 => run_fixz(&env, &mut ctx),
        _ => run_fix1(&env, &mut ctx),
    });
    set_cpi_handler(None);
    match r {
        Err(()) => out.push(2),
        Ok(Err(code)) => {
            out.push(4);
            out.push(code);
        }
        Ok(Ok(Err(e))) => {
            out.push(1);
            out.push(err_code(e) as i128);
        }
        Ok(Ok(Ok((ni, held)))) => {
            out.push(0);
            out.push(ni as i128);
            acc_obs(&fna, &kidx, &mut out);
            acc_obs(&tna, &kidx, &mut out);
            match held {
                None => out.push(-1),
                Some(h) => {
                    out.push(h.len() as i128);
                    out.extend(h.iter().map(|b| *b as i128));
                }
            }
            rent_sim::log_obs(&log.borrow(), &kidx, &mut out);
        }
    }
    Some(out)
}

fn main() {
    quiet_panics();
    let args: Vec<String> = std::env::args().collect();
    let cases = read_cases(&args[1]);
    let mut o = Out::new();
    for (cid, c) in &cases {
        let obs = run(c).unwrap_or_else(|| vec![-1]);
        o.line(cid, &obs);
    }
    o.flush();
}
