//! C09 harness: modifier nestings over one account.  The case carries the layer list; the harness
//! looks the Rust type up by the layer signature (a fixed family covering every modifier, depth<=4).
use star_frame::account_set::sysvar::{InstructionsSysvar, SlotHashesSysvar, SysvarId};
use star_frame::account_set::system_account::SystemAccount;
use star_frame::account_set::TryFromAccounts as _;
use star_frame::account_set::{AccountSetDecode, AccountSetValidate};
use star_frame::account_set::modifiers::{MaybeMut, MaybeSigner};
use star_frame::pinocchio::sysvars::rent::Rent;
use star_frame::prelude::*;
use vh::*;

const PROG_ID: Pubkey = Pubkey::new_from_array([77; 32]);
const KEY_A: Pubkey = Pubkey::new_from_array([
    1, 2, 3, 4, 5, 6, 7, 8, 9, 10, 11, 12, 13, 14, 15, 16, 17, 18, 19, 20, 21, 22, 23, 24, 25, 26, 27, 28, 29, 30,
    31, 32,
]);

// a second fixed address, pinned under the NAMED validate id where the default id pins KEY_A
const KEY_B: Pubkey = Pubkey::new_from_array([
    201, 3, 77, 150, 9, 18, 240, 61, 5, 99, 128, 33, 64, 17, 250, 2, 81, 44, 190, 7, 13, 222, 101, 58, 36, 175, 90, 12, 203, 66,
    149, 28,
]);

#[derive(StarFrameProgram)]
#[program(instruction_set = (), id = PROG_ID, no_entrypoint, skip_idl)]
pub struct HProg;

#[derive(AccountSet, Debug)]
#[account_set(skip_default_idl)]
pub struct AddrPlain {
    #[validate(address = &KEY_A)]
    pub f: AccountInfo,
}
#[derive(AccountSet, Debug)]
#[account_set(skip_default_idl)]
pub struct AddrSigner {
    #[validate(address = &KEY_A)]
    pub f: Signer<AccountInfo>,
}
#[derive(AccountSet, Debug)]
#[account_set(skip_default_idl)]
pub struct AddrMutSigner {
    #[validate(address = &KEY_A)]
    pub f: Signer<Mut<AccountInfo>>,
}
// user wrappers that only DECLARE a flag in the account metas (`#[single_account_set(signer / writable)]` is metadata for
// clients and CPIs; it checks nothing): whatever a `Signer` / `Mut` wraps, it tests the flag itself
#[derive(AccountSet, Debug)]
pub struct DeclSigner(#[single_account_set(signer)] AccountInfo);
#[derive(AccountSet, Debug)]
pub struct DeclMut(#[single_account_set(writable)] AccountInfo);
#[derive(AccountSet, Debug)]
pub struct DeclBoth(#[single_account_set(signer, writable)] AccountInfo);

// addresses with extreme bit patterns: all zero (= System::ID, also what an unset key in account data reads as) and all ones
const KEY_F: Pubkey = Pubkey::new_from_array([255; 32]);
#[derive(AccountSet, Debug)]
#[account_set(skip_default_idl)]
pub struct AddrZero {
    #[validate(address = &System::ID)]
    pub f: AccountInfo,
}
#[derive(AccountSet, Debug)]
#[account_set(skip_default_idl)]
pub struct AddrZeroMutSigner {
    #[validate(address = &System::ID)]
    pub f: Signer<Mut<AccountInfo>>,
}
#[derive(AccountSet, Debug)]
#[account_set(skip_default_idl)]
pub struct AddrOnes {
    #[validate(address = &KEY_F)]
    pub f: AccountInfo,
}
#[derive(AccountSet, Debug)]
#[account_set(skip_default_idl)]
pub struct Nested {
    pub inner: AddrSigner,
}

// ---- the address pinned under a NON-default validate id (`strict`, selected by the validate argument `Strict`) ----
/// validate argument of the validate id `strict`
#[derive(Debug, Default, Clone, Copy)]
pub struct Strict;

// pinned under `strict` only
#[derive(AccountSet, Debug)]
#[account_set(skip_default_idl)]
#[validate(id = "strict", arg = Strict)]
pub struct StrictPlain {
    #[validate(id = "strict", address = &KEY_A)]
    pub f: AccountInfo,
}
#[derive(AccountSet, Debug)]
#[account_set(skip_default_idl)]
#[validate(id = "strict", arg = Strict)]
pub struct StrictSigner {
    #[validate(id = "strict", address = &KEY_A)]
    pub f: Signer<AccountInfo>,
}
#[derive(AccountSet, Debug)]
#[account_set(skip_default_idl)]
#[validate(id = "strict", arg = Strict)]
pub struct StrictMutSigner {
    #[validate(id = "strict", address = &KEY_A)]
    pub f: Signer<Mut<AccountInfo>>,
}
#[derive(AccountSet, Debug)]
#[account_set(skip_default_idl)]
#[validate(id = "strict", arg = Strict)]
pub struct StrictSystem {
    #[validate(id = "strict", address = &KEY_A)]
    pub f: Mut<SystemAccount>,
}
// the named id forwarded to a nested set
#[derive(AccountSet, Debug)]
#[account_set(skip_default_idl)]
#[validate(id = "strict", arg = Strict)]
pub struct StrictNested {
    #[validate(id = "strict", arg = Strict)]
    pub inner: StrictSigner,
}
// pinned under BOTH ids (same key)
#[derive(AccountSet, Debug)]
#[account_set(skip_default_idl)]
#[validate(id = "strict", arg = Strict)]
pub struct BothPlain {
    #[validate(address = &KEY_A)]
    #[validate(id = "strict", address = &KEY_A)]
    pub f: AccountInfo,
}
#[derive(AccountSet, Debug)]
#[account_set(skip_default_idl)]
#[validate(id = "strict", arg = Strict)]
pub struct BothMutSigner {
    #[validate(address = &KEY_A)]
    #[validate(id = "strict", address = &KEY_A)]
    pub f: Signer<Mut<AccountInfo>>,
}
// the two ids pin DIFFERENT keys: default KEY_A, strict KEY_B
#[derive(AccountSet, Debug)]
#[account_set(skip_default_idl)]
#[validate(id = "strict", arg = Strict)]
pub struct TwoKeysSigner {
    #[validate(address = &KEY_A)]
    #[validate(id = "strict", address = &KEY_B)]
    pub f: Signer<AccountInfo>,
}

/// `T` validated with `()` (the default validate id)
pub struct ViaDefault<T>(std::marker::PhantomData<T>);
/// `T` validated with `Strict` (the validate id `strict`)
pub struct ViaStrict<T>(std::marker::PhantomData<T>);
/// what `fam!` needs of an entry: the plain and the `Option<_>` runner
trait Entry {
    fn plain(accs: &[AccountInfo], ctx: &mut Context) -> Result<i128>;
    fn opt(accs: &[AccountInfo], ctx: &mut Context) -> Result<i128>;
}
impl<T> Entry for ViaDefault<T>
where
    T: for<'a> star_frame::account_set::TryFromAccountsWithArgs<'a, (), ()>,
{
    fn plain(accs: &[AccountInfo], ctx: &mut Context) -> Result<i128> { plain::<T>(accs, ctx) }
    fn opt(accs: &[AccountInfo], ctx: &mut Context) -> Result<i128> { opt::<T>(accs, ctx) }
}
impl<T> Entry for ViaStrict<T>
where
    T: for<'a> AccountSetDecode<'a, ()> + AccountSetValidate<Strict>,
{
    fn plain(accs: &[AccountInfo], ctx: &mut Context) -> Result<i128> {
        let mut s = accs;
        let mut set = <T as AccountSetDecode<()>>::decode_accounts(&mut s, (), ctx)?;
        set.validate_accounts(Strict, ctx).map(|_| -1)
    }
    fn opt(accs: &[AccountInfo], ctx: &mut Context) -> Result<i128> {
        let mut s = accs;
        let mut set = <Option<T> as AccountSetDecode<()>>::decode_accounts(&mut s, (), ctx)?;
        set.validate_accounts(Strict, ctx)?;
        Ok(set.is_some() as i128)
    }
}

type Runner = fn(&[AccountInfo], &mut Context) -> Result<i128>;

fn plain<T>(accs: &[AccountInfo], ctx: &mut Context) -> Result<i128>
where
    T: for<'a> star_frame::account_set::TryFromAccountsWithArgs<'a, (), ()>,
{
    let mut s = accs;
    T::try_from_accounts(&mut s, ctx).map(|_| -1)
}
fn opt<T>(accs: &[AccountInfo], ctx: &mut Context) -> Result<i128>
where
    T: for<'a> star_frame::account_set::TryFromAccountsWithArgs<'a, (), ()>,
{
    let mut s = accs;
    <Option<T>>::try_from_accounts(&mut s, ctx).map(|o| o.is_some() as i128)
}

macro_rules! fam {
    ($($sig:expr => $t:ty),* $(,)?) => {
        fn family() -> Vec<(&'static str, Runner, Runner)> {
            vec![ $( ($sig, <$t as Entry>::plain as Runner, <$t as Entry>::opt as Runner) ),* ]
        }
    };
}
// signature: layers in check order; S M s0 s1 m0 m1 Psys Pown Yrent Yinst Yslot Aa Ab SA, then b / . (no check) and last xN
fam! {
    "" => ViaDefault<AccountInfo>,
    "S" => ViaDefault<Signer<AccountInfo>>,
    "M" => ViaDefault<Mut<AccountInfo>>,
    "S M" => ViaDefault<Mut<Signer<AccountInfo>>>,
    "M S" => ViaDefault<Signer<Mut<AccountInfo>>>,
    "s0" => ViaDefault<MaybeSigner<false, AccountInfo>>,
    "s1" => ViaDefault<MaybeSigner<true, AccountInfo>>,
    "m0" => ViaDefault<MaybeMut<false, AccountInfo>>,
    "m1" => ViaDefault<MaybeMut<true, AccountInfo>>,
    "s1 m0" => ViaDefault<MaybeMut<false, MaybeSigner<true, AccountInfo>>>,
    "m1 s0" => ViaDefault<MaybeSigner<false, MaybeMut<true, AccountInfo>>>,
    "m1 s1 M S" => ViaDefault<Signer<Mut<MaybeSigner<true, MaybeMut<true, AccountInfo>>>>>,
    "m0 s0 M S" => ViaDefault<Signer<Mut<MaybeSigner<false, MaybeMut<false, AccountInfo>>>>>,
    "Psys" => ViaDefault<Program<System>>,
    "Pown" => ViaDefault<Program<HProg>>,
    "Pown M" => ViaDefault<Mut<Program<HProg>>>,
    "Yrent" => ViaDefault<Sysvar<Rent>>,
    "Yinst" => ViaDefault<Sysvar<InstructionsSysvar>>,
    "Yslot" => ViaDefault<Sysvar<SlotHashesSysvar>>,
    "Yrent M" => ViaDefault<Mut<Sysvar<Rent>>>,
    "SA" => ViaDefault<SystemAccount>,
    "SA M" => ViaDefault<Mut<SystemAccount>>,
    "SA M S" => ViaDefault<Signer<Mut<SystemAccount>>>,
    "SA S M" => ViaDefault<Mut<Signer<SystemAccount>>>,
    "Aa" => ViaDefault<AddrPlain>,
    "Aa S" => ViaDefault<AddrSigner>,
    "Aa M S" => ViaDefault<AddrMutSigner>,
    "Aa S ." => ViaDefault<Nested>,
    "Az" => ViaDefault<AddrZero>,
    "Az M S" => ViaDefault<AddrZeroMutSigner>,
    "Af" => ViaDefault<AddrOnes>,
    "S b" => ViaDefault<Box<Signer<AccountInfo>>>,
    "b S" => ViaDefault<Signer<Box<AccountInfo>>>,
    "SA M b S" => ViaDefault<Signer<Box<Mut<SystemAccount>>>>,
    // the address pinned under the non-default validate id `strict`.  The marker xN (code 10 N, LAST in the layer list; the
    // model stops decoding there and so ignores it) tells the shapes apart: x1 pinned under `strict` only, validated through
    // `strict`; x2 pinned under both ids, through `strict`; x3 pinned under both ids, through the default id; x4 pinned under
    // `strict` only, validated through the DEFAULT id (no address check applies: no address layer); x5 / x6 the default id pins
    // KEY_A and `strict` pins KEY_B, validated through `strict` / through the default id
    "Aa x1" => ViaStrict<StrictPlain>,
    "Aa S x1" => ViaStrict<StrictSigner>,
    "Aa M S x1" => ViaStrict<StrictMutSigner>,
    "Aa SA M x1" => ViaStrict<StrictSystem>,
    "Aa S . x1" => ViaStrict<StrictNested>,
    "Aa x2" => ViaStrict<BothPlain>,
    "Aa M S x2" => ViaStrict<BothMutSigner>,
    "Aa x3" => ViaDefault<BothPlain>,
    "Aa M S x3" => ViaDefault<BothMutSigner>,
    "x4" => ViaDefault<StrictPlain>,
    "S x4" => ViaDefault<StrictSigner>,
    "M S x4" => ViaDefault<StrictMutSigner>,
    "S . x4" => ViaDefault<StrictNested>,
    // x7 / x8 / x9: the innermost type is a wrapper that declares signer / writable / both and checks nothing
    "x7" => ViaDefault<DeclSigner>,
    "S x7" => ViaDefault<Signer<DeclSigner>>,
    "M S x7" => ViaDefault<Signer<Mut<DeclSigner>>>,
    "S M x7" => ViaDefault<Mut<Signer<DeclSigner>>>,
    "b S x7" => ViaDefault<Signer<Box<DeclSigner>>>,
    "s1 x7" => ViaDefault<MaybeSigner<true, DeclSigner>>,
    "x8" => ViaDefault<DeclMut>,
    "M x8" => ViaDefault<Mut<DeclMut>>,
    "S M x8" => ViaDefault<Mut<Signer<DeclMut>>>,
    "m1 x8" => ViaDefault<MaybeMut<true, DeclMut>>,
    "x9" => ViaDefault<DeclBoth>,
    "M S x9" => ViaDefault<Signer<Mut<DeclBoth>>>,
    "S M x9" => ViaDefault<Mut<Signer<DeclBoth>>>,
    "Ab S x5" => ViaStrict<TwoKeysSigner>,
    "Aa S x6" => ViaDefault<TwoKeysSigner>,
}

// ---- Vec<T> of single-account sets: decode n accounts, validate with one of the four argument forms ----
type VRunner = fn(&[AccountInfo], &mut Context, i128, i128) -> Result<()>;
fn vecrun<T>(accs: &[AccountInfo], ctx: &mut Context, form: i128, k: i128) -> Result<()>
where
    T: for<'a> AccountSetDecode<'a, ()> + AccountSetValidate<()>,
{
    let mut s = accs;
    // forms 4 / 5 / 6: the fixed-size array [T; n] validated with `()`, `((),)`, `[(); n]`; form 7: Rest<T> with `()`
    macro_rules! arr {
        ($n:literal) => {{
            let mut a = <[T; $n] as AccountSetDecode<()>>::decode_accounts(&mut s, (), ctx)?;
            return match form {
                4 => a.validate_accounts((), ctx),
                5 => a.validate_accounts(((),), ctx),
                _ => a.validate_accounts([(); $n], ctx),
            };
        }};
    }
    if (4..=6).contains(&form) {
        match accs.len() {
            0 => arr!(0),
            1 => arr!(1),
            2 => arr!(2),
            3 => arr!(3),
            4 => arr!(4),
            _ => arr!(5),
        }
    }
    if form == 7 {
        let mut r = <star_frame::account_set::rest::Rest<T> as AccountSetDecode<()>>::decode_accounts(&mut s, (), ctx)?;
        return r.validate_accounts((), ctx);
    }
    let mut v = <Vec<T> as AccountSetDecode<usize>>::decode_accounts(&mut s, accs.len(), ctx)?;
    match form {
        0 => v.validate_accounts((), ctx),
        1 => v.validate_accounts(((),), ctx),
        2 => v.validate_accounts(vec![(); k as usize], ctx),
        _ => match k {
            0 => v.validate_accounts([(); 0], ctx),
            1 => v.validate_accounts([(); 1], ctx),
            2 => v.validate_accounts([(); 2], ctx),
            3 => v.validate_accounts([(); 3], ctx),
            4 => v.validate_accounts([(); 4], ctx),
            5 => v.validate_accounts([(); 5], ctx),
            _ => v.validate_accounts([(); 6], ctx),
        },
    }
}
macro_rules! vfam {
    ($($sig:expr => $t:ty),* $(,)?) => {
        fn vfamily() -> Vec<(&'static str, VRunner)> {
            vec![ $( ($sig, vecrun::<$t> as VRunner) ),* ]
        }
    };
}
vfam! {
    "" => AccountInfo,
    "S" => Signer<AccountInfo>,
    "M" => Mut<AccountInfo>,
    "S M" => Mut<Signer<AccountInfo>>,
    "M S" => Signer<Mut<AccountInfo>>,
    "s1 m0" => MaybeMut<false, MaybeSigner<true, AccountInfo>>,
    "SA" => SystemAccount,
    "SA M" => Mut<SystemAccount>,
    "SA M S" => Signer<Mut<SystemAccount>>,
    "S b" => Box<Signer<AccountInfo>>,
}

/// case: prog(32) form k n  n * (key(32) owner(32) signer writable)  layers
fn run_vec(c: &[i128]) -> Vec<i128> {
    let b32 = |s: &[i128]| -> [u8; 32] { s.iter().map(|x| *x as u8).collect::<Vec<_>>().try_into().unwrap() };
    let prog = b32(&c[0..32]);
    let (form, k, n) = (c[32], c[33], c[34] as usize);
    let mut i = 35;
    let mut natives = vec![];
    for _ in 0..n {
        let key = b32(&c[i..i + 32]);
        let owner = b32(&c[i + 32..i + 64]);
        let (sg, wr) = (c[i + 64] != 0, c[i + 65] != 0);
        i += 66;
        natives.push(NativeAccount::new(key, owner, 1, &[], sg, wr, false));
    }
    let layers = &c[i..];
    let Some(sig) = sig_of(layers) else { return vec![-3] };
    let fam = vfamily();
    let Some((_, f)) = fam.iter().find(|(s, _)| *s == sig) else { return vec![-4] };
    let accs: Vec<AccountInfo> = natives.iter().map(|n| n.info()).collect();
    let prog_static: &'static Pubkey = Box::leak(Box::new(Pubkey::new_from_array(prog)));
    let mut ctx = Context::new(prog_static);
    match guarded(|| f(&accs, &mut ctx, form, k)) {
        Ok(Ok(())) => vec![0],
        Ok(Err(e)) => vec![1, err_code(e) as i128],
        Err(()) => vec![2],
    }
}

// ---- derived sets with SEVERAL fields, each field with its own stack of checks (stage `set`) ----
// a check written on a field must be applied to THAT field's account, whatever stands before it (other fields, fields the
// derive skips, fields whose validation is skipped) and whichever validate id carries it
#[derive(AccountSet, Debug)]
#[account_set(skip_default_idl)]
pub struct SetPlainAddr {
    pub a: AccountInfo,
    #[validate(address = &KEY_A)]
    pub b: AccountInfo,
}
#[derive(AccountSet, Debug)]
#[account_set(skip_default_idl)]
pub struct SetAddrSigner {
    #[validate(address = &KEY_A)]
    pub a: AccountInfo,
    pub b: Signer<AccountInfo>,
}
#[derive(AccountSet, Debug)]
#[account_set(skip_default_idl)]
pub struct SetSignerAddrMutAddr {
    pub a: Signer<AccountInfo>,
    #[validate(address = &KEY_B)]
    pub b: Mut<AccountInfo>,
    #[validate(address = &KEY_A)]
    pub c: AccountInfo,
}
#[derive(AccountSet, Debug)]
#[account_set(skip_default_idl)]
pub struct SetMutPlainAddrSigner {
    pub a: Mut<AccountInfo>,
    pub b: AccountInfo,
    #[validate(address = &KEY_A)]
    pub c: Signer<AccountInfo>,
}
#[derive(AccountSet, Debug)]
#[account_set(skip_default_idl)]
pub struct SetFourLastAddr {
    pub a: AccountInfo,
    pub b: AccountInfo,
    pub c: AccountInfo,
    #[validate(address = &KEY_A)]
    pub d: AccountInfo,
}
// a field the derive skips (no account, no validation) stands BEFORE the fields, another one between them
#[derive(AccountSet, Debug)]
#[account_set(skip_default_idl)]
pub struct SetSkippedBefore {
    #[account_set(skip = std::marker::PhantomData)]
    pub p: std::marker::PhantomData<u64>,
    pub a: Mut<AccountInfo>,
    #[account_set(skip = ())]
    pub q: (),
    #[validate(address = &KEY_A)]
    pub b: AccountInfo,
}
// the address pinned under the NAMED validate id on the second field (validated through `Strict` / through the default id)
#[derive(AccountSet, Debug)]
#[account_set(skip_default_idl)]
#[validate(id = "strict", arg = Strict)]
pub struct SetStrictSecond {
    pub a: AccountInfo,
    #[validate(id = "strict", address = &KEY_A)]
    pub b: AccountInfo,
}
// nested: the fields flatten in declaration order
#[derive(AccountSet, Debug)]
#[account_set(skip_default_idl)]
pub struct SetNested {
    pub x: AccountInfo,
    pub inner: SetPlainAddr,
}
// a field whose VALIDATION is skipped (`#[validate(skip)]`: decoded, no check at all) before the address-checked field
#[derive(AccountSet, Debug)]
#[account_set(skip_default_idl)]
pub struct SetValidateSkipBefore {
    #[validate(skip)]
    pub a: AccountInfo,
    #[validate(address = &KEY_A)]
    pub b: AccountInfo,
}

/// decode all accounts into `T`, report how many were left over, validate with the default value of the argument `A`
type SRunner = fn(&[AccountInfo], &mut Context, &mut usize) -> Result<()>;
fn setrun<T, A>(accs: &[AccountInfo], ctx: &mut Context, left: &mut usize) -> Result<()>
where
    T: for<'a> AccountSetDecode<'a, ()> + AccountSetValidate<A>,
    A: Default,
{
    let mut s = accs;
    let mut set = <T as AccountSetDecode<()>>::decode_accounts(&mut s, (), ctx)?;
    *left = s.len();
    if *left != 0 {
        return Ok(());
    }
    set.validate_accounts(A::default(), ctx)
}
/// shape number => the signature of every field (in declaration order, nested sets flattened) and the runner
fn sfamily() -> Vec<(i128, Vec<&'static str>, SRunner)> {
    vec![
        (0, vec!["", "Aa"], setrun::<SetPlainAddr, ()> as SRunner),
        (1, vec!["Aa", "S"], setrun::<SetAddrSigner, ()> as SRunner),
        (2, vec!["S", "Ab M", "Aa"], setrun::<SetSignerAddrMutAddr, ()> as SRunner),
        (3, vec!["M", "", "Aa S"], setrun::<SetMutPlainAddrSigner, ()> as SRunner),
        (4, vec!["", "", "", "Aa"], setrun::<SetFourLastAddr, ()> as SRunner),
        (5, vec!["M", "Aa"], setrun::<SetSkippedBefore, ()> as SRunner),
        (6, vec!["", "Aa x1"], setrun::<SetStrictSecond, Strict> as SRunner),
        (7, vec!["", "x4"], setrun::<SetStrictSecond, ()> as SRunner),
        (8, vec!["", ".", "Aa ."], setrun::<SetNested, ()> as SRunner),
        (9, vec!["", "Aa"], setrun::<SetValidateSkipBefore, ()> as SRunner),
    ]
}

/// case: prog(32) shape nf  nf * (key(32) owner(32) signer writable nl <nl integers: the field's layers>)
fn run_set(c: &[i128]) -> Vec<i128> {
    let b32 = |s: &[i128]| -> [u8; 32] { s.iter().map(|x| *x as u8).collect::<Vec<_>>().try_into().unwrap() };
    let prog = b32(&c[0..32]);
    let (shape, nf) = (c[32], c[33] as usize);
    let mut i = 34;
    let mut natives = vec![];
    let mut sigs: Vec<String> = vec![];
    for _ in 0..nf {
        if c.len() < i + 67 { return vec![-3] }
        let key = b32(&c[i..i + 32]);
        let owner = b32(&c[i + 32..i + 64]);
        let (sg, wr, nl) = (c[i + 64] != 0, c[i + 65] != 0, c[i + 66] as usize);
        i += 67;
        if c.len() < i + nl { return vec![-3] }
        let Some(sig) = sig_of(&c[i..i + nl]) else { return vec![-3] };
        sigs.push(sig);
        i += nl;
        natives.push(NativeAccount::new(key, owner, 1, &[], sg, wr, false));
    }
    if i != c.len() { return vec![-3] }
    let fam = sfamily();
    let Some((_, want, f)) = fam.iter().find(|(n, _, _)| *n == shape) else { return vec![-4] };
    // the case's per-field layer lists must be the ones of the selected shape
    if want.len() != sigs.len() || want.iter().zip(sigs.iter()).any(|(w, s)| *w != s.as_str()) { return vec![-4] }
    let accs: Vec<AccountInfo> = natives.iter().map(|n| n.info()).collect();
    let prog_static: &'static Pubkey = Box::leak(Box::new(Pubkey::new_from_array(prog)));
    let mut ctx = Context::new(prog_static);
    let mut left = 0usize;
    match guarded(|| f(&accs, &mut ctx, &mut left)) {
        // the set did not take one account per field: the shape table is out of sync with the Rust type
        Ok(_) if left != 0 => vec![-4],
        Ok(Ok(())) => vec![0],
        Ok(Err(e)) => vec![1, err_code(e) as i128],
        Err(()) => vec![2],
    }
}

fn sig_of(layers: &[i128]) -> Option<String> {
    let mut toks: Vec<String> = vec![];
    let mut i = 0;
    let key_name = |k: &[i128], kind: &str| -> Option<String> {
        let kb: Vec<u8> = k.iter().map(|x| *x as u8).collect();
        let eq = |p: Pubkey| p.to_bytes().to_vec() == kb;
        match kind {
            "P" => {
                if eq(System::ID) { Some("Psys".into()) } else if eq(PROG_ID) { Some("Pown".into()) } else { None }
            }
            "A" => {
                if eq(KEY_A) { Some("Aa".into()) }
                else if eq(KEY_B) { Some("Ab".into()) }
                else if eq(System::ID) { Some("Az".into()) }
                else if eq(KEY_F) { Some("Af".into()) }
                else if eq(Rent::id()) { Some("Yrent".into()) }
                else if eq(InstructionsSysvar::id()) { Some("Yinst".into()) }
                else if eq(SlotHashesSysvar::id()) { Some("Yslot".into()) }
                else { None }
            }
            _ => if eq(System::ID) { Some("SA".into()) } else { None },
        }
    };
    while i < layers.len() {
        match layers[i] {
            1 => { toks.push("S".into()); i += 1; }
            2 => { toks.push("M".into()); i += 1; }
            3 => { toks.push(format!("s{}", (layers[i + 1] != 0) as u8)); i += 2; }
            4 => { toks.push(format!("m{}", (layers[i + 1] != 0) as u8)); i += 2; }
            5 => { toks.push(key_name(&layers[i + 1..i + 33], "P")?); i += 33; }
            6 => { toks.push(key_name(&layers[i + 1..i + 33], "A")?); i += 33; }
            7 => { toks.push(key_name(&layers[i + 1..i + 33], "O")?); i += 33; }
            // 8 / 9: structural markers without a check (Box, nested struct); the model skips them
            8 => { toks.push("b".into()); i += 1; }
            9 => { toks.push(".".into()); i += 1; }
            // 10 N: which validate id pins the address / validates the set (see fam!).  The model's decode_layers stops at
            // this code, so it must be the LAST entry of the layer list
            10 => {
                if i + 2 != layers.len() { return None; }
                toks.push(format!("x{}", layers[i + 1]));
                i += 2;
            }
            _ => return None,
        }
    }
    Some(toks.join(" "))
}

fn main() {
    quiet_panics();
    let args: Vec<String> = std::env::args().collect();
    if args.len() > 2 && args[2] == "--family" {
        // print the constants the generator needs
        for (sig, _, _) in family() { println!("sig {sig}"); }
        let p = |n: &str, k: Pubkey| println!("key {n} {}", k.to_bytes().iter().map(|b| b.to_string()).collect::<Vec<_>>().join(" "));
        p("sys", System::ID); p("own", PROG_ID); p("a", KEY_A); p("b", KEY_B); p("z", System::ID); p("f", KEY_F); p("rent", Rent::id());
        p("inst", InstructionsSysvar::id()); p("slot", SlotHashesSysvar::id());
        return;
    }
    let cases = read_cases(&args[1]);
    if args.len() > 2 && args[2] == "vec" {
        let mut o = Out::new();
        for (id, c) in &cases {
            o.line(id, &run_vec(c));
        }
        o.flush();
        return;
    }
    if args.len() > 2 && args[2] == "set" {
        let mut o = Out::new();
        for (id, c) in &cases {
            o.line(id, &run_set(c));
        }
        o.flush();
        return;
    }
    let fam = family();
    let mut o = Out::new();
    for (id, c) in &cases {
        let prog: [u8; 32] = c[0..32].iter().map(|x| *x as u8).collect::<Vec<_>>().try_into().unwrap();
        let present = c[32] != 0;
        let key: [u8; 32] = c[33..65].iter().map(|x| *x as u8).collect::<Vec<_>>().try_into().unwrap();
        let owner: [u8; 32] = c[65..97].iter().map(|x| *x as u8).collect::<Vec<_>>().try_into().unwrap();
        let (sg, wr, optional) = (c[97] != 0, c[98] != 0, c[99] != 0);
        let layers = &c[100..];
        let Some(sig) = sig_of(layers) else { o.line(id, &[-3]); continue };
        let Some((_, fp, fo)) = fam.iter().find(|(s, _, _)| *s == sig) else { o.line(id, &[-4]); continue };
        // state the checks must NOT depend on rides in the `present` code (the model reads it as a boolean):
        // present = 1 + 2 * lamports class + 16 * data class
        let code = if present { (c[32] - 1) as u64 } else { 0 };
        let lamports: u64 = match (code / 2) % 8 { 0 => 1, 1 => 0, 2 => u64::MAX, 3 => 890_880, 4 => 889_999, _ => 1_000_000_007 };
        let data: Vec<u8> = match (code / 16) % 4 { 0 => vec![], 1 => vec![0; 8], 2 => (0..100u8).collect(), _ => vec![255; 9] };
        let na = NativeAccount::new(key, owner, lamports, &data, sg, wr, false);
        let accs: Vec<AccountInfo> = if present { vec![na.info()] } else { vec![] };
        let prog_static: &'static Pubkey = Box::leak(Box::new(Pubkey::new_from_array(prog)));
        let mut ctx = Context::new(prog_static);
        let r = guarded(|| if optional { fo(&accs, &mut ctx) } else { fp(&accs, &mut ctx) });
        let obs = match r {
            Ok(Ok(v)) => if v < 0 { vec![0] } else { vec![0, v] },
            Ok(Err(e)) => vec![1, err_code(e) as i128],
            Err(()) => vec![2],
        };
        o.line(id, &obs);
    }
    o.flush();
}
