//! C10 harness: a fixed family of seed structs (derived GetSeeds, the blanket impl, manual impls) driven
//! with the field values of the case through the real `Seeded<..>` validation, `signer_seeds()` and the
//! client helpers.  It also prints the oracle rows of the case: the real
//! `Pubkey::create_program_address` result of every candidate list the canonical-bump search looks at.
//!
//! case:  struct_id pid(32) cpid(32) prog_mode trailing has_const [clen c..] nfields {field}
//!        ncand {key(32) mode bump} nclient {bump} ntable {...}      (the table is for the model only)
//! field: 0 k(32) | 1 w n | 2 len b..
use star_frame::account_set::modifiers::{HasOwnerProgram, HasSeeds, SignedAccount};
use star_frame::account_set::modifiers::seeded::{CurrentProgram, SeedProgram};
use star_frame::account_set::{AccountSetDecode, AccountSetValidate};
use star_frame::client::FindProgramAddress;
use star_frame::prelude::*;
use star_frame::unsize::init::DefaultInit;
use std::marker::PhantomData;
use vh::*;

const PROG_ID: Pubkey = Pubkey::new_from_array([
    201, 13, 77, 5, 9, 250, 33, 41, 8, 19, 120, 64, 3, 2, 1, 0, 99, 98, 97, 96, 95, 94, 93, 92, 91, 90, 17, 34, 51,
    68, 85, 102,
]);

#[derive(StarFrameProgram)]
#[program(instruction_set = (), id = PROG_ID, no_entrypoint, skip_idl)]
pub struct HProg;

/// a program account of HProg, for candidates validated through `Init<Seeded<Account<V10>, S, P>>` (mode 2)
#[zero_copy(pod)]
#[derive(Default, Debug, Eq, PartialEq, ProgramAccount)]
#[program_account(skip_idl, program = HProg, discriminant = [0x10, 1, 2, 3, 4, 5, 6, 7])]
pub struct V10 {
    pub a: u64,
}

// ---- case -> field values --------------------------------------------------------------------
trait FromCase: Sized {
    fn from_case(c: &mut Cur) -> Option<Self>;
}
impl FromCase for Pubkey {
    fn from_case(c: &mut Cur) -> Option<Self> {
        if c.next()? != 0 {
            return None;
        }
        let b: Vec<u8> = c.take(32)?.iter().map(|x| *x as u8).collect();
        Some(Pubkey::new_from_array(b.try_into().ok()?))
    }
}
macro_rules! int_from_case {
    ($($t:ty),*) => {$(
        impl FromCase for $t {
            fn from_case(c: &mut Cur) -> Option<Self> {
                if c.next()? != 1 { return None; }
                if c.next()? != std::mem::size_of::<$t>() as i128 { return None; }
                Some(c.next()? as $t)
            }
        }
    )*};
}
int_from_case!(u8, u16, u32, u64, u128, i16, i64);
impl<const N: usize> FromCase for [u8; N] {
    fn from_case(c: &mut Cur) -> Option<Self> {
        if c.next()? != 2 {
            return None;
        }
        if c.next()? != N as i128 {
            return None;
        }
        let b: Vec<u8> = c.take(N)?.iter().map(|x| *x as u8).collect();
        b.try_into().ok()
    }
}

trait Fam: GetSeeds + Clone + 'static {
    fn build(c: &mut Cur) -> Option<Self>;
}
impl Fam for Pubkey {
    fn build(c: &mut Cur) -> Option<Self> {
        Pubkey::from_case(c)
    }
}
impl Fam for u64 {
    fn build(c: &mut Cur) -> Option<Self> {
        u64::from_case(c)
    }
}

macro_rules! seed_struct {
    ($(#[$attr:meta])* $name:ident { $($f:ident : $t:ty),* $(,)? }) => {
        #[derive(Debug, GetSeeds, Clone)]
        $(#[$attr])*
        pub struct $name { $($f: $t),* }
        impl Fam for $name {
            fn build(_c: &mut Cur) -> Option<Self> {
                Some($name { $($f: <$t as FromCase>::from_case(_c)?),* })
            }
        }
    };
}

pub struct Consts;
impl Consts {
    const PATH: &'static [u8] = b"PATH_CONST";
    const LONG33: &'static [u8] = &[0x5A; 33];
    const LEN32: &'static [u8] = &[0xC3; 32];
}

seed_struct!(#[get_seeds(skip_idl)] U0 {});
seed_struct!(#[get_seeds(seed_const = b"TEST_CONST", skip_idl)] U0c {});
seed_struct!(#[get_seeds(skip_idl)] K1 { key: Pubkey });
seed_struct!(#[get_seeds(seed_const = b"k1", skip_idl)] K1c { key: Pubkey });
seed_struct!(#[get_seeds(skip_idl)] K2 { key1: Pubkey, key2: Pubkey });
seed_struct!(#[get_seeds(skip_idl)] KN { key: Pubkey, number: u64 });
seed_struct!(#[get_seeds(skip_idl)] NK { number: u64, key: Pubkey });
seed_struct!(#[get_seeds(skip_idl)] B8 { a: u8 });
seed_struct!(#[get_seeds(skip_idl)] B16 { a: u16 });
seed_struct!(#[get_seeds(skip_idl)] B32 { a: u32 });
seed_struct!(#[get_seeds(skip_idl)] B64 { a: u64 });
seed_struct!(#[get_seeds(skip_idl)] B128 { a: u128 });
seed_struct!(#[get_seeds(skip_idl)] I64 { a: i64, b: i16 });
seed_struct!(#[get_seeds(skip_idl)] Mixed { a: u8, b: u16, c: u32, d: u64 });
seed_struct!(#[get_seeds(seed_const = b"mixed", skip_idl)] MixedC { d: u64, c: u32, b: u16, a: u8 });
seed_struct!(#[get_seeds(skip_idl)] Arr4 { a: [u8; 4] });
seed_struct!(#[get_seeds(seed_const = Consts::LEN32, skip_idl)] Arr32c { a: [u8; 32], k: Pubkey });
seed_struct!(#[get_seeds(skip_idl)] Arr0 { z: [u8; 0], b: u8 });
seed_struct!(#[get_seeds(skip_idl)] ArrLast0 { a: u8, z: [u8; 0] });
seed_struct!(#[get_seeds(skip_idl)] Arr33 { a: [u8; 33] });
seed_struct!(#[get_seeds(seed_const = Consts::LONG33, skip_idl)] LongConst { a: u8 });
seed_struct!(#[get_seeds(seed_const = Consts::PATH, skip_idl)] PathConst { k: Pubkey, n: u32 });
seed_struct!(#[get_seeds(skip_idl)] F13 {
    f0: u8, f1: u16, f2: u8, f3: u32, f4: u8, f5: u8, f6: u64, f7: u8, f8: u8, f9: u8, f10: u8, f11: u8, f12: Pubkey });
seed_struct!(#[get_seeds(skip_idl)] F14 {
    f0: u8, f1: u16, f2: u8, f3: u32, f4: u8, f5: u8, f6: u64, f7: u8, f8: u8, f9: u8, f10: u8, f11: u8, f12: u8,
    f13: Pubkey });
seed_struct!(#[get_seeds(skip_idl)] F15 {
    f0: u8, f1: u16, f2: u8, f3: u32, f4: u8, f5: u8, f6: u64, f7: u8, f8: u8, f9: u8, f10: u8, f11: u8, f12: u8,
    f13: u8, f14: Pubkey });
seed_struct!(#[get_seeds(seed_const = b"fourteen+1", skip_idl)] F14c {
    f0: u8, f1: u16, f2: u8, f3: u32, f4: u8, f5: u8, f6: u64, f7: u8, f8: u8, f9: u8, f10: u8, f11: u8, f12: u8,
    f13: Pubkey });
seed_struct!(#[get_seeds(skip_idl)] F16 {
    f0: u8, f1: u16, f2: u8, f3: u32, f4: u8, f5: u8, f6: u64, f7: u8, f8: u8, f9: u8, f10: u8, f11: u8, f12: u8,
    f13: u8, f14: u8, f15: Pubkey });
// field NAMES the derive has no business interpreting: leading underscores, raw identifiers
seed_struct!(#[get_seeds(skip_idl)] Und { owner: Pubkey, _index: u8 });
seed_struct!(#[get_seeds(seed_const = b"und", skip_idl)] UndC { _a: u16, b: u8, __c: u32 });
seed_struct!(#[get_seeds(skip_idl)] RawId { r#type: u8, r#match: u16 });

/// hand-written GetSeeds WITHOUT the trailing empty seed (seeds_with_bump then pushes)
#[derive(Debug, Clone)]
pub struct ManualNoEmpty {
    key: Pubkey,
    n: u32,
}
impl GetSeeds for ManualNoEmpty {
    fn seeds(&self) -> Vec<&[u8]> {
        vec![b"manual", self.key.seed(), self.n.seed()]
    }
}
impl Fam for ManualNoEmpty {
    fn build(c: &mut Cur) -> Option<Self> {
        Some(ManualNoEmpty { key: Pubkey::from_case(c)?, n: u32::from_case(c)? })
    }
}
/// hand-written GetSeeds as documented in seeded.rs (trailing empty seed)
#[derive(Debug, Clone)]
pub struct ManualDoc {
    key: Pubkey,
    number: u64,
}
impl GetSeeds for ManualDoc {
    fn seeds(&self) -> Vec<&[u8]> {
        vec![b"TEST_CONST", self.key.seed(), self.number.seed(), &[]]
    }
}
impl Fam for ManualDoc {
    fn build(c: &mut Cur) -> Option<Self> {
        Some(ManualDoc { key: Pubkey::from_case(c)?, number: u64::from_case(c)? })
    }
}

// ---- client side: a type with HasSeeds + HasOwnerProgram gets the FindProgramAddress helpers ----
pub struct Acct<S>(PhantomData<S>);
impl<S: GetSeeds> HasSeeds for Acct<S> {
    type Seeds = S;
}
impl<S> HasOwnerProgram for Acct<S> {
    type OwnerProgram = HProg;
}

// ---- observation helpers -----------------------------------------------------------------------
fn seedvec(seeds: &[Vec<u8>], out: &mut Vec<i128>) {
    out.push(seeds.len() as i128);
    for s in seeds {
        out.push(s.len() as i128);
        out.extend(s.iter().map(|b| *b as i128));
    }
}
fn pk_err_code(e: star_frame::solana_pubkey::PubkeyError) -> i128 {
    // the conversion `?` performs in seeded.rs 266
    let r: Result<()> = (|| {
        Err(e)?;
        Ok(())
    })();
    err_code(r.unwrap_err()) as i128
}
fn out_addr(r: std::result::Result<std::result::Result<Pubkey, i128>, ()>, out: &mut Vec<i128>) {
    match r {
        Ok(Ok(a)) => {
            out.push(0);
            out.extend(a.to_bytes().iter().map(|b| *b as i128));
        }
        Ok(Err(c)) => {
            out.push(1);
            out.push(c);
        }
        Err(()) => out.push(2),
    }
}
fn create(seeds: &[Vec<u8>], pid: &Pubkey) -> std::result::Result<std::result::Result<Pubkey, i128>, ()> {
    let refs: Vec<&[u8]> = seeds.iter().map(|s| s.as_slice()).collect();
    guarded(|| Pubkey::create_program_address(&refs, pid).map_err(pk_err_code))
}
fn owned(seeds: Vec<&[u8]>) -> Vec<Vec<u8>> {
    seeds.into_iter().map(|s| s.to_vec()).collect()
}

trait SignerOf<S: GetSeeds + Clone, P: SeedProgram> {
    fn signer(set: &Seeded<AccountInfo, S, P>) -> Vec<Vec<u8>>;
}
struct ViaSignedAccount;
impl<S: GetSeeds + Clone> SignerOf<S, CurrentProgram> for ViaSignedAccount {
    fn signer(set: &Seeded<AccountInfo, S, CurrentProgram>) -> Vec<Vec<u8>> {
        owned(SignedAccount::signer_seeds(set).expect("signer seeds"))
    }
}
struct ViaAccess;
impl<S: GetSeeds + Clone> SignerOf<S, HProg> for ViaAccess {
    fn signer(set: &Seeded<AccountInfo, S, HProg>) -> Vec<Vec<u8>> {
        owned(set.access_seeds().seeds_with_bump())
    }
}

fn candidate<S, P, G>(s: &S, key: [u8; 32], mode: i128, bump: u8, ctx_pid: &'static Pubkey, spid: &Pubkey, cls: i128, out: &mut Vec<i128>)
where
    S: Fam,
    P: SeedProgram + 'static,
    G: SignerOf<S, P>,
{
    // state the decision must not depend on
    let na = match cls {
        1 => NativeAccount::new(key, [0; 32], 0, &[], false, false, false),
        2 => NativeAccount::new(key, PROG_ID.to_bytes(), 2_000_000, &[7u8; 40], false, true, false),
        3 => NativeAccount::new(key, [0; 32], u64::MAX, &[], true, true, false),
        4 => NativeAccount::new(key, [0xEE; 32], 0, &[0xFFu8; 8], true, false, false),
        _ => NativeAccount::new(key, [0; 32], 1, &[], false, false, false),
    };
    let info = na.info();
    let r = guarded(|| -> Result<Vec<i128>> {
        let mut ctx = Context::new(ctx_pid);
        let mut accs: &[AccountInfo] = std::slice::from_ref(&info);
        let mut set = <Seeded<AccountInfo, S, P> as AccountSetDecode<'_, ()>>::decode_accounts(&mut accs, (), &mut ctx)?;
        let first = if mode == 0 {
            set.validate_accounts(Seeds(s.clone()), &mut ctx)
        } else {
            set.validate_accounts(SeedsWithBump { seeds: s.clone(), bump }, &mut ctx)
        };
        if let Err(e) = first {
            // a refused validation leaves nothing behind: asking again gives the same answer
            let mut o = vec![1, err_code(e) as i128];
            let again = guarded(|| {
                if mode == 0 {
                    set.validate_accounts(Seeds(s.clone()), &mut ctx)
                } else {
                    set.validate_accounts(SeedsWithBump { seeds: s.clone(), bump }, &mut ctx)
                }
            });
            match again {
                Ok(Ok(())) => {
                    o.push(0);
                    o.push(set.access_seeds().bump as i128);
                }
                Ok(Err(e2)) => {
                    o.push(1);
                    o.push(err_code(e2) as i128);
                }
                Err(()) => o.push(2),
            }
            return Ok(o);
        }
        let mut o = vec![0];
        let rec = set.access_seeds().bump;
        o.push(rec as i128);
        match guarded(|| G::signer(&set)) {
            Ok(ss) => {
                o.push(0);
                seedvec(&ss, &mut o);
                out_addr(create(&ss, spid), &mut o);
            }
            Err(()) => o.push(2),
        }
        // a second validation (other bump) must not replace what was recorded
        match guarded(|| set.validate_accounts(SeedsWithBump { seeds: s.clone(), bump: rec.wrapping_add(1) }, &mut ctx)) {
            Ok(Ok(())) => {
                o.push(0);
                o.push(set.access_seeds().bump as i128);
            }
            Ok(Err(e)) => {
                o.push(1);
                o.push(err_code(e) as i128);
            }
            Err(()) => o.push(2),
        }
        Ok(o)
    });
    match r {
        Ok(Ok(o)) => out.extend(o),
        Ok(Err(e)) => {
            out.push(1);
            out.push(err_code(e) as i128);
        }
        Err(()) => out.push(2),
    }
}

/// mode 2: the same explicit-bump decision, reached through `Init<Seeded<Account<V10>, S, P>>` validated with
/// `(CreateIfNeeded(..), SeedsWithBump { seeds, bump })` on an account that ALREADY EXISTS (program-owned, initialised):
/// nothing is created, no CPI is signed, so the framework itself has to compare the key with the derived address
/// (`Seeded` can only be initialised with `CurrentProgram` as the seed program: seeded.rs 308)
fn candidate_init<S>(s: &S, key: [u8; 32], find: bool, bump: u8, ctx_pid: &'static Pubkey, spid: &Pubkey, out: &mut Vec<i128>)
where
    S: Fam,
{
    type P = CurrentProgram;
    let mut data = vec![0x10u8, 1, 2, 3, 4, 5, 6, 7];
    data.extend([9u8; 8]);
    let na = NativeAccount::new(key, PROG_ID.to_bytes(), 1_000_000, &data, false, true, false);
    let fna = NativeAccount::new([0xF1; 32], [0; 32], 10_000_000_000, &[], true, true, false);
    let (info, finfo) = (na.info(), fna.info());
    let r = guarded(|| -> Result<Vec<i128>> {
        let mut ctx = Context::new(ctx_pid);
        let funder = <Mut<Signer>>::try_from_account(&finfo, &mut ctx)?;
        let mut accs: &[AccountInfo] = std::slice::from_ref(&info);
        let mut set = <Init<Seeded<Account<V10>, S, P>> as AccountSetDecode<'_, ()>>::decode_accounts(&mut accs, (), &mut ctx)?;
        if find {
            // mode 3: the canonical-bump search (`Seeds`) through the same Init path
            AccountSetValidate::validate_accounts(&mut set, (CreateIfNeeded((|| DefaultInit, &funder)), Seeds(s.clone())), &mut ctx)?;
        } else {
            AccountSetValidate::validate_accounts(
                &mut set,
                (CreateIfNeeded((|| DefaultInit, &funder)), SeedsWithBump { seeds: s.clone(), bump }),
                &mut ctx,
            )?;
        }
        let mut o = vec![0];
        let rec = set.access_seeds().bump;
        o.push(rec as i128);
        match guarded(|| owned(set.access_seeds().seeds_with_bump())) {
            Ok(ss) => {
                o.push(0);
                seedvec(&ss, &mut o);
                out_addr(create(&ss, spid), &mut o);
            }
            Err(()) => o.push(2),
        }
        let inner: &mut Seeded<Account<V10>, S, P> = &mut set;
        match guarded(|| inner.validate_accounts(SeedsWithBump { seeds: s.clone(), bump: rec.wrapping_add(1) }, &mut ctx)) {
            Ok(Ok(())) => {
                o.push(0);
                o.push(inner.access_seeds().bump as i128);
            }
            Ok(Err(e)) => {
                o.push(1);
                o.push(err_code(e) as i128);
            }
            Err(()) => o.push(2),
        }
        Ok(o)
    });
    match r {
        Ok(Ok(o)) => out.extend(o),
        Ok(Err(e)) => {
            out.push(1);
            out.push(err_code(e) as i128);
        }
        Err(()) => out.push(2),
    }
}

fn run<S: Fam>(c: &[i128]) -> Vec<i128> {
    let mut cur = Cur::new(c);
    let bad = vec![-1];
    let _sid = cur.next();
    let key32 = |cur: &mut Cur| -> Option<[u8; 32]> {
        let v: Vec<u8> = cur.take(32)?.iter().map(|x| *x as u8).collect();
        v.try_into().ok()
    };
    let Some(pid) = key32(&mut cur) else { return bad };
    let Some(cpid) = key32(&mut cur) else { return bad };
    if cpid != PROG_ID.to_bytes() {
        return vec![-2];
    }
    let (Some(pmode), Some(trailing), Some(hasc)) = (cur.next(), cur.next(), cur.next()) else { return bad };
    let cls = if trailing > 0 { (trailing - 1) / 2 } else { 0 };
    if hasc != 0 {
        let Some(clen) = cur.next() else { return bad };
        if cur.take(clen as usize).is_none() {
            return bad;
        }
    }
    let Some(_nf) = cur.next() else { return bad };
    let Some(s) = S::build(&mut cur) else { return vec![-3] };
    let ctx_pid: &'static Pubkey = Box::leak(Box::new(Pubkey::new_from_array(pid)));
    let spid = if pmode != 0 { PROG_ID } else { *ctx_pid };

    let mut out = vec![];
    // 1. the seed vector
    let l = owned(s.seeds());
    seedvec(&l, &mut out);
    // 2. oracle rows: create_program_address(seeds ++ [bump]) for bump = 255, 254, ... as the search sees them
    let mut rows = vec![];
    let mut n = 0i128;
    for bump in (1..=255u8).rev() {
        let mut cand = l.clone();
        cand.push(vec![bump]);
        let r = create(&cand, &spid);
        n += 1;
        let stop = !matches!(r, Ok(Err(code)) if code == pk_err_code(star_frame::solana_pubkey::PubkeyError::InvalidSeeds));
        out_addr(r, &mut rows);
        if stop {
            break;
        }
    }
    out.push(n);
    out.extend(rows);
    // 3. candidates
    let Some(nc) = cur.next() else { return bad };
    for _ in 0..nc {
        let Some(key) = key32(&mut cur) else { return bad };
        let (Some(mode), Some(bump)) = (cur.next(), cur.next()) else { return bad };
        if (mode == 2 || mode == 3) && pmode == 0 {
            candidate_init::<S>(&s, key, mode == 3, bump as u8, ctx_pid, &spid, &mut out);
        } else if pmode != 0 {
            candidate::<S, HProg, ViaAccess>(&s, key, mode, bump as u8, ctx_pid, &spid, cls, &mut out);
        } else {
            candidate::<S, CurrentProgram, ViaSignedAccount>(&s, key, mode, bump as u8, ctx_pid, &spid, cls, &mut out);
        }
    }
    // 4. client helpers (always under HProg::ID)
    match guarded(|| <Acct<S> as FindProgramAddress>::find_program_address(&s)) {
        Ok((a, b)) => {
            out.push(0);
            out.extend(a.to_bytes().iter().map(|x| *x as i128));
            out.push(b as i128);
        }
        Err(()) => out.push(2),
    }
    let Some(ncl) = cur.next() else { return bad };
    for _ in 0..ncl {
        let Some(b) = cur.next() else { return bad };
        let r = guarded(|| <Acct<S> as FindProgramAddress>::create_program_address(&s, b as u8).map_err(|e| err_code(e) as i128));
        out_addr(r, &mut out);
    }
    out
}

type Runner = fn(&[i128]) -> Vec<i128>;
fn family() -> Vec<(&'static str, Runner)> {
    vec![
        ("U0", run::<U0> as Runner),
        ("U0c", run::<U0c>),
        ("K1", run::<K1>),
        ("K1c", run::<K1c>),
        ("K2", run::<K2>),
        ("KN", run::<KN>),
        ("NK", run::<NK>),
        ("B8", run::<B8>),
        ("B16", run::<B16>),
        ("B32", run::<B32>),
        ("B64", run::<B64>),
        ("B128", run::<B128>),
        ("I64", run::<I64>),
        ("Mixed", run::<Mixed>),
        ("MixedC", run::<MixedC>),
        ("Arr4", run::<Arr4>),
        ("Arr32c", run::<Arr32c>),
        ("Arr0", run::<Arr0>),
        ("ArrLast0", run::<ArrLast0>),
        ("Arr33", run::<Arr33>),
        ("LongConst", run::<LongConst>),
        ("PathConst", run::<PathConst>),
        ("F13", run::<F13>),
        ("F14", run::<F14>),
        ("F15", run::<F15>),
        ("F14c", run::<F14c>),
        ("F16", run::<F16>),
        ("ManualNoEmpty", run::<ManualNoEmpty>),
        ("ManualDoc", run::<ManualDoc>),
        ("BlanketKey", run::<Pubkey>),
        ("BlanketU64", run::<u64>),
        ("Und", run::<Und>),
        ("UndC", run::<UndC>),
        ("RawId", run::<RawId>),
    ]
}

fn main() {
    quiet_panics();
    let args: Vec<String> = std::env::args().collect();
    let fam = family();
    if args.len() > 2 && args[2] == "--family" {
        for (i, (n, _)) in fam.iter().enumerate() {
            println!("struct {i} {n}");
        }
        println!("key prog {}", PROG_ID.to_bytes().iter().map(|b| b.to_string()).collect::<Vec<_>>().join(" "));
        return;
    }
    let cases = read_cases(&args[1]);
    let mut o = Out::new();
    for (id, c) in &cases {
        let obs = match c.first().and_then(|sid| fam.get(*sid as usize)) {
            Some((_, f)) => f(c),
            None => vec![-4],
        };
        o.line(id, &obs);
    }
    o.flush();
}
