//! C07 harness: borrow / mutate / release sequences on a native writable program account.
use star_frame::prelude::*;
use vh::*;

const PROG_ID: Pubkey = Pubkey::new_from_array([7; 32]);

#[derive(StarFrameProgram)]
#[program(instruction_set = (), id = PROG_ID, no_entrypoint)]
pub struct C07Program;

#[unsized_type(program_account, skip_idl)]
pub struct K1 {
    #[unsized_start]
    pub f0: List<u8>,
}
#[unsized_type(program_account, skip_idl)]
pub struct K2 {
    #[unsized_start]
    pub f0: List<u8>,
    pub f1: List<u8>,
}
#[unsized_type(program_account, skip_idl)]
pub struct K3 {
    #[unsized_start]
    pub f0: List<u8>,
    pub f1: List<u8>,
    pub f2: List<u8>,
}

/// a body that can be EMPTY: the account then holds exactly its discriminant
#[unsized_type(program_account, skip_idl)]
pub struct K0 {
    #[unsized_start]
    pub rest: RemainingBytes,
}

trait Fields: ProgramAccount + UnsizedType {
    const K: usize;
    fn owned_of(fields: Vec<Vec<u8>>) -> Vec<u8>;
    fn push(
        w: &mut ExclusiveWrapperTop<'_, star_frame::account_set::account::discriminant::AccountDiscriminant<Self>, AccountInfo>,
        i: usize,
        n: usize,
        b: u8,
    ) -> Result<()>;
    fn remove(
        w: &mut ExclusiveWrapperTop<'_, star_frame::account_set::account::discriminant::AccountDiscriminant<Self>, AccountInfo>,
        i: usize,
        s: usize,
        e: usize,
    ) -> Result<()>;
    fn read(p: &Self::Ptr) -> Vec<i128>;
}

fn ser_fields(disc: &[u8], fields: &[Vec<u8>]) -> Vec<u8> {
    let mut v = disc.to_vec();
    for f in fields {
        v.extend_from_slice(&(f.len() as u32).to_le_bytes());
        v.extend_from_slice(f);
    }
    v
}

macro_rules! impl_fields {
    ($t:ident, $k:expr, $($idx:expr => $f:ident),*) => {
        impl Fields for $t {
            const K: usize = $k;
            fn owned_of(fields: Vec<Vec<u8>>) -> Vec<u8> {
                ser_fields(bytemuck::bytes_of(&<$t as ProgramAccount>::DISCRIMINANT), &fields)
            }
            fn push(w: &mut ExclusiveWrapperTop<'_, star_frame::account_set::account::discriminant::AccountDiscriminant<Self>, AccountInfo>, i: usize, n: usize, b: u8) -> Result<()> {
                match i {
                    $($idx => w.$f().push_all(std::iter::repeat(b).take(n).collect::<Vec<u8>>()),)*
                    _ => unreachable!(),
                }
            }
            fn remove(w: &mut ExclusiveWrapperTop<'_, star_frame::account_set::account::discriminant::AccountDiscriminant<Self>, AccountInfo>, i: usize, s: usize, e: usize) -> Result<()> {
                match i {
                    $($idx => w.$f().remove_range(s..e),)*
                    _ => unreachable!(),
                }
            }
            fn read(p: &Self::Ptr) -> Vec<i128> {
                let mut v = vec![];
                $( v.push(p.$f.len() as i128); v.push(checksum(&p.$f)); )*
                v
            }
        }
    };
}
impl Fields for K0 {
    const K: usize = 1;
    fn owned_of(fields: Vec<Vec<u8>>) -> Vec<u8> {
        let mut v = bytemuck::bytes_of(&<K0 as ProgramAccount>::DISCRIMINANT).to_vec();
        v.extend_from_slice(&fields[0]);
        v
    }
    fn push(w: &mut ExclusiveWrapperTop<'_, star_frame::account_set::account::discriminant::AccountDiscriminant<Self>, AccountInfo>, _i: usize, n: usize, b: u8) -> Result<()> {
        let mut r = w.rest();
        let old = r.len();
        r.set_len(old + n)?;
        for x in &mut r[old..] {
            *x = b;
        }
        Ok(())
    }
    fn remove(w: &mut ExclusiveWrapperTop<'_, star_frame::account_set::account::discriminant::AccountDiscriminant<Self>, AccountInfo>, _i: usize, s: usize, e: usize) -> Result<()> {
        let mut r = w.rest();
        let len = r.len();
        if s > e {
            return Err(star_frame::errors::Error::from(star_frame::errors::ErrorCode::InvalidRange));
        }
        if e > len {
            return Err(star_frame::errors::Error::from(star_frame::errors::ErrorCode::IndexOutOfBounds));
        }
        r.copy_within(e.., s);
        r.set_len(len - (e - s))
    }
    fn read(p: &Self::Ptr) -> Vec<i128> {
        vec![p.rest.len() as i128, checksum(&p.rest)]
    }
}
impl_fields!(K1, 1, 0 => f0);
impl_fields!(K2, 2, 0 => f0, 1 => f1);
impl_fields!(K3, 3, 0 => f0, 1 => f1, 2 => f2);

fn run_case<T: Fields>(writable: bool, lens: &[i128], ops: &[i128]) -> Vec<i128>
where
    T: 'static,
{
    let fields: Vec<Vec<u8>> = lens
        .iter()
        .enumerate()
        .map(|(i, n)| vec![(i + 1) as u8; *n as usize])
        .collect();
    let data = T::owned_of(fields);
    let na = NativeAccount::new([9; 32], [7; 32], 1_000_000, &data, false, writable, false);
    let info = na.info();
    // Account<T> is built the way decode does: a single-field account set over the info
    let account: Account<T> = unsafe { std::mem::transmute_copy(&info) };
    let mut out: Vec<i128> = vec![];
    let mut excl = None;
    let mut shared = vec![];
    let mut c = Cur::new(ops);
    let mut emit = |out: &mut Vec<i128>, ob: Vec<i128>| {
        out.push(ob.len() as i128);
        out.extend(ob);
    };
    let mut panicked = false;
    while let Some(code) = c.next() {
        if panicked {
            break;
        }
        match code {
            1 => {
                if excl.is_some() {
                    // a second exclusive request while one is live
                    match guarded(|| account.data_mut()) {
                        Ok(Ok(w)) => {
                            std::mem::forget(w);
                            emit(&mut out, vec![0, 777]);
                        }
                        Ok(Err(e)) => emit(&mut out, vec![1, err_code(e) as i128]),
                        Err(()) => { emit(&mut out, vec![2]); panicked = true; }
                    }
                } else {
                    match guarded(|| account.data_mut()) {
                        Ok(Ok(w)) => {
                            excl = Some(w);
                            emit(&mut out, vec![0]);
                        }
                        Ok(Err(e)) => emit(&mut out, vec![1, err_code(e) as i128]),
                        Err(()) => { emit(&mut out, vec![2]); panicked = true; }
                    }
                }
            }
            2 => match excl.take() {
                None => emit(&mut out, vec![9]),
                Some(w) => match guarded(move || drop(w)) {
                    Ok(()) => emit(&mut out, vec![0]),
                    Err(()) => { emit(&mut out, vec![2]); panicked = true; }
                },
            },
            3 => match guarded(|| account.data()) {
                Ok(Ok(w)) => {
                    shared.push(w);
                    emit(&mut out, vec![0]);
                }
                Ok(Err(e)) => emit(&mut out, vec![1, err_code(e) as i128]),
                Err(()) => { emit(&mut out, vec![2]); panicked = true; }
            },
            4 => match shared.pop() {
                None => emit(&mut out, vec![9]),
                Some(w) => {
                    drop(w);
                    emit(&mut out, vec![0]);
                }
            },
            5 => {
                let (i, n, b) = (c.next().unwrap(), c.next().unwrap(), c.next().unwrap());
                match excl.as_mut() {
                    Some(w) if (i as usize) < T::K && n >= 0 => {
                        match guarded(|| T::push(w, i as usize, n as usize, b as u8)) {
                            Ok(Ok(())) => emit(&mut out, vec![0]),
                            Ok(Err(e)) => emit(&mut out, vec![1, err_code(e) as i128]),
                            Err(()) => { emit(&mut out, vec![2]); panicked = true; }
                        }
                    }
                    _ => emit(&mut out, vec![9]),
                }
            }
            6 => {
                let (i, s, e) = (c.next().unwrap(), c.next().unwrap(), c.next().unwrap());
                match excl.as_mut() {
                    Some(w) if (i as usize) < T::K && s >= 0 && e >= 0 => {
                        match guarded(|| T::remove(w, i as usize, s as usize, e as usize)) {
                            Ok(Ok(())) => emit(&mut out, vec![0]),
                            Ok(Err(e)) => emit(&mut out, vec![1, err_code(e) as i128]),
                            Err(()) => { emit(&mut out, vec![2]); panicked = true; }
                        }
                    }
                    _ => emit(&mut out, vec![9]),
                }
            }
            7 => {
                if let Some(w) = excl.as_ref() {
                    let mut ob = vec![0, na.data_len() as i128];
                    ob.extend(T::read(&**w));
                    emit(&mut out, ob);
                } else if let Some(w) = shared.last() {
                    let mut ob = vec![0, na.data_len() as i128];
                    ob.extend(T::read(&**w));
                    emit(&mut out, ob);
                } else {
                    emit(&mut out, vec![9]);
                }
            }
            _ => break,
        }
    }
    if panicked {
        // the account is not driven any further; leak what is left
        std::mem::forget(excl);
    } else {
        // release in an order that cannot panic the harness itself
        if let Some(w) = excl.take() {
            let _ = guarded(move || drop(w));
        }
    }
    drop(shared);
    out.push(na.data_len() as i128);
    out.push(na.resize_delta() as i128);
    out
}

fn main() {
    quiet_panics();
    let args: Vec<String> = std::env::args().collect();
    let cases = read_cases(&args[1]);
    let mut o = Out::new();
    for (id, ints) in &cases {
        let w = ints[0] != 0;
        let k = ints[1] as usize;
        let lens = &ints[2..2 + k];
        let ops = &ints[2 + k..];
        if k == 0 {
            // one prefix-less field: the case carries its initial length
            let lens = &ints[2..3];
            let ops = &ints[3..];
            o.line(id, &run_case::<K0>(w, lens, ops));
            continue;
        }
        let obs = match k {
            1 => run_case::<K1>(w, lens, ops),
            2 => run_case::<K2>(w, lens, ops),
            3 => run_case::<K3>(w, lens, ops),
            _ => panic!("unsupported field count"),
        };
        o.line(id, &obs);
    }
    o.flush();
}
