//! C05, stage `sized`: sized (bytemuck) values initialised as unsized types through the blanket impls of
//! star_frame/src/unsize/impls/checked.rs (`UnsizedInit<DefaultInit> for T`, `UnsizedInit<T> for T`).
//!
//! case: kind nd ds(nd) size mode filler extra default(size) [value(size) when mode = 1]   (coq/Unsized/SizedInit.v run_c05s)
//!       the harness type is selected by (size, default bytes); kind / ds / size / default must be the type's own
//!       (bit-pattern check, size_of, bytes_of(default_init())), otherwise the answer is [-2]
//! observation: announced consumed <written bytes> tail_intact parses_back
use star_frame::bytemuck;
use star_frame::prelude::*;
use star_frame::unsize::init::{DefaultInitable, UnsizedInit};
use vh::*;

/// not Zeroable: zero is no valid bit pattern
#[derive(Align1, Copy, Clone, Debug, PartialEq, Eq, CheckedBitPattern, NoUninit)]
#[repr(u8)]
pub enum Mode {
    Active = 1,
    Paused = 2,
}
impl DefaultInitable for Mode {
    fn default_init() -> Self {
        Mode::Active
    }
}
/// zero IS a valid bit pattern, but not the default
#[derive(Align1, Copy, Clone, Debug, PartialEq, Eq, CheckedBitPattern, NoUninit)]
#[repr(u8)]
pub enum Level {
    Low = 0,
    Mid = 1,
    High = 2,
}
impl DefaultInitable for Level {
    fn default_init() -> Self {
        Level::High
    }
}
/// any bit pattern, a non-zero default
#[derive(Align1, Copy, Clone, Debug, PartialEq, Eq, CheckedBitPattern, NoUninit)]
#[repr(C, packed)]
pub struct Fee {
    pub basis_points: u16,
    pub mode: u8,
}
impl DefaultInitable for Fee {
    fn default_init() -> Self {
        Fee { basis_points: 250, mode: 7 }
    }
}

trait Desc {
    /// (kind, discriminants) of the bit-pattern check
    fn check() -> (i128, Vec<i128>);
}
impl Desc for Mode {
    fn check() -> (i128, Vec<i128>) {
        (1, vec![1, 2])
    }
}
impl Desc for Level {
    fn check() -> (i128, Vec<i128>) {
        (1, vec![0, 1, 2])
    }
}
impl Desc for Fee {
    fn check() -> (i128, Vec<i128>) {
        (0, vec![])
    }
}
impl Desc for PackedValue<u32> {
    fn check() -> (i128, Vec<i128>) {
        (0, vec![])
    }
}
impl Desc for bool {
    fn check() -> (i128, Vec<i128>) {
        (1, vec![0, 1])
    }
}

fn run<T>(kind: i128, ds: &[i128], size: usize, mode: i128, filler: u8, extra: usize, dflt: &[u8], value: Option<&[u8]>) -> Vec<i128>
where
    T: Desc + UnsizedInit<DefaultInit> + UnsizedInit<T> + UnsizedType<Owned = T> + DefaultInitable + bytemuck::NoUninit
        + bytemuck::CheckedBitPattern + Copy + PartialEq,
{
    let (k, d) = T::check();
    let own_default = T::default_init();
    if k != kind || d != ds || size != std::mem::size_of::<T>() || bytemuck::bytes_of(&own_default) != dflt {
        return vec![-2];
    }
    let mut buf = vec![filler; size + extra];
    let (announced, denoted, r) = if mode == 1 {
        let Ok(v) = bytemuck::checked::try_from_bytes::<T>(value.unwrap()) else { return vec![-3] };
        let v = *v;
        let mut cur: &mut [u8] = &mut buf[..];
        let r = guarded(|| <T as UnsizedInit<T>>::init(&mut cur, v).map(|_| cur.len()));
        (<T as UnsizedInit<T>>::INIT_BYTES, v, r)
    } else {
        let mut cur: &mut [u8] = &mut buf[..];
        let r = guarded(|| <T as UnsizedInit<DefaultInit>>::init(&mut cur, DefaultInit).map(|_| cur.len()));
        (<T as UnsizedInit<DefaultInit>>::INIT_BYTES, own_default, r)
    };
    let left = match r {
        Ok(Ok(n)) => n,
        Ok(Err(_)) => return vec![-1],
        Err(()) => return vec![-9],
    };
    let mut out = vec![announced as i128, (size + extra - left) as i128];
    out.extend(buf[..size].iter().map(|b| *b as i128));
    out.push(buf[size..].iter().all(|b| *b == filler) as i128);
    let back = guarded(|| <T as UnsizedType>::owned(&buf[..size]));
    out.push(matches!(back, Ok(Ok(v)) if v == denoted) as i128);
    out
}

fn main() {
    quiet_panics();
    let args: Vec<String> = std::env::args().collect();
    let cases = read_cases(&args[1]);
    let mut o = Out::new();
    for (id, c) in &cases {
        let kind = c[0];
        let nd = c[1] as usize;
        let ds = &c[2..2 + nd];
        let r = &c[2 + nd..];
        let (size, mode, filler, extra) = (r[0] as usize, r[1], r[2] as u8, r[3] as usize);
        let dflt: Vec<u8> = r[4..4 + size].iter().map(|x| *x as u8).collect();
        let value: Option<Vec<u8>> = if mode == 1 { Some(r[4 + size..4 + 2 * size].iter().map(|x| *x as u8).collect()) } else { None };
        let v = value.as_deref();
        let obs = match (size, dflt.as_slice()) {
            (1, [1]) if kind == 1 && ds == [1, 2] => run::<Mode>(kind, ds, size, mode, filler, extra, &dflt, v),
            (1, [2]) => run::<Level>(kind, ds, size, mode, filler, extra, &dflt, v),
            (3, _) => run::<Fee>(kind, ds, size, mode, filler, extra, &dflt, v),
            (4, _) => run::<PackedValue<u32>>(kind, ds, size, mode, filler, extra, &dflt, v),
            (1, [0]) => run::<bool>(kind, ds, size, mode, filler, extra, &dflt, v),
            _ => vec![-4],
        };
        o.line(id, &obs);
    }
    o.flush();
}
