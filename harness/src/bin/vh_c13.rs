//! C13 harness: the REAL normalize_rent / refund_rent / receive_rent / close_account (traits CanModifyRent /
//! CanCloseAccount) and the cleanup arguments NormalizeRent / RefundRent / ReceiveRent / CloseAccount, explicit and
//! cached `()` forms (cache filled by a derived AccountSet with #[validate(funder)] / #[validate(recipient)]), run
//! natively against the system-program simulator behind the CPI hook with Rent injected.
//!
//! case : op via kind okind lpby mult  ACCOUNT OTHER THIRD  oseeds find pda-table
//!        op    0 normalize 1 refund 2 receive 3 close
//!        via   0 trait method called directly     1 cleanup arg with explicit &other
//!              2 cleanup arg `()`, cache filled by validating a derived set with #[validate(funder|recipient)]
//!              3 cleanup arg `()`, empty cache     4 as 2 but THIRD was cached before (first one wins)
//!        kind  0 Mut<Account<Fix>> (w=8)  1 Mut<Account<Fix1>> (w=1)  2 Mut<BorshAccount<Bo>> (via 0, or close)
//!              3 + n: Mut<BorshAccount<Bo>> through the CLEANUP ARGUMENTS (every via), its value RESIZED in the instruction:
//!              the account starts holding Bo { v: [7; n] }, the instruction assigns the value the case's ACCOUNT data
//!              spells out (the image AFTER the write-back: the sizes the rent operation has to work with), then cleans up
//!        okind funder: 0 Mut<Signer> 1 Mut<Seeded<SystemAccount>>;  recipient: 0 Mut<AccountInfo> 1 Mut<SystemAccount>
//! obs  : 0 ACC' ACC' ACC' cpi-log | 1 code | 2 (panic) | 3 code (an account set was rejected before the operation)
#[path = "../rent_sim.rs"]
mod rent_sim;
use star_frame::account_set::system_account::SystemAccount;
use star_frame::account_set::{
    AccountSetCleanup, AccountSetValidate, CanAddLamports, CanCloseAccount, CanFundRent, CanModifyRent, TryFromAccounts as _,
    TryFromAccountsWithArgs as _,
};
use star_frame::pinocchio::sysvars::rent::Rent;
use star_frame::prelude::*;
use star_frame::verif_hooks::{set_cpi_handler, set_rent};
use vh::*;

pub const PROG_ID: Pubkey = Pubkey::new_from_array([77; 32]);

#[derive(Debug, Clone)]
pub struct VSeeds(pub Vec<Vec<u8>>);
impl GetSeeds for VSeeds {
    fn seeds(&self) -> Vec<&[u8]> {
        self.0.iter().map(|s| s.as_slice()).collect()
    }
}

pub mod p8 {
    use star_frame::borsh::{BorshDeserialize, BorshSerialize};
    use star_frame::prelude::*;
    #[derive(StarFrameProgram)]
    #[program(instruction_set = (), id = super::PROG_ID, account_discriminant = [u8; 8], no_entrypoint, skip_idl)]
    pub struct P8;

    #[zero_copy(pod)]
    #[derive(Default, Debug, Eq, PartialEq, ProgramAccount)]
    #[program_account(skip_idl, program = P8, discriminant = [1, 2, 3, 4, 5, 6, 7, 8])]
    pub struct Fix {
        pub a: u64,
        pub b: [u8; 5],
    }

    #[derive(ProgramAccount, BorshSerialize, BorshDeserialize, Debug, Default, Clone)]
    #[borsh(crate = "star_frame::borsh")]
    #[program_account(skip_idl, program = P8, discriminant = [0xB0, 0, 0, 0, 0, 0, 0, 1])]
    pub struct Bo {
        pub v: Vec<u8>,
    }
}
pub mod p1 {
    use star_frame::prelude::*;
    #[derive(StarFrameProgram)]
    #[program(instruction_set = (), id = super::PROG_ID, account_discriminant = u8, no_entrypoint, skip_idl)]
    pub struct P1;

    #[zero_copy(pod)]
    #[derive(Default, Debug, Eq, PartialEq, ProgramAccount)]
    #[program_account(skip_idl, program = P1, discriminant = 0xA5u8)]
    pub struct Fix1 {
        pub a: [u8; 3],
    }
}
use p1::*;
use p8::*;

// derived account sets: the cache is filled by the code the derive macro generates for #[validate(funder)] /
// #[validate(recipient)], the cleanup argument is wired by #[cleanup(arg = ..)]
macro_rules! cached_set {
    ($name:ident, $mark:ident, $other:ty, $acct:ty, $arg:expr) => {
        #[derive(AccountSet, Debug)]
        #[account_set(skip_default_idl)]
        pub struct $name {
            #[validate($mark)]
            pub other: $other,
            #[cleanup(arg = $arg)]
            pub account: $acct,
        }
    };
}
cached_set!(NormFix, funder, Mut<Signer>, Mut<Account<Fix>>, NormalizeRent(()));
cached_set!(RecvFix, funder, Mut<Signer>, Mut<Account<Fix>>, ReceiveRent(()));
cached_set!(RefFix, recipient, Mut<AccountInfo>, Mut<Account<Fix>>, RefundRent(()));
cached_set!(CloseFix, recipient, Mut<AccountInfo>, Mut<Account<Fix>>, CloseAccount(()));
cached_set!(NormFix1, funder, Mut<Signer>, Mut<Account<Fix1>>, NormalizeRent(()));
cached_set!(RecvFix1, funder, Mut<Signer>, Mut<Account<Fix1>>, ReceiveRent(()));
cached_set!(RefFix1, recipient, Mut<AccountInfo>, Mut<Account<Fix1>>, RefundRent(()));
cached_set!(CloseFix1, recipient, Mut<AccountInfo>, Mut<Account<Fix1>>, CloseAccount(()));
cached_set!(CloseBo, recipient, Mut<AccountInfo>, Mut<BorshAccount<Bo>>, CloseAccount(()));
cached_set!(NormBo, funder, Mut<Signer>, Mut<BorshAccount<Bo>>, NormalizeRent(()));
cached_set!(RecvBo, funder, Mut<Signer>, Mut<BorshAccount<Bo>>, ReceiveRent(()));
cached_set!(RefBo, recipient, Mut<AccountInfo>, Mut<BorshAccount<Bo>>, RefundRent(()));
trait HasBo {
    fn bo(&mut self) -> &mut Mut<BorshAccount<Bo>>;
}
macro_rules! has_bo {
    ($($t:ty),*) => { $( impl HasBo for $t { fn bo(&mut self) -> &mut Mut<BorshAccount<Bo>> { &mut self.account } } )* };
}
has_bo!(CloseBo, NormBo, RecvBo, RefBo);

struct AccSpec {
    key: [u8; 32],
    owner: [u8; 32],
    lamports: u64,
    signer: bool,
    writable: bool,
    data: Vec<u8>,
}
fn rd_key(c: &mut Cur) -> Option<[u8; 32]> {
    let s = c.take(32)?;
    let mut k = [0u8; 32];
    for i in 0..32 {
        k[i] = s[i] as u8;
    }
    Some(k)
}
fn rd_acc(c: &mut Cur) -> Option<AccSpec> {
    let key = rd_key(c)?;
    let owner = rd_key(c)?;
    let lamports = c.next()? as u64;
    let signer = c.next()? != 0;
    let writable = c.next()? != 0;
    let n = c.next()? as usize;
    let data = c.take(n)?.iter().map(|x| *x as u8).collect();
    Some(AccSpec { key, owner, lamports, signer, writable, data })
}
fn rd_bytes(c: &mut Cur) -> Option<Vec<u8>> {
    let n = c.next()? as usize;
    Some(c.take(n)?.iter().map(|x| *x as u8).collect())
}
fn rd_seeds(c: &mut Cur) -> Option<Vec<Vec<u8>>> {
    let n = c.next()? as usize;
    (0..n).map(|_| rd_bytes(c)).collect()
}

fn acc_obs(a: &NativeAccount, kidx: &dyn Fn(&[u8; 32]) -> i128, out: &mut Vec<i128>) {
    out.push(a.lamports() as i128);
    out.push(kidx(&a.owner()));
    let d = a.data();
    out.push(d.len() as i128);
    out.extend(d.iter().map(|b| *b as i128));
}

/// Err(code) = set-up rejected (tag 3); Ok(r) = result of the operation
type Step = std::result::Result<Result<()>, u64>;

struct Env<'a> {
    op: i128,
    via: i128,
    ainfo: AccountInfo,
    oinfo: AccountInfo,
    f0: Option<&'a Mut<Signer>>,
    f1: Option<&'a Mut<Seeded<SystemAccount, VSeeds>>>,
    r0: Option<&'a Mut<AccountInfo>>,
    r1: Option<&'a Mut<SystemAccount>>,
}
impl<'a> Env<'a> {
    fn funder(&self) -> &'a dyn CanFundRent {
        match (self.f0, self.f1) {
            (Some(f), _) => f,
            (_, Some(f)) => f,
            _ => unreachable!(),
        }
    }
    fn recipient(&self) -> &'a dyn CanAddLamports {
        match (self.r0, self.r1) {
            (Some(f), _) => f,
            (_, Some(f)) => f,
            _ => unreachable!(),
        }
    }
}

/// via 0 (direct trait call) and 1 / 3 (cleanup argument, explicit or empty cache) on Mut<$A>
macro_rules! run_plain {
    ($name:ident, $A:ty) => {
        fn $name(e: &Env, ctx: &mut Context) -> Step {
            let mut acct = <Mut<$A>>::try_from_account(&e.ainfo, ctx).map_err(err_code)?;
            let r = match (e.via, e.op) {
                (0, 0) => acct.normalize_rent(e.funder(), ctx),
                (0, 1) => acct.refund_rent(e.recipient(), ctx),
                (0, 2) => acct.receive_rent(e.funder(), ctx),
                (0, _) => (*acct).close_account(e.recipient()),
                (1, 0) => match (e.f0, e.f1) {
                    (Some(f), _) => acct.cleanup_accounts(NormalizeRent(f), ctx),
                    (_, f) => acct.cleanup_accounts(NormalizeRent(f.unwrap()), ctx),
                },
                (1, 1) => match (e.r0, e.r1) {
                    (Some(f), _) => acct.cleanup_accounts(RefundRent(f), ctx),
                    (_, f) => acct.cleanup_accounts(RefundRent(f.unwrap()), ctx),
                },
                (1, 2) => match (e.f0, e.f1) {
                    (Some(f), _) => acct.cleanup_accounts(ReceiveRent(f), ctx),
                    (_, f) => acct.cleanup_accounts(ReceiveRent(f.unwrap()), ctx),
                },
                (1, _) => match (e.r0, e.r1) {
                    (Some(f), _) => acct.cleanup_accounts(CloseAccount(f), ctx),
                    (_, f) => acct.cleanup_accounts(CloseAccount(f.unwrap()), ctx),
                },
                (_, 0) => acct.cleanup_accounts(NormalizeRent(()), ctx),
                (_, 1) => acct.cleanup_accounts(RefundRent(()), ctx),
                (_, 2) => acct.cleanup_accounts(ReceiveRent(()), ctx),
                (_, _) => acct.cleanup_accounts(CloseAccount(()), ctx),
            };
            Ok(r)
        }
    };
}
run_plain!(plain_fix, Account<Fix>);
run_plain!(plain_fix1, Account<Fix1>);

/// BorshAccount: its rent cleanups serialise first (C15's business); here the trait methods directly, and close
fn plain_bo(e: &Env, ctx: &mut Context) -> Step {
    let mut acct = <Mut<BorshAccount<Bo>>>::try_from_account(&e.ainfo, ctx).map_err(err_code)?;
    let r = match (e.via, e.op) {
        (_, 0) => acct.normalize_rent(e.funder(), ctx),
        (_, 1) => acct.refund_rent(e.recipient(), ctx),
        (_, 2) => acct.receive_rent(e.funder(), ctx),
        (0, _) => (*acct).close_account(e.recipient()),
        (1, _) => match (e.r0, e.r1) {
            (Some(f), _) => acct.cleanup_accounts(CloseAccount(f), ctx),
            (_, f) => acct.cleanup_accounts(CloseAccount(f.unwrap()), ctx),
        },
        (_, _) => acct.cleanup_accounts(CloseAccount(()), ctx),
    };
    Ok(r)
}

/// kind 3 + n: the value is replaced (other serialized size) and the account cleaned up through the cleanup ARGUMENT
fn plain_bo_args(e: &Env, ctx: &mut Context, newv: &[u8]) -> Step {
    let mut acct = <Mut<BorshAccount<Bo>>>::try_from_account(&e.ainfo, ctx).map_err(err_code)?;
    acct.v = newv.to_vec();
    let r = match (e.via, e.op) {
        (1, 0) => match (e.f0, e.f1) {
            (Some(f), _) => acct.cleanup_accounts(NormalizeRent(f), ctx),
            (_, f) => acct.cleanup_accounts(NormalizeRent(f.unwrap()), ctx),
        },
        (1, 1) => match (e.r0, e.r1) {
            (Some(f), _) => acct.cleanup_accounts(RefundRent(f), ctx),
            (_, f) => acct.cleanup_accounts(RefundRent(f.unwrap()), ctx),
        },
        (1, 2) => match (e.f0, e.f1) {
            (Some(f), _) => acct.cleanup_accounts(ReceiveRent(f), ctx),
            (_, f) => acct.cleanup_accounts(ReceiveRent(f.unwrap()), ctx),
        },
        (1, _) => match (e.r0, e.r1) {
            (Some(f), _) => acct.cleanup_accounts(CloseAccount(f), ctx),
            (_, f) => acct.cleanup_accounts(CloseAccount(f.unwrap()), ctx),
        },
        (_, 0) => acct.cleanup_accounts(NormalizeRent(()), ctx),
        (_, 1) => acct.cleanup_accounts(RefundRent(()), ctx),
        (_, 2) => acct.cleanup_accounts(ReceiveRent(()), ctx),
        (_, _) => acct.cleanup_accounts(CloseAccount(()), ctx),
    };
    Ok(r)
}
fn derived_bo<S>(e: &Env, ctx: &mut Context, newv: &[u8]) -> Step
where
    S: for<'a> star_frame::account_set::TryFromAccountsWithArgs<'a, (), ()> + AccountSetCleanup<()> + HasBo,
{
    let infos = [e.oinfo, e.ainfo];
    let mut sl = &infos[..];
    let mut set = S::try_from_accounts(&mut sl, ctx).map_err(err_code)?;
    set.bo().v = newv.to_vec();
    Ok(set.cleanup_accounts((), ctx))
}

/// via 2 / 4: decode + validate the derived set (fills the cache), then its cleanup
fn derived<S>(e: &Env, ctx: &mut Context) -> Step
where
    S: for<'a> star_frame::account_set::TryFromAccountsWithArgs<'a, (), ()> + AccountSetCleanup<()>,
{
    let infos = [e.oinfo, e.ainfo];
    let mut sl = &infos[..];
    let mut set = S::try_from_accounts(&mut sl, ctx).map_err(err_code)?;
    Ok(set.cleanup_accounts((), ctx))
}

fn run(c: &[i128]) -> Option<Vec<i128>> {
    let mut cur = Cur::new(c);
    let op = cur.next()?;
    let via = cur.next()?;
    let kind = cur.next()?;
    let okind = cur.next()?;
    let lpby = cur.next()? as u64;
    let mult = cur.next()?;
    let mut a = rd_acc(&mut cur)?;
    let o = rd_acc(&mut cur)?;
    let t = rd_acc(&mut cur)?;
    let oseeds = rd_seeds(&mut cur)?;
    // kind 3 + n: the case spells out the image AFTER the write-back; the account starts with Bo { v: [7; n] }
    let mut newv: Vec<u8> = vec![];
    let kind = if kind >= 3 {
        let n = (kind - 3) as usize;
        if a.data.len() < 12 {
            return None;
        }
        newv = a.data[12..].to_vec();
        let mut pre = a.data[..8].to_vec();
        pre.extend((n as u32).to_le_bytes());
        pre.extend(std::iter::repeat(7u8).take(n));
        a.data = pre;
        3
    } else {
        kind
    };

    #[allow(deprecated)]
    set_rent(Some(Rent { lamports_per_byte_year: lpby, exemption_threshold: if mult == 1 { 1.0 } else { 2.0 }, burn_percent: 50 }));
    let log = rent_sim::install(PROG_ID);
    let ana = NativeAccount::new(a.key, a.owner, a.lamports, &a.data, a.signer, a.writable, false);
    let ona = NativeAccount::new(o.key, o.owner, o.lamports, &o.data, o.signer, o.writable, false);
    let tna = NativeAccount::new(t.key, t.owner, t.lamports, &t.data, t.signer, t.writable, false);
    let known: Vec<[u8; 32]> = vec![[0; 32], PROG_ID.to_bytes(), a.key, o.key, t.key, a.owner, o.owner, t.owner];
    let kidx = move |k: &[u8; 32]| known.iter().position(|x| x == k).map(|i| i as i128).unwrap_or(-1);
    let (ainfo, oinfo, tinfo) = (ana.info(), ona.info(), tna.info());
    let mut ctx = Context::new(&PROG_ID);
    let is_funder_op = op == 0 || op == 2;

    let r: std::result::Result<Step, ()> = guarded(|| {
        // via 4: THIRD is already in the cache when the derived set is validated
        if via == 4 {
            let third = <Mut<Signer>>::try_from_account(&tinfo, &mut ctx).map_err(err_code)?;
            if is_funder_op {
                ctx.set_funder(Box::new(third));
            } else {
                ctx.set_recipient(Box::new(third));
            }
        }
        if via == 2 || via == 4 {
            let e = Env { op, via, ainfo, oinfo, f0: None, f1: None, r0: None, r1: None };
            return match (kind, op) {
                (0, 0) => derived::<NormFix>(&e, &mut ctx),
                (0, 1) => derived::<RefFix>(&e, &mut ctx),
                (0, 2) => derived::<RecvFix>(&e, &mut ctx),
                (0, _) => derived::<CloseFix>(&e, &mut ctx),
                (1, 0) => derived::<NormFix1>(&e, &mut ctx),
                (1, 1) => derived::<RefFix1>(&e, &mut ctx),
                (1, 2) => derived::<RecvFix1>(&e, &mut ctx),
                (1, _) => derived::<CloseFix1>(&e, &mut ctx),
                (3, 0) => derived_bo::<NormBo>(&e, &mut ctx, &newv),
                (3, 1) => derived_bo::<RefBo>(&e, &mut ctx, &newv),
                (3, 2) => derived_bo::<RecvBo>(&e, &mut ctx, &newv),
                (3, _) => derived_bo::<CloseBo>(&e, &mut ctx, &newv),
                (_, _) => derived::<CloseBo>(&e, &mut ctx),
            };
        }
        // explicit funder / recipient, validated as its account-set type
        let f0;
        let f1;
        let r0;
        let r1;
        let mut e = Env { op, via, ainfo, oinfo, f0: None, f1: None, r0: None, r1: None };
        if is_funder_op {
            if okind == 0 {
                f0 = <Mut<Signer>>::try_from_account(&oinfo, &mut ctx).map_err(err_code)?;
                e.f0 = Some(&f0);
            } else {
                f1 = <Mut<Seeded<SystemAccount, VSeeds>>>::try_from_account_with_args(&oinfo, (), Seeds(VSeeds(oseeds.clone())), &mut ctx)
                    .map_err(err_code)?;
                e.f1 = Some(&f1);
            }
        } else if okind == 0 {
            r0 = <Mut<AccountInfo>>::try_from_account(&oinfo, &mut ctx).map_err(err_code)?;
            e.r0 = Some(&r0);
        } else {
            r1 = <Mut<SystemAccount>>::try_from_account(&oinfo, &mut ctx).map_err(err_code)?;
            e.r1 = Some(&r1);
        }
        match kind {
            0 => plain_fix(&e, &mut ctx),
            1 => plain_fix1(&e, &mut ctx),
            3 => plain_bo_args(&e, &mut ctx, &newv),
            _ => plain_bo(&e, &mut ctx),
        }
    });
    set_cpi_handler(None);
    let mut out = vec![];
    match r {
        Err(()) => out.push(2),
        Ok(Err(code)) => {
            out.push(3);
            out.push(code as i128);
        }
        Ok(Ok(Err(e))) => {
            out.push(1);
            out.push(err_code(e) as i128);
        }
        Ok(Ok(Ok(()))) => {
            out.push(0);
            acc_obs(&ana, &kidx, &mut out);
            acc_obs(&ona, &kidx, &mut out);
            acc_obs(&tna, &kidx, &mut out);
            rent_sim::log_obs(&log.borrow(), &kidx, &mut out);
        }
    }
    Some(out)
}

fn main() {
    quiet_panics();
    let args: Vec<String> = std::env::args().collect();
    let cases = read_cases(&args[1]);
    let mut o = Out::new();
    for (cid, c) in &cases {
        let obs = run(c).unwrap_or_else(|| vec![-1]);
        o.line(cid, &obs);
    }
    o.flush();
}
