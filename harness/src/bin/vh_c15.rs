//! C15 harness: sequences of simulated instructions on a native account wrapped by `BorshAccount<T>`:
//! `try_from_accounts` (decode + validate), mutations (`set_inner`, assignment and field writes through
//! `DerefMut`, manual `serialize`, `reload`, owner change, `close_account`), the derived cleanup, the next
//! instruction's decode and the client-side `DeserializeBorshAccount::deserialize_account`.
//!
//! case:  ty  foreign  init_kind  (0 <value> | 1 n b1..bn)  n_instr  { wr cleanup n_ops { op } }*
//!   op:  1 <value> set_inner | 2 <value> `*acc = v` | 3 x / 4 x field writes through DerefMut | 5 read (Deref)
//!        | 6 serialize() | 7 reload() | 8 k owner := (k = 0: program, else foreign) | 9 close_account(&recipient)
//!   cleanup: 0 = `()`  1 = `CloseAccount(&recipient)`
//!   byte strings inside values:  n b1..bn   or   -1 n s k  (byte i = (s + k*i) mod 256)
//! observation: see `run`.
use star_frame::account_set::{
    account::CloseAccount, AccountSetCleanup as _, CanCloseAccount as _, TryFromAccounts as _,
};
use star_frame::borsh::{BorshDeserialize, BorshSerialize};
use star_frame::client::{DeserializeBorshAccount as _, SerializeBorshAccount as _};
use star_frame::prelude::*;
use vh::*;

pub mod pa {
    use star_frame::prelude::*;
    #[derive(StarFrameProgram)]
    #[program(instruction_set = (), id = Pubkey::new_from_array([21; 32]), account_discriminant = [u8; 8], no_entrypoint, skip_idl)]
    pub struct PA;
}
pub mod pb {
    use star_frame::prelude::*;
    #[derive(StarFrameProgram)]
    #[program(instruction_set = (), id = Pubkey::new_from_array([22; 32]), account_discriminant = u8, no_entrypoint, skip_idl)]
    pub struct PB;
}
pub mod pc {
    use star_frame::prelude::*;
    #[derive(StarFrameProgram)]
    #[program(instruction_set = (), id = Pubkey::new_from_array([23; 32]), account_discriminant = u32, no_entrypoint, skip_idl)]
    pub struct PC;
}
use pa::PA;
use pb::PB;
use pc::PC;

const FOREIGN: [u8; 32] = [0xEE; 32];

/// fixed-size value
#[derive(ProgramAccount, BorshSerialize, BorshDeserialize, Debug, Default, Clone, PartialEq)]
#[program_account(skip_idl, program = PA, discriminant = [1, 2, 3, 4, 5, 6, 7, 8])]
#[borsh(crate = "star_frame::borsh")]
pub struct Fx {
    a: u64,
    b: u32,
    c: u8,
    d: bool,
}

/// the shape of example_programs/account_test `MyBorshAccount`
#[derive(ProgramAccount, BorshSerialize, BorshDeserialize, Debug, Default, Clone, PartialEq)]
#[program_account(skip_idl, program = PA, discriminant = [0xB0, 0xB1, 0xB2, 0xB3, 0xB4, 0xB5, 0xB6, 0xB7])]
#[borsh(crate = "star_frame::borsh")]
pub struct Bv {
    vec: Vec<u8>,
}

#[derive(ProgramAccount, BorshSerialize, BorshDeserialize, Debug, Default, Clone, PartialEq)]
#[program_account(skip_idl, program = PB, discriminant = 0x5Au8)]
#[borsh(crate = "star_frame::borsh")]
pub struct St {
    name: String,
}

#[derive(BorshSerialize, BorshDeserialize, Debug, Default, Clone, PartialEq)]
#[borsh(crate = "star_frame::borsh")]
pub struct In {
    flag: bool,
    label: String,
}
#[derive(BorshSerialize, BorshDeserialize, Debug, Default, Clone, PartialEq)]
#[borsh(crate = "star_frame::borsh")]
pub struct It {
    k: u16,
    v: Vec<u8>,
}
#[derive(ProgramAccount, BorshSerialize, BorshDeserialize, Debug, Default, Clone, PartialEq)]
#[program_account(skip_idl, program = PC, discriminant = 0xC0DEC0DEu32)]
#[borsh(crate = "star_frame::borsh")]
pub struct Ns {
    id: u32,
    inner: In,
    items: Vec<It>,
    opt: Option<u64>,
}

/// an account type whose discriminant is the all-ZERO pattern (a u8 discriminant with value 0): a persisted account of this
/// type is initialised data like any other, not an "allocated but not yet initialised" one
#[derive(ProgramAccount, BorshSerialize, BorshDeserialize, Debug, Default, Clone, PartialEq)]
#[program_account(skip_idl, program = PB, discriminant = 0u8)]
#[borsh(crate = "star_frame::borsh")]
pub struct Zd {
    vec: Vec<u8>,
}

/// a value with non-canonical accepted encodings: borsh reads the elements in any order (and with duplicates)
/// and writes them ascending
#[derive(ProgramAccount, BorshSerialize, BorshDeserialize, Debug, Default, Clone, PartialEq)]
#[program_account(skip_idl, program = PA, discriminant = [0xA4, 0x53, 0x42, 0x5F, 0x73, 0x65, 0x74, 0x21])]
#[borsh(crate = "star_frame::borsh")]
pub struct Sb {
    set: std::collections::BTreeSet<u8>,
}

fn rd_bytes(c: &mut Cur) -> Vec<u8> {
    let n = c.next().unwrap();
    if n == -1 {
        let n = c.next().unwrap() as usize;
        let s = c.next().unwrap() as u64;
        let k = c.next().unwrap() as u64;
        (0..n as u64).map(|i| ((s + k * i) % 256) as u8).collect()
    } else {
        c.take(n as usize).unwrap().iter().map(|x| *x as u8).collect()
    }
}
fn wr_bytes(b: &[u8], out: &mut Vec<i128>) {
    out.push(b.len() as i128);
    out.extend(b.iter().map(|x| *x as i128));
}

trait Val: ProgramAccount + BorshSerialize + BorshDeserialize + Default + Clone + std::fmt::Debug + 'static {
    fn of_ints(c: &mut Cur) -> Self;
    fn to_ints(&self, out: &mut Vec<i128>);
    /// field writes through the wrapper's DerefMut
    fn mut3(acc: &mut BorshAccount<Self>, x: i128);
    fn mut4(acc: &mut BorshAccount<Self>, x: i128);
}

impl Val for Fx {
    fn of_ints(c: &mut Cur) -> Self {
        Fx { a: c.next().unwrap() as u64, b: c.next().unwrap() as u32, c: c.next().unwrap() as u8, d: c.next().unwrap() != 0 }
    }
    fn to_ints(&self, out: &mut Vec<i128>) {
        out.extend([self.a as i128, self.b as i128, self.c as i128, self.d as i128]);
    }
    fn mut3(acc: &mut BorshAccount<Self>, x: i128) {
        acc.b = x as u32;
    }
    fn mut4(acc: &mut BorshAccount<Self>, x: i128) {
        acc.a = x as u64;
    }
}
impl Val for Bv {
    fn of_ints(c: &mut Cur) -> Self {
        Bv { vec: rd_bytes(c) }
    }
    fn to_ints(&self, out: &mut Vec<i128>) {
        wr_bytes(&self.vec, out);
    }
    fn mut3(acc: &mut BorshAccount<Self>, x: i128) {
        acc.vec.push(x as u8);
    }
    fn mut4(acc: &mut BorshAccount<Self>, x: i128) {
        acc.vec.truncate(x as usize);
    }
}
impl Val for Zd {
    fn of_ints(c: &mut Cur) -> Self {
        Zd { vec: rd_bytes(c) }
    }
    fn to_ints(&self, out: &mut Vec<i128>) {
        wr_bytes(&self.vec, out);
    }
    fn mut3(acc: &mut BorshAccount<Self>, x: i128) {
        acc.vec.push(x as u8);
    }
    fn mut4(acc: &mut BorshAccount<Self>, x: i128) {
        acc.vec.truncate(x as usize);
    }
}
impl Val for St {
    fn of_ints(c: &mut Cur) -> Self {
        St { name: String::from_utf8(rd_bytes(c)).expect("generator emits valid UTF-8") }
    }
    fn to_ints(&self, out: &mut Vec<i128>) {
        wr_bytes(self.name.as_bytes(), out);
    }
    fn mut3(acc: &mut BorshAccount<Self>, x: i128) {
        assert!((0..128).contains(&x));
        acc.name.push(char::from(x as u8));
    }
    fn mut4(acc: &mut BorshAccount<Self>, _x: i128) {
        acc.name.clear();
    }
}
impl Val for Ns {
    fn of_ints(c: &mut Cur) -> Self {
        let id = c.next().unwrap() as u32;
        let flag = c.next().unwrap() != 0;
        let label = String::from_utf8(rd_bytes(c)).expect("generator emits valid UTF-8");
        let n = c.next().unwrap() as usize;
        let mut items = vec![];
        for _ in 0..n {
            let k = c.next().unwrap() as u16;
            let v = rd_bytes(c);
            items.push(It { k, v });
        }
        let opt = if c.next().unwrap() != 0 { Some(c.next().unwrap() as u64) } else { None };
        Ns { id, inner: In { flag, label }, items, opt }
    }
    fn to_ints(&self, out: &mut Vec<i128>) {
        out.push(self.id as i128);
        out.push(self.inner.flag as i128);
        wr_bytes(self.inner.label.as_bytes(), out);
        out.push(self.items.len() as i128);
        for it in &self.items {
            out.push(it.k as i128);
            wr_bytes(&it.v, out);
        }
        match self.opt {
            None => out.push(0),
            Some(x) => {
                out.push(1);
                out.push(x as i128)
            }
        }
    }
    fn mut3(acc: &mut BorshAccount<Self>, x: i128) {
        acc.items.push(It { k: x as u16, v: vec![7, 7, 7] });
    }
    fn mut4(acc: &mut BorshAccount<Self>, x: i128) {
        acc.opt = Some(x as u64);
        acc.inner.flag = !acc.inner.flag;
    }
}

impl Val for Sb {
    fn of_ints(c: &mut Cur) -> Self {
        Sb { set: rd_bytes(c).into_iter().collect() }
    }
    fn to_ints(&self, out: &mut Vec<i128>) {
        let v: Vec<u8> = self.set.iter().copied().collect();
        wr_bytes(&v, out);
    }
    fn mut3(acc: &mut BorshAccount<Self>, x: i128) {
        acc.set.insert(x as u8);
    }
    fn mut4(acc: &mut BorshAccount<Self>, x: i128) {
        acc.set.remove(&(x as u8));
    }
}

/// returns true when the call panicked
fn tag_unit(r: std::result::Result<Result<()>, ()>, out: &mut Vec<i128>) -> bool {
    match r {
        Ok(Ok(())) => out.push(0),
        Ok(Err(e)) => {
            out.push(1);
            out.push(err_code(e) as i128)
        }
        Err(()) => {
            out.push(2);
            return true;
        }
    }
    false
}

fn run<T: Val>(c: &mut Cur) -> Vec<i128> {
    let pid = <T::OwnerProgram as StarFrameProgram>::ID.to_bytes();
    let disc = T::discriminant_bytes();
    let mut out: Vec<i128> = vec![];
    // the constants compiled into the program (compared with the model's table)
    out.push(disc.len() as i128);
    out.extend(disc.iter().map(|x| *x as i128));
    out.push(pid[0] as i128);

    let foreign = c.next().unwrap() != 0;
    let init_kind = c.next().unwrap();
    let data: Vec<u8> = if init_kind == 0 {
        let v = T::of_ints(c);
        T::serialize_account(&v).expect("client serializer")
    } else {
        let n = c.next().unwrap() as usize;
        c.take(n).unwrap().iter().map(|x| *x as u8).collect()
    };
    let mut na = NativeAccount::new([9; 32], if foreign { FOREIGN } else { pid }, 1_000_000, &data, false, true, false);
    let rna = NativeAccount::new([8; 32], [0; 32], 1, &[], false, true, false);
    let rinfo = rna.info();

    let n_instr = c.next().unwrap();
    for _ in 0..n_instr {
        let wr = c.next().unwrap() != 0;
        let cl = c.next().unwrap();
        let n_ops = c.next().unwrap();
        na.set_flags(false, wr);
        let info = na.info();
        let infos = [info];
        let mut ctx = Context::default();
        let r = guarded(|| BorshAccount::<T>::try_from_accounts(&mut &infos[..], &mut ctx));
        let mut acc = match r {
            Ok(Ok(acc)) => {
                out.push(0);
                match guarded(|| (*acc).clone()) {
                    Ok(v) => {
                        out.push(1);
                        v.to_ints(&mut out);
                    }
                    Err(()) => out.push(0),
                }
                Some(acc)
            }
            Ok(Err(e)) => {
                out.push(1);
                out.push(err_code(e) as i128);
                None
            }
            Err(()) => {
                out.push(2);
                None
            }
        };
        // ops (always consumed from the case; executed while the instruction is alive)
        let mut alive = acc.is_some();
        let mut steps: Vec<i128> = vec![];
        let mut n_steps = 0;
        for _ in 0..n_ops {
            let k = c.next().unwrap();
            let val = if k == 1 || k == 2 { Some(T::of_ints(c)) } else { None };
            let x = if k == 3 || k == 4 || k == 8 { c.next().unwrap() } else { 0 };
            if !alive {
                continue;
            }
            let a = acc.as_mut().unwrap();
            n_steps += 1;
            let panicked = match k {
                1 => tag_unit(guarded(|| a.set_inner(val.unwrap())), &mut steps),
                2 => tag_unit(guarded(|| { **a = val.unwrap(); Ok(()) }), &mut steps),
                3 => tag_unit(guarded(|| { T::mut3(a, x); Ok(()) }), &mut steps),
                4 => tag_unit(guarded(|| { T::mut4(a, x); Ok(()) }), &mut steps),
                5 => match guarded(|| (**a).clone()) {
                    Ok(v) => {
                        steps.push(4);
                        v.to_ints(&mut steps);
                        false
                    }
                    Err(()) => {
                        steps.push(2);
                        true
                    }
                },
                6 => tag_unit(guarded(|| a.serialize()), &mut steps),
                7 => tag_unit(guarded(|| a.reload()), &mut steps),
                8 => {
                    na.set_owner(if x == 0 { &pid } else { &FOREIGN });
                    steps.push(0);
                    false
                }
                9 => {
                    let recip = Mut::<AccountInfo>::try_from_account(&rinfo, &mut ctx).unwrap();
                    tag_unit(guarded(|| a.close_account(&recip)), &mut steps)
                }
                _ => panic!("bad op"),
            };
            if panicked {
                alive = false;
            }
        }
        out.push(n_steps);
        out.extend(steps);
        // cleanup
        if alive {
            let a = acc.as_mut().unwrap();
            let r = if cl == 0 {
                guarded(|| a.cleanup_accounts((), &mut ctx))
            } else {
                let recip = Mut::<AccountInfo>::try_from_account(&rinfo, &mut ctx).unwrap();
                guarded(|| a.cleanup_accounts(CloseAccount(&recip), &mut ctx))
            };
            tag_unit(r, &mut out);
            // the value the instruction leaves in the wrapper
            match guarded(|| (**a).clone()) {
                Ok(v) => {
                    out.push(1);
                    v.to_ints(&mut out);
                }
                Err(()) => out.push(0),
            }
        } else {
            out.push(5);
        }
        drop(acc);
        // account after the instruction
        out.push((na.owner() == pid) as i128);
        out.push(na.lamports() as i128);
        out.push(na.resize_delta() as i128);
        let d = na.data();
        wr_bytes(&d, &mut out);
        // client-side deserializer on the raw data
        match guarded(|| T::deserialize_account(&d)) {
            Ok(Ok(v)) => {
                out.push(0);
                v.to_ints(&mut out);
            }
            Ok(Err(e)) => {
                out.push(1);
                out.push(err_code(e) as i128);
            }
            Err(()) => out.push(2),
        }
        // what the runtime does between instructions: the account is serialised afresh for the next
        // instruction (same state, resize_delta 0, a new 10 KiB of realloc headroom behind the data)
        na = NativeAccount::new(na.key(), na.owner(), na.lamports(), &d, false, true, false);
    }
    out
}

fn main() {
    quiet_panics();
    let args: Vec<String> = std::env::args().collect();
    let cases = read_cases(&args[1]);
    let mut o = Out::new();
    for (id, c) in &cases {
        let mut cur = Cur::new(c);
        let ty = cur.next().unwrap();
        let obs = match ty {
            0 => run::<Fx>(&mut cur),
            1 => run::<Bv>(&mut cur),
            2 => run::<St>(&mut cur),
            3 => run::<Ns>(&mut cur),
            4 => run::<Sb>(&mut cur),
            5 => run::<Zd>(&mut cur),
            _ => vec![-2],
        };
        o.line(id, &obs);
    }
    o.flush();
}
