//! Harness of the unsized-type properties (C01-C06): runs the REAL star_frame code.
//! usage: vh_unsized <casefile> <mode>     mode = family | enc | parse | ops
use star_frame::prelude::*;
use star_frame::unsize::wrapper::SharedWrapper;
use star_frame::unsize::{FromOwned, TestByteSet, UnsizedTypePtr};
use vh::guard::*;
use vh::nodes::*;
use vh::*;

fn tag_err(e: star_frame::errors::Error, out: &mut Vec<i128>) {
    out.push(1);
    out.push(err_code(e) as i128);
}

// ------------------------------------------------------------------------------------------ enc
fn enc<T>(c: &mut Cur) -> Vec<i128>
where
    T: Node + ?Sized,
    T::Ptr: UnsizedTypePtr<UnsizedType = T>,
    T::Owned: Clone + PartialEq,
{
    let owned = T::from_val(c);
    let mut out = vec![];
    let size = T::byte_size(&owned);
    out.push(size as i128);
    // exact buffer
    let mut buf = vec![0xEEu8; size];
    {
        let mut sl: &mut [u8] = &mut buf[..];
        match guarded(|| T::from_owned(owned.clone(), &mut sl)) {
            Ok(Ok(n)) => {
                out.push(0);
                out.push(n as i128);
                out.push(sl.len() as i128);
            }
            Ok(Err(e)) => tag_err(e, &mut out),
            Err(()) => out.push(2),
        }
    }
    out.push(buf.len() as i128);
    out.extend(buf.iter().map(|b| *b as i128));
    // deserialize
    match guarded(|| T::owned(&buf)) {
        Ok(Ok(o)) => {
            out.push(0);
            out.push((o == owned) as i128);
        }
        Ok(Err(e)) => tag_err(e, &mut out),
        Err(()) => out.push(2),
    }
    // slack buffer
    let mut buf2 = vec![0xEEu8; size + 5];
    {
        let mut sl: &mut [u8] = &mut buf2[..];
        match guarded(|| T::from_owned(owned.clone(), &mut sl)) {
            Ok(Ok(n)) => {
                out.push(0);
                out.push(n as i128);
                out.push(sl.len() as i128);
            }
            Ok(Err(e)) => tag_err(e, &mut out),
            Err(()) => out.push(2),
        }
    }
    out.push((buf2[..size] == buf[..] && buf2[size..].iter().all(|b| *b == 0xEE)) as i128);
    // too small buffer
    if size > 0 {
        let mut buf3 = vec![0u8; size - 1];
        let mut sl: &mut [u8] = &mut buf3[..];
        match guarded(|| T::from_owned(owned.clone(), &mut sl)) {
            Ok(Ok(_)) => out.push(0),
            Ok(Err(e)) => tag_err(e, &mut out),
            Err(()) => out.push(2),
        }
    } else {
        out.push(9);
    }
    // the off-chain test buffer helper
    match guarded(|| TestByteSet::<T>::new(owned.clone()).and_then(|t| t.owned())) {
        Ok(Ok(o)) => {
            out.push(0);
            out.push((o == owned) as i128);
        }
        Ok(Err(e)) => tag_err(e, &mut out),
        Err(()) => out.push(2),
    }
    // initialisers: announced INIT_BYTES vs bytes written, for every initializer kind of the shape
    out.push(-790);
    T::init_probe(&mut out);
    out
}

// ------------------------------------------------------------------------------------------ ops
fn cksum(b: &[u8]) -> i128 {
    checksum(b)
}

fn observe_state<T>(buf: &GuardBuf, top: Option<&T::Ptr>, out: &mut Vec<i128>)
where
    T: Node + ?Sized,
    T::Ptr: UnsizedTypePtr<UnsizedType = T>,
    T::Owned: Clone + PartialEq,
{
    let bytes = buf.bytes();
    out.push(bytes.len() as i128);
    out.push(cksum(&bytes));
    // value seen through the live pointers
    let live = top.map(|p| guarded(|| T::owned_from_ptr(p)));
    // value seen by a fresh parse of the raw bytes
    let fresh = guarded(|| T::owned(&bytes));
    let pick = match (&live, &fresh) {
        (Some(Ok(Ok(o))), _) => Some(o.clone()),
        (None, Ok(Ok(o))) => Some(o.clone()),
        _ => None,
    };
    // canonical: bytes == from_owned(value), exact length
    let canon = match &pick {
        Some(o) => {
            let size = T::byte_size(o);
            let mut b = vec![0u8; size];
            let mut sl: &mut [u8] = &mut b[..];
            let ok = T::from_owned(o.clone(), &mut sl).is_ok();
            (ok && b == bytes) as i128
        }
        None => -1,
    };
    out.push(canon);
    let agree = match (&live, &fresh) {
        (Some(Ok(Ok(a))), Ok(Ok(b))) => (a == b) as i128,
        (None, Ok(Ok(_))) => 1,
        _ => -1,
    };
    out.push(agree);
    match pick {
        Some(o) => T::to_val(&o, out),
        None => out.push(-7),
    }
}

fn ops<T>(c: &mut Cur) -> Vec<i128>
where
    T: Node + ?Sized,
    T::Ptr: UnsizedTypePtr<UnsizedType = T>,
    T::Owned: Clone + PartialEq,
{
    let flush = if c.next().unwrap() == 0 { Flush::Right } else { Flush::Left };
    let refuse = c.next().unwrap();
    let owned = T::from_val(c);
    let size = T::byte_size(&owned);
    let mut init = vec![0u8; size];
    {
        let mut sl: &mut [u8] = &mut init[..];
        T::from_owned(owned, &mut sl).expect("initial value serialises");
    }
    let buf = GuardBuf::new(&init, flush);
    let mut out = vec![];
    let nsteps = c.next().unwrap();
    let mut w = match ExclusiveWrapper::<T::Ptr, _>::new(&buf) as Result<ExclusiveWrapperTop<'_, T, GuardBuf>> {
        Ok(w) => Some(w),
        Err(e) => {
            tag_err(e, &mut out);
            return out;
        }
    };
    for step_index in 0..nsteps {
        buf.refuse_now.set(step_index == refuse);
        let len = c.next().unwrap() as usize;
        let opints = c.take(len).unwrap();
        let mut oc = Cur::new(opints);
        let mut ob: Vec<i128> = vec![];
        if opints.first() == Some(&90) {
            // release the exclusive borrow and take a fresh one (pointers are re-derived from the bytes)
            let old = w.take().unwrap();
            match guarded(move || drop(old)) {
                Ok(()) => {}
                Err(()) => {
                    out.extend([1, 2]);
                    out.push(-99);
                    return out;
                }
            }
            // a shared borrow in between observes the value too
            let sh = guarded(|| SharedWrapper::new::<T>(&buf).and_then(|s| T::owned_from_ptr(&*s)));
            match sh {
                Ok(Ok(_)) => ob.push(0),
                Ok(Err(e)) => tag_err(e, &mut ob),
                Err(()) => ob.push(2),
            }
            match ExclusiveWrapper::<T::Ptr, _>::new(&buf) as Result<ExclusiveWrapperTop<'_, T, GuardBuf>> {
                Ok(nw) => w = Some(nw),
                Err(e) => {
                    tag_err(e, &mut ob);
                    out.push(ob.len() as i128);
                    out.extend(ob);
                    return out;
                }
            }
            observe_state::<T>(&buf, w.as_ref().map(|x| &**x), &mut ob);
            out.push(ob.len() as i128);
            out.extend(ob);
            continue;
        }
        let mut extra = vec![];
        let r = {
            let ww = w.as_mut().unwrap();
            guarded(|| T::apply(ww, &mut oc, &mut extra))
        };
        match r {
            Ok(Ok(())) => {
                ob.push(0);
                ob.push(extra.len() as i128);
                ob.extend(extra);
            }
            Ok(Err(e)) => tag_err(e, &mut ob),
            Err(()) => {
                ob.push(2);
                out.push(ob.len() as i128);
                out.extend(ob);
                std::mem::forget(w);
                out.push(-98);
                out.push(buf.canaries_intact() as i128);
                return out;
            }
        }
        observe_state::<T>(&buf, w.as_ref().map(|x| &**x), &mut ob);
        out.push(ob.len() as i128);
        out.extend(ob);
    }
    // end of the exclusive borrow: the drop-time pointer check
    let old = w.take().unwrap();
    match guarded(move || drop(old)) {
        Ok(()) => out.push(0),
        Err(()) => out.push(2),
    }
    let mut fin = vec![];
    observe_state::<T>(&buf, None, &mut fin);
    out.extend(fin);
    out.push(buf.canaries_intact() as i128);
    out
}

// ------------------------------------------------------------------------------------------ parse
struct RawAccess {
    ptr: *const u8,
    len: usize,
}
struct RawRef(*const u8, usize);
impl std::ops::Deref for RawRef {
    type Target = [u8];
    fn deref(&self) -> &[u8] {
        unsafe { std::slice::from_raw_parts(self.0, self.1) }
    }
}
unsafe impl star_frame::unsize::wrapper::UnsizedTypeDataAccess for RawAccess {
    unsafe fn unsized_data_realloc(_t: &Self, _d: &mut *mut [u8], _n: usize) -> Result<()> {
        Err(star_frame::errors::Error::from(ProgramError::InvalidRealloc))
    }
    fn data_ref(this: &Self) -> Result<impl std::ops::Deref<Target = [u8]>> {
        Ok(RawRef(this.ptr, this.len))
    }
    fn data_mut(_this: &Self) -> Result<star_frame::unsize::wrapper::UnsizedDataMut<'_>> {
        Err(star_frame::errors::Error::from(ProgramError::AccountBorrowFailed))
    }
}

/// a data access whose `data_mut` works (exclusive views can be opened) and whose realloc refuses: the exclusive walk
/// of `parse` only reads through mutable accessors
struct RawAccessMut {
    ptr: *mut u8,
    len: usize,
}
struct NoGuard;
impl star_frame::unsize::wrapper::DataMutDrop for NoGuard {}
unsafe impl star_frame::unsize::wrapper::UnsizedTypeDataAccess for RawAccessMut {
    unsafe fn unsized_data_realloc(_t: &Self, _d: &mut *mut [u8], _n: usize) -> Result<()> {
        Err(star_frame::errors::Error::from(ProgramError::InvalidRealloc))
    }
    fn data_ref(this: &Self) -> Result<impl std::ops::Deref<Target = [u8]>> {
        Ok(RawRef(this.ptr, this.len))
    }
    fn data_mut(this: &Self) -> Result<star_frame::unsize::wrapper::UnsizedDataMut<'_>> {
        let ptr: *mut [u8] = std::ptr::slice_from_raw_parts_mut(this.ptr, this.len);
        let start = this.ptr as usize;
        Ok((ptr, start..start + this.len, Box::new(NoGuard)))
    }
}

/// a copy of `bytes` that ends exactly at an inaccessible page and starts right after canaries: (mapping, its accessible
/// length, the copy)
fn place(bytes: &[u8]) -> (*mut u8, usize, *mut u8) {
    let n = bytes.len();
    let pages = (n + PAGE - 1) / PAGE + 1;
    let map_len = (pages + 1) * PAGE;
    unsafe {
        let map = libc::mmap(std::ptr::null_mut(), map_len, libc::PROT_READ | libc::PROT_WRITE,
            libc::MAP_PRIVATE | libc::MAP_ANONYMOUS, -1, 0) as *mut u8;
        assert!(map as isize != -1);
        std::ptr::write_bytes(map, 0xC5, map_len);
        let guard = map.add(map_len - PAGE);
        let data = guard.sub(n);
        std::ptr::copy_nonoverlapping(bytes.as_ptr(), data, n);
        assert_eq!(libc::mprotect(guard.cast(), PAGE, libc::PROT_NONE), 0);
        (map, map_len - PAGE, data)
    }
}

/// observation: owned conversion | shared view (`0 extent scan..` / `1 code` / `2`) | -773 | free-form output of the
/// exclusive walk (pointer level, -772, wrapper level) | the fixed trailer
/// `-774 status (0 ok, 1 error, 2 panic) extent-or-code drop (0 ok, 2 panic, 9 not opened) bytes-unchanged canaries-intact
///  OUTSIDE-after-the-shared-view INVALID-after-the-shared-view OUTSIDE INVALID`
fn parse<T>(c: &mut Cur) -> Vec<i128>
where
    T: Node + ?Sized,
    T::Ptr: UnsizedTypePtr<UnsizedType = T>,
    T::Owned: Clone + PartialEq,
{
    let n = c.next().unwrap() as usize;
    let bytes: Vec<u8> = c.take(n).unwrap().iter().map(|x| *x as u8).collect();
    // the input ends exactly at an inaccessible page and starts right after canaries
    let (_map, _, data) = place(&bytes);
    let slice: &[u8] = unsafe { std::slice::from_raw_parts(data, n) };
    let mut out = vec![];
    // owned conversion
    match guarded(|| T::owned(slice)) {
        Ok(Ok(o)) => {
            out.push(0);
            T::to_val(&o, &mut out);
        }
        Ok(Err(e)) => tag_err(e, &mut out),
        Err(()) => out.push(2),
    }
    // shared view + every shared accessor (iteration, indexing) of the shape
    let acc = RawAccess { ptr: data, len: n };
    let r = guarded(|| -> Result<Vec<i128>> {
        let sw = SharedWrapper::new::<T>(&acc)?;
        let mut v = vec![T::data_len(&*sw) as i128];
        T::scan(&*sw, (data as usize, n), &mut v)?;
        Ok(v)
    });
    match r {
        Ok(Ok(v)) => {
            out.push(0);
            out.extend(v);
        }
        Ok(Err(e)) => tag_err(e, &mut out),
        Err(()) => out.push(2),
    }
    let shared_counts = (vh::nodes::OUTSIDE.with(|c| c.get()), vh::nodes::INVALID.with(|c| c.get()));
    // exclusive view over a COPY of the input placed the same way + every mutable accessor of the shape, first below the
    // top pointer (`&mut` methods), then through the child wrappers; each accessor runs under catch_unwind on its own
    let (map2, lim2, data2) = place(&bytes);
    let input2 = (data2 as usize, n);
    let acc2 = RawAccessMut { ptr: data2, len: n };
    out.push(-773);
    let mut xs: Vec<i128> = vec![];
    let opened = guarded(|| ExclusiveWrapper::<T::Ptr, _>::new(&acc2) as Result<ExclusiveWrapperTop<'_, T, RawAccessMut>>);
    let (status, info, dropped) = match opened {
        Ok(Ok(mut w)) => {
            let ext = guarded(|| {
                vh::nodes::inside::<T>(&*w, input2);
                T::data_len(&*w) as i128
            });
            let walked = guarded(|| {
                T::scan_mut(&mut *w, input2, &mut xs);
                xs.push(-772);
                T::scan_excl(&mut w, input2, &mut xs);
            });
            // the end of the exclusive borrow: the drop-time pointer check
            let dropped = match guarded(move || drop(w)) {
                Ok(()) => 0,
                Err(()) => 2,
            };
            match (ext, walked) {
                (Ok(e), Ok(())) => (0, e, dropped),
                _ => (2, -1, dropped),
            }
        }
        Ok(Err(e)) => (1, err_code(e) as i128, 9),
        Err(()) => (2, -1, 9),
    };
    out.extend(xs);
    let (unchanged, canaries) = unsafe {
        let front = std::slice::from_raw_parts(map2, data2 as usize - map2 as usize);
        debug_assert_eq!(front.len() + n, lim2);
        (std::slice::from_raw_parts(data2, n) == &bytes[..], front.iter().all(|b| *b == 0xC5))
    };
    out.extend([-774, status, info, dropped, unchanged as i128, canaries as i128, shared_counts.0, shared_counts.1]);
    out.push(vh::nodes::OUTSIDE.with(|c| c.get()));
    out.push(vh::nodes::INVALID.with(|c| c.get()));
    out
}

// ------------------------------------------------------------------------------------------ swap
/// Two buffers holding the same S5 value; accessors of the same type are swapped between the two exclusive
/// wrappers at a chosen point; reports where the framework notices (panics), if at all.
/// case: scenario, when (0 = swap first, 1 = swap after a resize in both), then (0 = drop, 1 = resize sibling d,
/// 2 = access the element again, 3 = resize the swapped container itself, 4 = remove the first element of the swapped
/// container, 5 = remove element 1 of b)
/// observation: [1, k] = panic at event k (1 = the `then` op, 2 = drop of wrapper 1) ; [0] = nothing noticed
fn swap(c: &mut Cur) -> Vec<i128> {
    use vh::shapes::{S5ExclusiveExt as _, S5Owned, S5};
    let scenario = c.next().unwrap();
    let when = c.next().unwrap();
    let then = c.next().unwrap();
    let owned = || S5Owned {
        a: vec![1, 2, 3],
        b: vec![vec![4u8, 5], vec![6], vec![]],
        c: vec![vec![vec![7u8]], vec![]],
        d: vec![8, 9],
    };
    let mk = |o: S5Owned| {
        let size = <S5 as star_frame::unsize::FromOwned>::byte_size(&o);
        let mut b = vec![0u8; size];
        let mut sl: &mut [u8] = &mut b[..];
        <S5 as star_frame::unsize::FromOwned>::from_owned(o, &mut sl).unwrap();
        b
    };
    let b1 = GuardBuf::new(&mk(owned()), Flush::Right);
    let b2 = GuardBuf::new(&mk(owned()), Flush::Left);
    let mut w1: ExclusiveWrapperTop<'_, S5, GuardBuf> = ExclusiveWrapper::new(&b1).unwrap();
    let mut w2: ExclusiveWrapperTop<'_, S5, GuardBuf> = ExclusiveWrapper::new(&b2).unwrap();
    if when == 1 {
        w1.a().push(42).unwrap();
        w2.d().push(43).unwrap();
    }
    match scenario {
        0 => std::mem::swap(&mut w1.a, &mut w2.a),
        1 => std::mem::swap(&mut w1.b, &mut w2.b),
        2 => std::mem::swap(&mut w1.d, &mut w2.d),
        3 => {
            let e1 = w1.b.index_mut(1).unwrap();
            let e2 = w2.b.index_mut(1).unwrap();
            std::mem::swap(e1, e2);
        }
        4 => std::mem::swap(&mut w1.c, &mut w2.c),
        _ => {}
    }
    let mut out = vec![];
    let r = guarded(|| match then {
        1 => w1.d().push(7).map(|_| ()),
        2 => w1.b.index_mut(1).map(|_| ()),
        3 => match scenario {
            0 => w1.a().push(1),
            1 | 3 => w1.b().push([1u8, 1, 1]).map(|_| ()),
            2 => w1.d().push(1),
            _ => w1.c().clear(),
        },
        // 4: remove the first element of the swapped container; 5: remove element 1 of b whatever was swapped
        4 => match scenario {
            0 => w1.a().remove_range(0..1),
            1 | 3 => w1.b().remove_range(0..1),
            2 => w1.d().remove_range(0..1),
            _ => w1.c().remove_range(0..1),
        },
        5 => w1.b().remove_range(1..2),
        _ => Ok(()),
    });
    // the observation is "noticed no later than the end of the borrow" (the stage - at the operation or at the
    // drop - depends on whether the operation itself goes through the foreign pointer, which a one-buffer model
    // cannot mirror); VERIF_SWAP_STAGE=1 prints the stage as well
    let stage = std::env::var("VERIF_SWAP_STAGE").is_ok();
    if r.is_err() {
        out.push(1);
        if stage { out.push(1); }
        std::mem::forget(w1);
        std::mem::forget(w2);
        return out;
    }
    match guarded(move || drop(w1)) {
        Ok(()) => out.push(0),
        Err(()) => { out.push(1); if stage { out.push(2); } }
    }
    std::mem::forget(w2);
    out
}

fn main() {
    quiet_panics();
    let args: Vec<String> = std::env::args().collect();
    let mode = args.get(2).map(|s| s.as_str()).unwrap_or("family");
    if mode == "family" {
        for i in 0..vh::shapes::N_SHAPES {
            let mut d = vec![];
            macro_rules! m { ($t:ty) => { <$t as Node>::desc(&mut d) }; }
            vh::with_shape!(i, m);
            println!("{} {}", i, d.iter().map(|x| x.to_string()).collect::<Vec<_>>().join(" "));
        }
        return;
    }
    let cases = read_cases(&args[1]);
    if mode == "swap" {
        run_forked(&cases, |ints| swap(&mut Cur::new(ints)));
        return;
    }
    if mode == "ops" && cases.iter().any(|(_, c)| c.first() == Some(&100)) {
        // accessor-swap scenarios ride along with the operation histories (shape index 100)
        run_forked(&cases, |ints| {
            if ints.first() == Some(&100) { return swap(&mut Cur::new(&ints[1..])); }
            let mut c = Cur::new(ints);
            let shape = c.next().unwrap();
            let mut d = vec![];
            { macro_rules! m { ($t:ty) => { <$t as Node>::desc(&mut d) }; } vh::with_shape!(shape, m); }
            match c.take(d.len()) { Some(x) if x == &d[..] => {} _ => return vec![-5] }
            macro_rules! m2 { ($t:ty) => { ops::<$t>(&mut c) }; }
            vh::with_shape!(shape, m2)
        });
        return;
    }
    let f = |ints: &[i128]| -> Vec<i128> {
        let mut c = Cur::new(ints);
        let shape = c.next().unwrap();
        // the case repeats the shape's descriptor (the model reads it); it must be this build's descriptor
        let mut d = vec![];
        { macro_rules! m { ($t:ty) => { <$t as Node>::desc(&mut d) }; } vh::with_shape!(shape, m); }
        match c.take(d.len()) {
            Some(x) if x == &d[..] => {}
            _ => return vec![-5],
        }
        match mode {
            "enc" => { macro_rules! m { ($t:ty) => { enc::<$t>(&mut c) }; } vh::with_shape!(shape, m) }
            "ops" => { macro_rules! m { ($t:ty) => { ops::<$t>(&mut c) }; } vh::with_shape!(shape, m) }
            "parse" => { macro_rules! m { ($t:ty) => { parse::<$t>(&mut c) }; } vh::with_shape!(shape, m) }
            _ => panic!("mode"),
        }
    };
    run_forked(&cases, f);
}
