//! C18 harness: runs the real `star_frame_idl::verifier` on definition sets decoded from integer cases.
//!
//! usage: vh_c18 <casefile>          one observation line per case: `0` Ok, `1 <n>` Err with rule SFIDL<n>,
//!                                    `2` panic, `8` the entry points disagree, `9` an error that is not a verifier
//!                                    error, `-1` malformed case
//!        vh_c18 --dump-shipped      prints `<name> <ints...>`: the case encoding (compat mode) of the IDLs of the
//!                                    shipped programs (System, Token, Associated Token), for the mutant generator
//! The case grammar is documented in /verif/coq/Idl/Verifier.v (decode_case).
use star_frame_idl::{
    account::{IdlAccount, IdlAccountId},
    account_set::{IdlAccountSet, IdlAccountSetDef, IdlAccountSetId, IdlAccountSetStructField, IdlSingleAccountSet},
    instruction::{IdlInstruction, IdlInstructionDef},
    seeds::{IdlSeed, IdlSeeds},
    ty::{IdlEnumVariant, IdlStructField, IdlType, IdlTypeDef, IdlTypeId},
    verifier::{
        verify_idl_definitions, verify_idl_definitions_strict, verify_idl_definitions_with_mode, VerificationMode,
    },
    CrateMetadata, IdlDefinition, IdlGeneric, IdlMetadata, ItemInfo,
};
use std::collections::BTreeMap;
use vh::*;

type P<T> = Option<T>;

fn count(c: &mut Cur) -> P<usize> {
    let n = c.next()?;
    if (0..=4096).contains(&n) {
        Some(n as usize)
    } else {
        None
    }
}

fn many<T>(c: &mut Cur, mut f: impl FnMut(&mut Cur) -> P<T>) -> P<Vec<T>> {
    let n = count(c)?;
    let mut v = Vec::with_capacity(n.min(64));
    for _ in 0..n {
        v.push(f(c)?);
    }
    Some(v)
}

fn name(c: &mut Cur) -> P<String> {
    let cs = many(c, |c| {
        let x = c.next()?;
        if (0..55296).contains(&x) {
            char::from_u32(x as u32)
        } else {
            None
        }
    })?;
    Some(cs.into_iter().collect())
}

fn opt<T>(c: &mut Cur, f: impl FnOnce(&mut Cur) -> P<T>) -> P<Option<T>> {
    match c.next()? {
        0 => Some(None),
        1 => Some(Some(f(c)?)),
        _ => None,
    }
}

fn u64v(c: &mut Cur) -> P<usize> {
    let x = c.next()?;
    if x >= 0 && x <= u64::MAX as i128 {
        Some(x as u64 as usize)
    } else {
        None
    }
}

fn bx(c: &mut Cur) -> P<Box<IdlTypeDef>> {
    Some(Box::new(tydef(c)?))
}

fn type_id(c: &mut Cur) -> P<IdlTypeId> {
    let source = name(c)?;
    let namespace = opt(c, name)?;
    let provided_generics = many(c, tydef)?;
    Some(IdlTypeId { source, namespace, provided_generics })
}

const PRIMS: [IdlTypeDef; 16] = [
    IdlTypeDef::Bool,
    IdlTypeDef::U8,
    IdlTypeDef::I8,
    IdlTypeDef::U16,
    IdlTypeDef::I16,
    IdlTypeDef::U32,
    IdlTypeDef::I32,
    IdlTypeDef::F32,
    IdlTypeDef::U64,
    IdlTypeDef::I64,
    IdlTypeDef::F64,
    IdlTypeDef::U128,
    IdlTypeDef::I128,
    IdlTypeDef::String,
    IdlTypeDef::Pubkey,
    IdlTypeDef::RemainingBytes,
];

fn tydef(c: &mut Cur) -> P<IdlTypeDef> {
    Some(match c.next()? {
        0 => {
            let k = c.next()?;
            if !(0..=15).contains(&k) {
                return None;
            }
            PRIMS[k as usize].clone()
        }
        1 => IdlTypeDef::Generic(name(c)?),
        2 => IdlTypeDef::Defined(type_id(c)?),
        3 => IdlTypeDef::FixedPoint { ty: bx(c)?, frac: 0 },
        4 => IdlTypeDef::Option { ty: bx(c)?, fixed: false },
        5 => IdlTypeDef::List { len_ty: bx(c)?, item_ty: bx(c)? },
        6 => IdlTypeDef::UnsizedList { len_ty: bx(c)?, offset_ty: bx(c)?, item_ty: bx(c)? },
        7 => IdlTypeDef::Set { len_ty: bx(c)?, item_ty: bx(c)? },
        8 => IdlTypeDef::Map { len_ty: bx(c)?, key_ty: bx(c)?, value_ty: bx(c)? },
        9 => IdlTypeDef::Array(bx(c)?, 1),
        10 => IdlTypeDef::Struct(
            many(c, tydef)?
                .into_iter()
                .enumerate()
                .map(|(i, t)| IdlStructField { path: Some(format!("f{i}")), description: vec![], type_def: t })
                .collect(),
        ),
        11 => {
            let size = bx(c)?;
            let variants = many(c, |c| opt(c, tydef))?
                .into_iter()
                .enumerate()
                .map(|(i, t)| IdlEnumVariant {
                    name: format!("V{i}"),
                    discriminant: vec![i as u8],
                    description: vec![],
                    type_def: t,
                })
                .collect();
            IdlTypeDef::Enum { size, variants }
        }
        _ => return None,
    })
}

fn asdef(c: &mut Cur) -> P<IdlAccountSetDef> {
    Some(match c.next()? {
        0 => {
            let source = name(c)?;
            let provided_type_generics = many(c, tydef)?;
            let provided_account_generics = many(c, asdef)?;
            IdlAccountSetDef::Defined(IdlAccountSetId { source, provided_type_generics, provided_account_generics })
        }
        1 => {
            let program_accounts = many(c, |c| {
                let namespace = opt(c, name)?;
                let source = name(c)?;
                Some(IdlAccountId { namespace, source })
            })?;
            IdlAccountSetDef::Single(IdlSingleAccountSet { program_accounts, ..Default::default() })
        }
        2 => IdlAccountSetDef::Struct(
            many(c, asdef)?
                .into_iter()
                .enumerate()
                .map(|(i, a)| IdlAccountSetStructField {
                    path: Some(format!("f{i}")),
                    description: vec![],
                    account_set_def: a,
                })
                .collect(),
        ),
        3 => {
            let account_set = Box::new(asdef(c)?);
            let min = u64v(c)?;
            let max = opt(c, u64v)?;
            IdlAccountSetDef::Many { account_set, min, max }
        }
        4 => IdlAccountSetDef::Or(many(c, asdef)?),
        _ => return None,
    })
}

fn generics(c: &mut Cur) -> P<Vec<IdlGeneric>> {
    let n = count(c)?;
    Some(
        (0..n)
            .map(|i| IdlGeneric { name: format!("G{i}"), description: String::new(), generic_id: format!("G{i}") })
            .collect(),
    )
}

fn info(source: &str) -> ItemInfo {
    ItemInfo { name: source.to_string(), source: source.to_string(), description: vec![] }
}

/// `n (name X)*` with strictly ascending keys (the order a BTreeMap iterates in)
fn btree<T>(c: &mut Cur, mut f: impl FnMut(&mut Cur, &str) -> P<T>) -> P<BTreeMap<String, T>> {
    let items = many(c, |c| {
        let k = name(c)?;
        let v = f(c, &k)?;
        Some((k, v))
    })?;
    for w in items.windows(2) {
        if w[0].0 >= w[1].0 {
            return None;
        }
    }
    let n = items.len();
    let m: BTreeMap<String, T> = items.into_iter().collect();
    assert_eq!(m.len(), n);
    Some(m)
}

fn idl_type(c: &mut Cur, k: &str) -> P<IdlType> {
    let generics = generics(c)?;
    let type_def = tydef(c)?;
    Some(IdlType { info: info(k), generics, type_def })
}

fn definition(c: &mut Cur) -> P<IdlDefinition> {
    let nm = name(c)?;
    let types = btree(c, idl_type)?;
    let external_types = btree(c, idl_type)?;
    let account_sets = btree(c, |c, k| {
        let type_generics = generics(c)?;
        let account_generics = generics(c)?;
        let account_set_def = asdef(c)?;
        Some(IdlAccountSet { info: info(k), type_generics, account_generics, account_set_def })
    })?;
    let accounts = btree(c, |c, _| {
        let type_id = type_id(c)?;
        let seeds = opt(c, |c| {
            many(c, |c| match c.next()? {
                0 => {
                    let bytes = many(c, |c| {
                        let b = c.next()?;
                        if (0..256).contains(&b) {
                            Some(b as u8)
                        } else {
                            None
                        }
                    })?;
                    Some(IdlSeed::Const(bytes))
                }
                1 => Some(IdlSeed::Variable { name: "s".into(), description: vec![], ty: tydef(c)? }),
                _ => None,
            })
        })?;
        Some(IdlAccount { discriminant: vec![0], type_id, seeds: seeds.map(IdlSeeds) })
    })?;
    let instructions = btree(c, |c, _| {
        let type_id = type_id(c)?;
        let account_set = asdef(c)?;
        Some(IdlInstruction { discriminant: vec![0], definition: IdlInstructionDef { account_set, type_id } })
    })?;
    Some(IdlDefinition {
        metadata: IdlMetadata {
            crate_metadata: CrateMetadata { name: nm, ..Default::default() },
            ..Default::default()
        },
        instructions,
        account_sets,
        accounts,
        types,
        external_types,
        ..Default::default()
    })
}

fn decode(v: &[i128]) -> P<(VerificationMode, Vec<IdlDefinition>)> {
    let mut c = Cur::new(v);
    let mode = match c.next()? {
        0 => VerificationMode::Compatibility,
        1 => VerificationMode::StrictGraph,
        _ => return None,
    };
    let defs = many(&mut c, definition)?;
    if !c.done() {
        return None;
    }
    Some((mode, defs))
}

fn rule_of(msg: &str) -> Option<i128> {
    // "Verifier error [SFIDLnnn]: ..."
    let rest = msg.strip_prefix("Verifier error [SFIDL")?;
    let digits = rest.get(..3)?;
    if rest.get(3..5)? != "]:" {
        return None;
    }
    digits.parse::<i128>().ok()
}

fn observe(v: &[i128]) -> Vec<i128> {
    let Some((mode, defs)) = decode(v) else { return vec![-1] };
    let classify = |r: Result<star_frame_idl::Result<()>, ()>| -> Vec<i128> {
        match r {
            Err(()) => vec![2],
            Ok(Ok(())) => vec![0],
            Ok(Err(star_frame_idl::Error::Custom(msg))) => match rule_of(&msg) {
                Some(n) => vec![1, n],
                None => vec![9],
            },
            Ok(Err(_)) => vec![9],
        }
    };
    let a = classify(guarded(|| verify_idl_definitions_with_mode(defs.iter(), mode)));
    // the two convenience entry points must give the same verdict as `_with_mode`
    let b = match mode {
        VerificationMode::Compatibility => classify(guarded(|| verify_idl_definitions(defs.iter()))),
        VerificationMode::StrictGraph => classify(guarded(|| verify_idl_definitions_strict(defs.iter()))),
    };
    if a != b {
        return vec![8];
    }
    a
}

// ------------------------------------------------------------------------------------------------
// encoder (only for --dump-shipped): IdlDefinition -> case tokens
fn e_name(s: &str, o: &mut Vec<i128>) {
    o.push(s.chars().count() as i128);
    o.extend(s.chars().map(|c| c as u32 as i128));
}
fn e_ns(s: &Option<String>, o: &mut Vec<i128>) {
    match s {
        None => o.push(0),
        Some(s) => {
            o.push(1);
            e_name(s, o)
        }
    }
}
fn e_type_id(t: &IdlTypeId, o: &mut Vec<i128>) {
    e_name(&t.source, o);
    e_ns(&t.namespace, o);
    o.push(t.provided_generics.len() as i128);
    for g in &t.provided_generics {
        e_ty(g, o);
    }
}
fn e_ty(t: &IdlTypeDef, o: &mut Vec<i128>) {
    if let Some(k) = PRIMS.iter().position(|p| p == t) {
        o.extend([0, k as i128]);
        return;
    }
    match t {
        IdlTypeDef::Generic(g) => {
            o.push(1);
            e_name(g, o)
        }
        IdlTypeDef::Defined(id) => {
            o.push(2);
            e_type_id(id, o)
        }
        IdlTypeDef::FixedPoint { ty, .. } => {
            o.push(3);
            e_ty(ty, o)
        }
        IdlTypeDef::Option { ty, .. } => {
            o.push(4);
            e_ty(ty, o)
        }
        IdlTypeDef::List { len_ty, item_ty } => {
            o.push(5);
            e_ty(len_ty, o);
            e_ty(item_ty, o)
        }
        IdlTypeDef::UnsizedList { len_ty, offset_ty, item_ty } => {
            o.push(6);
            e_ty(len_ty, o);
            e_ty(offset_ty, o);
            e_ty(item_ty, o)
        }
        IdlTypeDef::Set { len_ty, item_ty } => {
            o.push(7);
            e_ty(len_ty, o);
            e_ty(item_ty, o)
        }
        IdlTypeDef::Map { len_ty, key_ty, value_ty } => {
            o.push(8);
            e_ty(len_ty, o);
            e_ty(key_ty, o);
            e_ty(value_ty, o)
        }
        IdlTypeDef::Array(inner, _) => {
            o.push(9);
            e_ty(inner, o)
        }
        IdlTypeDef::Struct(fs) => {
            o.extend([10, fs.len() as i128]);
            for f in fs {
                e_ty(&f.type_def, o);
            }
        }
        IdlTypeDef::Enum { size, variants } => {
            o.push(11);
            e_ty(size, o);
            o.push(variants.len() as i128);
            for v in variants {
                match &v.type_def {
                    None => o.push(0),
                    Some(t) => {
                        o.push(1);
                        e_ty(t, o)
                    }
                }
            }
        }
        _ => unreachable!("primitive handled above"),
    }
}
fn e_as(a: &IdlAccountSetDef, o: &mut Vec<i128>) {
    match a {
        IdlAccountSetDef::Defined(id) => {
            o.push(0);
            e_name(&id.source, o);
            o.push(id.provided_type_generics.len() as i128);
            for g in &id.provided_type_generics {
                e_ty(g, o);
            }
            o.push(id.provided_account_generics.len() as i128);
            for g in &id.provided_account_generics {
                e_as(g, o);
            }
        }
        IdlAccountSetDef::Single(s) => {
            o.extend([1, s.program_accounts.len() as i128]);
            for p in &s.program_accounts {
                e_ns(&p.namespace, o);
                e_name(&p.source, o);
            }
        }
        IdlAccountSetDef::Struct(fs) => {
            o.extend([2, fs.len() as i128]);
            for f in fs {
                e_as(&f.account_set_def, o);
            }
        }
        IdlAccountSetDef::Many { account_set, min, max } => {
            o.push(3);
            e_as(account_set, o);
            o.push(*min as i128);
            match max {
                None => o.push(0),
                Some(m) => o.extend([1, *m as i128]),
            }
        }
        IdlAccountSetDef::Or(bs) => {
            o.extend([4, bs.len() as i128]);
            for b in bs {
                e_as(b, o);
            }
        }
    }
}
fn e_def(d: &IdlDefinition, o: &mut Vec<i128>) {
    e_name(&d.metadata.crate_metadata.name, o);
    for m in [&d.types, &d.external_types] {
        o.push(m.len() as i128);
        for (k, t) in m {
            e_name(k, o);
            o.push(t.generics.len() as i128);
            e_ty(&t.type_def, o);
        }
    }
    o.push(d.account_sets.len() as i128);
    for (k, s) in &d.account_sets {
        e_name(k, o);
        o.extend([s.type_generics.len() as i128, s.account_generics.len() as i128]);
        e_as(&s.account_set_def, o);
    }
    o.push(d.accounts.len() as i128);
    for (k, a) in &d.accounts {
        e_name(k, o);
        e_type_id(&a.type_id, o);
        match &a.seeds {
            None => o.push(0),
            Some(ss) => {
                o.extend([1, ss.0.len() as i128]);
                for s in &ss.0 {
                    match s {
                        IdlSeed::Const(b) => {
                            o.extend([0, b.len() as i128]);
                            o.extend(b.iter().map(|x| *x as i128));
                        }
                        IdlSeed::Variable { ty, .. } => {
                            o.push(1);
                            e_ty(ty, o)
                        }
                    }
                }
            }
        }
    }
    o.push(d.instructions.len() as i128);
    for (k, i) in &d.instructions {
        e_name(k, o);
        e_type_id(&i.definition.type_id, o);
        e_as(&i.definition.account_set, o);
    }
}

fn dump_shipped() {
    use star_frame::idl::ProgramToIdl;
    let mut out = Out::new();
    let progs: Vec<(&str, star_frame_idl::Result<IdlDefinition>)> = vec![
        ("system", star_frame::program::system::System::program_to_idl()),
        ("token", star_frame_spl::token::Token::program_to_idl()),
        ("associated_token", star_frame_spl::associated_token::AssociatedToken::program_to_idl()),
    ];
    for (n, r) in progs {
        match r {
            Ok(d) => {
                let mut o = vec![0, 1];
                e_def(&d, &mut o);
                // the encoding must round-trip through the decoder to the same verdict
                assert_eq!(observe(&o), vec![0], "shipped IDL {n} must verify alone in compatibility mode");
                out.line(n, &o);
            }
            Err(_) => out.line(n, &[-1]),
        }
    }
    out.flush();
}

fn main() {
    quiet_panics();
    let arg = std::env::args().nth(1).expect("usage: vh_c18 <casefile> | --dump-shipped");
    if arg == "--dump-shipped" {
        dump_shipped();
        return;
    }
    let mut out = Out::new();
    for (id, v) in read_cases(&arg) {
        out.line(&id, &observe(&v));
    }
    out.flush();
}
