//! C08 harness: program-account admission for discriminant widths 0,1,2,3,4,8,12,16,24.
use star_frame::account_set::{CanCloseAccount as _, TryFromAccounts as _};
use star_frame::prelude::*;
use vh::*;

/// build / open the owned value of the harness account types (one `list: Vec<u8>` field)
pub trait ClientVal: UnsizedType {
    fn mk(v: Vec<u8>) -> Self::Owned;
    fn get(o: Self::Owned) -> Vec<u8>;
}

macro_rules! prog {
    ($m:ident, $p:ident, $a:ident, $dt:ty, $idb:expr, $disc:expr) => {
        pub mod $m {
        use star_frame::prelude::*;
        #[derive(StarFrameProgram)]
        #[program(instruction_set = (), id = Pubkey::new_from_array([$idb; 32]), account_discriminant = $dt, no_entrypoint, skip_idl)]
        pub struct $p;

        #[unsized_type(program_account, skip_idl, program = $p, discriminant = $disc)]
        pub struct $a {
            #[unsized_start]
            pub list: List<u8>,
        }
        impl super::ClientVal for $a {
            fn mk(v: Vec<u8>) -> <Self as UnsizedType>::Owned {
                type O = <$a as UnsizedType>::Owned;
                O { list: v }
            }
            fn get(o: <Self as UnsizedType>::Owned) -> Vec<u8> {
                o.list
            }
        }
        }
        pub use $m::{$p, $a};
    };
}
prog!(m0, P0, A0, (), 10, ());
prog!(m1, P1, A1, u8, 11, 0xA5u8);
prog!(m2, P2, A2, u16, 12, 0xBEEFu16);
prog!(m4, P4, A4, u32, 14, 0xDEADBEEFu32);
prog!(m8, P8, A8, [u8; 8], 18, [1, 2, 3, 4, 5, 6, 7, 8]);
prog!(m16, P16, A16, [u8; 16], 26, [16, 15, 14, 13, 12, 11, 10, 9, 8, 7, 6, 5, 4, 3, 2, 1]);
// widths the fast paths of validate_discriminant do not special-case (the generic arm): not a multiple of 8, and three words
prog!(m3, P3, A3, [u8; 3], 43, [0x31, 0x32, 0x33]);
prog!(m12, P12, A12, [u8; 12], 52, [12, 11, 10, 9, 8, 7, 6, 5, 4, 3, 2, 1]);
prog!(m24, P24, A24, [u8; 24], 64, [1, 2, 3, 4, 5, 6, 7, 8, 9, 10, 11, 12, 13, 14, 15, 16, 17, 18, 19, 20, 21, 22, 23, 24]);
// account types whose discriminant IS the all-0xFF pattern written by close_account
prog!(m1f, P1F, A1F, u8, 31, 0xFFu8);
prog!(m2f, P2F, A2F, u16, 32, 0xFFFFu16);
prog!(m8f, P8F, A8F, [u8; 8], 38, [255, 255, 255, 255, 255, 255, 255, 255]);
// a discriminant that BEGINS with 0xFF without being the closed marker (a closed account of this type must still be refused)
prog!(m8l, P8L, A8L, [u8; 8], 39, [255, 16, 32, 48, 64, 80, 96, 112]);

fn tag<T>(r: std::result::Result<Result<T>, ()>, out: &mut Vec<i128>) {
    match r {
        Ok(Ok(_)) => out.push(0),
        Ok(Err(e)) => {
            out.push(1);
            out.push(err_code(e) as i128)
        }
        Err(()) => out.push(2),
    }
}

fn run<T>(c: &[i128]) -> Vec<i128>
where
    T: ProgramAccount + UnsizedType + 'static,
{
    let w = c[0] as usize;
    let d: Vec<u8> = c[1..1 + w].iter().map(|x| *x as u8).collect();
    let pid: Vec<u8> = c[1 + w..33 + w].iter().map(|x| *x as u8).collect();
    let owner: Vec<u8> = c[33 + w..65 + w].iter().map(|x| *x as u8).collect();
    let (wr, cb, cbm, cl) = (c[65 + w] != 0, c[66 + w] != 0, c[67 + w] != 0, c[68 + w] != 0);
    let data: Vec<u8> = c[69 + w..].iter().map(|x| *x as u8).collect();
    // the case must talk about the constants compiled into the program
    if d != T::discriminant_bytes() || pid != <T::OwnerProgram as StarFrameProgram>::ID.to_bytes() {
        return vec![-1];
    }
    // the balance rides in the can-borrow code (state the admission decision must not depend on)
    let lamports: u64 = if c[66 + w] > 0 { match ((c[66 + w] - 1) / 2) % 4 { 0 => 5000, 1 => 0, 2 => u64::MAX, _ => 1 } } else { 5000 };
    let na = NativeAccount::new([9; 32], owner.clone().try_into().unwrap(), lamports, &data, false, wr, false);
    let info = na.info();
    let account: Account<T> = unsafe { std::mem::transmute_copy(&info) };
    if cl {
        let rna = NativeAccount::new([8; 32], [0; 32], 1, &[], false, true, false);
        let rinfo = rna.info();
        let mut ctx = Context::default();
        let recip = Mut::<AccountInfo>::try_from_account(&rinfo, &mut ctx).unwrap();
        account.close_account(&recip).unwrap();
    }
    // realise the borrow state
    let mut shared = vec![];
    let mut excl = None;
    if cb && !cbm {
        shared.push(info.try_borrow_data().unwrap());
    } else if !cb {
        if na.data_len() % 2 == 0 {
            excl = Some(info.try_borrow_mut_data().unwrap());
        } else {
            for _ in 0..7 {
                shared.push(info.try_borrow_data().unwrap());
            }
        }
    }
    let mut out = vec![];
    tag(guarded(|| T::validate_account_info(info)), &mut out);
    tag(guarded(|| account.data().map(|_| ())), &mut out);
    tag(guarded(|| account.data_mut().map(|_| ())), &mut out);
    drop(shared);
    drop(excl);
    out
}

/// C05, stage `client`: the client-side account helpers on the same account types.
/// case: w d(w) n value(n) len data(len)   observation: serialized length, bytes, then 1 (rejected) | 0 count items
fn run_client<T>(c: &[i128]) -> Vec<i128>
where
    T: ProgramAccount + UnsizedType + star_frame::unsize::FromOwned + ClientVal + 'static,
{
    use star_frame::client::{DeserializeAccount as _, SerializeAccount as _};
    let w = c[0] as usize;
    let d: Vec<u8> = c[1..1 + w].iter().map(|x| *x as u8).collect();
    if d != T::discriminant_bytes() {
        return vec![-1];
    }
    let n = c[1 + w] as usize;
    let value: Vec<u8> = c[2 + w..2 + w + n].iter().map(|x| *x as u8).collect();
    let len = c[2 + w + n] as usize;
    let data: Vec<u8> = c[3 + w + n..3 + w + n + len].iter().map(|x| *x as u8).collect();
    let mut out = vec![];
    match guarded(|| T::serialize_account(T::mk(value))) {
        Ok(Ok(bytes)) => {
            out.push(bytes.len() as i128);
            out.extend(bytes.iter().map(|b| *b as i128));
        }
        Ok(Err(_)) => return vec![-7],
        Err(()) => return vec![-9],
    }
    match guarded(|| T::deserialize_account(&data)) {
        Ok(Ok(v)) => {
            let v: Vec<u8> = T::get(v);
            out.push(0);
            out.push(v.len() as i128);
            out.extend(v.iter().map(|b| *b as i128));
        }
        Ok(Err(_)) => out.push(1),
        Err(()) => out.push(2),
    }
    out
}

fn main() {
    quiet_panics();
    let args: Vec<String> = std::env::args().collect();
    let cases = read_cases(&args[1]);
    let mut o = Out::new();
    if args.len() > 2 && args[2] == "client" {
        for (id, c) in &cases {
            let w = c[0] as usize;
            let all_ff = w > 0 && c[1..1 + w].iter().all(|b| *b == 255);
            let obs = match c[0] {
                1 if all_ff => run_client::<A1F>(c),
                2 if all_ff => run_client::<A2F>(c),
                8 if all_ff => run_client::<A8F>(c),
                8 if c[1] == 255 => run_client::<A8L>(c),
                0 => run_client::<A0>(c),
                1 => run_client::<A1>(c),
                2 => run_client::<A2>(c),
                3 => run_client::<A3>(c),
                4 => run_client::<A4>(c),
                8 => run_client::<A8>(c),
                12 => run_client::<A12>(c),
                16 => run_client::<A16>(c),
                24 => run_client::<A24>(c),
                _ => vec![-2],
            };
            o.line(id, &obs);
        }
        o.flush();
        return;
    }
    for (id, c) in &cases {
        let w = c[0] as usize;
        let all_ff = w > 0 && c.len() > w && c[1..1 + w].iter().all(|b| *b == 255);
        let obs = match c[0] {
            0 => run::<A0>(c),
            1 if all_ff => run::<A1F>(c),
            2 if all_ff => run::<A2F>(c),
            8 if all_ff => run::<A8F>(c),
            8 if c[1] == 255 => run::<A8L>(c),
            1 => run::<A1>(c),
            2 => run::<A2>(c),
            4 => run::<A4>(c),
            8 => run::<A8>(c),
            16 => run::<A16>(c),
            3 => run::<A3>(c),
            12 => run::<A12>(c),
            24 => run::<A24>(c),
            _ => vec![-2],
        };
        o.line(id, &obs);
    }
    o.flush();
}
