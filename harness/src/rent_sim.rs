//! The SYSTEM PROGRAM SIMULATOR behind the CPI hook (oracle; the same rules as coq/Rent/Ledger.v, and their
//! agreement is part of the correspondence check).  Included by vh_c12 / vh_c13 with #[path].
//!
//! Rules: runtime CPI privilege check (a meta may be signer only if the caller's AccountInfo is a signer or one of
//! the signer-seed lists derives the key under the calling program; writable only if writable for the caller), then
//! the system program's own create_account / assign / transfer / allocate failure rules, plus the runtime's
//! "only the owner may debit / reassign", "read-only accounts may not change" and the CPI growth limit.
#![allow(dead_code)]
use star_frame::pinocchio::account_info::AccountInfo;
use star_frame::pinocchio::program_error::ProgramError;
use star_frame::prelude::Pubkey;
use star_frame::verif_hooks::{set_cpi_handler, CpiRecord};
use std::cell::RefCell;
use std::rc::Rc;

pub const SIM_PRIVILEGE_ESCALATION: u32 = 0x5100;
pub const SIM_EXTERNAL_SPEND: u32 = 0x5101;
pub const SIM_MODIFIED_PROGRAM_ID: u32 = 0x5102;
pub const SIM_READONLY_MODIFIED: u32 = 0x5103;
pub const SIM_UNKNOWN_PROGRAM: u32 = 0x5104;
pub const SIM_MISSING_ACCOUNT: u32 = 0x5105;
pub const SYS_ALREADY_IN_USE: u32 = 0;
pub const SYS_RESULT_WITH_NEGATIVE_LAMPORTS: u32 = 1;
pub const SYS_INVALID_ACCOUNT_DATA_LENGTH: u32 = 3;
pub const MAX_PERMITTED_DATA_LENGTH: u64 = 10 * 1024 * 1024;
pub const MAX_PERMITTED_DATA_INCREASE: u64 = 10 * 1024;

#[derive(Clone, Debug)]
pub struct CpiObs {
    pub disc: u32,
    pub lamports: u64,
    pub space: u64,
    pub owner: [u8; 32],
    pub metas: Vec<([u8; 32], bool, bool)>,
    pub seeds: Vec<Vec<Vec<u8>>>,
}

fn raw(i: &AccountInfo) -> *mut u8 {
    unsafe { std::mem::transmute_copy::<AccountInfo, *mut u8>(i) }
}
fn key(i: &AccountInfo) -> [u8; 32] {
    let mut k = [0u8; 32];
    unsafe { std::ptr::copy_nonoverlapping(raw(i).add(8), k.as_mut_ptr(), 32) };
    k
}
fn owner(i: &AccountInfo) -> [u8; 32] {
    let mut k = [0u8; 32];
    unsafe { std::ptr::copy_nonoverlapping(raw(i).add(40), k.as_mut_ptr(), 32) };
    k
}
fn set_owner(i: &AccountInfo, o: &[u8; 32]) {
    unsafe { std::ptr::copy_nonoverlapping(o.as_ptr(), raw(i).add(40), 32) };
}
fn is_signer(i: &AccountInfo) -> bool {
    unsafe { *raw(i).add(1) != 0 }
}
fn is_writable(i: &AccountInfo) -> bool {
    unsafe { *raw(i).add(2) != 0 }
}
fn lamports(i: &AccountInfo) -> u64 {
    unsafe { raw(i).add(72).cast::<u64>().read() }
}
fn set_lamports(i: &AccountInfo, l: u64) {
    unsafe { raw(i).add(72).cast::<u64>().write(l) }
}
fn data_len(i: &AccountInfo) -> u64 {
    unsafe { raw(i).add(80).cast::<u64>().read() }
}
/// what the runtime does when a CPI callee allocated: the caller's serialized length and bytes change
fn set_zeroed_data(i: &AccountInfo, n: u64) {
    unsafe {
        std::ptr::write_bytes(raw(i).add(88), 0, n as usize);
        raw(i).add(80).cast::<u64>().write(n);
    }
}

fn custom(c: u32) -> ProgramError {
    ProgramError::Custom(c)
}

struct M<'a> {
    info: &'a AccountInfo,
    signer: bool,
    writable: bool,
}

fn transfer(f: &M, t: &M, lam: u64) -> Result<(), ProgramError> {
    if !f.signer {
        return Err(ProgramError::MissingRequiredSignature);
    }
    if data_len(f.info) != 0 {
        return Err(ProgramError::InvalidArgument);
    }
    if lam > lamports(f.info) {
        return Err(custom(SYS_RESULT_WITH_NEGATIVE_LAMPORTS));
    }
    if owner(f.info) != [0u8; 32] {
        return Err(custom(SIM_EXTERNAL_SPEND));
    }
    if !(f.writable && t.writable) {
        return Err(custom(SIM_READONLY_MODIFIED));
    }
    set_lamports(f.info, lamports(f.info) - lam);
    match lamports(t.info).checked_add(lam) {
        Some(n) => set_lamports(t.info, n),
        None => return Err(ProgramError::ArithmeticOverflow),
    }
    Ok(())
}

fn allocate(a: &M, space: u64) -> Result<(), ProgramError> {
    if !a.signer {
        return Err(ProgramError::MissingRequiredSignature);
    }
    if data_len(a.info) != 0 || owner(a.info) != [0u8; 32] {
        return Err(custom(SYS_ALREADY_IN_USE));
    }
    if space > MAX_PERMITTED_DATA_LENGTH {
        return Err(custom(SYS_INVALID_ACCOUNT_DATA_LENGTH));
    }
    if space > MAX_PERMITTED_DATA_INCREASE {
        return Err(ProgramError::InvalidRealloc);
    }
    if !a.writable {
        return Err(custom(SIM_READONLY_MODIFIED));
    }
    set_zeroed_data(a.info, space);
    Ok(())
}

fn assign(a: &M, new_owner: &[u8; 32]) -> Result<(), ProgramError> {
    if &owner(a.info) == new_owner {
        return Ok(());
    }
    if !a.signer {
        return Err(ProgramError::MissingRequiredSignature);
    }
    if owner(a.info) != [0u8; 32] {
        return Err(custom(SIM_MODIFIED_PROGRAM_ID));
    }
    if !a.writable {
        return Err(custom(SIM_READONLY_MODIFIED));
    }
    set_owner(a.info, new_owner);
    Ok(())
}

fn u64_at(d: &[u8], o: usize) -> Option<u64> {
    Some(u64::from_le_bytes(d.get(o..o + 8)?.try_into().ok()?))
}
fn key_at(d: &[u8], o: usize) -> Option<[u8; 32]> {
    d.get(o..o + 32)?.try_into().ok()
}

pub fn exec(rec: &CpiRecord<'_>, caller: &Pubkey, log: &RefCell<Vec<CpiObs>>) -> Result<(), ProgramError> {
    if rec.program_id != [0u8; 32] {
        return Err(custom(SIM_UNKNOWN_PROGRAM));
    }
    // runtime privilege check
    let mut ms = vec![];
    for (i, (k, s, w)) in rec.metas.iter().enumerate() {
        let Some(info) = rec.infos.get(i) else { return Err(custom(SIM_MISSING_ACCOUNT)) };
        if &key(info) != k {
            return Err(custom(SIM_MISSING_ACCOUNT));
        }
        let pda_signs = rec.signer_seeds.iter().any(|list| {
            let refs: Vec<&[u8]> = list.iter().map(|x| x.as_slice()).collect();
            matches!(Pubkey::create_program_address(&refs, caller), Ok(a) if &a.to_bytes() == k)
        });
        if *s && !(is_signer(info) || pda_signs) {
            return Err(custom(SIM_PRIVILEGE_ESCALATION));
        }
        if *w && !is_writable(info) {
            return Err(custom(SIM_PRIVILEGE_ESCALATION));
        }
        ms.push(M { info, signer: *s, writable: *w });
    }
    let d = rec.data;
    let disc = d.get(0..4).map(|b| u32::from_le_bytes(b.try_into().unwrap())).ok_or(ProgramError::InvalidInstructionData)?;
    let mut obs = CpiObs { disc, lamports: 0, space: 0, owner: [0; 32], metas: rec.metas.clone(), seeds: rec.signer_seeds.clone() };
    match (disc, ms.len()) {
        (0, 2) if d.len() == 52 => {
            let lam = u64_at(d, 4).unwrap();
            let space = u64_at(d, 12).unwrap();
            let own = key_at(d, 20).unwrap();
            obs.lamports = lam;
            obs.space = space;
            obs.owner = own;
            if lamports(ms[1].info) > 0 {
                return Err(custom(SYS_ALREADY_IN_USE));
            }
            allocate(&ms[1], space)?;
            assign(&ms[1], &own)?;
            transfer(&ms[0], &ms[1], lam)?;
        }
        (1, 1) if d.len() == 36 => {
            let own = key_at(d, 4).unwrap();
            obs.owner = own;
            assign(&ms[0], &own)?;
        }
        (2, 2) if d.len() == 12 => {
            let lam = u64_at(d, 4).unwrap();
            obs.lamports = lam;
            transfer(&ms[0], &ms[1], lam)?;
        }
        (8, 1) if d.len() == 12 => {
            let space = u64_at(d, 4).unwrap();
            obs.space = space;
            allocate(&ms[0], space)?;
        }
        _ => return Err(ProgramError::NotEnoughAccountKeys),
    }
    log.borrow_mut().push(obs);
    Ok(())
}

/// installs the simulator on this thread; returns the log of CPIs that succeeded
pub fn install(caller: Pubkey) -> Rc<RefCell<Vec<CpiObs>>> {
    let log = Rc::new(RefCell::new(Vec::new()));
    let l2 = log.clone();
    set_cpi_handler(Some(Box::new(move |rec: &CpiRecord<'_>| exec(rec, &caller, &l2))));
    log
}

/// canonical integers of a CPI log.  `kidx` maps a key to its index in the case (or 9), `ocode` an owner to its code
pub fn log_obs(log: &[CpiObs], kidx: &dyn Fn(&[u8; 32]) -> i128, out: &mut Vec<i128>) {
    out.push(log.len() as i128);
    for c in log {
        out.push(c.disc as i128);
        out.push(c.lamports as i128);
        out.push(c.space as i128);
        out.push(kidx(&c.owner));
        out.push(c.metas.len() as i128);
        for (k, s, w) in &c.metas {
            out.push(kidx(k));
            out.push(*s as i128);
            out.push(*w as i128);
        }
        out.push(c.seeds.len() as i128);
        for l in &c.seeds {
            out.push(l.len() as i128);
            for s in l {
                out.push(s.len() as i128);
                out.extend(s.iter().map(|b| *b as i128));
            }
        }
    }
}
