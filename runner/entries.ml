(* entry points of the extracted model, by name *)
let table : (string * (Model.z list -> Model.z list)) list = [
  ("c07", Model.run_c07);
  ("c08", Model.run_c08);
  ("c09", Model.run_c09);
]
