(* Hand-written driver for the extracted model (trusted: parses cases, prints observations).
   usage: runner <entry> <casefile>
   casefile lines:   <case-id> <int> <int> ...        (decimal, possibly negative / > 2^63)
   output lines:     <case-id> <hex-int> ...          (sign-prefixed hexadecimal)            *)
open Model

let rec pos_of_int n =
  if n = 1 then XH
  else if n land 1 = 1 then XI (pos_of_int (n lsr 1))
  else XO (pos_of_int (n lsr 1))

let z_of_small n =
  if n = 0 then Z0 else if n > 0 then Zpos (pos_of_int n) else Zneg (pos_of_int (-n))

let ten = z_of_small 10

let z_of_string s =
  let neg = String.length s > 0 && s.[0] = '-' in
  let start = if neg then 1 else 0 in
  let acc = ref Z0 in
  for i = start to String.length s - 1 do
    let d = Char.code s.[i] - 48 in
    if d < 0 || d > 9 then failwith ("bad int: " ^ s);
    acc := Z.add (Z.mul !acc ten) (z_of_small d)
  done;
  if neg then Z.opp !acc else !acc

let rec bits p = match p with XH -> [1] | XO q -> 0 :: bits q | XI q -> 1 :: bits q

let hex_of_pos p =
  let bs = Array.of_list (bits p) in
  let n = Array.length bs in
  let nd = (n + 3) / 4 in
  let b = Buffer.create (nd + 1) in
  for d = nd - 1 downto 0 do
    let v = ref 0 in
    for k = 3 downto 0 do
      let i = d * 4 + k in
      v := !v * 2 + (if i < n then bs.(i) else 0)
    done;
    Buffer.add_char b "0123456789abcdef".[!v]
  done;
  Buffer.contents b

let string_of_z z = match z with
  | Z0 -> "0"
  | Zpos p -> hex_of_pos p
  | Zneg p -> "-" ^ hex_of_pos p

let table = Entries.table

let () =
  let entry = Sys.argv.(1) in
  let f = try List.assoc entry table with Not_found -> failwith ("unknown entry " ^ entry) in
  let ic = open_in Sys.argv.(2) in
  let out = Buffer.create 65536 in
  (try
    while true do
      let line = input_line ic in
      let toks = List.filter (fun s -> s <> "") (String.split_on_char ' ' line) in
      match toks with
      | [] -> ()
      | id :: ints ->
        let zs = List.map z_of_string ints in
        let res = f zs in
        Buffer.add_string out id;
        List.iter (fun z -> Buffer.add_char out ' '; Buffer.add_string out (string_of_z z)) res;
        Buffer.add_char out '\n';
        if Buffer.length out > 60000 then (print_string (Buffer.contents out); Buffer.clear out)
    done
  with End_of_file -> ());
  print_string (Buffer.contents out)
