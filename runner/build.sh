#!/bin/sh
# usage: build.sh <group>  -- builds runner/bin/runner_<group> from coq/model_<group>.ml(i) + driver.ml
# the entry table (name -> extracted function) is derived from the run_* names in the Extraction command
set -e
g="$1"
cd "$(dirname "$0")"
mkdir -p build/$g bin
cp ../coq/model_$g.ml build/$g/model.ml
cp ../coq/model_$g.mli build/$g/model.mli
cp driver.ml build/$g/driver.ml
{
  echo "let table : (string * (Model.z list -> Model.z list)) list = ["
  grep '^Extraction "' ../coq/Extraction/Extract_$g.v | grep -o 'run_[A-Za-z0-9_]*' | sort -u | while read f; do
    echo "  (\"${f#run_}\", Model.$f);"
  done
  echo "]"
} > build/$g/entries.ml
cd build/$g
ocamlfind ocamlopt -O3 -w -a model.mli model.ml entries.ml driver.ml -o ../../bin/runner_$g 2>/dev/null || \
ocamlfind ocamlopt -w -a model.mli model.ml entries.ml driver.ml -o ../../bin/runner_$g
