#!/bin/sh
# builds runner/runner from the extracted coq/model.ml(i) + driver
set -e
cd "$(dirname "$0")"
cp ../coq/model.ml ../coq/model.mli .
ocamlfind ocamlopt -O3 -w -a model.mli model.ml entries.ml driver.ml -o runner 2>/dev/null || \
ocamlfind ocamlopt -w -a model.mli model.ml entries.ml driver.ml -o runner
