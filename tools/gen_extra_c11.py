"""C11: constants and syntactic facts of the dispatch / lifecycle code, regenerated from the Rust sources.

Emits (into coq/Gen/Gen_c11.v)
  C11_SIGHASH_NAMESPACE : list Z   bytes of `SIGHASH_GLOBAL_NAMESPACE` (star_frame_proc/src/hash.rs)
  C11_SIGHASH_SEP : Z              the separator `sighash!` joins its arguments with
  C11_SIGHASH_LEN : Z              how many digest bytes `hash_str` keeps
  C11_DEFAULT_DISC_WIDTH : Z       N of the default `[u8; N]` discriminant type (instruction_set.rs)
  C11_SFE_SHIFT : Z                the shift of the #[star_frame_error] offset (star_frame_error.rs)
  C11_ENUM_DISC_START, C11_ENUM_DISC_STEP : Z   util::enum_discriminants
  C11_PHASE_ORDER : list Z         the five calls of `process_from_raw` (instruction/mod.rs) in SOURCE order,
                                   0 deserialize 1 decode_accounts 2 validate_accounts 3 process 4 cleanup_accounts
The model keeps its own literals; `source_ties` in coq/Dispatch/LifecycleProofs.v states that they equal these
definitions, so a change of the source breaks a proof obligation of C11 (and the correspondence then looks for a
failing input).  Every pattern that no longer matches raises.
"""
import os
import re

REPO = os.environ.get("VERIF_REPO", "/repo")


def _read(rel):
    return open(os.path.join(REPO, rel), encoding="utf-8").read()


def _need(cond, msg):
    if not cond:
        raise Exception(msg)


def generate(lines):
    h = _read("star_frame_proc/src/hash.rs")
    m = re.search(r'pub const SIGHASH_GLOBAL_NAMESPACE: &str = "([^"]*)";', h)
    _need(m, "hash.rs: SIGHASH_GLOBAL_NAMESPACE not found")
    ns = m.group(1)
    m = re.search(r'args\.iter\(\)\.map\(\|s\| s\.value\(\)\)\.join\("([^"]*)"\)', h)
    _need(m and len(m.group(1)) == 1, "hash.rs: sighash_impl no longer joins its arguments with a one-character separator")
    sep = m.group(1)
    m = re.search(r"pub fn hash_str\(s: &str\) -> \[u8; (\d+)\] \{.*?finalize\(\)\.as_slice\(\)\[0\.\.(\d+)\]", h, re.S)
    _need(m and m.group(1) == m.group(2), "hash.rs: hash_str no longer keeps a fixed prefix of the sha256 digest")
    keep = int(m.group(1))
    _need("Sha256::default()" in h and "hasher.update(s.as_bytes())" in h, "hash.rs: hash_str is no longer plain sha256 of the string")

    s = _read("star_frame_proc/src/instruction_set.rs")
    m = re.search(r"parse_quote!\(\[u8; (\d+)\]\)", s)
    _need(m, "instruction_set.rs: default discriminant type [u8; N] not found")
    width = int(m.group(1))
    _need("v.ident.to_string().to_snake_case()" in s and "sighash!(#SIGHASH_GLOBAL_NAMESPACE, #method_name)" in s,
          "instruction_set.rs: the default discriminant is no longer sighash!(global namespace, snake-cased variant name)")
    _need("enum_discriminants(item.variants.iter())" in s, "instruction_set.rs: use_repr no longer takes enum_discriminants")
    _need(re.search(r"Advance::try_advance\(&mut instruction_data, ::core::mem::size_of::<#discriminant_type>\(\)\)", s),
          "instruction_set.rs: the discriminant is no longer read with try_advance(size_of::<Discriminant>())")
    _need("#bytemuck::try_from_bytes(discriminant_bytes)?" in s, "instruction_set.rs: try_from_bytes on the discriminant bytes not found")
    _need(re.search(r"x => #prelude::bail!\(#prelude::ProgramError::InvalidInstructionData", s),
          "instruction_set.rs: the fallback arm no longer bails with InvalidInstructionData")
    _need(re.search(r"<#variant_tys as #instruction>::process_from_raw\(program_id, accounts, instruction_data\)", s),
          "instruction_set.rs: the matching arm no longer calls process_from_raw with the remaining data")
    _need("#[deny(unreachable_patterns)]" in s, "instruction_set.rs: duplicate discriminants are no longer denied")

    e = _read("star_frame_proc/src/star_frame_error.rs")
    m = re.search(r"quote!\(\(\(#offset as u32\) << (\d+)\)\)", e)
    _need(m, "star_frame_error.rs: `((offset as u32) << N)` not found")
    shift = int(m.group(1))
    _need("parse_quote!((#offset + #disc))" in e, "star_frame_error.rs: variant code is no longer offset + discriminant")
    _need("*self as u32" in e, "star_frame_error.rs: code() is no longer the enum value")

    er = _read("star_frame/src/errors.rs")
    _need(re.search(r"ErrorKind::ProgramError\(program_error\) => \*program_error,\s*ErrorKind::Custom\(custom\) => ProgramError::Custom\(custom\.code\(\)\)", er),
          "errors.rs: From<Error> for ProgramError changed")

    u = _read("star_frame_proc/src/util/mod.rs")
    m = re.search(r"pub fn enum_discriminants.*?let mut next_discriminant: Expr = parse_quote!\((\d+)\);.*?"
                  r"next_discriminant = parse_quote! \{ #discriminant \+ (\d+) \};", u, re.S)
    _need(m, "util/mod.rs: enum_discriminants changed")
    start, step = int(m.group(1)), int(m.group(2))

    i = _read("star_frame/src/instruction/mod.rs")
    m = re.search(r"impl<T> Instruction for T\s+where\s+T: StarFrameInstruction,\s*\{(.*?)\n\}\n", i, re.S)
    _need(m, "instruction/mod.rs: `impl<T> Instruction for T` not found")
    body = m.group(1)
    calls = [
        (0, r"<T as BorshDeserialize>::deserialize\(&mut data\)\s*\.ctx\(\"[^\"]*\"\)\?;"),
        (1, r"Accounts::decode_accounts\(\s*&mut accounts,\s*decode,\s*&mut ctx,\s*\)\s*\.ctx\(\"[^\"]*\"\)\?;"),
        (2, r"\.validate_accounts\(validate, &mut ctx\)\s*\.ctx\(\"[^\"]*\"\)\?;"),
        (3, r"Self::process\(&mut account_set, run, &mut ctx\)\.ctx\(\"[^\"]*\"\)\?;"),
        (4, r"\.cleanup_accounts\(cleanup, &mut ctx\)\s*\.ctx\(\"[^\"]*\"\)\?;"),
    ]
    pos = []
    for tag, pat in calls:
        ms = list(re.finditer(pat, body))
        _need(len(ms) == 1, "instruction/mod.rs: phase %d of process_from_raw (pattern %s) found %d times; "
                            "each phase must occur once and propagate its error with `?`" % (tag, pat, len(ms)))
        pos.append((ms[0].start(), tag))
    order = [t for _, t in sorted(pos)]

    p = _read("star_frame/src/program/mod.rs")
    _need(re.search(r"Self::InstructionSet::dispatch\(program_id, accounts, instruction_data\)\s*\.map_err\(Self::handle_error\)", p),
          "program/mod.rs: entrypoint no longer is dispatch(..).map_err(handle_error)")
    _need(re.search(r"fn handle_error\(error: Error\) -> ProgramError \{\s*error\.log\(\);\s*error\.into\(\)\s*\}", p),
          "program/mod.rs: default handle_error changed")

    lines.append("Definition C11_SIGHASH_NAMESPACE : list Z := [%s]. (* %s *)" % ("; ".join(str(b) for b in ns.encode()), ns))
    lines.append("Definition C11_SIGHASH_SEP : Z := %d." % ord(sep))
    lines.append("Definition C11_SIGHASH_LEN : Z := %d." % keep)
    lines.append("Definition C11_DEFAULT_DISC_WIDTH : Z := %d." % width)
    lines.append("Definition C11_SFE_SHIFT : Z := %d." % shift)
    lines.append("Definition C11_ENUM_DISC_START : Z := %d." % start)
    lines.append("Definition C11_ENUM_DISC_STEP : Z := %d." % step)
    lines.append("Definition C11_PHASE_ORDER : list Z := [%s]." % "; ".join(str(t) for t in order))
    lines.append("")
