#!/bin/bash
# usage: tools/seeded.sh <WORKTREE_ID> <seed-name> <PROP> [extra props...]
# Confirms a seeded change produced by an independent sub-agent (worktree /tmp/mut/<ID>, deliverables in out/):
#   - demo fails with the change, passes without it; the repository's own suite passes with the change;
# keeps it under /verif/seeded/<seed-name>/ and runs the registered checks against /repo with the change applied
# (git -C /repo apply; undone straight afterwards).
set -u
ID=$1; NAME=$2; shift 2; PROPS="$@"
WT=/tmp/mut/$ID; OUT=$WT/out; DST=/verif/seeded/$NAME
mkdir -p $DST; cp $OUT/patch.diff $DST/patch.diff; rm -rf $DST/demo; cp -r $OUT/demo $DST/demo; cp $OUT/meta.json $DST/agent_meta.json
LOG=$DST/verify.log; : > $LOG
export CARGO_NET_OFFLINE=true CARGO_TARGET_DIR=$WT/target
cd $WT
DEMO=$(ls $OUT/demo/*.rs | head -1); DEMONAME=$(basename $DEMO .rs)
# locate the crate the demo belongs to from the README (default star_frame)
PKG=$(grep -ho "\-p [a-z_]*" $OUT/demo/README* 2>/dev/null | head -1 | cut -d' ' -f2); PKG=${PKG:-star_frame}
FEAT=$(grep -ho "\-\-features [a-z_,]*" $OUT/demo/README* 2>/dev/null | head -1); 
# a demo may need the framework's own verification hooks (cfg flag) - only the demo runs get it, the suite runs with the guard off
DEMOFLAGS=""; if grep -q "cfg star_frame_verif" $OUT/demo/README* 2>/dev/null; then DEMOFLAGS="--cfg star_frame_verif"; fi
# the crate's directory: <worktree>/<package>, or wherever the manifest of that package lives (example programs)
PKGDIR=$PKG; if [ ! -f $WT/$PKG/Cargo.toml ]; then M=$(grep -l "^name = \"$PKG\"" $(find $WT -maxdepth 3 -name Cargo.toml -not -path "*/target/*") 2>/dev/null | head -1); [ -n "$M" ] && PKGDIR=$(dirname ${M#$WT/}); fi
mkdir -p $WT/$PKGDIR/tests; cp $DEMO $WT/$PKGDIR/tests/$DEMONAME.rs
echo "== demo WITH the change" >> $LOG
git -C $WT diff --stat >> $LOG
RUSTFLAGS="$DEMOFLAGS" cargo test -p $PKG $FEAT --test $DEMONAME --offline >> $LOG 2>&1; WITH=$?
echo "== demo WITHOUT the change" >> $LOG
# (git stash is shared by all worktrees of a repository: reverse-apply the patch instead)
git -C $WT diff > $DST/.wt.diff; git -C $WT apply -R $DST/.wt.diff; RUSTFLAGS="$DEMOFLAGS" cargo test -p $PKG $FEAT --test $DEMONAME --offline >> $LOG 2>&1; WITHOUT=$?; git -C $WT apply $DST/.wt.diff
if ! diff -q <(git -C $WT diff) $OUT/patch.diff > /dev/null; then echo "NOTE: the worktree diff differs textually from out/patch.diff (kept: the worktree's)" >> $LOG; git -C $WT diff > $DST/patch.diff; fi
rm -f $DST/.wt.diff
rm -f $WT/$PKGDIR/tests/$DEMONAME.rs
echo "== repository suite WITH the change" >> $LOG
cargo test --workspace --no-fail-fast --offline 2>&1 | grep -E "^test result|FAILED|failed" | sort | uniq -c > $DST/suite.log; cat $DST/suite.log >> $LOG
SUITE_FAILS=$(grep -c "FAILED\|[1-9][0-9]* failed" $DST/suite.log); rm -f $DST/suite.log
echo "demo_with_change_exit=$WITH demo_without_change_exit=$WITHOUT suite_fail_lines=$SUITE_FAILS" | tee -a $LOG
# run the checks against /repo with the change applied (or, with EVAL_ROOT set, against the clone pair
# $EVAL_ROOT/verif + $EVAL_ROOT/repo so that checks running in /verif itself are not disturbed)
VROOT=/verif; RROOT=/repo
if [ -n "${EVAL_ROOT:-}" ]; then VROOT=$EVAL_ROOT/verif; RROOT=$EVAL_ROOT/repo; export VERIF_REPO=$RROOT; fi
cd $VROOT
unset CARGO_TARGET_DIR RUSTFLAGS
# the evidence files describe the unchanged tree: keep them out of the mutant runs
EVBAK=$(mktemp -d /tmp/evbak.XXXXXX); cp -r $VROOT/evidence/. $EVBAK/
git -C $RROOT apply $DST/patch.diff || { echo "patch does not apply to $RROOT" | tee -a $LOG; exit 3; }
RES=""
for P in $PROPS; do
  OUTP=$(bin/check $P 2>&1 | tail -4); echo "== bin/check $P" >> $LOG; echo "$OUTP" >> $LOG
  if echo "$OUTP" | grep -q "^VIOLATION"; then RES="$RES $P:VIOLATION"; V=$(echo "$OUTP" | grep "^VIOLATION" | head -1); RP=$(echo "$V" | sed 's/.*replay=\([^ ]*\).*/\1/'); cp $VROOT/$RP $DST/replay_$P.json 2>/dev/null; else RES="$RES $P:missed"; fi
done
git -C $RROOT checkout -- . ; git -C $RROOT status --short | head -3
cp -r $EVBAK/. $VROOT/evidence/; rm -rf $EVBAK
echo "checks:$RES" | tee -a $LOG
