"""Extra generator for C20: /repo/star_frame_cli/src/new_project.rs + template/* -> coq/Gen/Gen_c20.v

Everything the Coq model of `sf new` takes from the source as a table is extracted here on every run:
the keyword list of `is_rust_keyword`, the placeholder chain of `render_template` (in source order) with the
`TemplateValues` field each placeholder is replaced by, the template texts (bytes), the file table of
`write_project_files`, the directory table of `create_project_directories`, the keypair path pieces, the
staging-directory name format and retry bound.  The *shape* of the hand-modelled code (validator loop,
TemplateValues::new, scaffold_project control flow) is pinned by regular expressions as well: when one of them no
longer matches this generator raises and the check reports a broken tie.
"""
import os
import re

REPO = os.environ.get("VERIF_REPO", "/repo")


def _read(p):
    with open(p, "rb") as f:
        return f.read()


def _must(m, what):
    if not m:
        raise Exception("pattern no longer matches: " + what)
    return m


def zlist(bs):
    return "[" + "; ".join(str(b) for b in bs) + "]"


def ztext(s):
    return zlist(s.encode("utf-8"))


def comment_safe(s):
    return s.replace("(*", "( *").replace("*)", "* )")


def fn_body(src, name):
    """text of `fn name(...) ... { body }` by brace matching"""
    m = _must(re.search(r"\bfn %s\b[^{]*\{" % re.escape(name), src), "fn " + name)
    i = m.end()
    depth = 1
    j = i
    in_str = False
    while j < len(src) and depth:
        c = src[j]
        if in_str:
            if c == "\\":
                j += 1
            elif c == '"':
                in_str = False
        else:
            if c == '"':
                in_str = True
            elif c == "'" and j + 2 < len(src) and src[j + 2] == "'":
                j += 2  # char literal such as '{'
            elif c == "{":
                depth += 1
            elif c == "}":
                depth -= 1
        j += 1
    if depth:
        raise Exception("unbalanced braces in fn " + name)
    return src[i:j - 1]


FIELD_EXPR = {
    # field -> (regex of the defining expression in TemplateValues::new, name of the model function)
    "name_lowercase": (r"name_lowercase:\s*project_name\.to_owned\(\)", "V_LOWER"),
    "name_lowercase_underscore": (r"name_lowercase_underscore:\s*project_name\.replace\('-',\s*\"_\"\)", "V_UNDER"),
    "name_uppercase": (r"name_uppercase:\s*project_name\.to_ascii_uppercase\(\)", "V_UPPER"),
    "name_pascalcase": (r"name_pascalcase:\s*project_name\.to_case\(Case::Pascal\)", "V_PASCAL"),
    "pubkey": (r"\bpubkey,", "V_PUBKEY"),
}
FIELD_INDEX = {"name_lowercase": 0, "name_lowercase_underscore": 1, "name_uppercase": 2, "name_pascalcase": 3,
               "pubkey": 4}


_SOFT = None  # when a list: shape pins that fail are collected here instead of raising


def _pin(m, what):
    """a pin on the SHAPE of hand-modelled code (not needed to build the tables)"""
    if not m:
        if _SOFT is None:
            raise Exception("pattern no longer matches: " + what)
        _SOFT.append("pattern no longer matches: " + what)
    return m


def extract(strict=True):
    """returns a dict with everything; used by generate() (strict) and by lib/props/c20.py (strict=False: the tables are
    still extracted when a shape pin fails, so that the check can go on and search for a concrete failing input;
    the failed pins are returned under "errors")"""
    global _SOFT
    _SOFT = None if strict else []
    try:
        out = _extract()
        out["errors"] = list(_SOFT or [])
        return out
    finally:
        _SOFT = None


def _extract():
    base = os.path.join(REPO, "star_frame_cli", "src")
    src = _read(os.path.join(base, "new_project.rs")).decode("utf-8")
    main = _read(os.path.join(base, "main.rs")).decode("utf-8")
    out = {}

    # --- keyword list -------------------------------------------------------------------------
    kb = fn_body(src, "is_rust_keyword")
    _must(re.search(r"matches!\(\s*value\s*,", kb), "is_rust_keyword: matches!(value, ...)")
    kws = re.findall(r'"([^"\\]*)"', kb)
    rest = re.sub(r'"[^"\\]*"', "", kb)
    rest = re.sub(r"matches!\(\s*value\s*,", "", rest)
    if re.sub(r"[\s|)]", "", rest):
        raise Exception("is_rust_keyword is no longer a plain matches! of string literals: %r" % rest.strip()[:80])
    if len(kws) < 30:
        raise Exception("is_rust_keyword: only %d literals found" % len(kws))
    out["keywords"] = kws

    # --- validator shape ----------------------------------------------------------------------
    vb = fn_body(src, "validate_program_name")
    # the flag "the previous character was a separator" is recognised by its role, not by its name (a renamed local is
    # the same code)
    fm = re.search(r"let mut (\w+) = false;", vb)
    flag = re.escape(fm.group(1)) if fm else "previous_separator"
    for pat, what in [
        (r"if name\.is_empty\(\)", "empty check"),
        (r"!first_char\.is_ascii_lowercase\(\)", "first char lowercase check"),
        (r"let mut " + flag + r" = false;", "previous_separator init"),
        (r"'a'\.\.='z' \| '0'\.\.='9' => " + flag + r" = false", "alnum arm"),
        (r"'-' \| '_' => \{\s*if " + flag + r" \{", "separator arm"),
        (flag + r" = true;", "separator arm sets flag"),
        (r"if " + flag + r" \{\s*return Err\(invalid_name\(name, \"cannot end with", "trailing separator check"),
        (r"let module_name = name\.replace\('-', \"_\"\);\s*if is_rust_keyword\(&module_name\)", "keyword check"),
        (r"Ok\(name\.to_owned\(\)\)", "returns the name"),
    ]:
        _pin(re.search(pat, vb), "validate_program_name: " + what)
    reasons = re.findall(r'invalid_name\(\s*name,\s*"([^"]*)"', vb)
    out["reasons"] = reasons
    expected = ["name cannot be empty", "name cannot be empty", "must start with a lowercase ASCII letter",
                "cannot contain consecutive '-' or '_' separators",
                "can only include lowercase letters, digits, '-' or '_'", "cannot end with '-' or '_'",
                "cannot be a Rust keyword once '-' is normalized to '_'"]
    _pin(reasons == expected, "validate_program_name: rejection reasons changed: %r" % (reasons,))
    npb = fn_body(src, "new_project_in")
    _pin(re.search(r"validate_program_name\(args\.name\.trim\(\)\)\?", npb), "new_project_in: trim + validate")
    _pin(re.search(r"let destination = output_dir\.join\(&project_name\);\s*scaffold_project\(&destination, &project_name\)\?",
                    npb), "new_project_in: destination + scaffold_project")
    _pin(re.search(r"new_project_in\(Path::new\(\"\.\"\), args\)", src), "new_project: output dir '.'")
    _pin(re.search(r"CliCommand::New\(args\) => new_project\(args\)", main), "main.rs dispatch of `new`")

    # --- render_template chain ----------------------------------------------------------------
    rb = fn_body(src, "render_template")
    chain = re.findall(r'\.replace\(\s*"(\{[a-z_]+\})",\s*&values\.([a-z_]+),?\s*\)', rb)
    squeezed = re.sub(r"\s+", "", rb)
    rebuilt = "template" + "".join('.replace("%s",&values.%s,)' % c for c in chain)
    if re.sub(r",\)", ")", squeezed) != re.sub(r",\)", ")", rebuilt) or not chain:
        raise Exception("render_template is no longer a chain of .replace(\"{..}\", &values.field)")
    tv = _must(re.search(r"impl TemplateValues \{(.*?)\n\}", src, re.S), "impl TemplateValues").group(1)
    for pat, field in chain:
        if field not in FIELD_EXPR:
            raise Exception("render_template uses an unknown TemplateValues field " + field)
        _pin(re.search(FIELD_EXPR[field][0], tv), "TemplateValues::new: definition of " + field)
    out["chain"] = chain

    # --- templates and file table -------------------------------------------------------------
    wb = fn_body(src, "write_project_files")
    consts = dict(re.findall(r'const ([A-Z_]+): &str = include_str!\("([^"]+)"\);', wb))
    files = re.findall(r'\(([A-Z_]+),\s*base\.join\("([^"]+)"\)\)', wb)
    if not files or len(files) != len(consts):
        raise Exception("write_project_files: file table no longer matches (%d consts, %d rows)" % (len(consts), len(files)))
    _pin(re.search(r"for \(template, path\) in files \{\s*write_template_file\(template, &path, values\)\?;", wb),
          "write_project_files loop")
    _pin(re.search(r"fs::write\(path, render_template\(template, values\)\)", fn_body(src, "write_template_file")),
          "write_template_file = fs::write(render_template)")
    rows = []
    for const, rel in files:
        if const not in consts:
            raise Exception("write_project_files: unknown template constant " + const)
        data = _read(os.path.join(base, consts[const]))
        rows.append((const, rel, consts[const], data))
    out["files"] = rows

    # --- directory table ----------------------------------------------------------------------
    db = fn_body(src, "create_project_directories")
    binds = {}
    for var, parent, comp in re.findall(r'let (\w+) = (\w+)\.join\("([^"]+)"\);', db):
        if parent == "base":
            binds[var] = [comp]
        elif parent in binds:
            binds[var] = binds[parent] + [comp]
        else:
            raise Exception("create_project_directories: unknown parent " + parent)
    arr = _must(re.search(r"for directory in \[(.*?)\]\s*\{\s*fs::create_dir_all\(directory\)\?;", db, re.S),
                "create_project_directories loop").group(1)
    order = re.findall(r"(\w+)\.as_path\(\)", arr)
    if not order or any(v not in binds for v in order):
        raise Exception("create_project_directories: directory array no longer matches")
    out["dirs"] = [binds[v] for v in order]

    # --- keypair path -------------------------------------------------------------------------
    kb2 = fn_body(src, "program_keypair_relative_path")
    _must(re.search(r"let artifact_name = project_name\.replace\('-', \"_\"\);", kb2), "keypair artifact name")
    m = _must(re.search(r'Path::new\("([^"]+)"\)\s*\.join\("([^"]+)"\)\s*\.join\(format!\("\{artifact_name\}([^"]*)"\)\)', kb2),
              "keypair relative path")
    out["keypair_dir"] = [m.group(1), m.group(2)]
    out["keypair_suffix"] = m.group(3)
    wk = fn_body(src, "write_program_keypair")
    _pin(re.search(r"fs::create_dir_all\(keypair_directory\)", wk), "write_program_keypair: create_dir_all")
    _pin(re.search(r"write_keypair_file\(keypair, &keypair_path\)", wk), "write_program_keypair: write_keypair_file")

    # --- staging directory --------------------------------------------------------------------
    sb = fn_body(src, "staging_directory_for")
    m = _must(re.search(r'for attempt in 0_u32\.\.(\d+) \{\s*let candidate = parent\.join\(format!\(\s*"([^"]*)",\s*name,\s*process::id\(\),\s*seed \+ u128::from\(attempt\)\s*\)\);',
                        sb), "staging_directory_for: candidate format")
    out["staging_attempts"] = int(m.group(1))
    fm = _must(re.match(r"^([^{}]*)\{\}([^{}]*)\{\}([^{}]*)\{\}$", m.group(2)), "staging name format")
    out["staging_prefix"], out["staging_infix"], out["staging_sep"] = fm.group(1), fm.group(2), fm.group(3)
    _pin(re.search(r"match fs::create_dir\(&candidate\) \{\s*Ok\(\(\)\) => return Ok\(candidate\),\s*"
                    r"Err\(err\) if err\.kind\(\) == io::ErrorKind::AlreadyExists => continue,", sb),
          "staging_directory_for: create_dir / AlreadyExists retry")

    # --- scaffold_project control flow --------------------------------------------------------
    pb = re.sub(r"\s+", " ", fn_body(src, "scaffold_project"))
    for pat, what in [
        (r"if destination\.exists\(\) \{ bail!\(", "exists check first"),
        (r"let staging_dir = staging_directory_for\(destination\)\?; let program_keypair = Keypair::new\(\);", "staging then keypair"),
        (r"create_project_directories\(&staging_dir\)\.wrap_err_with\(.*?\)\?; write_project_files\(&staging_dir, &values\)"
         r"\.wrap_err_with\(.*?\)\?; write_program_keypair\(&staging_dir, project_name, &program_keypair\)\?; Ok\(\(\)\)", "body order"),
        (r"if let Err\(err\) = scaffold_result \{ let _ = fs::remove_dir_all\(&staging_dir\); return Err\(err\); \}", "cleanup on error"),
        (r"fs::rename\(&staging_dir, destination\) \.inspect_err\(\|_err\| \{ let _ = fs::remove_dir_all\(&staging_dir\); \}\)", "rename + cleanup"),
    ]:
        _pin(re.search(pat, pb), "scaffold_project: " + what)
    return out


def generate(lines):
    x = extract()
    A = lines.append
    A("(* --- is_rust_keyword (new_project.rs): %d literals ------------------------------------ *)" % len(x["keywords"]))
    A("Definition c20_keywords : list (list Z) := [")
    A(";\n".join("  %s (* %s *)" % (ztext(k), comment_safe(k)) for k in x["keywords"]))
    A("].")
    A("")
    A("(* --- render_template: the .replace chain in source order; second component = which TemplateValues")
    A("   field (0 name_lowercase, 1 name_lowercase_underscore, 2 name_uppercase, 3 name_pascalcase, 4 pubkey) *)")
    A("Definition c20_placeholders : list (list Z * nat) := [")
    A(";\n".join("  (%s, %d%%nat) (* %s -> %s *)" % (ztext(p), FIELD_INDEX[f], p, f) for p, f in x["chain"]))
    A("].")
    A("")
    A("(* --- templates (bytes of the files under star_frame_cli/src/template) ------------------------------- *)")
    for const, rel, tfile, data in x["files"]:
        A("Definition c20_tpl_%s : list Z := (* %s, %d bytes *)" % (const.lower(), tfile, len(data)))
        A("  %s." % zlist(data))
    A("")
    A("(* --- write_project_files: (relative path components, template) in source order -------- *)")
    A("Definition c20_files : list (list (list Z) * list Z) := [")
    A(";\n".join("  ([%s], c20_tpl_%s) (* %s *)" % ("; ".join(ztext(c) for c in rel.split("/")), const.lower(), rel)
                 for const, rel, _, _ in x["files"]))
    A("].")
    A("")
    A("(* --- create_project_directories: create_dir_all targets in source order ---------------- *)")
    A("Definition c20_dirs : list (list (list Z)) := [")
    A(";\n".join("  [%s] (* %s *)" % ("; ".join(ztext(c) for c in d), "/".join(d)) for d in x["dirs"]))
    A("].")
    A("")
    A("(* --- program_keypair_relative_path ----------------------------------------------------- *)")
    A("Definition c20_keypair_dir : list (list Z) := [%s]. (* %s *)" % (
        "; ".join(ztext(c) for c in x["keypair_dir"]), "/".join(x["keypair_dir"])))
    A("Definition c20_keypair_suffix : list Z := %s. (* %s *)" % (ztext(x["keypair_suffix"]), x["keypair_suffix"]))
    A("")
    A("(* --- staging_directory_for: \"%s{name}%s{pid}%s{nanos+attempt}\", %d attempts ------------- *)" % (
        x["staging_prefix"], x["staging_infix"], x["staging_sep"], x["staging_attempts"]))
    A("Definition c20_staging_prefix : list Z := %s." % ztext(x["staging_prefix"]))
    A("Definition c20_staging_infix : list Z := %s." % ztext(x["staging_infix"]))
    A("Definition c20_staging_attempts : nat := %d%%nat." % x["staging_attempts"])
    A("")


if __name__ == "__main__":
    ls = []
    generate(ls)
    print("\n".join(ls)[:3000])
