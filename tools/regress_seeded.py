#!/usr/bin/env python3
"""Regression over the recorded seeded changes (/verif/seeded/*): apply each patch to the repository of an EVALUATION
CLONE (never to /repo), run the check of the property it breaks, expect a VIOLATION line, undo the patch.

usage: EVAL_ROOT=/tmp/eval_reg tools/regress_seeded.py [--missed-only] [name-prefix ...]
The clone is made first with `EVAL_ROOT=... tools/sync_eval.sh`.  Output: one line per seeded change
  <name> <property> caught | caught(no-failing-input-found) | MISSED | patch-does-not-apply
and a summary.  A patch that no longer applies (the repository moved on, e.g. a later `fix:` commit touched the same
lines) is reported, not counted as a miss."""
import json
import os
import subprocess
import sys

root = os.environ.get("EVAL_ROOT")
if not root:
    sys.exit("set EVAL_ROOT to an evaluation clone (tools/sync_eval.sh)")
verif, repo = os.path.join(root, "verif"), os.path.join(root, "repo")
args = [a for a in sys.argv[1:] if not a.startswith("--")]
missed_only = "--missed-only" in sys.argv
seeded = "/verif/seeded"
res = {"caught": 0, "caught-nfif": 0, "MISSED": 0, "no-apply": 0}
for name in sorted(os.listdir(seeded)):
    mp = os.path.join(seeded, name, "meta.json")
    if not os.path.exists(mp) or (args and not any(name.startswith(a) for a in args)):
        continue
    meta = json.load(open(mp))
    det = meta.get("detected_by") or {}
    if missed_only and not any("missed at first" in str(v) for v in det.values()):
        continue
    patch = os.path.join(seeded, name, "patch.diff")
    subprocess.run(["git", "-C", repo, "checkout", "--", "."], check=True)
    if subprocess.run(["git", "-C", repo, "apply", patch], stderr=subprocess.DEVNULL).returncode != 0:
        print(name, "-", "patch-does-not-apply", flush=True)
        res["no-apply"] += 1
        continue
    # the property whose own check has to catch it (the first key of detected_by that reports a VIOLATION, else the broken one)
    props = [p for p, v in det.items() if "VIOLATION" in str(v)] or [meta.get("breaks_property")]
    prop = props[0]
    env = dict(os.environ, VERIF_REPO=repo, VERIF_SEED="1")
    out = subprocess.run(["bin/check", prop], cwd=verif, env=env, stdout=subprocess.PIPE, stderr=subprocess.STDOUT).stdout.decode()
    vio = [ln for ln in out.split("\n") if ln.startswith("VIOLATION")]
    if not vio:
        verdict = "MISSED"
        res["MISSED"] += 1
    elif all("no-failing-input-found" in v for v in vio):
        verdict = "caught(no-failing-input-found)"
        res["caught-nfif"] += 1
    else:
        verdict = "caught"
        res["caught"] += 1
    print(name, prop, verdict, flush=True)
subprocess.run(["git", "-C", repo, "checkout", "--", "."], check=True)
print("summary:", res)
