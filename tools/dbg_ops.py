#!/usr/bin/env python3
"""debug helper: run work/C0x_*.cases through harness+model, show first diverging frame per case (grouped)"""
import sys, os, collections
sys.path.insert(0, os.path.join(os.path.dirname(__file__), ".."))
from lib import common as C, unsized as U, unsized_ops as O

def main():
    path = sys.argv[1]
    limit = int(sys.argv[2]) if len(sys.argv) > 2 else 5
    cases = []
    for line in open(path):
        t = line.split()
        if t: cases.append((t[0], [int(x) for x in t[1:]]))
    exe = os.path.join(C.HARNESS, "target", "debug", "vh_unsized")
    impl = C.run_harness(exe, path, args=["ops"])
    model = C.run_model("unsized", "ops", path)
    groups = collections.Counter()
    shown = 0
    for cid, c in cases:
        a, b = impl.get(cid), model.get(cid)
        why = O.judge(c, a, {"model", "canon", "safety", "atomic"})
        if a == b and not why:
            continue
        idx, ty, flush, refuse, v0, steps = O.decode_case(c)
        fa, ta = O.split_obs(a or [], len(steps))
        fb, tb = O.split_obs(b or [], len(steps))
        k = None
        for i in range(max(len(fa), len(fb))):
            x = fa[i] if i < len(fa) else None
            y = fb[i] if i < len(fb) else None
            if x != y:
                k = i
                break
        op = steps[k] if (k is not None and k < len(steps)) else None
        key = (idx, tuple(op[:3]) if op else None, (fa[k][:2] if k is not None and k < len(fa) else None) and tuple(fa[k][:2]), (fb[k][:2] if k is not None and k < len(fb) else None) and tuple(fb[k][:2]))
        groups[str(key)] += 1
        if shown < limit:
            shown += 1
            print("==== case", cid, "shape", idx, "refuse", refuse, "flush", flush)
            print("  v0 =", v0)
            for i, s in enumerate(steps[:(k + 1) if k is not None else len(steps)]):
                print("  step", i, s[:30])
            if k is not None:
                print("  IMPL  frame", k, fa[k][:60] if k < len(fa) else None)
                print("  MODEL frame", k, fb[k][:60] if k < len(fb) else None)
            else:
                print("  trailers: impl", ta[:30], "model", tb[:30])
            print("  judge:", why)
    print("---- groups (shape, op, impl tag, model tag) ----")
    for k, v in groups.most_common(40):
        print(v, k)

main()
