"""C13: which form of refund_rent's "minimum > balance" branch the working tree has.

Emits (into coq/Gen/Gen_c13.v)
  Definition REFUND_FIXED : bool   single_set.rs refund_rent, branch Ordering::Greater:
        false  `ensure!(lamports > 0, ProgramError::InsufficientFunds, ..)`    (shipped: 0 lamports => error,
                                                                               0 < balance < minimum => Ok; D14)
        true   `ensure!(lamports == 0, ProgramError::InsufficientFunds, ..)`   (repaired)
Any other spelling raises.
"""
import os
import re

REPO = os.environ.get("VERIF_REPO", "/repo")


def generate(lines):
    ss = open(os.path.join(REPO, "star_frame/src/account_set/single_set.rs"), encoding="utf-8").read()
    m = re.search(r"fn refund_rent\(.*?\n    \}\n", ss, re.S)
    if not m:
        raise Exception("refund_rent not found in single_set.rs")
    body = re.sub(r"\s+", " ", m.group(0))
    shipped = "ensure!( lamports > 0, ProgramError::InsufficientFunds," in body
    fixed = "ensure!( lamports == 0, ProgramError::InsufficientFunds," in body
    if shipped == fixed:
        raise Exception("refund_rent: the ensure! of the `Ordering::Greater` branch has neither the shipped nor the repaired form")
    for fn, needles in (("normalize_rent", ("if lamports == 0 { return Ok(()); }", "funder.add_lamports(transfer_amount)?;")),
                        ("receive_rent", ("if rent_lamports > lamports {", "if lamports == 0 { return Ok(()); }")),
                        ("close_account", ("info.resize(size_of::<OwnerProgramDiscriminant<Self>>())?;", "fill(u8::MAX);",
                                           "recipient.add_lamports(info.lamports())?;", "*info.try_borrow_mut_lamports()? = 0;"))):
        mm = re.search(r"fn %s\(.*?\n    \}\n" % fn, ss, re.S)
        if not mm:
            raise Exception("%s not found in single_set.rs" % fn)
        b = re.sub(r"\s+", " ", mm.group(0))
        for n in needles:
            if n not in b:
                raise Exception("%s changed shape (missing `%s`)" % (fn, n))
    lines.append("Definition REFUND_FIXED : bool := %s." % ("true" if fixed else "false"))
