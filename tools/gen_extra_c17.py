"""C17: the five places where the IDL emitters / the Codama lowering can say something the runtime does not do,
re-read from the source on every run.  Emits (into coq/Gen/Gen_c17.v) one boolean per place; the model
(coq/IdlSem/Accounts.v `cfg`, `discriminant_to_usize`) is parameterised by them, coq/Properties/C17.v instantiates
the theorems at `SOURCE_CFG`, and the correspondence check runs the model with these values against the harness.

  C17_KEY_FULL          star_frame_proc/src/account_set/struct_impl/idl.rs: the key under which a derived
                        multi-field account set is stored: `type_name::<Self>()` (true) or `item_source::<Self>()`
                        (false: generic arguments stripped)                                                  [D15]
  C17_ONE_PASSTHROUGH   same file: a derived set with exactly one field returns that field's definition
                        (`account_set_defs.len() == 1`, true) or only a #[single_account_set] wrapper does
                        (`single_set_field.is_some()`, false)                                               [one-field-set]
  C17_NONE_PLACEHOLDER  star_frame/src/account_set/impls/option.rs idl_impl: the `None` alternative of
                        Option<multi-account set> is `empty_struct()` (false) or the program-id placeholder (true) [option-multi-none]
  C17_FALSE_CLEARS      modifiers/{mutable,signer}.rs: client meta `writable: MUT` / `signer: SIGNER` (true) or
                        `MUT || T::meta().writable` / `SIGNER || T::meta().signer` (false)                   [false-modifier]
  C17_GUARD_BITS        star_frame_idl/src/codama.rs discriminant_to_usize: `discriminant.len() * 8 >` (true) or
                        `discriminant.len() >` (false)                                                       [D11]
"""
import os
import re

REPO = os.environ.get("VERIF_REPO", "/repo")


def _read(rel):
    return open(os.path.join(REPO, rel), encoding="utf-8").read()


PROBLEMS = []      # lenient mode: what no longer has the expected shape (the switch keeps its repaired default)
LENIENT = False


def _problem(msg, default=None):
    if not LENIENT:
        raise Exception(msg)
    PROBLEMS.append(msg)
    return default


def _one(src, where, options, default=None):
    """exactly one of the (regex -> value) options must occur"""
    hits = [(pat, val) for pat, val in options if re.search(pat, src, re.S)]
    if len(hits) != 1:
        return _problem("%s: expected exactly one of %s, found %d" % (where, [p for p, _ in options], len(hits)), default)
    return hits[0][1]


def switches_lenient():
    """the switches with the repaired default wherever the source no longer has a recognised shape, plus the list of
    problems: lets the check keep searching the implementation for a concrete failing input when the translator breaks"""
    global LENIENT
    LENIENT = True
    del PROBLEMS[:]
    try:
        return switches(), list(PROBLEMS)
    finally:
        LENIENT = False


def switches():
    idl = _read("star_frame_proc/src/account_set/struct_impl/idl.rs")
    m = re.search(r"let inner = if (.*?)\{\s*account_set_defs\[0\]\.clone\(\)\s*\} else \{\s*quote!\s*\{(.*?)idl_definition\.add_account_set",
                  idl, re.S)
    if not m:
        _problem("struct_impl/idl.rs: the `let inner = if .. { account_set_defs[0].clone() } else { quote! {..} }` shape changed")
    cond, body = (m.group(1), m.group(2)) if m else ("", "")
    one_pass = _one(cond, "struct_impl/idl.rs passthrough condition",
                    [(r"account_set_defs\.len\(\)\s*==\s*1", True), (r"single_set_field\.is_some\(\)", False)], False)
    key_full = _one(body, "struct_impl/idl.rs `let source = ..`",
                    [(r"let source = [^;]*item_source::<Self>\(\)\s*;", False),
                     (r"let source = [^;]*type_name::<Self>\(\)[^;]*;", True)], True)
    opt = _read("star_frame/src/account_set/impls/option.rs")
    m = re.search(r"mod idl_impl \{(.*)$", opt, re.S)
    if not m or "IdlAccountSetDef::Or(vec![" not in m.group(1) or "inner.optional = true" not in m.group(1):
        _problem("impls/option.rs: the idl_impl of Option<A> changed shape")
        orbody = ""
    else:
        orbody = m.group(1).split("IdlAccountSetDef::Or(vec![")[1].split("]))")[0]
    none_placeholder = _one(orbody, "impls/option.rs `Or(vec![set, ..])`",
                            [(r"IdlAccountSetDef::empty_struct\(\)", False),
                             (r"address:\s*Some\(idl_definition\.address\)", True)], True)
    mu = _read("star_frame/src/account_set/modifiers/mutable.rs")
    sg = _read("star_frame/src/account_set/modifiers/signer.rs")
    mc = _one(mu, "modifiers/mutable.rs meta", [(r"SingleSetMeta \{ writable: MUT, \.\.T::meta\(\) \}", True),
                                                 (r"SingleSetMeta \{ writable: MUT \|\| T::meta\(\)\.writable, \.\.T::meta\(\) \}", False)], False)
    sc = _one(sg, "modifiers/signer.rs meta", [(r"SingleSetMeta \{ signer: SIGNER, \.\.T::meta\(\) \}", True),
                                                (r"SingleSetMeta \{ signer: SIGNER \|\| T::meta\(\)\.signer, \.\.T::meta\(\) \}", False)], False)
    if mc != sc:
        _problem("MaybeMut and MaybeSigner build their client meta differently (one clears the inner flag, one keeps it)")
    for src, name in ((mu, "mutable.rs"), (sg, "signer.rs")):
        if not re.search(r"if (MUT|SIGNER) \{\s*set\.single\(\)\?\.(writable|signer) = true;\s*\}", src):
            _problem("modifiers/%s: the idl_impl no longer sets the flag only when the const is true" % name)
    cod = _read("star_frame_idl/src/codama.rs")
    m = re.search(r"fn discriminant_to_usize\(discriminant: &IdlDiscriminant\) -> Result<usize> \{(.*?)\n\}", cod, re.S)
    if not m or "usize::from_le_bytes(bytes)" not in m.group(1):
        _problem("codama.rs: discriminant_to_usize changed shape")
    bits = _one(m.group(1) if m else "", "codama.rs discriminant_to_usize guard",
                [(r"if discriminant\.len\(\) \* 8 > std::mem::size_of::<usize>\(\)", True),
                 (r"if discriminant\.len\(\) > std::mem::size_of::<usize>\(\)", False)], False)
    return {"C17_KEY_FULL": key_full, "C17_ONE_PASSTHROUGH": one_pass, "C17_NONE_PLACEHOLDER": none_placeholder,
            "C17_FALSE_CLEARS": mc, "C17_GUARD_BITS": bits}


def generate(lines):
    sw = switches()
    for k in ("C17_KEY_FULL", "C17_ONE_PASSTHROUGH", "C17_NONE_PLACEHOLDER", "C17_FALSE_CLEARS", "C17_GUARD_BITS"):
        lines.append("Definition %s : bool := %s." % (k, "true" if sw[k] else "false"))
    lines.append("")
