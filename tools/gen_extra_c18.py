"""C18: rule identifiers of the IDL verifier, regenerated from star_frame_idl/src/verifier/mod.rs.

Emits (into coq/Gen/Gen_c18.v)
  Definition RULE_<NAME> : Z := <n>.      for every `const RULE_<NAME>: &str = "SFIDL<nnn>";`
  Definition RULE_IDS : list (string * Z) (declaration order)
  Definition MODE_NAMES : list string     (variants of `pub enum VerificationMode`, declaration order)
The model (coq/Idl/Verifier.v) refers to the eleven names it needs; a renamed / removed / renumbered rule breaks
the build of the model or of the proofs (which case-split on the numeric values), a new rule changes RULE_IDS and
breaks `rule_ids_pinned` in coq/Idl/VerifierProofs.v.
"""
import os
import re

REPO = os.environ.get("VERIF_REPO", "/repo")


def generate(lines):
    path = os.path.join(REPO, "star_frame_idl/src/verifier/mod.rs")
    src = open(path, encoding="utf-8").read()
    rules = re.findall(r'^const (RULE_[A-Z0-9_]+): &str = "SFIDL(\d{3})";', src, re.M)
    if not rules:
        raise Exception("no `const RULE_*: &str = \"SFIDLnnn\"` constants found in " + path)
    # every SFIDLnnn literal of the file must be one of the constants (no inline rule ids)
    lits = set(re.findall(r'"SFIDL(\d{3})"', src.split("#[cfg(test)]")[0]))
    if lits != {n for _, n in rules}:
        raise Exception("rule id literals outside the RULE_* constants: %s" % sorted(lits ^ {n for _, n in rules}))
    nums = [int(n) for _, n in rules]
    if len(set(nums)) != len(nums):
        raise Exception("duplicate rule numbers")
    # the only constructor of verifier errors must embed the rule id the way the harness parses it
    if 'format!("Verifier error [{rule}]: {}"' not in src:
        raise Exception("verifier_err message format changed (harness parses `[SFIDLnnn]`)")
    m = re.search(r"pub enum VerificationMode\s*\{(.*?)\n\}", src, re.S)
    if not m:
        raise Exception("enum VerificationMode not found")
    body = re.sub(r"//[^\n]*", "", m.group(1))
    modes = [x.strip() for x in body.split(",") if x.strip()]
    if modes != ["Compatibility", "StrictGraph"]:
        raise Exception("VerificationMode variants changed: %s" % modes)
    for name, n in rules:
        lines.append("Definition %s : Z := %d." % (name, int(n)))
    lines.append("Definition RULE_IDS : list (string * Z) := [%s]." % "; ".join(
        '("%s", %d)' % (name, int(n)) for name, n in rules))
    lines.append("Definition MODE_NAMES : list string := [%s]." % "; ".join('"%s"' % x for x in modes))
    lines.append("")
