"""C12: which form of the two source lines that the model is parameterised on the working tree has.

Emits (into coq/Gen/Gen_c12.v)
  Definition TOPUP_FIXED : bool   single_set.rs system_create_account, pre-funded branch:
        false  `exempt_lamports.saturating_sub(current_lamports).max(1)`      (shipped; always moves >= 1 lamport, D5)
        true   `exempt_lamports.max(1).saturating_sub(current_lamports)`      (repaired)
  Definition SHORT_FIXED : bool   account.rs / borsh_account.rs init_account, create-if-needed test:
        false  `self.account_data()?[..size_of::<OwnerProgramDiscriminant<T>>()]`            (slice index, panics on short data, D10)
        true   `self.account_data()?.get(..size_of::<OwnerProgramDiscriminant<T>>())` ...      (repaired: short data = not "needs init")
coq/Rent/Run.v runs the model with these flags, so the correspondence check follows the tree; coq/Properties/C12.v
proves the property for `true` and pins `TOPUP_FIXED = true` (the theorems about the shipped forms are `..._refuted`).
Any other spelling of these lines raises: the model would no longer be known to describe the code.
"""
import os
import re

REPO = os.environ.get("VERIF_REPO", "/repo")


def _read(rel):
    return open(os.path.join(REPO, rel), encoding="utf-8").read()


def generate(lines):
    ss = _read("star_frame/src/account_set/single_set.rs")
    m = re.search(r"fn system_create_account\(.*?\n    \}\n", ss, re.S)
    if not m:
        raise Exception("system_create_account not found in single_set.rs")
    body = re.sub(r"\s+", " ", m.group(0))
    shipped = "let required_lamports = exempt_lamports.saturating_sub(current_lamports).max(1);" in body
    fixed = "let required_lamports = exempt_lamports.max(1).saturating_sub(current_lamports);" in body
    if shipped == fixed:
        raise Exception("system_create_account: the `required_lamports` line has neither the shipped nor the repaired form")
    for needle in ("if current_lamports == 0 && funder.can_create_account()", "if required_lamports > 0 {",
                   "system::CreateAccount {", "system::Allocate {", "system::Assign { owner }"):
        if needle not in body:
            raise Exception("system_create_account changed shape (missing `%s`)" % needle)
    forms = []
    for rel in ("star_frame/src/account_set/account.rs", "star_frame/src/account_set/borsh_account.rs"):
        src = re.sub(r"\s+", " ", _read(rel))
        old = "|| self.account_data()?[..size_of::<OwnerProgramDiscriminant<T>>()] .iter() .all(|x| *x == 0);" in src
        new = ("|| self .account_data()? .get(..size_of::<OwnerProgramDiscriminant<T>>()) .is_some_and(|d| d.iter().all(|x| *x == 0));" in src
               or "|| self.account_data()?.get(..size_of::<OwnerProgramDiscriminant<T>>()).is_some_and(|d| d.iter().all(|x| *x == 0));" in src)
        if old == new:
            raise Exception("%s: the create-if-needed `needs_init` test has neither the shipped nor the repaired form" % rel)
        forms.append(new)
    if forms[0] != forms[1]:
        raise Exception("account.rs and borsh_account.rs disagree on the needs_init test")
    lines.append("Definition TOPUP_FIXED : bool := %s." % ("true" if fixed else "false"))
    lines.append("Definition SHORT_FIXED : bool := %s." % ("true" if forms[0] else "false"))
