"""C17: generates, from /repo's working tree, the Rust glue the C17 harness needs to observe every shipped program
from the inside (client metas of every instruction, runtime discriminants, parsers/serialisers of every described
account / instruction-argument type):

  * for each example program a wrapper crate  work/c17/gen/<program>/  = a copy of its sources with glue APPENDED to
    the files that define its account sets (so private fields / private modules are reachable) and a
    `pub fn __c17_probe()` appended to lib.rs;
  * for the programs bound inside the framework crates (System in star_frame, Token and Associated Token in
    star_frame_spl) one file  work/c17/gen_ext.rs  with the same glue using full paths.

The source is read with a small item scanner (attributes, struct/enum/mod items, fields); it raises `GenError` when
something no longer has the expected shape."""
import os
import re
import shutil

REPO = os.environ.get("VERIF_REPO", "/repo")
VERIF = os.path.normpath(os.path.join(os.path.dirname(os.path.abspath(__file__)), ".."))
# the generated glue lives under work/ (git-ignored); a check against another working tree (VERIF_REPO) uses its own copy
ALT = os.path.normpath(REPO) != "/repo"
OUT = os.path.join(VERIF, "work", "c17_alt" if ALT else "c17")
SUPPORT = os.path.join(VERIF, "work", "harness_c17_alt", "support") if ALT else os.path.join(VERIF, "harness_c17", "support")


class GenError(Exception):
    pass


# ------------------------------------------------------------------------------------------------ scanner
def neutralise(src):
    """same length text with comments and the contents of string / char literals blanked"""
    out = list(src)
    i, n = 0, len(src)
    while i < n:
        c = src[i]
        if src.startswith("//", i):
            j = src.find("\n", i)
            j = n if j < 0 else j
            for k in range(i, j):
                out[k] = " "
            i = j
        elif src.startswith("/*", i):
            depth, j = 1, i + 2
            while j < n and depth:
                if src.startswith("/*", j):
                    depth += 1
                    j += 2
                elif src.startswith("*/", j):
                    depth -= 1
                    j += 2
                else:
                    j += 1
            for k in range(i, j):
                if out[k] != "\n":
                    out[k] = " "
            i = j
        elif c == '"' or (c == "b" and src.startswith('b"', i)):
            j = i + (2 if c == "b" else 1)
            while j < n and src[j] != '"':
                j += 2 if src[j] == "\\" else 1
            for k in range(i + 1, j):
                if out[k] != "\n":
                    out[k] = " "
            i = j + 1
        elif c == "r" and re.match(r'r#*"', src[i:]):
            m = re.match(r'r(#*)"', src[i:])
            end = '"' + m.group(1)
            j = src.find(end, i + len(m.group(0)))
            j = n if j < 0 else j
            for k in range(i + 1, j):
                if out[k] != "\n":
                    out[k] = " "
            i = j + len(end)
        elif c == "'":
            m = re.match(r"'(\\.|[^\\'])'", src[i:])
            if m:
                for k in range(i + 1, i + len(m.group(0)) - 1):
                    out[k] = " "
                i += len(m.group(0))
            else:
                i += 1          # lifetime
        else:
            i += 1
    return "".join(out)


OPEN = {"(": ")", "[": "]", "{": "}"}


def match_close(t, i):
    """t[i] is an opening bracket; returns the index after its matching closer"""
    stack = [OPEN[t[i]]]
    j = i + 1
    while j < len(t) and stack:
        c = t[j]
        if c in OPEN:
            stack.append(OPEN[c])
        elif c in ")]}":
            if c != stack.pop():
                raise GenError("unbalanced brackets near offset %d" % j)
        j += 1
    if stack:
        raise GenError("unterminated bracket at offset %d" % i)
    return j


def match_angle(t, i):
    """t[i] == '<' opening a generic list; returns index after the matching '>'"""
    depth, j = 0, i
    while j < len(t):
        c = t[j]
        if c in OPEN:
            j = match_close(t, j)
            continue
        if c == "<":
            depth += 1
        elif c == ">" and t[j - 1] != "-":
            depth -= 1
            if depth == 0:
                return j + 1
        j += 1
    raise GenError("unterminated generics at offset %d" % i)


def skip_ws(t, i):
    while i < len(t) and t[i].isspace():
        i += 1
    return i


def read_attrs(t, i):
    attrs = []
    while True:
        i = skip_ws(t, i)
        if t.startswith("#[", i) or t.startswith("#![", i):
            j = match_close(t, t.index("[", i))
            attrs.append(t[i:j])
            i = j
        else:
            return attrs, i


def read_vis(t, i):
    i = skip_ws(t, i)
    m = re.match(r"pub\s*(\([^)]*\))?", t[i:])
    if m and re.match(r"pub\b", t[i:]):
        return t[i:i + len(m.group(0))].strip(), i + len(m.group(0))
    return "", i


def split_top(t):
    """split at commas that are outside every bracket / generic list"""
    parts, cur, i = [], [], 0
    angle = 0
    while i < len(t):
        c = t[i]
        if c in OPEN:
            j = match_close(t, i)
            cur.append(t[i:j])
            i = j
            continue
        if c == "<":
            angle += 1
        elif c == ">" and (i == 0 or t[i - 1] not in "-="):
            angle = max(0, angle - 1)
        if c == "," and angle == 0:
            parts.append("".join(cur))
            cur = []
        else:
            cur.append(c)
        i += 1
    if "".join(cur).strip():
        parts.append("".join(cur))
    return parts


def parse_fields(body):
    """named fields of a struct body: [(attrs, vis, name, type)]"""
    fields = []
    for part in split_top(body):
        attrs, i = read_attrs(part, 0)
        vis, i = read_vis(part, i)
        rest = part[i:].strip()
        if not rest:
            continue
        m = re.match(r"(r#)?([A-Za-z_][A-Za-z0-9_]*)\s*:\s*(.*)$", rest, re.S)
        if not m:
            raise GenError("cannot read field: %r" % rest[:80])
        fields.append((attrs, vis, m.group(2), " ".join(m.group(3).split())))
    return fields


def derives_of(attrs):
    out = set()
    for a in attrs:
        m = re.match(r"#\[\s*derive\s*\((.*)\)\s*\]$", a, re.S)
        if m:
            for d in m.group(1).split(","):
                d = d.strip()
                if d:
                    out.add(d.split("::")[-1])
    return out


def attr_named(attrs, name):
    return [a for a in attrs if re.match(r"#\[\s*%s\b" % re.escape(name), a)]


class Item:
    def __init__(self, **kw):
        self.__dict__.update(kw)


def scan(t, lo, hi, modpath, items, file, drop_private=False):
    """items of t[lo:hi] (t is neutralised source)"""
    i = lo
    while True:
        attrs, i = read_attrs(t, i)
        i = skip_ws(t, i)
        if i >= hi:
            return
        start = i
        vis, i = read_vis(t, i)
        i = skip_ws(t, i)
        m = re.match(r"(struct|enum|mod)\s+([A-Za-z_][A-Za-z0-9_]*)", t[i:])
        if m:
            kind, name = m.group(1), m.group(2)
            i = skip_ws(t, i + len(m.group(0)))
            generics = ""
            if t[i] == "<":
                j = match_angle(t, i)
                generics = t[i + 1:j - 1]
                i = skip_ws(t, j)
            # where clause / tuple body / brace body
            tuple_body = None
            if kind == "struct" and t[i] == "(":
                j = match_close(t, i)
                tuple_body = t[i + 1:j - 1]
                i = j
            k = i
            while k < hi and t[k] not in "{;":
                if t[k] in "([":
                    k = match_close(t, k)
                else:
                    k += 1
            where = t[i:k].strip()
            if k < hi and t[k] == "{":
                j = match_close(t, k)
                body = t[k + 1:j - 1]
                end = j
            else:
                body = None
                end = k + 1
            if kind == "mod":
                if body is not None and not attr_named(attrs, "cfg") or (
                        body is not None and not any("test" in a for a in attr_named(attrs, "cfg"))):
                    scan(t, k + 1, end - 1, modpath + ([] if (drop_private and not vis) else [name]), items, file, drop_private)
            else:
                items.append(Item(kind=kind, name=name, generics=" ".join(generics.split()), attrs=attrs, vis=vis,
                                  body=body, tuple_body=tuple_body, where=where, modpath=list(modpath), file=file,
                                  end=end))
            i = end
            continue
        # any other item: skip to its end
        k = i
        while k < hi and t[k] not in "{;":
            if t[k] in "([":
                k = match_close(t, k)
            else:
                k += 1
        if k >= hi:
            return
        i = match_close(t, k) if t[k] == "{" else k + 1
        if i <= start:
            raise GenError("scanner stuck in %s at %d" % (file, start))


def generic_names(generics):
    """(impl generics text, type argument text) of a generic parameter list"""
    if not generics.strip():
        return "", ""
    names = []
    for p in split_top(generics):
        p = p.strip()
        m = re.match(r"const\s+([A-Za-z_][A-Za-z0-9_]*)", p)
        if m:
            names.append(m.group(1))
            continue
        m = re.match(r"('?[A-Za-z_][A-Za-z0-9_]*)", p)
        names.append(m.group(1))
    return generics, "<" + ", ".join(names) + ">"


def trimmed(name):
    return name[:-len("Accounts")] if name.endswith("Accounts") and len(name) > len("Accounts") else name


# ------------------------------------------------------------------------------------------------ per crate
def crate_items(src_dir, crate_root_mod):
    """scan every .rs file below src_dir; module path derived from the file location"""
    items = []
    files = {}
    for root, dirs, fs in os.walk(src_dir):
        dirs.sort()
        for fn in sorted(fs):
            if not fn.endswith(".rs"):
                continue
            p = os.path.join(root, fn)
            rel = os.path.relpath(p, src_dir)[:-3].split(os.sep)
            if rel[-1] in ("lib", "mod", "main"):
                rel = rel[:-1]
            raw = open(p, encoding="utf-8").read()
            files[p] = raw
            scan(neutralise(raw), 0, len(raw), [crate_root_mod] + rel, items, p)
    return items, files


def classify(items):
    sets, ixsets, programs, accounts, args = [], [], [], [], []
    for it in items:
        d = derives_of(it.attrs)
        ut = attr_named(it.attrs, "unsized_type")
        if it.kind == "struct" and "AccountSet" in d:
            sets.append(it)
        if it.kind == "enum" and "InstructionSet" in d:
            ixsets.append(it)
        if it.kind == "struct" and "StarFrameProgram" in d:
            programs.append(it)
        if "ProgramAccount" in d or (ut and re.search(r"\bprogram_account\b", ut[0])):
            accounts.append(it)
        if "InstructionArgs" in d:
            args.append(it)
    return sets, ixsets, programs, accounts, args


def fill_glue(it, path_prefix, support="::c17_support"):
    """Fill impl for the ClientAccounts struct of a derived multi-field account set, or (None, reason)"""
    if it.body is None:
        return None, "tuple / unit account set (single account)"
    if any(re.search(r"\bskip_client_account_set\b", a) for a in attr_named(it.attrs, "account_set")):
        return None, "skip_client_account_set"
    fields = parse_fields(it.body)
    if any(attr_named(a, "single_account_set") for a, _, _, _ in fields):
        return None, "single account set"
    names = [n for a, _, n, _ in fields if not any(re.search(r"\bskip\s*=", x) for x in attr_named(a, "account_set"))]
    gen_decl, gen_args = generic_names(it.generics)
    # the generated struct carries the where-clause `FieldTy: ClientAccountSet`; repeat the declared bounds
    where = (" " + it.where) if it.where.startswith("where") else ""
    ty = "%s%sClientAccounts%s" % (path_prefix, trimmed(it.name), gen_args)
    bounds = ""
    if gen_decl:
        # each field type must be a ClientAccountSet whose ClientAccounts can be filled
        preds = []
        for a, _, n, fty in fields:
            if n in names:
                preds.append("%s: ::star_frame::account_set::ClientAccountSet" % fty)
                preds.append("<%s as ::star_frame::account_set::ClientAccountSet>::ClientAccounts: %s::Fill" % (fty, support))
        bounds = (where + ", " if where else " where ") + ", ".join(preds)
    else:
        bounds = where
    code = "impl<%s> %s::Fill for %s%s {\n    fn fill(cx: &mut %s::FillCx, path: &str) -> Self {\n        Self { %s }\n    }\n}\n" % (
        gen_decl, support, ty, bounds, support,
        ", ".join("%s: %s::Fill::fill(cx, &%s::join(path, \"%s\"))" % (n, support, support, n) for n in names))
    return code, None


def variants_of(it):
    out = []
    for part in split_top(it.body):
        attrs, i = read_attrs(part, 0)
        rest = part[i:].strip()
        if not rest:
            continue
        m = re.match(r"([A-Za-z_][A-Za-z0-9_]*)\s*\(\s*(.*?)\s*\)\s*(=.*)?$", rest, re.S)
        if not m:
            raise GenError("instruction set %s: cannot read variant %r" % (it.name, rest[:60]))
        out.append((m.group(1), " ".join(m.group(2).split())))
    return out


def register_lines(accounts, args, path_of, support="::c17_support"):
    """statements registering account facts and codecs of the given items (names rendered by path_of)"""
    lines = []
    for a in accounts:
        p = path_of(a)
        d = derives_of(a.attrs)
        lines.append("    accounts.push(%s::account_facts::<%s>());" % (support, p))
        if "BorshDeserialize" in d:
            if "Debug" in d:
                lines.append("    codecs.push((::star_frame::star_frame_idl::item_source::<%s>(), \"account\", true, %s::borsh_account_codec::<%s>));" % (p, support, p))
        else:
            lines.append("    codecs.push((::star_frame::star_frame_idl::item_source::<%s>(), \"account\", true, %s::unsized_account_codec::<%s>));" % (p, support, p))
    for a in args:
        d = derives_of(a.attrs)
        if a.generics:
            continue
        p = path_of(a)
        if "BorshDeserialize" in d and "BorshSerialize" in d:
            if "Debug" in d:
                lines.append("    codecs.push((::star_frame::star_frame_idl::item_source::<%s>(), \"args\", true, %s::borsh_args_codec::<%s>));" % (p, support, p))
            else:
                lines.append("    codecs.push((::star_frame::star_frame_idl::item_source::<%s>(), \"args\", false, %s::borsh_args_codec_nodebug::<%s>));" % (p, support, p))
    return lines


def file_glue(k, accounts, args, path_of, support="::c17_support"):
    """registration of one file's items, reachable from the crate root through a trait impl (no path needed)"""
    lines = ["#[allow(unused, clippy::all)]",
             "impl %s::FileItems<%d> for crate::__C17Here {" % (support, k),
             "    fn register(accounts: &mut Vec<%s::Value>, codecs: &mut Vec<(String, &'static str, bool, %s::Codec)>) {" % (support, support),
             "    use ::star_frame::prelude::*;"]
    lines += ["    " + x for x in register_lines(accounts, args, path_of, support)]
    lines += ["    }", "}"]
    return "\n".join(lines) + "\n"


def probe_fn(prog_ty, variants, name, file_ids=(), inline=(), fn_name="__c17_probe", support="::c17_support"):
    lines = ["#[allow(non_snake_case, unused, clippy::all)]",
             "pub fn %s() -> %s::Probe {" % (fn_name, support),
             "    use ::star_frame::prelude::*;",
             "    type P = %s;" % prog_ty,
             "    let mut instructions = vec![];",
             "    let mut accounts: Vec<%s::Value> = vec![];" % support,
             "    let mut codecs: Vec<(String, &'static str, bool, %s::Codec)> = vec![];" % support]
    for vname, vty in variants:
        lines.append("    instructions.push(%s::ix_facts::<P, %s, _>(Some(%s::metas_of::<<%s as StarFrameInstruction>::Accounts<'static, 'static>>(&<P as StarFrameProgram>::ID))));" % (
            support, vty, support, vty))
    for k in file_ids:
        lines.append("    <crate::__C17Here as %s::FileItems<%d>>::register(&mut accounts, &mut codecs);" % (support, k))
    lines += list(inline)
    lines.append("    %s::Probe {" % support)
    lines.append("        name: \"%s\"," % name)
    lines.append("        idl: || <P as ::star_frame::idl::ProgramToIdl>::program_to_idl().map_err(|e| format!(\"{e}\")),")
    lines.append("        program_id: <P as StarFrameProgram>::ID.to_bytes(),")
    lines.append("        instructions, accounts, codecs,")
    lines.append("        skipped: vec![],")
    lines.append("    }")
    lines.append("}")
    return "\n".join(lines) + "\n"


def write_if_changed(path, text):
    os.makedirs(os.path.dirname(path), exist_ok=True)
    if os.path.exists(path) and open(path, encoding="utf-8").read() == text:
        return
    with open(path, "w", encoding="utf-8") as f:
        f.write(text)


def cargo_meta(path):
    txt = open(path).read()
    name = re.search(r'^name\s*=\s*"([^"]+)"', txt, re.M).group(1)
    ver = re.search(r'^version\s*=\s*"([^"]+)"', txt, re.M).group(1)
    feats = re.search(r"^\[features\](.*?)(^\[|\Z)", txt, re.M | re.S)
    deps = re.search(r"^\[dependencies\](.*?)(^\[|\Z)", txt, re.M | re.S)
    return name, ver, feats.group(1) if feats else "", deps.group(1) if deps else ""


def gen_example(name):
    """wrapper crate for one example program; returns its directory"""
    src_crate = os.path.join(REPO, "example_programs", name)
    pname, ver, feats, deps = cargo_meta(os.path.join(src_crate, "Cargo.toml"))
    dst = os.path.join(OUT, "gen", name)
    items, files = crate_items(os.path.join(src_crate, "src"), "crate")
    sets, ixsets, programs, accounts, args = classify(items)
    if len(ixsets) != 1 or len(programs) != 1:
        raise GenError("example program %s: expected one InstructionSet enum and one StarFrameProgram struct, found %d / %d" % (
            name, len(ixsets), len(programs)))
    lib = os.path.join(src_crate, "src", "lib.rs")
    appended = {}
    skipped = []
    for it in sets:
        code, why = fill_glue(it, "")
        if code:
            appended.setdefault(it.file, []).append(code)

    if ixsets[0].file != lib:
        raise GenError("example program %s: the InstructionSet enum is not defined in lib.rs" % name)
    file_list = sorted(files)
    file_mod = {}
    for p in file_list:
        rel = os.path.relpath(p, os.path.join(src_crate, "src"))[:-3].split(os.sep)
        if rel[-1] in ("lib", "mod", "main"):
            rel = rel[:-1]
        file_mod[p] = ["crate"] + rel
    used = []
    for k, p in enumerate(file_list):
        accs = [a for a in accounts if a.file == p and not a.generics]
        ars = [a for a in args if a.file == p]
        if not accs and not ars:
            continue

        def path_of(it, base=file_mod[p]):
            return "::".join(it.modpath[len(base):] + [it.name])
        appended.setdefault(p, []).append(file_glue(k, accs, ars, path_of))
        used.append(k)
    probe = "pub struct __C17Here;\n" + probe_fn("::".join(programs[0].modpath + [programs[0].name]), variants_of(ixsets[0]), pname, file_ids=used)
    appended.setdefault(lib, []).append(probe)
    # copy sources, append glue
    for p, raw in files.items():
        rel = os.path.relpath(p, src_crate)
        text = raw
        if p in appended:
            text = raw + "\n// ---- appended by /verif/tools/c17_gen.py (C17 correspondence glue) ----\n" + "\n".join(appended[p])
        write_if_changed(os.path.join(dst, rel), text)
    # drop stale files
    for root, _, fs in os.walk(os.path.join(dst, "src")):
        for fn in fs:
            q = os.path.join(root, fn)
            if os.path.join(src_crate, os.path.relpath(q, dst)) not in files:
                os.remove(q)
    dep_lines = []
    for line in deps.strip().split("\n"):
        line = line.strip()
        m = re.match(r"([A-Za-z0-9_\-]+)\s*=\s*\{\s*workspace\s*=\s*true\s*(,\s*features\s*=\s*(\[[^\]]*\]))?\s*\}", line)
        if not m:
            if line and not line.startswith("#"):
                raise GenError("example program %s: unexpected dependency line %r" % (name, line))
            continue
        dn, fl = m.group(1), m.group(3)
        if dn in ("star_frame", "star_frame_spl"):
            dep_lines.append('%s = { path = "%s/%s"%s }' % (dn, REPO, dn, ", features = " + fl if fl else ""))
        elif dn == "bytemuck":
            dep_lines.append('bytemuck = { version = "1.22", features = ["derive", "min_const_generics", "extern_crate_std"] }')
        elif dn == "borsh":
            dep_lines.append('borsh = { version = "1.5.7", features = ["derive"] }')
        else:
            raise GenError("example program %s: dependency %s is not known to the generator" % (name, dn))
    dep_lines.append('c17_support = { path = "%s" }' % SUPPORT)
    cargo = "[package]\nname = \"%s\"\nversion = \"%s\"\nedition = \"2021\"\npublish = false\n\n[lib]\nname = \"%s\"\ncrate-type = [\"lib\"]\npath = \"src/lib.rs\"\n\n[features]%s\n[dependencies]\n%s\n\n[lints.rust]\nunexpected_cfgs = { level = \"allow\" }\n" % (
        pname, ver, pname, feats.rstrip() + "\n", "\n".join(dep_lines))
    write_if_changed(os.path.join(dst, "Cargo.toml"), cargo)
    return dst, pname


EXT = [
    # (probe fn, crate dir, crate name, file, program type, ixset type)
    ("probe_system", "star_frame", "star_frame", "src/program/system.rs", "::star_frame::program::system::System"),
    ("probe_token", "star_frame_spl", "star_frame_spl", "src/token/instructions.rs", "::star_frame_spl::token::Token"),
    ("probe_ata", "star_frame_spl", "star_frame_spl", "src/associated_token.rs", "::star_frame_spl::associated_token::AssociatedToken"),
]


def gen_ext():
    fills = ["// generated by /verif/tools/c17_gen.py from %s -- do not edit (included by harness_c17/support)" % REPO]
    out = ["// generated by /verif/tools/c17_gen.py from %s -- do not edit" % REPO, "#![allow(unused, clippy::all)]"]
    names = []
    for fn_name, cdir, cname, rel, prog in EXT:
        p = os.path.join(REPO, cdir, rel)
        raw = open(p, encoding="utf-8").read()
        parts = rel[4:-3].split("/")
        if parts[-1] in ("lib", "mod"):
            parts = parts[:-1]
        items = []
        scan(neutralise(raw), 0, len(raw), ["::" + cname] + parts, items, p, drop_private=True)
        sets, ixsets, programs, accounts, args = classify(items)
        if len(ixsets) != 1:
            raise GenError("%s: expected exactly one InstructionSet enum, found %d" % (rel, len(ixsets)))

        def path_of(it):
            return "::".join(it.modpath + [it.name])
        for it in sets:
            code, why = fill_glue(it, "::".join(it.modpath) + "::", support="crate")
            if code:
                fills.append(code)
        ixmod = "::".join(ixsets[0].modpath)
        variants = [(v, ixmod + "::" + t) for v, t in variants_of(ixsets[0])]
        # account types of these programs live in other files: registered by hand in the harness
        out.append(probe_fn(prog, variants, fn_name, inline=register_lines([], args, path_of), fn_name=fn_name))
        names.append(fn_name)
    write_if_changed(os.path.join(OUT, "gen_ext_fill.rs"), "\n".join(fills) + "\n")
    write_if_changed(os.path.join(OUT, "gen_ext.rs"), "\n".join(out) + "\n")
    return names


def example_names():
    d = os.path.join(REPO, "example_programs")
    return sorted(n for n in os.listdir(d) if os.path.exists(os.path.join(d, n, "Cargo.toml")))


def generate():
    """returns [(crate dir, package name)] of the wrapper crates"""
    crates = [gen_example(n) for n in example_names()]
    gen_ext()
    # the list of wrapper crates as a Rust table the harness includes
    tab = ["// generated by /verif/tools/c17_gen.py -- do not edit",
           "pub fn example_probes() -> Vec<c17_support::Probe> {", "    vec!["]
    for _, pname in crates:
        tab.append("        %s::__c17_probe()," % pname)
    tab += ["    ]", "}"]
    write_if_changed(os.path.join(OUT, "gen_examples.rs"), "\n".join(tab) + "\n")
    return crates


if __name__ == "__main__":
    for c in generate():
        print(c)
