#!/usr/bin/env python3
"""Writes harness/src/bin/vh_c14.rs from the shape family of lib/props/c14.py (run by hand when the family changes;
the generated file is committed: the family of the harness is fixed).  usage: python3 tools/gen_c14_harness.py"""
import os
import sys

sys.path.insert(0, os.path.join(os.path.dirname(os.path.abspath(__file__)), ".."))
from lib.props import c14  # noqa: E402

EXTRAS = ["()", "u64", "String", "Vec<u16>", "Option<i32>", "Inner"]


def b(x):
    return "true" if x else "false"


def rty(s):
    k = s[0]
    if k == "leaf":
        t = "AccountInfo"
        for m, v in s[1]:
            t = ("MaybeSigner<%s, %s>" if m == "S" else "MaybeMut<%s, %s>") % (b(v), t)
        return t
    if k == "prog":
        return "Program<System>" if s[1] == c14.SYS else "Program<HProg14>"
    if k == "sysv":
        return "Sysvar<Rent>" if s[1] == c14.RENT else "Sysvar<InstructionsSysvar>"
    if k == "opt":
        return "Option<%s>" % rty(s[1])
    if k == "vec":
        return "Vec<%s>" % rty(s[1])
    if k == "arr":
        return "[%s; %d]" % (rty(s[2]), s[1])
    if k == "box":
        return "Box<%s>" % rty(s[1])
    if k == "rest":
        return "Rest<%s>" % rty(s[1])
    return s[1] + "Accounts"


def arg_expr(s, off):
    """decode-arg expression of shape s, its Vec lengths being arg[off..off+nvec(s)]"""
    k = s[0]
    n = c14.nvec(s)
    if n == 0:
        return "()"
    if k in ("opt", "box", "rest"):
        return arg_expr(s[1], off)
    if k == "arr":
        return "(%s,)" % arg_expr(s[2], off)
    if k == "vec":
        if c14.nvec(s[1]) == 0:
            return "arg[%d] as usize" % off
        return "(arg[%d] as usize, %s)" % (off, arg_expr(s[1], off + 1))
    # nested struct taking [u8; n]
    return "[%s]" % ", ".join("arg[%d]" % (off + i) for i in range(n))


def collect_structs(s, acc):
    k = s[0]
    if k in ("opt", "vec", "box", "rest"):
        collect_structs(s[1], acc)
    elif k == "arr":
        collect_structs(s[2], acc)
    elif k == "struct":
        for f in s[2]:
            collect_structs(f, acc)
        if s[1] not in acc:
            acc[s[1]] = s


def tuple_ty(n):
    """the type of a phase argument made of n u8 fields (what the InstructionArgs derive produces: `(T)` is `T`)"""
    return "()" if n == 0 else "u8" if n == 1 else "(%s)" % ", ".join(["u8"] * n)


def comp(e, n, j):
    return e if n == 1 else "%s.%d" % (e, j)


def phase_count(lay, ph):
    return sum(1 for m in lay["fields"] for x in m if c14.phase_of(x) == ph)


def struct_src(s, toplevel, lay=None):
    name, fs = s[1], s[2]
    n = c14.nvec(s)
    out = []
    out.append("#[derive(AccountSet, Debug)]")
    out.append("#[account_set(skip_default_idl)]")
    if lay is not None:
        # the account set of an argument layout: its phase arguments are the marked u8 fields, and every phase records
        # what it is handed (PHASES)
        nd = phase_count(lay, 0)
        assert nd == n >= 1 and not any(c14.phase_of(x) != 2 for x in lay["self"])
        assert all(c14.nvec(f) == 0 or (f[0] == "vec" and c14.nvec(f[1]) == 0) for f in fs)
        out.append("#[decode(arg = %s)]" % tuple_ty(nd))
        for ph, attr, extra in ((1, "validate", "extra_validation"), (3, "cleanup", "extra_cleanup")):
            k = phase_count(lay, ph)
            if k:
                notes = " ".join("note_phase(%d, %s as i128);" % (ph, comp("arg", k, j)) for j in range(k))
                out.append("#[%s(arg = %s, %s = { %s phase_ok() })]" % (attr, tuple_ty(k), extra, notes))
    elif n > 0 or toplevel:
        out.append("#[decode(arg = [u8; %d])]" % n)
    out.append("pub struct %sAccounts {" % name)
    off = 0
    for i, f in enumerate(fs):
        if c14.nvec(f) > 0:
            if lay is not None:
                out.append("    #[decode(arg = note_decode(%s))]" % comp("arg", n, off))
            else:
                out.append("    #[decode(arg = %s)]" % arg_expr(f, off))
        off += c14.nvec(f)
        out.append("    pub f%d: %s," % (i, rty(f)))
    out.append("}")
    out.append("impl Observe for %sAccounts {" % name)
    out.append("    fn observe(&self, _o: &mut Vec<i128>) {")
    for i in range(len(fs)):
        out.append("        self.f%d.observe(_o);" % i)
    out.append("    }")
    out.append("}")
    out.append("impl ClientBuild for %sAccounts {" % name)
    out.append("    fn build(_c: &mut Cur) -> Option<Self::ClientAccounts> {")
    out.append("        Some(%sClientAccounts {" % name)
    for i, f in enumerate(fs):
        out.append("            f%d: <%s as ClientBuild>::build(_c)?," % (i, rty(f)))
    out.append("        })")
    out.append("    }")
    out.append("}")
    return "\n".join(out) + "\n"


def layout_ix_src(i, lay):
    """instruction `T<i>Ix` of an argument layout (fields x0.. : u8) over `T<i>Accounts`"""
    s = c14.top(i)
    n = c14.nvec(s)
    cpi = c14.cpi_compiles(s)
    tup = lay["tuple"]
    fields = lay["fields"]

    def fld(e, j):
        return "%s.%d" % (e, j) if tup else "%s.x%d" % (e, j)

    o = []
    o.append("// %s" % c14.show_layout(lay))
    o.append("#[derive(BorshSerialize, BorshDeserialize, Debug, Clone, InstructionArgs)]")
    o.append("#[instruction_args(skip_idl)]")
    if lay["self"]:
        o.append("#[ix_args(%s)]" % ", ".join(lay["self"]))
    decl = []
    for j, m in enumerate(fields):
        a = "#[ix_args(%s)] " % ", ".join(m) if m else ""
        decl.append("%spub %su8" % (a, "" if tup else "x%d: " % j))
    if tup:
        o.append("pub struct T%dIx(%s);" % (i, ", ".join(decl)))
    else:
        o.append("pub struct T%dIx {" % i)
        o += ["    %s," % d for d in decl]
        o.append("}")
    # the components of the run argument: the struct itself first, then the marked fields (declaration order)
    runs = [("self", m) for m in lay["self"] if c14.phase_of(m) == 2]
    runs += [(j, x) for j, m in enumerate(fields) for x in m if c14.phase_of(x) == 2]
    o.append("impl StarFrameInstruction for T%dIx {" % i)
    o.append("    type ReturnType = ();")
    o.append("    type Accounts<'decode, 'arg> = T%dAccounts;" % i)
    o.append("    fn process(accounts: &mut Self::Accounts<'_, '_>, run_arg: Self::RunArg<'_>, _ctx: &mut Context) -> Result<()> {")
    o.append("        note_process(&*accounts, &run_arg);")
    for k, (what, mark) in enumerate(runs):
        e = comp("run_arg", len(runs), k)
        if what == "self":
            for j in range(len(fields)):
                o.append("        note_phase(2, %s as i128);" % fld(e, j))
        else:
            o.append("        note_phase(2, %s%s as i128);" % ("*" if mark.startswith("&") else "", e))
    if cpi:
        o.append("        observe_cpi::<T%dAccounts, T%dIx>(&*accounts);" % (i, i))
    else:
        o.append("        no_cpi::<T%dAccounts>();" % i)
    o.append("        Ok(())")
    o.append("    }")
    o.append("}")
    # the client side: the decode-marked fields are the Vec lengths of the case, the other fields follow the client value
    dec = [j for j, m in enumerate(fields) if c14.is_decode_field(m)]
    val = [j for j, m in enumerate(fields) for x in m if c14.phase_of(x) == 1]
    o.append("fn run_t%d(c: &[i128]) -> Vec<i128> {" % i)
    o.append("    run::<T%dAccounts, T%dIx, %s, %s, %d>(c, |lens, cur| {" % (i, i, tuple_ty(len(dec)), tuple_ty(len(val)), n))
    for j, m in enumerate(fields):
        if j in dec:
            o.append("        let x%d = lens[%d];" % (j, dec.index(j)))
        else:
            o.append("        let x%d = cur.next()? as u8;" % j)
    names = ", ".join("x%d" % j for j in range(len(fields)))
    ix = "T%dIx(%s)" % (i, names) if tup else "T%dIx { %s }" % (i, names)

    def tup_of(js):
        return "()" if not js else "x%d" % js[0] if len(js) == 1 else "(%s)" % ", ".join("x%d" % j for j in js)

    o.append("        Some((%s, %s, %s))" % (ix, tup_of(dec), tup_of(val)))
    o.append("    })")
    o.append("}")
    return "\n".join(o) + "\n"


def ix_src(i):
    lay = c14.layout_of(i)
    if lay is not None:
        return layout_ix_src(i, lay)
    s = c14.top(i)
    n = c14.nvec(s)
    ex = EXTRAS[i % len(EXTRAS)]
    cpi = c14.cpi_compiles(s)
    o = []
    o.append("#[derive(BorshSerialize, BorshDeserialize, Debug, Clone, InstructionArgs)]")
    o.append("#[instruction_args(skip_idl)]")
    o.append("pub struct T%dIx {" % i)
    o.append("    #[ix_args(decode)]")
    o.append("    pub lens: [u8; %d]," % n)
    o.append("    #[ix_args(&run)]")
    o.append("    pub extra: %s," % ex)
    o.append("}")
    o.append("impl StarFrameInstruction for T%dIx {" % i)
    o.append("    type ReturnType = ();")
    o.append("    type Accounts<'decode, 'arg> = T%dAccounts;" % i)
    o.append("    fn process(accounts: &mut Self::Accounts<'_, '_>, run_arg: Self::RunArg<'_>, _ctx: &mut Context) -> Result<()> {")
    o.append("        note_process(&*accounts, run_arg);")
    if cpi:
        o.append("        observe_cpi::<T%dAccounts, T%dIx>(&*accounts);" % (i, i))
    else:
        o.append("        no_cpi::<T%dAccounts>();" % i)
    o.append("        Ok(())")
    o.append("    }")
    o.append("}")
    o.append("fn run_t%d(c: &[i128]) -> Vec<i128> {" % i)
    o.append("    run::<T%dAccounts, T%dIx, [u8; %d], (), %d>(c, |lens, cur| {" % (i, i, n, n))
    o.append("        let extra = <%s as ExtraBuild>::build(cur)?;" % ex)
    o.append("        Some((T%dIx { lens, extra }, lens, ()))" % i)
    o.append("    })")
    o.append("}")
    return "\n".join(o) + "\n"


HEAD = r'''//! C14 harness.  GENERATED by tools/gen_c14_harness.py from lib/props/c14.py (FAMILY) - edit those, not this file.
//!
//! For every shape: a derived AccountSet `T<i>Accounts` and an instruction `T<i>Ix` of program HProg14.  Per case the
//! harness (1) builds the instruction with the real client helpers (`MakeInstruction::instruction`), (2) constructs
//! native accounts matching the metas and runs `decode_accounts` + `validate_accounts` directly, (3) runs the
//! program's own entry path (`InstructionSet::dispatch`), whose `process` records the decoded account set, echoes the
//! run argument (the argument layouts also record the argument EVERY phase is handed: decode, validate, run, cleanup) and builds a CPI of the same instruction from the decoded set (`MakeCpi::cpi(..).invoke()`), the
//! metas / infos / data handed to the runtime being captured with `star_frame::verif_hooks::set_cpi_handler`.
//!
//! case: shape_index shape_len shape.. K lens(K) client-value-stream extra-args-stream
#![allow(non_snake_case, clippy::all)]
use star_frame::account_set::modifiers::{MaybeMut, MaybeSigner};
use star_frame::account_set::sysvar::{InstructionsSysvar, SysvarId};
use star_frame::account_set::{AccountSetDecode, AccountSetValidate, ClientAccountSet, CpiAccountSet};
use star_frame::client::MakeInstruction;
use star_frame::cpi::{CpiProgramInput, HandleCpiArray, MakeCpi};
use star_frame::instruction::{InstructionDiscriminant, InstructionSet as InstructionSetTrait};
use star_frame::pinocchio::sysvars::rent::Rent;
use star_frame::prelude::*;
use star_frame::typenum::{self, Bit, Unsigned};
use star_frame::verif_hooks::{set_cpi_handler, CpiRecord};
use std::any::Any;
use std::cell::{Cell, RefCell};
use std::rc::Rc;
use vh::*;

const PROG_ID: Pubkey = Pubkey::new_from_array([77; 32]);

#[derive(StarFrameProgram, Debug, Clone, Copy)]
#[program(instruction_set = Set14, id = PROG_ID, no_entrypoint, skip_idl)]
pub struct HProg14;

// ---- keys <-> small ids ----------------------------------------------------------------------------------------
fn key_of(id: i128) -> Pubkey {
    match id {
        0..=255 => Pubkey::new_from_array([id as u8; 32]),
        1000 => <Rent as SysvarId>::id(),
        1001 => <InstructionsSysvar as SysvarId>::id(),
        _ => Pubkey::new_from_array([1, 2, 3, 4, 5, 6, 7, 8, 9, 10, 11, 12, 13, 14, 15, 16, 1, 2, 3, 4, 5, 6, 7, 8, 9, 10, 11, 12, 13, 14, 15, 16]),
    }
}
fn id_of(k: &[u8; 32]) -> i128 {
    if k.iter().all(|b| *b == k[0]) {
        return k[0] as i128;
    }
    if *k == <Rent as SysvarId>::id().to_bytes() {
        return 1000;
    }
    if *k == <InstructionsSysvar as SysvarId>::id().to_bytes() {
        return 1001;
    }
    -1
}

// ---- client values from the case -------------------------------------------------------------------------------
trait ClientBuild: ClientAccountSet {
    fn build(c: &mut Cur) -> Option<Self::ClientAccounts>;
}
impl ClientBuild for AccountInfo {
    fn build(c: &mut Cur) -> Option<Pubkey> {
        Some(key_of(c.next()?))
    }
}
impl<const B: bool, T> ClientBuild for MaybeSigner<B, T>
where
    MaybeSigner<B, T>: ClientAccountSet<ClientAccounts = Pubkey>,
{
    fn build(c: &mut Cur) -> Option<Pubkey> {
        Some(key_of(c.next()?))
    }
}
impl<const B: bool, T> ClientBuild for MaybeMut<B, T>
where
    MaybeMut<B, T>: ClientAccountSet<ClientAccounts = Pubkey>,
{
    fn build(c: &mut Cur) -> Option<Pubkey> {
        Some(key_of(c.next()?))
    }
}
fn opt_key(c: &mut Cur) -> Option<Option<Pubkey>> {
    Some(if c.next()? == 0 { None } else { Some(key_of(c.next()?)) })
}
impl<T: StarFrameProgram> ClientBuild for Program<T> {
    fn build(c: &mut Cur) -> Option<Option<Pubkey>> {
        opt_key(c)
    }
}
impl<T: SysvarId> ClientBuild for Sysvar<T> {
    fn build(c: &mut Cur) -> Option<Option<Pubkey>> {
        opt_key(c)
    }
}
impl<T: ClientBuild> ClientBuild for Option<T> {
    fn build(c: &mut Cur) -> Option<Self::ClientAccounts> {
        Some(if c.next()? == 0 { None } else { Some(T::build(c)?) })
    }
}
impl<T: ClientBuild> ClientBuild for Vec<T> {
    fn build(c: &mut Cur) -> Option<Self::ClientAccounts> {
        let n = c.next()?;
        (0..n).map(|_| T::build(c)).collect()
    }
}
impl<T: ClientBuild> ClientBuild for Rest<T> {
    fn build(c: &mut Cur) -> Option<Self::ClientAccounts> {
        let n = c.next()?;
        (0..n).map(|_| T::build(c)).collect()
    }
}
impl<T: ClientBuild> ClientBuild for Box<T> {
    fn build(c: &mut Cur) -> Option<Self::ClientAccounts> {
        T::build(c)
    }
}
impl<T: ClientBuild, const N: usize> ClientBuild for [T; N] {
    fn build(c: &mut Cur) -> Option<Self::ClientAccounts> {
        let v: Option<Vec<T::ClientAccounts>> = (0..N).map(|_| T::build(c)).collect();
        v?.try_into().ok()
    }
}

// ---- decoded account sets -> observation -----------------------------------------------------------------------
trait Observe {
    fn observe(&self, o: &mut Vec<i128>);
}
fn obs_info(i: &AccountInfo, o: &mut Vec<i128>) {
    o.push(id_of(i.key()));
    o.push(i.is_signer() as i128);
    o.push(i.is_writable() as i128);
}
impl Observe for AccountInfo {
    fn observe(&self, o: &mut Vec<i128>) {
        obs_info(self, o)
    }
}
impl<const B: bool, T: SingleAccountSet> Observe for MaybeSigner<B, T> {
    fn observe(&self, o: &mut Vec<i128>) {
        obs_info(SingleAccountSet::account_info(self), o)
    }
}
impl<const B: bool, T: SingleAccountSet> Observe for MaybeMut<B, T> {
    fn observe(&self, o: &mut Vec<i128>) {
        obs_info(SingleAccountSet::account_info(self), o)
    }
}
impl<T: StarFrameProgram> Observe for Program<T> {
    fn observe(&self, o: &mut Vec<i128>) {
        obs_info(SingleAccountSet::account_info(self), o)
    }
}
impl<T: SysvarId> Observe for Sysvar<T> {
    fn observe(&self, o: &mut Vec<i128>) {
        obs_info(SingleAccountSet::account_info(self), o)
    }
}
impl<T: Observe> Observe for Option<T> {
    fn observe(&self, o: &mut Vec<i128>) {
        match self {
            None => o.push(0),
            Some(x) => {
                o.push(1);
                x.observe(o)
            }
        }
    }
}
impl<T: Observe> Observe for Vec<T> {
    fn observe(&self, o: &mut Vec<i128>) {
        o.push(self.len() as i128);
        for x in self {
            x.observe(o)
        }
    }
}
impl<T: Observe> Observe for Rest<T> {
    fn observe(&self, o: &mut Vec<i128>) {
        let v: &Vec<T> = self;
        v.observe(o)
    }
}
impl<T: Observe> Observe for Box<T> {
    fn observe(&self, o: &mut Vec<i128>) {
        (**self).observe(o)
    }
}
impl<T: Observe, const N: usize> Observe for [T; N] {
    fn observe(&self, o: &mut Vec<i128>) {
        o.push(N as i128);
        for x in self {
            x.observe(o)
        }
    }
}

// ---- extra (run) arguments -------------------------------------------------------------------------------------
#[derive(BorshSerialize, BorshDeserialize, Debug, Clone, PartialEq)]
pub struct Inner {
    pub a: u8,
    pub b: [u8; 4],
    pub c: bool,
}
trait ExtraBuild: Sized {
    fn build(c: &mut Cur) -> Option<Self>;
}
impl ExtraBuild for () {
    fn build(_c: &mut Cur) -> Option<Self> {
        Some(())
    }
}
impl ExtraBuild for u64 {
    fn build(c: &mut Cur) -> Option<Self> {
        Some(c.next()? as u64)
    }
}
impl ExtraBuild for String {
    fn build(c: &mut Cur) -> Option<Self> {
        let n = c.next()?;
        let b: Vec<u8> = c.take(n as usize)?.iter().map(|x| *x as u8).collect();
        String::from_utf8(b).ok()
    }
}
impl ExtraBuild for Vec<u16> {
    fn build(c: &mut Cur) -> Option<Self> {
        let n = c.next()?;
        Some(c.take(n as usize)?.iter().map(|x| *x as u16).collect())
    }
}
impl ExtraBuild for Option<i32> {
    fn build(c: &mut Cur) -> Option<Self> {
        Some(if c.next()? == 0 { None } else { Some(c.next()? as i32) })
    }
}
impl ExtraBuild for Inner {
    fn build(c: &mut Cur) -> Option<Self> {
        let a = c.next()? as u8;
        let b: Vec<u8> = c.take(4)?.iter().map(|x| *x as u8).collect();
        Some(Inner { a, b: b.try_into().ok()?, c: c.next()? != 0 })
    }
}

// ---- what `process` records ------------------------------------------------------------------------------------
thread_local! {
    static OBS_TREE: RefCell<Option<Vec<i128>>> = const { RefCell::new(None) };
    static OBS_ARGS: RefCell<Option<Vec<u8>>> = const { RefCell::new(None) };
    /// (phase, value): the argument every phase of the entry path was handed (0 decode, 1 validate, 2 run, 3 cleanup),
    /// in the order they ran; filled by the argument layouts (instructions routing single fields to the phases)
    static PHASES: RefCell<Vec<i128>> = const { RefCell::new(Vec::new()) };
    static OBS_CPI: RefCell<Vec<i128>> = const { RefCell::new(Vec::new()) };
    static CUR_IX: RefCell<Option<Box<dyn Any>>> = const { RefCell::new(None) };
    static CLIENT_DATA: RefCell<Vec<u8>> = const { RefCell::new(Vec::new()) };
    static PROG_INFO: Cell<Option<AccountInfo>> = const { Cell::new(None) };
}

fn note_phase(phase: i128, value: i128) {
    PHASES.with(|p| p.borrow_mut().extend([phase, value]));
}
fn phase_ok() -> Result<()> {
    Ok(())
}
/// decode argument of a Vec field of an argument layout: records the length the decode phase was handed
fn note_decode(len: u8) -> usize {
    note_phase(0, len as i128);
    len as usize
}

fn note_process<A: Observe, E: BorshSerialize>(accounts: &A, run_arg: &E) {
    let mut t = vec![];
    accounts.observe(&mut t);
    OBS_TREE.with(|o| *o.borrow_mut() = Some(t));
    let mut b = vec![];
    run_arg.serialize(&mut b).unwrap();
    OBS_ARGS.with(|o| *o.borrow_mut() = Some(b));
}

trait ProgIn: CpiProgramInput<HProg14> {
    fn mk<'a>(info: &'a AccountInfo) -> <Self as CpiProgramInput<HProg14>>::Input<'a>;
}
impl ProgIn for typenum::False {
    fn mk<'a>(_info: &'a AccountInfo) -> Option<&'a Pubkey> {
        None
    }
}
impl ProgIn for typenum::True {
    fn mk<'a>(info: &'a AccountInfo) -> &'a AccountInfo {
        info
    }
}

fn no_cpi<A: CpiAccountSet>() {
    let o = vec![0, <A::AccountLen as Unsigned>::USIZE as i128, <A::ContainsOption as Bit>::BOOL as i128];
    OBS_CPI.with(|c| *c.borrow_mut() = o);
}

fn observe_cpi<A, I>(accounts: &A)
where
    A: CpiAccountSet + 'static,
    A::AccountLen: HandleCpiArray,
    A::ContainsOption: ProgIn,
    I: Clone + 'static + BorshSerialize + StarFrameInstruction<Accounts<'static, 'static> = A> + InstructionDiscriminant<Set14>,
{
    let ix: I = CUR_IX.with(|c| c.borrow().as_ref().unwrap().downcast_ref::<I>().unwrap().clone());
    let prog = PROG_INFO.with(|p| p.get()).unwrap();
    let mut o = vec![1, <A::AccountLen as Unsigned>::USIZE as i128, <A::ContainsOption as Bit>::BOOL as i128];
    let rec: Rc<RefCell<Option<Vec<i128>>>> = Rc::new(RefCell::new(None));
    let rec2 = rec.clone();
    set_cpi_handler(Some(Box::new(move |r: &CpiRecord| {
        let mut v = vec![];
        v.push(id_of(&r.program_id));
        v.push(r.metas.len() as i128);
        for (k, s, w) in &r.metas {
            v.push(id_of(k));
            v.push(*s as i128);
            v.push(*w as i128);
        }
        v.push(r.infos.len() as i128);
        for i in &r.infos {
            v.push(id_of(i.key()));
        }
        v.push(CLIENT_DATA.with(|d| d.borrow().as_slice() == r.data) as i128);
        *rec2.borrow_mut() = Some(v);
        Ok(())
    })));
    let cpi_accounts = accounts.to_cpi_accounts();
    let res = guarded(|| HProg14::cpi::<I, A>(ix, cpi_accounts, <A::ContainsOption as ProgIn>::mk(&prog)).invoke());
    set_cpi_handler(None);
    match res {
        Ok(Ok(())) => match rec.borrow_mut().take() {
            Some(v) => {
                o.push(0);
                o.extend(v);
            }
            None => o.push(-5),
        },
        Ok(Err(e)) => {
            o.push(1);
            o.push(err_code(e) as i128);
        }
        Err(()) => o.push(2),
    }
    OBS_CPI.with(|c| *c.borrow_mut() = o);
}

fn tag_of<T>(r: std::result::Result<Result<T>, ()>, o: &mut Vec<i128>) -> Option<T> {
    match r {
        Ok(Ok(v)) => {
            o.push(0);
            Some(v)
        }
        Ok(Err(e)) => {
            o.push(1);
            o.push(err_code(e) as i128);
            None
        }
        Err(()) => {
            o.push(2);
            None
        }
    }
}

/// `mk` builds the instruction from the Vec lengths and the rest of the case, and returns with it the decode and validate
/// arguments the instruction's marked fields hold (for the direct decode + validate of step B)
fn run<A, I, D, V, const K: usize>(c: &[i128], mk: fn([u8; K], &mut Cur) -> Option<(I, D, V)>) -> Vec<i128>
where
    A: ClientBuild + Observe + for<'a> AccountSetDecode<'a, D> + AccountSetValidate<V> + 'static,
    I: Clone + 'static + BorshSerialize + StarFrameInstruction<Accounts<'static, 'static> = A> + InstructionDiscriminant<Set14>,
{
    let mut cur = Cur::new(c);
    let bad = |n: i128| vec![n];
    let (Some(_sidx), Some(slen)) = (cur.next(), cur.next()) else { return bad(-1) };
    if cur.take(slen as usize).is_none() {
        return bad(-1);
    }
    if cur.next() != Some(K as i128) {
        return bad(-2);
    }
    let Some(lens) = cur.take(K) else { return bad(-1) };
    let lens: [u8; K] = lens.iter().map(|x| *x as u8).collect::<Vec<_>>().try_into().unwrap();
    let Some(client) = A::build(&mut cur) else { return bad(-3) };
    let Some((ix, dec_arg, val_arg)) = mk(lens, &mut cur) else { return bad(-3) };

    let mut o = vec![];
    // A. the client instruction
    let sol = match guarded(|| HProg14::instruction::<I, A>(&ix, client)) {
        Ok(Ok(s)) => s,
        _ => return bad(-6),
    };
    if sol.program_id != PROG_ID {
        return bad(-7);
    }
    o.push(sol.accounts.len() as i128);
    for m in &sol.accounts {
        o.push(id_of(&m.pubkey.to_bytes()));
        o.push(m.is_signer as i128);
        o.push(m.is_writable as i128);
    }
    // native accounts matching the metas
    let natives: Vec<NativeAccount> = sol
        .accounts
        .iter()
        .map(|m| NativeAccount::new(m.pubkey.to_bytes(), [0; 32], 1, &[], m.is_signer, m.is_writable, false))
        .collect();
    let infos: Vec<AccountInfo> = natives.iter().map(|n| n.info()).collect();
    let prog_native = NativeAccount::new(PROG_ID.to_bytes(), [2; 32], 1, &[], false, false, true);
    PROG_INFO.with(|p| p.set(Some(prog_native.info())));
    static PID: Pubkey = PROG_ID;

    // B. decode + validate, directly
    let mut tree_b = None;
    {
        let mut ctx = Context::new(&PID);
        let mut rest: &[AccountInfo] = &infos;
        let dec = guarded(|| A::decode_accounts(&mut rest, dec_arg, &mut ctx));
        if let Some(mut set) = tag_of(dec, &mut o) {
            o.push(rest.len() as i128);
            let mut t = vec![];
            set.observe(&mut t);
            o.extend(t.iter().copied());
            tree_b = Some(t);
            let v = guarded(|| set.validate_accounts(val_arg, &mut ctx));
            tag_of(v, &mut o);
        }
    }
    // C. the program's own entry path
    OBS_TREE.with(|t| *t.borrow_mut() = None);
    OBS_ARGS.with(|t| *t.borrow_mut() = None);
    OBS_CPI.with(|t| t.borrow_mut().clear());
    PHASES.with(|p| p.borrow_mut().clear());
    CUR_IX.with(|x| *x.borrow_mut() = Some(Box::new(ix.clone())));
    CLIENT_DATA.with(|d| *d.borrow_mut() = sol.data.clone());
    let r = guarded(|| <Set14 as InstructionSetTrait>::dispatch(&PID, &infos, &sol.data));
    tag_of(r, &mut o);
    let phases: Vec<i128> = PHASES.with(|p| p.borrow().clone());
    let tree_c = OBS_TREE.with(|t| t.borrow_mut().take());
    match &tree_c {
        Some(t) => {
            o.push(1);
            o.push((Some(t) == tree_b.as_ref()) as i128);
            // D. the CPI built from the decoded set
            OBS_CPI.with(|c| o.extend(c.borrow().iter().copied()));
        }
        None => o.push(0),
    }
    let cpi_exact: Vec<i128> = OBS_CPI.with(|c| c.borrow().clone());
    let reached_exact = tree_c.is_some();
    // E. arguments (judged by the predicate only)
    o.push(-777);
    o.push(sol.data.len() as i128);
    o.extend(sol.data.iter().map(|b| *b as i128));
    match OBS_ARGS.with(|a| a.borrow_mut().take()) {
        Some(b) => {
            o.push(b.len() as i128);
            o.extend(b.iter().map(|x| *x as i128));
        }
        None => o.push(-1),
    }
    // the argument every phase of the entry path (step C) was handed
    o.push(-780);
    o.push((phases.len() / 2) as i128);
    o.extend(phases.iter().copied());
    // F. the same instruction again, with every account holding MORE privileges than the metas ask for (the caller's
    //    fee payer is signer + writable whatever the callee declares): the CPI view must not change
    o.push(-778);
    if reached_exact {
        let natives2: Vec<NativeAccount> = sol
            .accounts
            .iter()
            .map(|m| NativeAccount::new(m.pubkey.to_bytes(), [0; 32], 1, &[], true, true, false))
            .collect();
        let infos2: Vec<AccountInfo> = natives2.iter().map(|n| n.info()).collect();
        OBS_TREE.with(|t| *t.borrow_mut() = None);
        OBS_ARGS.with(|t| *t.borrow_mut() = None);
        OBS_CPI.with(|t| t.borrow_mut().clear());
        let r2 = guarded(|| <Set14 as InstructionSetTrait>::dispatch(&PID, &infos2, &sol.data));
        let cpi_over: Vec<i128> = OBS_CPI.with(|c| c.borrow().clone());
        match r2 {
            Ok(Ok(())) => o.push((cpi_over == cpi_exact) as i128),
            _ => o.push(-1),
        }
    } else {
        o.push(2);
    }
    // G. once more with the metas' flags but accounts in another STATE (no lamports, foreign owner, data): decode, the
    //    entry path and the CPI view speak about keys and flags only
    o.push(-779);
    if reached_exact {
        let natives3: Vec<NativeAccount> = sol
            .accounts
            .iter()
            .map(|m| NativeAccount::new(m.pubkey.to_bytes(), [7; 32], 0, &[9u8; 16], m.is_signer, m.is_writable, false))
            .collect();
        let infos3: Vec<AccountInfo> = natives3.iter().map(|n| n.info()).collect();
        OBS_TREE.with(|t| *t.borrow_mut() = None);
        OBS_ARGS.with(|t| *t.borrow_mut() = None);
        OBS_CPI.with(|t| t.borrow_mut().clear());
        let r3 = guarded(|| <Set14 as InstructionSetTrait>::dispatch(&PID, &infos3, &sol.data));
        let cpi3: Vec<i128> = OBS_CPI.with(|c| c.borrow().clone());
        let tree3 = OBS_TREE.with(|t| t.borrow_mut().take());
        match r3 {
            Ok(Ok(())) => o.push((cpi3 == cpi_exact && tree3 == tree_c) as i128),
            _ => o.push(-1),
        }
    } else {
        o.push(2);
    }
    CUR_IX.with(|x| *x.borrow_mut() = None);
    PROG_INFO.with(|p| p.set(None));
    o
}

'''

TAIL = r'''
/// Runs one case in a forked child with an address-space limit and an alarm: a decode loop that never ends (Rest<T>
/// over an element that consumes nothing) or runs out of memory becomes the observation `-9` instead of taking the
/// whole harness down.
fn isolated(f: Runner, c: &[i128]) -> Vec<i128> {
    unsafe {
        let mut fds = [0i32; 2];
        if libc::pipe(fds.as_mut_ptr()) != 0 {
            return f(c);
        }
        let pid = libc::fork();
        if pid < 0 {
            return f(c);
        }
        if pid == 0 {
            libc::close(fds[0]);
            let lim = libc::rlimit { rlim_cur: 3 << 30, rlim_max: 3 << 30 };
            libc::setrlimit(libc::RLIMIT_AS, &lim);
            libc::alarm(20);
            let obs = f(c);
            let text = obs.iter().map(|x| x.to_string()).collect::<Vec<_>>().join(" ");
            let bytes = text.as_bytes();
            let mut off = 0;
            while off < bytes.len() {
                let n = libc::write(fds[1], bytes[off..].as_ptr().cast(), bytes.len() - off);
                if n <= 0 {
                    break;
                }
                off += n as usize;
            }
            libc::_exit(0);
        }
        libc::close(fds[1]);
        let mut buf = vec![];
        let mut chunk = [0u8; 65536];
        loop {
            let n = libc::read(fds[0], chunk.as_mut_ptr().cast(), chunk.len());
            if n <= 0 {
                break;
            }
            buf.extend_from_slice(&chunk[..n as usize]);
        }
        libc::close(fds[0]);
        let mut status = 0i32;
        libc::waitpid(pid, &mut status, 0);
        if !(libc::WIFEXITED(status) && libc::WEXITSTATUS(status) == 0) {
            return vec![-9];
        }
        String::from_utf8_lossy(&buf).split_whitespace().filter_map(|t| t.parse::<i128>().ok()).collect()
    }
}

fn main() {
    quiet_panics();
    let args: Vec<String> = std::env::args().collect();
    let fam = family();
    let cases = read_cases(&args[1]);
    let mut o = Out::new();
    for (id, c) in &cases {
        let obs = match c.first().and_then(|i| fam.get(*i as usize)) {
            Some(f) => isolated(*f, c),
            None => vec![-4],
        };
        o.line(id, &obs);
    }
    o.flush();
}
'''


def main():
    out = [HEAD]
    structs = {}
    for i in range(len(c14.FAMILY)):
        collect_structs(c14.top(i), structs)
    out.append("// ---- nested account sets ----\n")
    for name, s in structs.items():
        if not name.startswith("T"):
            out.append(struct_src(s, False))
    out.append("// ---- top-level account sets and their instructions ----\n")
    for i in range(len(c14.FAMILY)):
        out.append("// shape %d: %s\n" % (i, c14.show(c14.top(i))))
        out.append(struct_src(c14.top(i), True, c14.layout_of(i)))
        out.append(ix_src(i))
    out.append("#[derive(InstructionSet)]\n#[ix_set(use_repr, skip_idl)]\n#[repr(u8)]\npub enum Set14 {\n")
    for i in range(len(c14.FAMILY)):
        out.append("    T%d(T%dIx),\n" % (i, i))
    out.append("}\n\n")
    out.append("type Runner = fn(&[i128]) -> Vec<i128>;\nfn family() -> Vec<Runner> {\n    vec![\n")
    for i in range(len(c14.FAMILY)):
        out.append("        run_t%d as Runner,\n" % i)
    out.append("    ]\n}\n")
    out.append(TAIL)
    path = os.path.join(os.path.dirname(os.path.abspath(__file__)), "..", "harness", "src", "bin", "vh_c14.rs")
    with open(path, "w") as f:
        f.write("".join(out))
    print("wrote", os.path.normpath(path), "with", len(c14.FAMILY), "shapes,", len(structs) - len(c14.FAMILY), "nested sets")


if __name__ == "__main__":
    main()
