#!/usr/bin/env python3
"""One-off helper: derive coq/Pins/<P>.v from coq/Properties/<P>.v (the pins file is then committed and is the
independent copy against which later edits of the Properties file are checked).  usage: gen_pins.py C08 'imports'"""
import re
import sys
prop, imports = sys.argv[1], sys.argv[2]
src = open('/verif/coq/Properties/%s.v' % prop).read()
thms = re.findall(r"Theorem (\w+) :\n?(.*?)\nProof\.", src, re.S)
out = ["(* Pinned statements of %s: re-checked on every run. *)" % prop,
       "From SF Require Import %s Properties.%s." % (imports, prop), ""]
for n, st in thms:
    out.append("Check (%s :\n%s)." % (n, st.rstrip().rstrip('.')))
out.append("")
for n, _ in thms:
    out.append("Print Assumptions %s." % n)
open('/verif/coq/Pins/%s.v' % prop, 'w').write("\n".join(out) + "\n")
print(len(thms), "theorems pinned")
