"""C16: what the System / SPL Token / Associated Token bindings DECLARE, re-extracted from the sources on every run.

Purely lexical extraction (names, Rust type texts, discriminants, id literals); what a type text MEANS on the wire
(`u64` = 8 bytes little endian, `Mut<Signer>` = writable signer meta ...) is decided by the Coq model
(coq/Wire/Desc.v), not here.  Emits into coq/Gen/Gen_c16.v

  SF_<PROG>_REPR : Z                        byte width of the instruction-set enum's `#[repr(uN)]`
  SF_<PROG>_IXS  : list (string * Z * list (string * string) * list (string * string))
        (instruction name, repr discriminant, argument struct fields (name, type), account-set fields (name, type))
        in declaration order of the `#[ix_set(use_repr)]` enum
  SF_AUTHORITY_TYPE_VARIANTS, SF_ACCOUNT_STATE_VARIANTS : list string      (borsh / repr(u8) variant order)
  SF_SYSTEM_ID, SF_TOKEN_ID, SF_ATA_ID, SF_RENT_ID, SF_RECENT_BLOCKHASHES_ID : list Z   (32 bytes)
  SF_MINT_LAYOUT, SF_TOKENACC_LAYOUT : list (string * string)    fields of the `#[repr(C, packed)]` state structs
  SF_MINT_LEN, SF_TOKENACC_LEN : Z
  SF_POD_OPTION_FIELDS : list (string * string) ; SF_POD_NONE, SF_POD_SOME : list Z
  SF_ATA_SEEDS : list string               the seed expressions of AssociatedToken::find_address_with_bump, normalised
It raises when a pattern no longer matches (reported as a broken tie of C16).
"""
import glob
import os
import re

REPO = os.environ.get("VERIF_REPO", "/repo")

B58 = "123456789ABCDEFGHJKLMNPQRSTUVWXYZabcdefghijkmnopqrstuvwxyz"


def b58_32(s):
    n = 0
    for ch in s:
        if ch not in B58:
            raise Exception("not base58: %r" % s)
        n = n * 58 + B58.index(ch)
    raw = n.to_bytes(32, "big") if n < (1 << 256) else None
    if raw is None:
        raise Exception("base58 id longer than 32 bytes: %r" % s)
    # leading '1's are leading zero bytes; with a fixed 32-byte width that is already the case
    return list(raw)


def read(rel):
    return open(os.path.join(REPO, rel), encoding="utf-8").read()


def strip_comments(src):
    return re.sub(r"//[^\n]*", "", src)


def strip_attrs(src):
    """remove every #[...] / #![...] attribute (bracket matched)"""
    out = []
    i = 0
    n = len(src)
    while i < n:
        if src[i] == "#" and (src[i + 1:i + 2] == "[" or src[i + 1:i + 3] == "!["):
            j = src.index("[", i)
            depth = 0
            while True:
                if src[j] == "[":
                    depth += 1
                elif src[j] == "]":
                    depth -= 1
                    if depth == 0:
                        break
                j += 1
                if j >= n:
                    raise Exception("unterminated attribute")
            i = j + 1
        else:
            out.append(src[i])
            i += 1
    return "".join(out)


def matching(src, i, op, cl):
    depth = 0
    j = i
    while j < len(src):
        if src[j] == op:
            depth += 1
        elif src[j] == cl:
            depth -= 1
            if depth == 0:
                return j
        j += 1
    raise Exception("unbalanced %s%s" % (op, cl))


def split_top(body):
    """split on commas that are not inside <>, (), [] or {}"""
    items, depth, cur = [], 0, []
    for ch in body:
        if ch in "<([{":
            depth += 1
        elif ch in ">)]}":
            depth -= 1
        if ch == "," and depth == 0:
            items.append("".join(cur))
            cur = []
        else:
            cur.append(ch)
    items.append("".join(cur))
    return [x.strip() for x in items if x.strip()]


def norm_ty(t):
    t = re.sub(r"\s+", "", t)
    return t.replace(";", "; ")


def struct_fields(clean, name):
    """clean = comment- and attribute-free source.  returns list of (field, type)"""
    m = re.search(r"\bpub struct %s\b\s*(<[^>{(;]*>)?\s*(?:where[^{;]*)?([;{(])" % re.escape(name), clean)
    if not m:
        raise Exception("struct %s not found" % name)
    kind = m.group(2)
    if kind == ";":
        return []
    i = m.end() - 1
    if kind == "{":
        j = matching(clean, i, "{", "}")
        out = []
        for item in split_top(clean[i + 1:j]):
            mm = re.match(r"^(?:pub(?:\([a-z]+\))?\s+)?([A-Za-z_][A-Za-z0-9_]*)\s*:\s*(.+)$", item, re.S)
            if not mm:
                raise Exception("field %r of struct %s not understood" % (item, name))
            out.append((mm.group(1), norm_ty(mm.group(2))))
        return out
    j = matching(clean, i, "(", ")")
    out = []
    for k, item in enumerate(split_top(clean[i + 1:j])):
        item = re.sub(r"^pub(?:\([a-z]+\))?\s+", "", item)
        out.append((str(k), norm_ty(item)))
    return out


def derives_of(nocomment, kw, name):
    """all derive(...) lists attached to `pub <kw> name`"""
    m = re.search(r"((?:#\[[^\n]*\]\s*|#\[derive\([^)]*\)\]\s*)+)pub %s %s\b" % (kw, re.escape(name)), nocomment, re.S)
    if not m:
        raise Exception("attributes of %s %s not found" % (kw, name))
    return m.group(1)


def enum_body(clean, name):
    m = re.search(r"\bpub enum %s\s*\{" % re.escape(name), clean)
    if not m:
        raise Exception("enum %s not found" % name)
    i = m.end() - 1
    j = matching(clean, i, "{", "}")
    return split_top(clean[i + 1:j])


def ix_set(nocomment, clean, enum_name):
    attrs = derives_of(nocomment, "enum", enum_name)
    if "ix_set(use_repr)" not in re.sub(r"\s+", "", attrs):
        raise Exception("%s is no longer #[ix_set(use_repr)]" % enum_name)
    mr = re.search(r"#\[repr\(u(8|16|32|64)\)\]", attrs)
    if not mr:
        raise Exception("%s has no #[repr(uN)]" % enum_name)
    width = int(mr.group(1)) // 8
    out = []
    cur = 0
    for item in enum_body(clean, enum_name):
        mm = re.match(r"^([A-Za-z0-9_]+)\s*\(\s*([A-Za-z0-9_]+)\s*\)\s*(?:=\s*([0-9_]+))?$", item)
        if not mm:
            raise Exception("variant %r of %s not understood" % (item, enum_name))
        if mm.group(3) is not None:
            cur = int(mm.group(3).replace("_", ""))
        out.append((mm.group(1), mm.group(2), cur))
        cur += 1
    return width, out


def unit_enum(nocomment, clean, name, need):
    attrs = re.sub(r"\s+", "", derives_of(nocomment, "enum", name))
    for n in need:
        if n not in attrs:
            raise Exception("enum %s lost %s" % (name, n))
    out = []
    for item in enum_body(clean, name):
        if not re.match(r"^[A-Za-z0-9_]+$", item):
            raise Exception("variant %r of %s is not a plain unit variant" % (item, name))
        out.append(item)
    return out


def coq_str(s):
    return '"%s"' % s.replace('"', '""')


def coq_pairs(ps):
    return "[" + "; ".join("(%s, %s)" % (coq_str(a), coq_str(b)) for a, b in ps) + "]"


def coq_bytes(bs):
    return "[" + "; ".join(str(b) for b in bs) + "]"


def program(lines, tag, rel, enum_name):
    raw = read(rel)
    nocomment = strip_comments(raw.split("#[cfg(test)]\nmod tests")[0])
    clean = strip_attrs(nocomment)
    width, variants = ix_set(nocomment, clean, enum_name)
    binds = dict(re.findall(r"empty_star_frame_instruction!\(\s*([A-Za-z0-9_]+)\s*,\s*([A-Za-z0-9_]+)\s*\)", clean))
    rows = []
    for vname, ty, disc in variants:
        if vname != ty:
            raise Exception("%s::%s wraps a differently named struct %s" % (enum_name, vname, ty))
        d = re.sub(r"\s+", "", derives_of(nocomment, "struct", ty))
        if "BorshSerialize" not in d or "InstructionArgs" not in d:
            raise Exception("%s no longer derives BorshSerialize + InstructionArgs" % ty)
        if ty not in binds:
            raise Exception("no empty_star_frame_instruction!(%s, ..)" % ty)
        d2 = re.sub(r"\s+", "", derives_of(nocomment, "struct", binds[ty]))
        if "AccountSet" not in d2:
            raise Exception("%s no longer derives AccountSet" % binds[ty])
        rows.append((vname, disc, struct_fields(clean, ty), struct_fields(clean, binds[ty])))
    lines.append("Definition SF_%s_REPR : Z := %d." % (tag, width))
    lines.append("Definition SF_%s_IXS : list (string * Z * list (string * string) * list (string * string)) := [" % tag)
    lines.append(";\n".join("  (%s, %d, %s, %s)" % (coq_str(n), d, coq_pairs(a), coq_pairs(s)) for n, d, a, s in rows))
    lines.append("].")
    return nocomment, clean


def generate(lines):
    # ---------------- instruction bindings ----------------
    sys_nc, sys_clean = program(lines, "SYSTEM", "star_frame/src/program/system.rs", "SystemInstructionSet")
    tok_nc, tok_clean = program(lines, "TOKEN", "star_frame_spl/src/token/instructions.rs", "TokenInstructionSet")
    ata_nc, ata_clean = program(lines, "ATA", "star_frame_spl/src/associated_token.rs", "AssociatedTokenInstructionSet")
    av = unit_enum(tok_nc, tok_clean, "AuthorityType", ["BorshSerialize", "repr(u8)"])
    lines.append("Definition SF_AUTHORITY_TYPE_VARIANTS : list string := [%s]." % "; ".join(coq_str(v) for v in av))

    # ---------------- ids ----------------
    if not re.search(r"const ID: Pubkey = Pubkey::new_from_array\(\[0; 32\]\);", sys_nc):
        raise Exception("System::ID is no longer [0; 32]")
    lines.append("Definition SF_SYSTEM_ID : list Z := %s." % coq_bytes([0] * 32))
    tmod = strip_comments(read("star_frame_spl/src/token/mod.rs"))
    m = re.search(r'impl StarFrameProgram for Token \{.*?const ID: Pubkey = pubkey!\("([1-9A-HJ-NP-Za-km-z]+)"\);', tmod, re.S)
    if not m:
        raise Exception("Token::ID literal not found")
    lines.append("Definition SF_TOKEN_ID : list Z := %s." % coq_bytes(b58_32(m.group(1))))
    m = re.search(r'impl StarFrameProgram for AssociatedToken \{.*?const ID: Pubkey = pubkey!\("([1-9A-HJ-NP-Za-km-z]+)"\);', ata_nc, re.S)
    if not m:
        raise Exception("AssociatedToken::ID literal not found")
    lines.append("Definition SF_ATA_ID : list Z := %s." % coq_bytes(b58_32(m.group(1))))
    sysvar = strip_comments(read("star_frame/src/account_set/sysvar.rs"))
    m = re.search(r'pub const RECENT_BLOCKHASHES_ID: Pubkey = pubkey!\("([1-9A-HJ-NP-Za-km-z]+)"\);', sysvar)
    if not m:
        raise Exception("RECENT_BLOCKHASHES_ID literal not found")
    lines.append("Definition SF_RECENT_BLOCKHASHES_ID : list Z := %s." % coq_bytes(b58_32(m.group(1))))
    if not re.search(r"impl SysvarId for pinocchio::sysvars::rent::Rent \{\s*fn id\(\) -> Pubkey \{\s*bytemuck::cast\(pinocchio::sysvars::rent::RENT_ID\)", sysvar):
        raise Exception("SysvarId for Rent no longer is pinocchio's RENT_ID")
    if not re.search(r"metas\.push\(AccountMeta::new_readonly\(\s*accounts\.unwrap_or\(T::id\(\)\),\s*false,?\s*\)\);", sysvar):
        raise Exception("Sysvar<T>::extend_account_metas changed")
    pins = sorted(glob.glob(os.path.expanduser("~/.cargo/registry/src/*/pinocchio-0.9.2/src/sysvars/rent.rs")))
    if not pins:
        raise Exception("vendored pinocchio-0.9.2 not found")
    m = re.search(r"pub const RENT_ID: Pubkey = \[([0-9,\s]+)\];", open(pins[0]).read())
    if not m:
        raise Exception("pinocchio RENT_ID not found")
    rent = [int(x) for x in m.group(1).replace("\n", " ").split(",") if x.strip()]
    if len(rent) != 32:
        raise Exception("RENT_ID is not 32 bytes")
    lines.append("Definition SF_RENT_ID : list Z := %s." % coq_bytes(rent))

    # ---------------- account state layouts ----------------
    st_raw = read("star_frame_spl/src/token/state.rs")
    st_nc = strip_comments(st_raw.split("#[cfg(test)]\nmod tests")[0])
    st_clean = strip_attrs(st_nc)
    for nm, tag, const_owner in (("MintAccountData", "MINT", "MintAccount"), ("TokenAccountData", "TOKENACC", "TokenAccount")):
        d = re.sub(r"\s+", "", derives_of(st_nc, "struct", nm))
        if "repr(C,packed)" not in d or "CheckedBitPattern" not in d:
            raise Exception("%s is no longer #[repr(C, packed)] + CheckedBitPattern" % nm)
        lines.append("Definition SF_%s_LAYOUT : list (string * string) := %s." % (tag, coq_pairs(struct_fields(st_clean, nm))))
        m = re.search(r"impl %s \{.*?pub const LEN: usize = (\d+);" % const_owner, st_clean, re.S)
        if not m:
            raise Exception("%s::LEN not found" % const_owner)
        lines.append("Definition SF_%s_LEN : Z := %s." % (tag, m.group(1)))
        if not re.search(r"bytemuck::checked::try_from_bytes::<%s>\(data\)" % nm, st_clean):
            raise Exception("%s view no longer is bytemuck::checked::try_from_bytes" % nm)
    sv = unit_enum(st_nc, st_clean, "AccountState", ["CheckedBitPattern", "repr(u8)"])
    lines.append("Definition SF_ACCOUNT_STATE_VARIANTS : list string := [%s]." % "; ".join(coq_str(v) for v in sv))

    pod_nc = strip_comments(read("star_frame_spl/src/pod.rs"))
    pod_clean = strip_attrs(pod_nc)
    d = re.sub(r"\s+", "", derives_of(pod_nc, "struct", "PodOption"))
    if "repr(C,packed)" not in d or "Pod" not in d:
        raise Exception("PodOption is no longer #[repr(C, packed)] Pod")
    lines.append("Definition SF_POD_OPTION_FIELDS : list (string * string) := %s." % coq_pairs(struct_fields(pod_clean, "PodOption")))
    m1 = re.search(r"pub const NONE: \[u8; 4\] = \[0; 4\];", pod_clean)
    m2 = re.search(r"pub const SOME: \[u8; 4\] = \[1, 0, 0, 0\];", pod_clean)
    if not (m1 and m2):
        raise Exception("PodOption::NONE / SOME changed")
    lines.append("Definition SF_POD_NONE : list Z := [0; 0; 0; 0].")
    lines.append("Definition SF_POD_SOME : list Z := [1; 0; 0; 0].")
    if not re.search(r"pub fn is_some\(&self\) -> bool \{\s*self\.option == Self::SOME\s*\}", pod_clean):
        raise Exception("PodOption::is_some changed")
    if not re.search(r"pub fn is_none\(&self\) -> bool \{\s*self\.option == Self::NONE\s*\}", pod_clean):
        raise Exception("PodOption::is_none changed")
    if not re.search(r"fn from\(option: PodOption<T>\) -> Self \{\s*if option\.is_some\(\) \{\s*Some\(option\.value\)\s*\} else \{\s*None\s*\}\s*\}", pod_clean):
        raise Exception("From<PodOption<T>> for Option<T> changed")

    # ---------------- ATA derivation ----------------
    m = re.search(r"pub fn find_address_with_bump\([^)]*\) -> \(Pubkey, u8\) \{\s*Pubkey::find_program_address\(\s*&\[(.*?)\],\s*&Self::ID,?\s*\)", ata_clean, re.S)
    if not m:
        raise Exception("AssociatedToken::find_address_with_bump changed shape")
    seeds = [re.sub(r"\s+", "", s) for s in split_top(m.group(1))]
    lines.append("Definition SF_ATA_SEEDS : list string := [%s]." % "; ".join(coq_str(s) for s in seeds))
    if not re.search(r"pub fn find_address\([^)]*\) -> Pubkey \{\s*Self::find_address_with_bump\(wallet, mint\)\.0\s*\}", ata_clean):
        raise Exception("AssociatedToken::find_address changed")
