#!/bin/bash
# keeps the evaluation clone (/tmp/eval/verif + /tmp/eval/repo) in step with /verif: mutants are evaluated there
# (EVAL_ROOT=/tmp/eval tools/seeded.sh ...) so that checks running in /verif itself are not disturbed
set -e
E=${EVAL_ROOT:-/tmp/eval}
mkdir -p $E
[ -d $E/repo ] || cp -r /repo $E/repo
rsync -a --exclude 'gen_c19/' --exclude 'gen_c11/' --exclude 'work/' --exclude 'replays/' --exclude 'target/' --exclude 'evidence/' --exclude '*.vo' --exclude '*.vok' --exclude '*.vos' --exclude '*.glob' --exclude '.*.aux' --exclude 'runner/bin/' --exclude 'runner/build/' /verif/ $E/verif/ || [ $? -eq 24 ]
sed -i "s#path = \"/repo/#path = \"$E/repo/#" $E/verif/harness/Cargo.toml $E/verif/harness_c16/Cargo.toml
# harness_c16 / harness_c17 build into the main harness's target directory through an absolute path: keep the clone's builds in the clone
sed -i "s#target-dir = \"/verif/harness/target\"#target-dir = \"$E/verif/harness/target\"#" $E/verif/harness_c16/.cargo/config.toml $E/verif/harness_c17/.cargo/config.toml
git -C $E/repo checkout -- . 2>/dev/null || true
echo synced
