#!/usr/bin/env python3
"""Writes MANIFEST.json from the per-property table below (run by hand after editing; committed)."""
import json
import os

V = os.path.normpath(os.path.join(os.path.dirname(os.path.abspath(__file__)), ".."))
props = [json.loads(l) for l in open(os.path.join(V, "properties.jsonl"))]

TECH = "Rocq theorem over an executable model + differential correspondence with /repo"

# id -> (level text, level note)   ; absent => not_applicable with REASON
CLAIMED = {
 "C04": (
  "Coq theorems (coq/Properties/C04.v, axiom-free) over the model of UnsizedType::get_ptr / owned_from_ptr for the whole "
  "inductive universe of shapes (fixed-size checked values, lists with any prefix width, trailing bytes, lists and maps of "
  "unsized elements to any depth, generated structs and enums): for ALL byte strings and both settings of the overflow-check "
  "flag, parsing never performs an unchecked access outside the input (no Fault), a reported extent lies inside the input, "
  "and every value produced has only valid bit patterns (bool in {0,1}, declared discriminants, recursively); without "
  "overflow checks computing the extent never panics. Tie: valid encodings, truncations at every length, extensions, "
  "single-field and whole-offset-table corruptions with boundary values, random bytes, on 19 Rust shapes, input flush "
  "against a PROT_NONE page in a forked child, compared with the extracted model; shared accessors / iterators are judged "
  "directly (every yielded element inside the input).",
  "Partial in the sense of DESIGN section 7: the theorem is about the byte-level contract of the parser; that the Rust "
  "pointer arithmetic realises it is the correspondence plus guard pages. Map/Set/UnsizedString owned conversions normalise "
  "(BTreeMap order, UTF-8) and are judged by the predicate only on malformed inputs. Found and fixed D1 (offset iterator "
  "sliced with unchecked pointer arithmetic from untrusted offsets)."),
 "C05": (
  "Coq theorems (coq/Properties/C05.v, axiom-free) by induction over the whole universe of shapes and all well-formed values: "
  "the serialization has exactly byte_size bytes; parse (encode v) = (v, byte_size v), also when followed by other data "
  "(non-tail positions) and behind a discriminant prefix. Tie: random values of 19 Rust shapes: byte_size, from_owned into "
  "exact / oversized / undersized buffers (count returned, remaining slice, nothing written outside), owned(bytes), and the "
  "off-chain TestByteSet helper, compared with the extracted model and with an independent Python encoder.",
  "Initializer arguments are exercised through the operation histories of C01 (set_from_init, element initializers) where "
  "the model's init_size / init_bytes are compared with INIT_BYTES / init; the client (de)serialization helpers with "
  "discriminant are the leading-fixed-field instance (C05_discriminant_roundtrip) and the discriminant rejection is C08's "
  "theorem. Found and fixed D2 (TestByteSet::owned parsed the headroom)."),
 "C07": (
  "Coq theorems (coq/Properties/C07.v, all axiom-free) over an executable model of pinocchio's account header "
  "(borrow state, resize_unchecked, resize_delta) and star_frame's data()/data_mut() protocol: for every initial "
  "size, every value and every finite history of borrow/mutate/release steps the invariant holds, the pointer "
  "range handed to an exclusive wrapper is exactly [start, start+orig_len+allowance), no drop-time or debug "
  "pointer assertion fires, un-overlapped borrows succeed and observe the current value, growth succeeds exactly "
  "up to the allowance and errs (state unchanged) beyond it, overlapping borrows are refused. The model is tied "
  "to /repo on every run by running the same seeded histories (1.5k quick / 40k thorough, sizes 0..40 KiB, "
  "shrink-beyond-allowance-and-grow-back forced) through the extracted model and a native AccountInfo driving "
  "the real Account<T>; the property predicate is also evaluated directly on the implementation.",
  "Trusted: Coq kernel; extraction (ExtrOcamlBasic) + runner/driver.ml; harness (native AccountInfo builder); "
  "tools/gen_constants.py. Modelled, not verified: pinocchio's borrow-state bit layout (abstracted to a flag and a "
  "counter), container byte-level behaviour (that is C01/C02), heap address >= account size. Found and fixed D3 "
  "(wrapper.rs sign of resize_delta)."),
 "C08": (
  "Coq theorems (coq/Properties/C08.v, axiom-free): validate_account_info accepts iff owner = program id and the first "
  "w data bytes equal the discriminant, for all owners, data, widths and discriminants (the width-specialised integer "
  "compares are proved equal to byte equality via injectivity of little-endian decoding); every rejection is an owner / "
  "size / discriminant error, never a panic; data() on writable accounts and data_mut() re-validate; data_mut() on "
  "read-only accounts is refused; an account closed by the framework no longer validates unless its discriminant is the "
  "closed marker. Tie: exhaustive finite product (six widths x owner bit flips x prefix deviations x flags x borrow "
  "states x closed) run through the extracted model and six real programs on native accounts.",
  "Trusted: Coq kernel, extraction + driver, harness (one program per width). Modelled: pinocchio can_borrow_data as a "
  "flag realised by real outstanding borrows; the typed view is List<u8> behind the discriminant."),
 "C09": (
  "Coq theorems (coq/Properties/C09.v, axiom-free): the fast 32-byte comparison (four little-endian u64 words) is byte "
  "equality for all key pairs; each modifier's check holds iff the account has the described flag / key / owner; a "
  "nesting accepts iff every layer accepts and reports the innermost failing layer's error; optional accounts absent / "
  "placeholder / present. Tie: 31 Rust nestings (depth <= 4, plain and Option) x all flags x every one-bit and one-byte "
  "key and owner perturbation, exhaustively (36k cases), against the extracted model.",
  "Honest level: proof for the comparison lemma, the per-layer iff and the composition rule over the layer algebra; that "
  "each Rust modifier IS the layer the model says is established by exhaustive correspondence over the finite "
  "perturbation domain on the 31-type family (the inductive universe of nestings is represented by that family)."),
 "C16": (
  "60 machine-checked theorems (coq/Properties/C16.v, axiom-free): for each of the 36 bound System / SPL Token / ATA "
  "instructions the framework-side encoding (declarations re-extracted from /repo on every run by tools/gen_extra_c16.py and "
  "interpreted in Gallina) equals an independently written reference-side encoding (program id, data bytes, account metas) for "
  "all argument values; every 82/165-byte image accepted by the reference unpack is accepted by validate / data_unchecked / data "
  "with equal fields; the ATA helper hands the same seeds and program id to the PDA oracle. Two-sided correspondence (model vs "
  "framework, model vs reference crates) plus direct framework-vs-reference comparison on 26k (quick) / 370k (thorough) cases.",
  "PDA hashing is an oracle (Section variable). borsh / bincode primitives are modelled and tied by the correspondence. The multisig "
  "signer tail of owner-signed token instructions is outside the bindings' argument space (proved not expressible, noted). The "
  "reference crates define 'reference'. Found and fixed D17 (RecoverNested owner_ata writable)."),
 "C18": (
  "7 theorems (coq/Properties/C18.v, axiom-free) over a line-by-line transcription of star_frame_idl/src/verifier/mod.rs: for every "
  "definition set and both resolution modes verify = Ok iff the set is Sound (an independent declarative spec: trimmed namespaces "
  "non-empty and unique; every type / account-set / account reference at every position resolves under the mode with matching "
  "generic arity; every Many has max >= min; every Or non-empty); a reported rule id is a rule that is violated; acceptance is "
  "invariant under permutation of the definitions. No size bound. Tied to /repo by an exhaustively enumerated small universe "
  "(405,856 sets in the thorough tier, ~9k sampled quick), random larger graphs and all single-edit mutants of the shipped "
  "System/Token/ATA IDLs, compared on Ok / rule id, and judged by an independent Python soundness oracle.",
  "Rule ids are regenerated from the Rust source (tools/gen_extra_c18.py). BTreeMaps are association lists; strings are code-point "
  "lists; str::trim strips Unicode White_Space; fields the verifier never reads are dropped. The case decoder, the Rust case "
  "builder and the Python oracle are trusted plumbing."),
 "C19": (
  "20 theorems (coq/Properties/C19.v, axiom-free) over a model of Rust's documented layout rules (alignment / size / padding under "
  "repr(Rust|C|transparent|int, packed(N), align(N))) and of the decisions of derive(Align1), #[zero_copy], the generated packed sized "
  "part and the ZST placement rule, transcribed from the proc-macro sources: an accepted Align1 type has alignment 1, accepted "
  "zero_copy / sized parts have no padding and validate every field's bit pattern, a zero-sized component anywhere but last is "
  "rejected, the documented valid forms are accepted. Tied to /repo by compiling 360 (quick) / 5000 (thorough) generated "
  "declarations with the real macros (accept / reject per declaration, align_of / size_of / bit-pattern tables printed by the "
  "accepted ones) and comparing with the extracted model; the predicate checks align_of == 1 etc. directly.",
  "rustc's layout algorithm is modelled from the Reference, not verified; bytemuck's derive-time padding assertion is modelled as the "
  "function it is. Found and fixed D13 (derive(Align1) accepted repr(align(N>1)))."),
}
REASON = "not claimed yet: model and correspondence check under construction (design in DESIGN.md section 5)"
NA = {}

HOOK_COMMITS = ["d405dba verif hooks: CPI interception and Rent/Clock injection behind --cfg star_frame_verif"]

m = {
 "version": 1,
 "setup_cmd": "bin/setup",
 "hooks": {
  "guard": "--cfg star_frame_verif",
  "enable": "harness/.cargo/config.toml sets rustflags = [\"--cfg\", \"star_frame_verif\"] for every harness build",
  "baseline_off_cmd": "cd /repo && cargo test --workspace --no-fail-fast --offline",
  "source_commits": HOOK_COMMITS,
  "add_only": True,
 },
 "engines": [{
  "name": "rocq-model+correspondence", "path": "bin/check", "serves_properties": sorted(CLAIMED),
  "kind_free_text": "Coq 8.16.1 theorems over executable Gallina models (coq/), extracted to OCaml (runner/) and "
                    "run against a Rust harness (harness/) that is path-dependent on /repo's working tree"}],
 "checks": [],
 "not_applicable": [],
 "notes": "See DESIGN.md. fix: commits in /repo are listed in known_findings.json.",
}
for p in props:
    i = p["id"]
    if i in CLAIMED:
        text, note = CLAIMED[i]
        m["checks"].append({
         "property_id": i,
         "quick_cmd": "bin/check %s --tier quick" % i,
         "thorough_cmd": "bin/check %s --tier thorough" % i,
         "evidence_file": "/verif/evidence/%s.json" % i,
         "replay_cmd_template": "bin/check %s --replay {path}" % i,
         "engine": "rocq-model+correspondence",
         "level_claimed": {"category": "proof", "text": text, "design_ref": "DESIGN.md section 5, " + i},
         "level_note": note,
         "technique": TECH,
        })
    else:
        m["not_applicable"].append({"property_id": i, "reason": NA.get(i, REASON)})
json.dump(m, open(os.path.join(V, "MANIFEST.json"), "w"), indent=1)
print("MANIFEST.json: %d claimed, %d not claimed" % (len(m["checks"]), len(m["not_applicable"])))
