#!/usr/bin/env python3
"""Writes MANIFEST.json from the per-property table below (run by hand after editing; committed)."""
import json
import os

V = os.path.normpath(os.path.join(os.path.dirname(os.path.abspath(__file__)), ".."))
props = [json.loads(l) for l in open(os.path.join(V, "properties.jsonl"))]

TECH = "Rocq theorem over an executable model + differential correspondence with /repo"

# id -> (level text, level note)   ; absent => not_applicable with REASON
CLAIMED = {
 "C07": (
  "Coq theorems (coq/Properties/C07.v, all axiom-free) over an executable model of pinocchio's account header "
  "(borrow state, resize_unchecked, resize_delta) and star_frame's data()/data_mut() protocol: for every initial "
  "size, every value and every finite history of borrow/mutate/release steps the invariant holds, the pointer "
  "range handed to an exclusive wrapper is exactly [start, start+orig_len+allowance), no drop-time or debug "
  "pointer assertion fires, un-overlapped borrows succeed and observe the current value, growth succeeds exactly "
  "up to the allowance and errs (state unchanged) beyond it, overlapping borrows are refused. The model is tied "
  "to /repo on every run by running the same seeded histories (1.5k quick / 40k thorough, sizes 0..40 KiB, "
  "shrink-beyond-allowance-and-grow-back forced) through the extracted model and a native AccountInfo driving "
  "the real Account<T>; the property predicate is also evaluated directly on the implementation.",
  "Trusted: Coq kernel; extraction (ExtrOcamlBasic) + runner/driver.ml; harness (native AccountInfo builder); "
  "tools/gen_constants.py. Modelled, not verified: pinocchio's borrow-state bit layout (abstracted to a flag and a "
  "counter), container byte-level behaviour (that is C01/C02), heap address >= account size. Found and fixed D3 "
  "(wrapper.rs sign of resize_delta)."),
 "C08": (
  "Coq theorems (coq/Properties/C08.v, axiom-free): validate_account_info accepts iff owner = program id and the first "
  "w data bytes equal the discriminant, for all owners, data, widths and discriminants (the width-specialised integer "
  "compares are proved equal to byte equality via injectivity of little-endian decoding); every rejection is an owner / "
  "size / discriminant error, never a panic; data() on writable accounts and data_mut() re-validate; data_mut() on "
  "read-only accounts is refused; an account closed by the framework no longer validates unless its discriminant is the "
  "closed marker. Tie: exhaustive finite product (six widths x owner bit flips x prefix deviations x flags x borrow "
  "states x closed) run through the extracted model and six real programs on native accounts.",
  "Trusted: Coq kernel, extraction + driver, harness (one program per width). Modelled: pinocchio can_borrow_data as a "
  "flag realised by real outstanding borrows; the typed view is List<u8> behind the discriminant."),
 "C09": (
  "Coq theorems (coq/Properties/C09.v, axiom-free): the fast 32-byte comparison (four little-endian u64 words) is byte "
  "equality for all key pairs; each modifier's check holds iff the account has the described flag / key / owner; a "
  "nesting accepts iff every layer accepts and reports the innermost failing layer's error; optional accounts absent / "
  "placeholder / present. Tie: 31 Rust nestings (depth <= 4, plain and Option) x all flags x every one-bit and one-byte "
  "key and owner perturbation, exhaustively (36k cases), against the extracted model.",
  "Honest level: proof for the comparison lemma, the per-layer iff and the composition rule over the layer algebra; that "
  "each Rust modifier IS the layer the model says is established by exhaustive correspondence over the finite "
  "perturbation domain on the 31-type family (the inductive universe of nestings is represented by that family)."),
}
REASON = "not claimed yet: model and correspondence check under construction (design in DESIGN.md section 5)"
NA = {}

HOOK_COMMITS = []

m = {
 "version": 1,
 "setup_cmd": "bin/setup",
 "hooks": {
  "guard": "--cfg star_frame_verif",
  "enable": "harness/.cargo/config.toml sets rustflags = [\"--cfg\", \"star_frame_verif\"] for every harness build",
  "baseline_off_cmd": "cd /repo && cargo test --workspace --no-fail-fast --offline",
  "source_commits": HOOK_COMMITS,
  "add_only": True,
 },
 "engines": [{
  "name": "rocq-model+correspondence", "path": "bin/check", "serves_properties": sorted(CLAIMED),
  "kind_free_text": "Coq 8.16.1 theorems over executable Gallina models (coq/), extracted to OCaml (runner/) and "
                    "run against a Rust harness (harness/) that is path-dependent on /repo's working tree"}],
 "checks": [],
 "not_applicable": [],
 "notes": "See DESIGN.md. fix: commits in /repo are listed in known_findings.json.",
}
for p in props:
    i = p["id"]
    if i in CLAIMED:
        text, note = CLAIMED[i]
        m["checks"].append({
         "property_id": i,
         "quick_cmd": "bin/check %s --tier quick" % i,
         "thorough_cmd": "bin/check %s --tier thorough" % i,
         "evidence_file": "/verif/evidence/%s.json" % i,
         "replay_cmd_template": "bin/check %s --replay {path}" % i,
         "engine": "rocq-model+correspondence",
         "level_claimed": {"category": "proof", "text": text, "design_ref": "DESIGN.md section 5, " + i},
         "level_note": note,
         "technique": TECH,
        })
    else:
        m["not_applicable"].append({"property_id": i, "reason": NA.get(i, REASON)})
json.dump(m, open(os.path.join(V, "MANIFEST.json"), "w"), indent=1)
print("MANIFEST.json: %d claimed, %d not claimed" % (len(m["checks"]), len(m["not_applicable"])))
