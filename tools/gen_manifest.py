#!/usr/bin/env python3
"""Writes MANIFEST.json from the per-property table below (run by hand after editing; committed)."""
import json
import os

V = os.path.normpath(os.path.join(os.path.dirname(os.path.abspath(__file__)), ".."))
props = [json.loads(l) for l in open(os.path.join(V, "properties.jsonl"))]

TECH = "Rocq theorem over an executable model + differential correspondence with /repo"

# id -> (level text, level note)   ; absent => not_applicable with REASON
CLAIMED = {
 "C01": (
  "Coq theorems (coq/Properties/C01.v, 39 pinned, axiom-free, coqchk: Axioms <none>) over an executable pointer machine that mirrors add_bytes / remove_bytes / every "
  "resize_notification / every container operation line by line (memory as the whole allocation, pointer trees mirroring every Rust "
  "Ptr type incl. UnsizedList's inner_exclusive / possible_mut_borrow / range). PROVED for EVERY shape of the universe (C01_every_shape) - structs, lists of any "
  "element type / prefix width, trailing RemainingBytes, lists and maps of unsized elements, generated enums, nested to any depth - every well-formed value, "
  "every path and every finite history of List::insert_all / remove_range (push, insert, pop, remove, clear are instances) issued at ANY "
  "nesting depth through get_mut / get_exclusive on each list of unsized elements on the way: each operation succeeds exactly when Vec's "
  "does (index, range, length prefix, growth allowance), the notification broadcast fixes exactly the ancestors' unsized_size and offset "
  "tables and shifts every later pointer (C01_general_notify_inside), and every observation - live accessors whatever the lists remember, "
  "raw bytes, fresh parse, re-borrow - equals the owned model (C01_general_step_refines / _run_refines / _observable / _reborrow / "
  "_descent; non-vacuity by a vm_compute'd nested history). The same for the FULL operation set (C01_all_ops_step_refines / "
  "_run_refines): in-place stores, RemainingBytes::set_len, and the element-level operations of lists of unsized elements - insert of "
  "default-initialised elements, remove_range, clear - with their offset-table surgery. The keyed views (Set / Map insert, overwrite and remove through the binary search; UnsizedMap insert of a new key and "
  "remove) refine the sorted-association-list model and keep the keys strictly ascending (C01_keyed_*); whole-value replacement "
  "(set_from_owned) refines assignment for every sub-value whose chain of first fields ends in a non-struct (C01_set_data_refines). "
  "All of it is folded into ONE history theorem, C01_full_run_refines (any interleaving of all these operations, with the keyed "
  "operations' observations), and C01_keyed_views_stay_sorted. Generated enums: paths descend into the live variant (step SV), whole enum values are replaced by set_from_owned, and the generated setter set_<variant>(DefaultInit) refines assigning the variant's default value (C01_enum_switch_refines); C01_run_refines_with_switches is the history theorem with switches, C01_dispatcher_tie_switch its tie to the runner's dispatcher. "
  "C01_dispatcher_tie / _all_ops prove that the dispatcher the extracted runner executes returns what descent + operation return. The "
  "flat-shape theorems of the first round remain as the special case. NON-DEFAULT initializers (the all-ones arrays, [1;1;1] for RemainingBytes) through UnsizedList::insert, set_from_init and UnsizedMap::insert on a new or an existing key are operations of the history theorem C01_run_refines_with_initializers (C01_initializer_writes_its_value, C01_dispatcher_refines_initializers). UnsizedString::set (clear + push_all; a string that does not fit leaves the string cleared) is an operation of the final history theorem C01_run_refines_every_operation, which C01_dispatcher_run_refines carries to whole op-code histories through the runner's dispatcher; everything is ALSO tied by correspondence: 1.5k (quick) / 12k (thorough) generated histories on 25 Rust shapes (four with generated enums: variant switches, operations inside the live variant) nested to "
  "depth 3 run through the real ExclusiveWrapper API and the extracted machine (0 disagreements), judged against an independent "
  "plain-Vec/BTreeMap oracle in Python.",
  "PARTIAL (stated in Properties/C01.v): UTF-8 validity of strings is the Rust type system's (set takes &str) and the correspondence's, the model stores bytes; "
  "the FAILING-initializer path is where the property is false of code and model alike (D16, machine-checked as C06_failing_initializer_refuted). Found and fixed D7 (stale inner pointer not "
  "shifted), D18 (empty trailing RemainingBytes at full capacity: found while proving the flat pointer assertions) and D26 (a STALE "
  "recorded inner pointer took part in check_pointers and could be shifted out of the allocation: found while stating the general "
  "layout invariant); known finding D16 (failing initializer after the resize)."),
 "C02": (
  "Coq theorems (coq/Properties/C02.v, axiom-free): for every shape (lists and maps of unsized elements and generated enums at any depth included), "
  "after ANY history of list operations at any nesting depth - failing operations included - the first data_len bytes are exactly "
  "encode(value) and data_len = byte_size(value) (C02_general_canonical_after_any_history, from the refinement invariant RepF), and the same after any interleaving of EVERY operation the theory knows - keyed views, set_from_owned, variant switches of generated enums (C02_canonical_after_any_full_history); for "
  "ALL shapes canonical encodings have the announced size, are injective and are read back as the same value by any reader "
  "(C02_encode_injective, C02_any_reader_sees_the_value). Tie: after every step of 1.2k (quick) / 12k (thorough) histories the harness "
  "compares the account bytes with from_owned(value read back) byte for byte and the reported length with byte_size, and the extracted "
  "machine must agree on the checksum of the bytes; histories are biased to lists / maps of unsized elements where unsized_size, the "
  "offset table and the trailing length copy live.",
  "Also for the full operation set incl. element-level insert / remove / clear of lists of unsized elements (C02_all_ops_canonical_after_any_history). "
  "PARTIAL: for keyed map / set insertion, enums, whole-value replacement and non-default initializers the canonical-form claim rests on the correspondence (machine = implementation on every generated "
  "history, bytes = from_owned(value))."),
 "C03": (
  "Coq theorems (coq/Properties/C03.v, axiom-free). ALL shapes: no operation changes the size of the allocation - every write of "
  "add_bytes / remove_bytes / the notification broadcast (incl. the offset-table patches of lists of unsized elements) lands inside "
  "[0, capacity) or the step has outcome Fault (C03_*_stays_in_allocation); check_pointers only accepts trees whose every live address "
  "lies in the buffer's range, so an accessor swapped in from another buffer is reported at the latest by the drop-time check "
  "(C03_swapped_accessor_detected). Every shape (enums included), list operations at any nesting depth, failures included: the outcome of a "
  "history is never Fault nor Panic and the pointer assertions hold in every reachable state (C03_general_no_fault_in_any_history, "
  "C03_general_pointer_assertions_hold; C03_no_fault_in_any_full_history for every operation the theory knows, keyed views, set_from_owned and enum variant switches included); growth beyond the allocation is InvalidRealloc before any memmove. "
  "Tie: histories run on an mmap'ed allocation of exactly initial+10240 bytes flush against a PROT_NONE page (before or after) with "
  "canaries on the other side, each case in a forked child: SIGSEGV and canary damage are observations; 60 accessor-swap scenarios on two "
  "buffers; allowance-scale histories that shift a stale inner pointer (D26).",
  "PARTIAL (DESIGN section 7): the theorems are about the byte-level contract (which offsets are touched); that the Rust pointer "
  "arithmetic realises those offsets is the correspondence plus guard pages. The full operation set incl. element-level operations of lists of "
  "unsized elements is covered by C03_all_ops_no_fault_in_any_history. Found and fixed D18 and D26."),
 "C06": (
  "Coq theorems (coq/Properties/C06.v, axiom-free), every shape (enums included), list operations at any nesting depth: every failure - index, "
  "range, length prefix, growth beyond the allowance, growth refused by the data access - is returned with the owned model's code before "
  "any write; the state reached by the descent still represents the same value with canonical bytes and exact length; histories with "
  "failures in them keep refining the owned model step by step (C06_general_failure_is_clean, C06_general_continue_after_failures; "
  "C06_all_ops_failure_is_clean / C06_all_ops_continue_after_failures for the full operation set incl. element-level insert / remove of lists of unsized elements, whose "
  "checks all precede the first write; flat-shape theorems as the special case). Tie: 1.8k (quick) / 12k (thorough) histories with growth refused during step k (k swept "
  "over every step of 21 growth-heavy histories) and a generator biased to failing operations; after a failed operation bytes, length, "
  "live accessors and a fresh parse are observed and further operations applied; model, implementation and the plain oracle must agree. "
  "Second stage on native pinocchio accounts where AccountInfo::resize_unchecked itself refuses the growth.",
  "Known finding D16 (not repaired: not a small safe patch; machine-checked on the model as C06_failing_initializer_refuted, whose witness is the replayed history): an element initializer that fails (array longer than the list's "
  "length prefix allows) runs after the container was resized (UnsizedList::insert_all_with_offsets, set_data_inner): the error "
  "leaves a modified value / non-canonical bytes. The check prints KNOWN-FINDING for that class and reports any other violation. "
  "Keyed views and whole-value replacement: failure atomicity by correspondence only."),
 "C04": (
  "Coq theorems (coq/Properties/C04.v, axiom-free) over the model of UnsizedType::get_ptr / owned_from_ptr for the whole "
  "inductive universe of shapes (fixed-size checked values, lists with any prefix width, trailing bytes, lists and maps of "
  "unsized elements to any depth, generated structs and enums): for ALL byte strings and both settings of the overflow-check "
  "flag, parsing never performs an unchecked access outside the input (no Fault), a reported extent lies inside the input, "
  "and every value produced has only valid bit patterns (bool in {0,1}, declared discriminants, recursively); without "
  "overflow checks computing the extent never panics. Tie: valid encodings, truncations at every length, extensions, "
  "single-field and whole-offset-table corruptions with boundary values, random bytes, on 19 Rust shapes, input flush "
  "against a PROT_NONE page in a forked child, compared with the extracted model; shared accessors / iterators are judged "
  "directly (every yielded element inside the input).",
  "Partial in the sense of DESIGN section 7: the theorem is about the byte-level contract of the parser; that the Rust "
  "pointer arithmetic realises it is the correspondence plus guard pages. Map/Set/UnsizedString owned conversions normalise "
  "(BTreeMap order, UTF-8) and are judged by the predicate only on malformed inputs. Found and fixed D1 (offset iterator "
  "sliced with unchecked pointer arithmetic from untrusted offsets)."),
 "C05": (
  "Coq theorems (coq/Properties/C05.v, axiom-free) by induction over the whole universe of shapes and all well-formed values: "
  "the serialization has exactly byte_size bytes; parse (encode v) = (v, byte_size v), also when followed by other data "
  "(non-tail positions) and behind a discriminant prefix. Tie: random values of 19 Rust shapes: byte_size, from_owned into "
  "exact / oversized / undersized buffers (count returned, remaining slice, nothing written outside), owned(bytes), and the "
  "off-chain TestByteSet helper, compared with the extracted model and with an independent Python encoder. Every initializer of the family writes exactly INIT_BYTES, the encoding of the value it creates (C05_every_initializer_exact); the init probes ride in the same observation. Second stage `sized`: sized (bytemuck) values initialised through the blanket impls - DefaultInit writes the bytes of the type's OWN default (not a zero fill), an explicit value its own bytes, exactly size_of bytes, nothing behind them (C05_sized_init_exact, C05_sized_default_init_writes_the_default; 228 cases on five sized types, three with a hand-written non-zero default). Third stage `client`: the client-side account helpers serialize_account / deserialize_account on thirteen account types - round trip behind the discriminant, every other discriminant rejected (C05_client_roundtrip, C05_client_rejects_other_discriminant, C05_client_rejects_sibling_account; 1.7k cases).",
  "Initializer arguments are exercised through the operation histories of C01 (set_from_init, element initializers) where "
  "the model's init_size / init_bytes are compared with INIT_BYTES / init; the client (de)serialization helpers with "
  "discriminant are the leading-fixed-field instance (C05_discriminant_roundtrip) and the discriminant rejection is C08's "
  "theorem. Found and fixed D2 (TestByteSet::owned parsed the headroom)."),
 "C07": (
  "Coq theorems (coq/Properties/C07.v, all axiom-free) over an executable model of pinocchio's account header "
  "(borrow state, resize_unchecked, resize_delta) and star_frame's data()/data_mut() protocol: for every initial "
  "size, every value and every finite history of borrow/mutate/release steps the invariant holds, the pointer "
  "range handed to an exclusive wrapper is exactly [start, start+orig_len+allowance), no drop-time or debug "
  "pointer assertion fires, un-overlapped borrows succeed and observe the current value, growth succeeds exactly "
  "up to the allowance and errs (state unchanged) beyond it, overlapping borrows are refused. The model is tied "
  "to /repo on every run by running the same seeded histories (1.5k quick / 40k thorough, sizes 0..40 KiB, "
  "shrink-beyond-allowance-and-grow-back forced; four account kinds: 1-3 length-prefixed byte lists and one prefix-less RemainingBytes body that can be emptied down to the bare discriminant) through the extracted model and a native AccountInfo driving "
  "the real Account<T>; the property predicate is also evaluated directly on the implementation.",
  "Trusted: Coq kernel; extraction (ExtrOcamlBasic) + runner/driver.ml; harness (native AccountInfo builder); "
  "tools/gen_constants.py. Modelled, not verified: pinocchio's borrow-state bit layout (abstracted to a flag and a "
  "counter), container byte-level behaviour (that is C01/C02), heap address >= account size. Found and fixed D3 "
  "(wrapper.rs sign of resize_delta)."),
 "C08": (
  "Coq theorems (coq/Properties/C08.v, axiom-free): validate_account_info accepts iff owner = program id and the first "
  "w data bytes equal the discriminant, for all owners, data, widths and discriminants (the width-specialised integer "
  "compares are proved equal to byte equality via injectivity of little-endian decoding); every rejection is an owner / "
  "size / discriminant error, never a panic; data() on writable accounts and data_mut() re-validate; data_mut() on "
  "read-only accounts is refused; an account closed by the framework no longer validates unless its discriminant is the "
  "closed marker. Tie: exhaustive finite product (six widths x owner bit flips x prefix deviations x flags x borrow "
  "states x closed) run through the extracted model and six real programs on native accounts.",
  "Trusted: Coq kernel, extraction + driver, harness (one program per width). Modelled: pinocchio can_borrow_data as a "
  "flag realised by real outstanding borrows; the typed view is List<u8> behind the discriminant."),
 "C09": (
  "Coq theorems (coq/Properties/C09.v, axiom-free): the fast 32-byte comparison (four little-endian u64 words) is byte "
  "equality for all key pairs; each modifier's check holds iff the account has the described flag / key / owner; a "
  "nesting accepts iff every layer accepts and reports the innermost failing layer's error; optional accounts absent / "
  "placeholder / present. Tie: 31 Rust nestings (depth <= 4, plain and Option) x all flags x every one-bit and one-byte "
  "key and owner perturbation, exhaustively (88k cases incl. the same decisions on accounts with other balances / data), against the extracted model. Containers forward the checks to EVERY element: Vec<T> with its four validate-argument forms accepts iff the form fits the number of accounts and every account passes every layer (C09_vec_accepts_iff_every_account, C09_vec_no_account_skipped); second stage: 10 element types x 0..5 accounts with one bad account at every position x forms x argument counts (3.2k cases). Derived sets with SEVERAL fields: every field's account is checked against THAT field's stack of checks, fields in declaration order, the first error is returned (C09_set_accepts_iff_every_field, C09_set_first_error, C09_set_check_stays_with_its_field); third stage: ten multi-field derived sets (pinned address on the 2nd / 3rd / 4th field, derive- and validate-skipped fields in front of it, named validate id, nested set) x one wrong field / crossed keys / every permutation of the accounts (0.9k cases).",
  "Honest level: proof for the comparison lemma, the per-layer iff and the composition rule over the layer algebra; that "
  "each Rust modifier IS the layer the model says is established by exhaustive correspondence over the finite "
  "perturbation domain on the 31-type family (the inductive universe of nestings is represented by that family)."),
 "C10": (
  "20 Coq theorems (coq/Properties/C10.v, axiom-free) over an executable model of create/find_program_address, derived seeds(), "
  "seeds_with_bump, both Seeded validations, signer_seeds and the client helpers, for every seed list, program id, key and bump, "
  "with SHA-256 and the curve test universally quantified (Section variables, nothing assumed): validation with Seeds passes iff "
  "the key is the canonical address (highest off-curve bump 255..1); with a bump iff the key is the created address; after either "
  "validation the signer seeds and the client helpers recreate the key; seed order, constant prefix and little-endian / raw field "
  "encodings are lossless and injective. Tie: 31 seed structs x random and boundary values x candidate keys (right PDA, permuted / "
  "perturbed seeds, other bumps, non-PDAs) through the real Seeded<..> validation; the oracle table of each case is computed by an "
  "independent Python SHA-256 + ed25519 decompression test and cross-checked against solana-address on every case.",
  "PARTIAL: H and on_curve are oracles, so 'exactly' means the address the library derives; solana-address's create/find are "
  "modelled (incl. its 255..1 bump loop). The GetSeeds template is exercised on a fixed family. With 15 real seeds there is no "
  "canonical address on either side (stated as C10_find_limit). Found and fixed D8 (client helper's bump placement)."),
 "C11": (
  "17 Coq theorems (coq/Properties/C11.v, axiom-free): dispatch selects exactly the variant whose discriminant prefixes the data and "
  "otherwise returns an error with an empty trace (for every hash oracle H standing for SHA-256); the trace of any instruction is a "
  "prefix of decode ++ validate ++ [process] ++ cleanup cut exactly at the first failing step, whose code is returned, each phase at "
  "most once; the field-validation order (stable Kahn sort) is, for ALL field lists and ALL acyclic `requires` relations, a "
  "permutation placing every field after everything it requires and equal to declaration order when nothing is required; the "
  "previously shipped insertion procedure is refuted (D4 witness). Tie: a generated crate expanded by the real macros - every "
  "labelled DAG on <= 4 fields (573 structs; 2000 sampled 5-field graphs quick, all 29281 thorough) and 13 generated programs driven "
  "through the real entrypoint natively (valid / truncated / unknown / trailing / misaligned data, 0..n+2 accounts, a failure armed "
  "at every event of every instruction), compared with the extracted model and judged by an independent Python predicate.",
  "SHA-256 is an oracle (hashlib in the correspondence); heck's snake-casing, bytemuck alignment, borsh for fixed-size args and "
  "pinocchio's u64 error encoding are modelled. tools/gen_extra_c11.py re-derives constants and the syntactic phase order of "
  "process_from_raw from the sources (C11_source_ties). Found and fixed D4 (requires ordering not a topological sort)."),
 "C14": (
  "13 Coq theorems (coq/Properties/C14.v, axiom-free) by induction over ALL account-set shapes (leaf with signer/mut layers, Program, "
  "Sysvar, Option, Vec, array, Box, Rest, nested structs), all client values, program ids and lengths: decode(client metas) returns "
  "the passed set and consumes exactly those accounts under wf_client (whose negation is exhibited as the documented placeholder "
  "ambiguity); declared flags equal required flags, so validation and the entry path accept; CPI metas and infos equal the client's, "
  "the count equals AccountLen for static sets (dynamic: at most 64, otherwise a panic, never UB), and no meta exceeds a leaf's "
  "requirement. Tie: 45 derived account sets and instructions through MakeInstruction, InstructionSet::dispatch on native accounts "
  "and MakeCpi with the CPI hook, plus borsh arguments echoed from process().",
  "PARTIAL: the derive templates are mirrored and exercised on a fixed generated family; borsh arguments are judged on the "
  "implementation only (independent Python encoder); keys are abstract. Found and fixed D21 ([A;N] ContainsOption) and D22 "
  "(MaybeSigner<false>/MaybeMut<false> erased the inner requirement)."),
 "C15": (
  "13 Coq theorems (coq/Properties/C15.v, axiom-free) over an executable model of BorshAccount<T> abstract in the value type's "
  "borsh (de)serializer: for every value type with an exact-consumption round trip, every account state and every instruction "
  "history, the value an instruction leaves is what the next instruction decodes and what the client deserializer returns; "
  "data_len = discriminant size + serialized size after every write-back; read-only, foreign-owned and closed accounts are never "
  "written; growth beyond the 10 KiB allowance fails with InvalidRealloc and leaves the data untouched. Tie: differential harness "
  "on native accounts (six borsh types - one, BTreeSet<u8>, with valid but non-canonical stored images, which a read-only instruction must leave byte for byte (C15_noncanonical_image), one with the all-zero discriminant 0u8 -, three discriminant widths, 2.6k sequences quick / 150k thorough) and an independent "
  "Python borsh predicate.",
  "The borsh implementation of a user type is an oracle (round trip, non-empty encodings), proved for a combinator model of borsh "
  "and the harness types and tied to the real crate by the correspondence. Types with an empty encoding are excluded "
  "(BorshAccount treats data_len == discriminant size as closed). Found and fixed D6 (write-back serialized the Option wrapper)."),
 "C16": (
  "60 machine-checked theorems (coq/Properties/C16.v, axiom-free): for each of the 36 bound System / SPL Token / ATA "
  "instructions the framework-side encoding (declarations re-extracted from /repo on every run by tools/gen_extra_c16.py and "
  "interpreted in Gallina) equals an independently written reference-side encoding (program id, data bytes, account metas) for "
  "all argument values; every 82/165-byte image accepted by the reference unpack is accepted by validate / data_unchecked / data "
  "with equal fields; the ATA helper hands the same seeds and program id to the PDA oracle. Two-sided correspondence (model vs "
  "framework, model vs reference crates) plus direct framework-vs-reference comparison on 26k (quick) / 370k (thorough) cases.",
  "PDA hashing is an oracle (Section variable). borsh / bincode primitives are modelled and tied by the correspondence. The multisig "
  "signer tail of owner-signed token instructions is outside the bindings' argument space (proved not expressible, noted). The "
  "reference crates define 'reference'. Found and fixed D17 (RecoverNested owner_ata writable)."),
 "C12": (
  "Coq theorems (coq/Properties/C12.v, axiom-free) over an executable model of Init<T> validation (init.rs, seeded.rs, account.rs, "
  "borsh_account.rs, single_set.rs system_create_account both branches) running against a stated system-program/runtime simulator: for all "
  "ledgers, balances, sizes, rent functions, PDA functions, account kinds, seed arguments and funders, a successful `create` yields owner = "
  "program, data = discriminant ++ initial bytes with exact length (BorshAccount: discriminant ++ zeros and the value held), lamports >= "
  "min_balance, funder debit = max 0 (min_balance - initial lamports) = the account's gain, every other account unchanged and the lamport "
  "total unchanged; `create` on an account with an owner or data is an error; create-if-needed on an initialised account returns false with "
  "ledger and CPI log untouched; the signer seeds of every CPI are the validated seeds with bump (and the funder's own), present whenever the "
  "new account is marked signer, after the address was checked against them. The source form the theorems are about is pinned (TOPUP_FIXED = "
  "true regenerated from single_set.rs); the shipped top-up is refuted by witness (D5, fixed). Tie: 3.4k (quick) / 60k (thorough) generated "
  "cases + corpus through the real Init<Signer|Seeded<Account|BorshAccount<T>>> with Create/CreateIfNeeded in four argument forms, three "
  "funder kinds, cached or explicit, on native accounts with the CPI hook driving the same simulator in Rust; result code, every account "
  "before/after and the full CPI log (ix, lamports, space, owner, metas, signer seeds) compared with the extracted model, and the property "
  "predicate evaluated in Python on the implementation alone.",
  "PARTIAL: system program + CPI privilege rules are an oracle (coq/Rent/Ledger.v = harness/src/rent_sim.rs, agreement checked by the tie). "
  "min_balance, create_/find_program_address are abstract functions (min_balance >= 0 is the only fact used); PDAs in cases are recomputed in "
  "Python. BorshAccount bytes are persisted at cleanup (C15). Funder distinct from the new account. Found and fixed D5 (top-up `.max(1)`) and "
  "D10 (create-if-needed slice-index panic on a foreign account shorter than the discriminant)."),
 "C13": (
  "Coq theorems (coq/Properties/C13.v, axiom-free) over an executable model of normalize_rent / refund_rent / receive_rent / close_account and "
  "the cleanup arguments with explicit or cached funder/recipient (single_set.rs 200-299, account.rs 47-110, context.rs, validate.rs cache "
  "wiring): for all ledgers, balances, data sizes and rent functions, normalize leaves exactly min_balance(len), refund (repaired form, "
  "pinned REFUND_FIXED = true) leaves >= the minimum and moves exactly max 0 (balance - minimum) to the recipient without a CPI, receive "
  "raises to max(balance, minimum) taking exactly the shortfall from the funder, a zero-lamport account is returned unchanged by all three, "
  "close leaves 0 lamports and discriminant-size bytes of 0xFF and credits the whole balance to the recipient; every operation through every "
  "cleanup argument conserves the lamport total; with all balances and the supply below 2^64 no operation panics; cached `()` arguments use "
  "the first cached funder/recipient and fail with EmptyFunderCache/EmptyRecipientCache when none. The shipped refund_rent is refuted by two "
  "witnesses (D14, fixed). Tie: 3.6k (quick) / 60k (thorough) cases + corpus through the real trait methods and AccountSetCleanup impls "
  "(explicit, cached via derived sets with #[validate(funder|recipient)], empty cache, pre-cached other account; one case in six a BorshAccount whose value changes its serialized size in the instruction before the cleanup argument writes it back and adjusts the rent, balances around the minimum of the old and of the new size) on native accounts with the "
  "simulator behind the CPI hook; balances {0, 1, half, min+-1, min, far above, 2^64-1-others}, sizes w..300, rent {0..10^9}/byte x {1.0, 2.0}.",
  "PARTIAL: same oracle and trusted base as C12. Funder/recipient distinct from the account (as in the property). BorshAccount's rent cleanups "
  "serialise first (C15). Cases outside the domain (read-only / foreign account, supply >= 2^64, where the debug build panics on overflow and "
  "the model says Panic too) are compared with the model only. Found and fixed D14."),
 "C17": (
  "Proof (Rocq, coq/Properties/C17.v, 15 theorems, axiom-free) of the layout half for every source-level unsized shape and every well-formed "
  "value (C17_layout_faithful: the IDL type emitted for a shape decodes the serializer's bytes to the embedded value; prefix and functional "
  "forms), of the account-list half for every account-set shape under one-definition-per-key (C17_accounts_faithful: the flattened IDL "
  "account list equals the client metas in order, flags, optional placeholder and fixed addresses; consistency derived from type identity "
  "when sets are keyed by full type name), and of the Codama account order / discriminant value lemmas (every width up to 8 bytes converts "
  "and preserves the value). Structural validity (verifier alone in Compatibility mode, StrictGraph with referenced IDLs), determinism "
  "(two-process emit) and the conversion of the shipped programs are established by the harness run on every check: 9 programs (System, "
  "Token, Associated Token, 5 example programs, a 13-instruction harness program with a cross-program reference), ~10k items per quick run, "
  "independent Python decoder / flattener, 6.7k model/implementation ties.",
  "PARTIAL: the model follows five switches read from the source each run (tools/gen_extra_c17.py); for the shipped settings the faithful "
  "model refuted the statement (generic sets sharing a key D15, Option of a multi-field set D24, one-field sets D23, Codama guard D11: all "
  "fixed); the refutations stay proved with witnesses. The theorems range over `sty` (erased to the C05 universe `ty`); each derived type "
  "has one definition per occurrence in the model. Codama naming and PDA defaults are compared by the harness only. Known finding D25: an "
  "IDL referencing another program's account type does not verify alone in Compatibility mode."),
 "C20": (
  "11 Coq theorems (coq/Properties/C20.v, axiom-free): the model of `sf new` is all-or-nothing for every injection oracle over "
  "mkdir / open / write / rename calls, every well-formed initial file-system state, every name, key and staging tag; an existing "
  "target (file, dir, any symlink) is refused with nothing changed; the validator accepts exactly the documented strict subset "
  "after Unicode trimming (keyword list regenerated from the source); rendering leaves no placeholder and writes consistent "
  "names. Tie: the real validator and renderer (compiled from new_project.rs) on ~10^5 names, and the real `sf` binary under "
  "strace fault injection at every syscall index with file / dir / symlink targets, comparing the full directory tree.",
  "Kernel and std::fs behaviour are modelled and tied by replay, not verified. The fault model is any set of failing calls with a "
  "succeeding cleanup; a failing cleanup leaves the staging directory (theorem + replay). Crash / power loss and concurrent "
  "creators are out of scope. Found and fixed D20 (hyphenated names: generated test named the wrong .so)."),
 "C18": (
  "7 theorems (coq/Properties/C18.v, axiom-free) over a line-by-line transcription of star_frame_idl/src/verifier/mod.rs: for every "
  "definition set and both resolution modes verify = Ok iff the set is Sound (an independent declarative spec: trimmed namespaces "
  "non-empty and unique; every type / account-set / account reference at every position resolves under the mode with matching "
  "generic arity; every Many has max >= min; every Or non-empty); a reported rule id is a rule that is violated; acceptance is "
  "invariant under permutation of the definitions. No size bound. Tied to /repo by an exhaustively enumerated small universe "
  "(405,856 sets in the thorough tier, ~9k sampled quick), random larger graphs and all single-edit mutants of the shipped "
  "System/Token/ATA IDLs, compared on Ok / rule id, and judged by an independent Python soundness oracle.",
  "Rule ids are regenerated from the Rust source (tools/gen_extra_c18.py). BTreeMaps are association lists; strings are code-point "
  "lists; str::trim strips Unicode White_Space; fields the verifier never reads are dropped. The case decoder, the Rust case "
  "builder and the Python oracle are trusted plumbing."),
 "C19": (
  "23 theorems (coq/Properties/C19.v, axiom-free) over a model of Rust's documented layout rules (alignment / size / padding under "
  "repr(Rust|C|transparent|int, packed(N), align(N))) and of the decisions of derive(Align1), #[zero_copy], the generated packed sized "
  "part and the ZST placement rule, transcribed from the proc-macro sources: an accepted Align1 type has alignment 1, accepted "
  "zero_copy / sized parts have no padding and validate every field's bit pattern, a zero-sized component anywhere but last is "
  "rejected - including #[unsized_type] enums, which count as possibly empty as soon as one variant's payload does (C19_zst_enum_value, C19_zst_enum_rejected) - the documented valid forms are accepted. Tied to /repo by compiling 532 (quick) / 5000 (thorough) generated "
  "declarations with the real macros (accept / reject per declaration, align_of / size_of / bit-pattern tables printed by the "
  "accepted ones) and comparing with the extracted model; the predicate checks align_of == 1 etc. directly.",
  "rustc's layout algorithm is modelled from the Reference, not verified; bytemuck's derive-time padding assertion is modelled as the "
  "function it is. Found and fixed D13 (derive(Align1) accepted repr(align(N>1)))."),
}
REASON = "not claimed yet: model and correspondence check under construction (design in DESIGN.md section 5)"
NA = {}

HOOK_COMMITS = ["d405dba verif hooks: CPI interception and Rent/Clock injection behind --cfg star_frame_verif"]

m = {
 "version": 1,
 "setup_cmd": "bin/setup",
 "hooks": {
  "guard": "--cfg star_frame_verif",
  "enable": "harness/.cargo/config.toml sets rustflags = [\"--cfg\", \"star_frame_verif\"] for every harness build",
  "baseline_off_cmd": "cd /repo && cargo test --workspace --no-fail-fast --offline",
  "source_commits": HOOK_COMMITS,
  "add_only": True,
 },
 "engines": [{
  "name": "rocq-model+correspondence", "path": "bin/check", "serves_properties": sorted(CLAIMED),
  "kind_free_text": "Coq 8.16.1 theorems over executable Gallina models (coq/), extracted to OCaml (runner/) and "
                    "run against a Rust harness (harness/) that is path-dependent on /repo's working tree"}],
 "checks": [],
 "not_applicable": [],
 "notes": "See DESIGN.md. fix: commits in /repo are listed in known_findings.json.",
}
for p in props:
    i = p["id"]
    if i in CLAIMED:
        text, note = CLAIMED[i]
        m["checks"].append({
         "property_id": i,
         "quick_cmd": "bin/check %s --tier quick" % i,
         "thorough_cmd": "bin/check %s --tier thorough" % i,
         "evidence_file": "/verif/evidence/%s.json" % i,
         "replay_cmd_template": "bin/check %s --replay {path}" % i,
         "engine": "rocq-model+correspondence",
         "level_claimed": {"category": "proof", "text": text, "design_ref": "DESIGN.md section 5, " + i},
         "level_note": note,
         "technique": TECH,
        })
    else:
        m["not_applicable"].append({"property_id": i, "reason": NA.get(i, REASON)})
json.dump(m, open(os.path.join(V, "MANIFEST.json"), "w"), indent=1)
print("MANIFEST.json: %d claimed, %d not claimed" % (len(m["checks"]), len(m["not_applicable"])))
