"""C02 - stored bytes are always the canonical serialization, with exact length."""
from lib import unsized_ops as O
from lib.props._unsized_ops import *  # noqa: F401,F403
from lib.props import _unsized_ops as B

ID = "C02"
COQ_TARGETS = ["Properties/C02.vo"]
RULE = ("same history generator as C01 (different seed stream, longer histories biased to lists of unsized elements and maps, "
        "where offsets / unsized_size / the trailing length copy live). After every step the harness serialises the value it "
        "reads back (from_owned) and compares it byte for byte with the account data and its reported length; the model does the "
        "same with `encode`. non-trivial = history with at least one successful resize")


def gen_cases(rng, tier):
    rng.next()
    return B.gen_ops_cases(rng, tier, 1200, 12000, steps=(8, 50))


def predicate(c, obs):
    return O.judge(c, obs, {"canon"})


def matches_known(entry, c, obs):
    why = O.judge(c, obs, {"canon", "model", "atomic"}) or ""
    return why.startswith("[%s]" % entry["id"])
