"""C05, second stage: SIZED (bytemuck) values initialised as unsized types.

The blanket impls of star_frame/src/unsize/impls/checked.rs: `UnsizedInit<DefaultInit> for T` writes the bytes of
`T::default_init()` - the type's OWN default, which is the zeroed value only for `Zeroable` types (init.rs 29-36); a type that
implements `DefaultInitable` by hand has whatever default it says - and `UnsizedInit<T> for T` writes the bytes of its argument.
Either way exactly `INIT_BYTES = size_of::<T>()` bytes are consumed, nothing behind them is touched and the bytes parse back to
the denoted value.  Model: coq/Unsized/SizedInit.v (`sized_init`, `run_c05s`), theorems C05_sized_init_exact /
C05_sized_default_init_writes_the_default.  Harness: harness/src/bin/vh_c05s.rs (five sized types: two `repr(u8)` enums whose
default is not the zero pattern - for one of them zero is not even valid -, a packed struct with a non-zero default, and the
Zeroable controls PackedValue<u32> and bool)."""
from lib.props import c05 as A

ID = "C05"
STAGE = "sized"
ENTRY = "c05s"
GROUP = A.GROUP
BIN = "vh_c05s"

# (name, kind, discriminants, size, bytes_of(default_init()), sample values)
TYPES = [
    ("Mode {Active = 1, Paused = 2}, default Active", 1, [1, 2], 1, [1], [[1], [2]]),
    ("Level {Low = 0, Mid = 1, High = 2}, default High", 1, [0, 1, 2], 1, [2], [[0], [1], [2]]),
    ("packed Fee {basis_points: u16, mode: u8}, default {250, 7}", 0, [], 3, [250, 0, 7], [[0, 0, 0], [1, 2, 3], [255, 255, 255], [250, 0, 7]]),
    ("PackedValue<u32> (Zeroable)", 0, [], 4, [0, 0, 0, 0], [[0, 0, 0, 0], [9, 8, 7, 6], [255] * 4]),
    ("bool (Zeroable)", 1, [0, 1], 1, [0], [[0], [1]]),
]
RULE = ("stage 'sized': %d sized types x {DefaultInit, init with each sample value} x destination filler {0x00, 0xAA, 0xFF} x "
        "0..3 surplus bytes behind INIT_BYTES: announced = consumed = size_of, the written bytes are the denoted value's "
        "(the type's own default for DefaultInit), the surplus is untouched, the bytes parse back to the value" % len(TYPES))


def _case(t, mode, filler, extra, value=None):
    _n, kind, ds, size, dflt, _vals = t
    return [kind, len(ds)] + ds + [size, mode, filler, extra] + dflt + (list(value) if mode == 1 else [])


def gen_cases(rng, tier):
    cases = []
    n = 0
    for t in TYPES:
        for filler in (0, 0xAA, 0xFF):
            for extra in (0, 1, 2, 3):
                cases.append(("s%d" % n, _case(t, 0, filler, extra)))
                n += 1
                for v in t[5]:
                    cases.append(("s%d" % n, _case(t, 1, filler, extra, v)))
                    n += 1
    return cases


def _decode(c):
    kind, nd = c[0], c[1]
    ds = c[2:2 + nd]
    size, mode, filler, extra = c[2 + nd:6 + nd]
    dflt = c[6 + nd:6 + nd + size]
    value = c[6 + nd + size:6 + nd + 2 * size] if mode == 1 else None
    return kind, ds, size, mode, filler, extra, dflt, value


def describe(c):
    kind, ds, size, mode, filler, extra, dflt, value = _decode(c)
    name = next((t[0] for t in TYPES if t[3] == size and t[4] == dflt and t[2] == ds), "?")
    return {"type": name, "initializer": "DefaultInit" if mode == 0 else "the value %s" % value, "destination": "%d bytes of 0x%02x" % (size + extra, filler)}


def predicate(c, obs):
    if obs is None or (obs and obs[0] == "UNPARSEABLE"):
        return "no observation from the implementation"
    kind, ds, size, mode, filler, extra, dflt, value = _decode(c)
    if obs and obs[0] in (-2, -3, -4):
        return "harness types out of sync with the case generator (%s)" % obs
    if obs == [-9]:
        return "panic during initialization"
    if obs == [-1]:
        return "initialization into a destination of INIT_BYTES + %d bytes failed" % extra
    want = dflt if mode == 0 else value
    if len(obs) != size + 4:
        return "malformed observation %s" % obs
    announced, consumed, written, intact, back = obs[0], obs[1], obs[2:2 + size], obs[2 + size], obs[3 + size]
    if announced != size:
        return "INIT_BYTES = %d, the type has %d bytes" % (announced, size)
    if consumed != size:
        return "the initializer consumed %d bytes of the destination, it announced %d" % (consumed, size)
    if written != want:
        return "the initializer wrote %s; the value it denotes (%s) has the bytes %s" % (
            written, "the type's default" if mode == 0 else "its argument", want)
    if intact != 1:
        return "bytes behind the announced INIT_BYTES were written"
    if back != 1:
        return "the initialized bytes do not parse back to the denoted value"
    return None


def nontrivial(c, obs):
    return True


def shrink(c):
    return []
