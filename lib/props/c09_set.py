"""C09, third stage: a check stays with the FIELD it is written on.

Derived account sets with SEVERAL fields (`#[derive(AccountSet)]`, star_frame_proc account_set/struct_impl/validate.rs), each
field with its own stack of checks: wrappers (`Signer`, `Mut`) and `#[validate(address = ..)]` on the second / third / fourth
field, two different pinned addresses in one set, fields the derive skips (`#[account_set(skip = ..)]`) or whose validation is
skipped (`#[validate(skip)]`) standing before the pinned field, the address pinned under a named validate id, a nested set.
The case carries the shape number (it selects the Rust type; the model ignores it) and, per field, the account and the field's
layer list.  Model: coq/Account/Validate.v validate_fields (run_c09s), theorems C09_set_accepts_iff_every_field /
C09_set_first_error / C09_set_check_stays_with_its_field."""
import itertools

from lib.props import c09 as A
from lib.props import c09_vec as V

ID = "C09"
STAGE = "set"
ENTRY = "c09s"
GROUP = A.GROUP
BIN = A.BIN
HARNESS_ARGS = ["set"]

# shape number -> the signature of every field in declaration order (vh_c09.rs sfamily(); nested sets flattened)
SHAPES = {
    0: [[], ["Aa"]],                        # {a: AccountInfo, #[address KEY_A] b: AccountInfo}
    1: [["Aa"], ["S"]],                     # {#[address KEY_A] a: AccountInfo, b: Signer<AccountInfo>}
    2: [["S"], ["Ab", "M"], ["Aa"]],        # {a: Signer, #[address KEY_B] b: Mut, #[address KEY_A] c: AccountInfo}
    3: [["M"], [], ["Aa", "S"]],            # {a: Mut, b: AccountInfo, #[address KEY_A] c: Signer}
    4: [[], [], [], ["Aa"]],                # {a, b, c: AccountInfo, #[address KEY_A] d: AccountInfo}
    5: [["M"], ["Aa"]],                     # {<skipped> p, a: Mut, <skipped> q, #[address KEY_A] b: AccountInfo}
    6: [[], ["Aa", "x1"]],                  # {a, #[validate(id = "strict", address = KEY_A)] b} validated through Strict
    7: [[], ["x4"]],                        # the same set validated through the default id: no address check applies
    8: [[], ["."], ["Aa", "."]],            # {x: AccountInfo, inner: {a: AccountInfo, #[address KEY_A] b: AccountInfo}}
    9: [[], ["Aa"]],                        # {#[validate(skip)] a: AccountInfo, #[address KEY_A] b: AccountInfo}
}
RULE = ("stage 'set': %d derived account sets of 2..4 fields (the address pinned on the 1st / 2nd / 3rd / 4th field, two pinned "
        "addresses in one set, Signer / Mut on other fields, derive-skipped and validate-skipped fields before the pinned one, "
        "the address pinned under a named validate id validated through it and through the default id, a nested set) x "
        "{every account right (all flags set / exactly the flags its field needs); exactly one field wrong in one way: signer "
        "missing, not writable, key = a one-bit neighbour of the pinned key, = the pinned key of ANOTHER field, = another "
        "field's key, = the program id; a field WITHOUT a pinned address given a pinned key; crossed: the pinned field has a "
        "wrong key while another field's account has the pinned key; every permutation of the right accounts over the "
        "fields}; accepted iff every field's account passes THAT field's layers, otherwise the error of the first failing "
        "field in declaration order" % len(SHAPES))

OWNER = [44] * 32


def _field_key(i):
    return [60 + i] * 32


def _case(shape, fields):
    """fields: [(key, owner, sg, wr, layer ints)]"""
    c = list(A.PROG) + [shape, len(fields)]
    for key, owner, sg, wr, layers in fields:
        c += list(key) + list(owner) + [int(sg), int(wr), len(layers)] + list(layers)
    return c


def _flip(key, bit):
    k = list(key)
    k[bit // 8] ^= 1 << (bit % 8)
    return k


def gen_cases(rng, tier):
    _, keys = A.family()
    cases = []
    seen = set()

    def add(shape, accts, layers):
        c = _case(shape, [(a[0], a[1], a[2], a[3], l) for a, l in zip(accts, layers)])
        t = tuple(c)
        if t not in seen:
            seen.add(t)
            cases.append(("s%d" % len(cases), c))

    for shape, sigs in sorted(SHAPES.items()):
        n = len(sigs)
        layers = [A._layers(sig, keys) for sig in sigs]
        pinned = [A._expected_key(sig, keys) for sig in sigs]
        right_keys = [pinned[i] if pinned[i] is not None else _field_key(i) for i in range(n)]
        for exact in (False, True):
            # the right accounts: all flags set, or exactly the flags the field asks for (so that an account standing in
            # another field's place is told apart by its flags as well)
            right = [(right_keys[i], OWNER, (not exact) or "S" in sigs[i], (not exact) or "M" in sigs[i]) for i in range(n)]
            add(shape, right, layers)
            for i in range(n):
                def one(acct):
                    add(shape, right[:i] + [acct] + right[i + 1:], layers)
                key, owner, sg, wr = right[i]
                one((key, owner, not sg, wr))
                one((key, owner, sg, not wr))
                one((key, owner, not sg, not wr))
                others = [right_keys[j] for j in range(n) if j != i] + [keys["a"], keys["b"], list(A.PROG)]
                for k in others:
                    # a pinned field with another field's (pinned or free) key: wrong; a free field with any key: right
                    one((k, owner, sg, wr))
                if pinned[i] is not None:
                    bits = range(256) if tier == "thorough" else sorted({0, 7, 8, 63, 64, 127, 128, 191, 192, 248, 255} | {rng.below(256) for _ in range(6)})
                    for bit in bits:
                        one((_flip(pinned[i], bit), owner, sg, wr))
                    # crossed: field i has a wrong key while field j's account HAS the key pinned on field i
                    for j in range(n):
                        if j == i:
                            continue
                        for wrong in (right_keys[j], _flip(pinned[i], rng.below(256)), _field_key(9)):
                            accts = list(right)
                            accts[i] = (wrong, owner, sg, wr)
                            accts[j] = (pinned[i], right[j][1], right[j][2], right[j][3])
                            add(shape, accts, layers)
                        # every OTHER field has the pinned key
                        accts = [(pinned[i], a[1], a[2], a[3]) for a in right]
                        accts[i] = (right_keys[j], owner, sg, wr)
                        add(shape, accts, layers)
            for perm in itertools.permutations(range(n)):
                add(shape, [right[p] for p in perm], layers)
    if tier == "thorough":
        for _ in range(40000):
            shape = rng.choice(sorted(SHAPES))
            sigs = SHAPES[shape]
            n = len(sigs)
            layers = [A._layers(sig, keys) for sig in sigs]
            pool = [keys["a"], keys["b"]] + [_field_key(i) for i in range(n)]
            accts = []
            for i in range(n):
                ek = A._expected_key(sigs[i], keys)
                k = list(ek) if (ek is not None and rng.chance(2, 3)) else list(rng.choice(pool))
                if rng.chance(1, 6):
                    k = _flip(k, rng.below(256))
                accts.append((k, OWNER, not rng.chance(1, 4), not rng.chance(1, 4)))
            add(shape, accts, layers)
    return cases


def _decode(c):
    shape, nf = c[32:34]
    i = 34
    fields = []
    for _ in range(nf):
        key, owner, sg, wr, nl = c[i:i + 32], c[i + 32:i + 64], c[i + 64], c[i + 65], c[i + 66]
        i += 67
        # reuse the single-account decoder for the field's layer list
        dummy = list(A.PROG) + [1] + [0] * 64 + [0, 0, 0] + c[i:i + nl]
        fields.append(((key, owner, sg, wr), A._decode(dummy)[7]))
        i += nl
    return shape, fields


def describe(c):
    shape, fields = _decode(c)
    return {"shape": shape, "shape_fields": [" ".join(s) for s in SHAPES.get(shape, [])],
            "fields_in_declaration_order": [
                {"key": a[0][:2], "owner": a[1][:2], "is_signer": bool(a[2]), "is_writable": bool(a[3]),
                 "checks_in_order": [[A.LN[l[0]]] + [x[:2] if isinstance(x, list) else x for x in l[1:]] for l in layers]}
                for a, layers in fields]}


def predicate(c, obs):
    if obs is None or (obs and obs[0] == "UNPARSEABLE"):
        return "no observation from the implementation"
    if obs and obs[0] < 0:
        return "harness family out of sync with the case generator (%s)" % obs
    if obs == [2]:
        return "panic during validation"
    shape, fields = _decode(c)
    errs = [V._acct_err(a, layers) for a, layers in fields]
    first = next((e for e in errs if e is not None), None)
    if first is None:
        if obs != [0]:
            return "every field's account satisfies every check written on that field, yet the set was rejected: %s" % obs
    else:
        at = next(i for i, e in enumerate(errs) if e is not None)
        if obs[:1] == [0]:
            return "the set was accepted although the account of field %d violates a check written on that field (expected error %s)" % (at, first)
        if obs != [1, first]:
            return "rejected with %s, the first failing field (%d) should give %s" % (obs, at, first)
    return None


def nontrivial(c, obs):
    shape, fields = _decode(c)
    return len(fields) > 1 and any(layers for _, layers in fields)


def shrink(c):
    return []
