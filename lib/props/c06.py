"""C06 - a failed mutation never corrupts, and single-container operations are atomic."""
from lib import unsized as U
from lib import unsized_ops as O
from lib.props._unsized_ops import *  # noqa: F401,F403
from lib.props import _unsized_ops as B

ID = "C06"
COQ_TARGETS = ["Properties/C06.vo"]
RULE = ("histories of 4..25 steps with growth refused by the data access during step k (3/4 of the cases; k swept over every step of 19 fixed growth-heavy histories), and a "
        "generator biased to failing ops: indices one past the end, reversed ranges, the 256th element under a u8 prefix, growth "
        "to allowance-1 / allowance / allowance+1, failing initializers. After a failed op the harness observes bytes, length, the "
        "value through the live accessors and a fresh parse, then continues with further ops. non-trivial = history containing "
        "at least one failed op followed by a successful one; distinct = distinct encodings")


def gen_cases(rng, tier):
    rng.next()
    rng.next()
    cases = B.gen_ops_cases(rng, tier, 1500, 12000, refuse_sweep=True, steps=(4, 25))
    # every k for a few fixed growth-heavy histories
    fam = U.family_ops()
    extra = []
    for j, shape in enumerate(fam):
        base = O.gen_history(rng, shape, 14, refuse=-1, flush=j % 2)
        idx, ty, flush, refuse, v0, steps = O.decode_case(base)
        desc = shape[1]
        for k in range(0, 14):
            extra.append(("k%d_%d" % (j, k), O.encode_case(idx, desc, flush, k, v0, steps)))
    return cases + extra


def predicate(c, obs):
    return O.judge(c, obs, {"atomic"})


def nontrivial(c, obs):
    idx, ty, flush, refuse, v0, steps = O.decode_case(c)
    frames, _ = O.split_obs(obs, len(steps))
    failed = False
    for fr in frames:
        if fr[:1] == [1]:
            failed = True
        elif failed and fr[:1] == [0]:
            return True
    return False


def matches_known(entry, c, obs):
    why = predicate(c, obs) or ""
    return why.startswith("[%s]" % entry["id"])
SECONDARY = ["c06_account"]
