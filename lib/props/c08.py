"""C08 - program accounts are admitted iff owner and discriminant match."""
ID = "C08"
ENTRY = "c08"
GROUP = "acct"
BIN = "vh_c08"
COQ_TARGETS = ["Properties/C08.vo"]

DISC = {0: [], 1: [0xA5], 2: [0xEF, 0xBE], 4: [0xEF, 0xBE, 0xAD, 0xDE], 8: [1, 2, 3, 4, 5, 6, 7, 8],
        16: [16, 15, 14, 13, 12, 11, 10, 9, 8, 7, 6, 5, 4, 3, 2, 1],
        3: [0x31, 0x32, 0x33], 12: [12, 11, 10, 9, 8, 7, 6, 5, 4, 3, 2, 1], 24: list(range(1, 25))}
PID = {0: 10, 1: 11, 2: 12, 4: 14, 8: 18, 16: 26, 3: 43, 12: 52, 24: 64}
# account types whose discriminant IS the all-0xFF pattern the framework writes when it closes an account (keys 101 / 102 /
# 108 = widths 1 / 2 / 8): owner + discriminant match, so they are admitted like any other type
DISC.update({101: [255], 102: [255, 255], 108: [255] * 8, 118: [255, 16, 32, 48, 64, 80, 96, 112]})
PID.update({101: 31, 102: 32, 108: 38, 118: 39})
WIDTH = {0: 0, 1: 1, 2: 2, 4: 4, 8: 8, 16: 16, 3: 3, 12: 12, 24: 24, 101: 1, 102: 2, 108: 8, 118: 8}
VARIANTS = (0, 1, 2, 3, 4, 8, 12, 16, 24, 101, 102, 108, 118)
E_OWNER = 23 << 32
E_SMALL = 5 << 32
E_BORROW = 12 << 32
E_DISC = 1003

RULE = ("exhaustive product in the quick tier: discriminant widths {0,1,2,3,4,8,12,16,24} x owners {program id, each of its 256 "
        "single-bit flips, system program} x data {every length 0..w+3 with the right prefix, every single-byte deviation "
        "of the prefix (two values per position), the all-0xFF closed marker, a valid body} x writable x borrow state "
        "(none / 1 shared / 7 shared or exclusive) x closed-by-the-framework first; the decisions repeated on accounts holding 0 / 1 / u64::MAX lamports; plus random bodies. "
        "non-trivial = the account passes validation or differs from a passing one in exactly one bit/byte/flag")
TRUSTED = [
    "Coq 8.16.1 kernel", "extraction (ExtrOcamlBasic only) + runner/driver.ml",
    "harness/src/bin/vh_c08.rs (twelve programs: discriminant widths 0,1,2,3,4,8,12,16,24 and three all-0xFF discriminants) + native AccountInfo builder",
    "tools/gen_constants.py (error codes)",
]
ASSUMPTIONS = [
    "the typed view requested after validation is AccountDiscriminant<{list: List<u8>}> (parse errors of other shapes are C04's)",
    "keys are 32 byte values; pinocchio's can_borrow_data is abstracted to a flag realised by real outstanding borrows",
]


def _case(w, owner, wr, cb, cbm, cl, data, lam=0):
    """lam: class of the account's balance (0: 5000, 1: ZERO, 2: u64::MAX, 3: 1 lamport) - state the admission decision
    must not depend on; it rides in the can-borrow code (cb = 1 + 2 * lam), which the model reads as a boolean"""
    cbc = (1 + 2 * lam) if (cb and not cl) else int(bool(cb))
    return [WIDTH[w]] + DISC[w] + [PID[w]] * 32 + owner + [int(wr), cbc, int(cbm), int(cl)] + data


def gen_cases(rng, tier):
    cases = []
    n = 0

    def add(c):
        nonlocal n
        cases.append(("e%d" % n, c))
        n += 1

    for w in VARIANTS:
        pid = [PID[w]] * 32
        body = [3, 0, 0, 0, 7, 8, 9]
        good = DISC[w] + body
        owners = [pid, [0] * 32]
        for bit in range(256):
            o = list(pid)
            o[bit // 8] ^= 1 << (bit % 8)
            owners.append(o)
        datas = [good]
        for ln in range(0, WIDTH[w] + 4):
            datas.append((DISC[w] + [0] * 8)[:ln])
        for pos in range(WIDTH[w]):
            for dv in (1, 0x80):
                d = list(good)
                d[pos] ^= dv
                datas.append(d)
        datas.append([255] * WIDTH[w])
        datas.append([255] * WIDTH[w] + body)
        datas.append(DISC[w] + [200, 0, 0, 0, 1])          # body too short for its length
        # owners x good data, all flags
        for o in owners:
            for wr in (0, 1):
                add(_case(w, o, wr, 1, 1, 0, good))
        # data variants x {right owner, wrong owner} x flags x borrow states x closed
        for d in datas:
            for o in (pid, owners[2], [0] * 32):
                for wr in (0, 1):
                    for (cb, cbm) in ((1, 1), (1, 0), (0, 0)):
                        for cl in (0, 1):
                            add(_case(w, o, wr, cb, cbm, cl, d))
        # the same decisions on accounts holding no lamports / the maximum / one lamport
        for lam in (1, 2, 3):
            for d in datas[:6] + datas[-3:]:
                for o in (pid, owners[2], owners[-1], [0] * 32):
                    for wr in (0, 1):
                        for (cb, cbm) in ((1, 1), (1, 0)):
                            add(_case(w, o, wr, cb, cbm, 0, d, lam))
    extra = 300 if tier == "quick" else 30000
    for _ in range(extra):
        w = rng.choice(list(VARIANTS))
        pid = [PID[w]] * 32
        o = pid if rng.chance(3, 4) else rng.bytes(32)
        ln = rng.range(0, 40)
        d = (DISC[w] if rng.chance(3, 4) else rng.bytes(WIDTH[w])) + rng.bytes(ln)
        if rng.chance(1, 2):
            k = rng.range(0, 20)
            d = d[:len(DISC[w])] + [k, 0, 0, 0] + rng.bytes(k)
        cb, cbm = rng.choice([(1, 1), (1, 1), (1, 0), (0, 0)])
        add(_case(w, o, rng.below(2), cb, cbm, rng.chance(1, 8), d))
    return cases


def _decode(c):
    w = c[0]
    d = c[1:1 + w]
    pid = c[1 + w:33 + w]
    owner = c[33 + w:65 + w]
    wr, cb, cbm, cl = c[65 + w:69 + w]
    data = c[69 + w:]
    return w, d, pid, owner, wr, cb, cbm, cl, data


def describe(c):
    w, d, pid, owner, wr, cb, cbm, cl, data = _decode(c)
    return {"disc_width": w, "discriminant": d, "owner_is_program": owner == pid,
            "owner": owner, "writable": bool(wr), "lamports_class": ((cb - 1) // 2) if cb else 0, "can_borrow": bool(cb), "can_borrow_mut": bool(cbm),
            "closed_first": bool(cl), "data": data}


def _split(obs):
    """three outcome tags"""
    out = []
    i = 0
    while i < len(obs) and len(out) < 3:
        if obs[i] == 1:
            out.append((1, obs[i + 1]))
            i += 2
        else:
            out.append((obs[i], None))
            i += 1
    return out


def predicate(c, obs):
    if obs is None or (obs and obs[0] == "UNPARSEABLE"):
        return "no observation from the implementation"
    if obs and obs[0] < 0:
        return "harness constants out of sync with the case generator (%s)" % obs
    w, d, pid, owner, wr, cb, cbm, cl, data = _decode(c)
    if cl:
        data = [255] * w
    o = _split(obs)
    if len(o) != 3:
        return "malformed observation %s" % obs
    if any(t == 2 for t, _ in o):
        return "panic during validation / access"
    should = owner == pid and data[:w] == d and len(data) >= w
    v = o[0]
    if cb:
        if should and v != (0, None):
            return "account with matching owner and discriminant rejected: %s" % (v,)
        if not should and v[0] == 0:
            return "account admitted although owner/discriminant do not match"
        if not should and v[1] not in (E_OWNER, E_SMALL, E_DISC):
            return "rejected with an unexpected error %s" % (v,)
    elif v[0] == 0 and not should:
        return "account admitted although owner/discriminant do not match"
    # typed views
    if o[1][0] == 0 and wr and not should:
        return "data() produced a typed view of a writable account that does not validate"
    if o[2][0] == 0 and not wr:
        return "data_mut() granted on a read-only account"
    if o[2][0] == 0 and not should:
        return "data_mut() produced a typed view of an account that does not validate"
    if cl and w > 0 and d != [255] * w and v[0] == 0:
        return "an account closed by the framework still validates as its type"
    return None


def nontrivial(c, obs):
    w, d, pid, owner, wr, cb, cbm, cl, data = _decode(c)
    diff_owner = sum(bin(a ^ b).count("1") for a, b in zip(owner, pid))
    pre = data[:w]
    diff_disc = sum(1 for a, b in zip(pre, d) if a != b) + abs(len(pre) - len(d))
    return diff_owner + diff_disc <= 1


def shrink(c):
    w, d, pid, owner, wr, cb, cbm, cl, data = _decode(c)
    if len(data) > w:
        yield _case(w, owner, wr, cb, cbm, cl, data[:-1])
    if owner != pid:
        yield _case(w, pid, wr, cb, cbm, cl, data)
    if cl:
        yield _case(w, owner, wr, cb, cbm, 0, data)
    if not (cb and cbm):
        yield _case(w, owner, wr, 1, 1, cl, data)


def distribution(cases, impl):
    from collections import Counter
    c1 = Counter()
    c2 = Counter()
    for cid, c in cases:
        c1["w=%d" % c[0]] += 1
        o = impl.get(cid) or []
        c2["validate " + ("ok" if o[:1] == [0] else "err %s" % (o[1] if len(o) > 1 else "?"))] += 1
    return {"widths": dict(c1), "validate_outcomes": dict(c2)}


def matches_known(entry, c, obs):
    return False
