"""C06, second stage: the runtime's own growth limit on a real (native) program account.

The first stage injects "growth refused" through the harness's data access; this one lets pinocchio's
AccountInfo::resize_unchecked refuse (more than MAX_PERMITTED_DATA_INCREASE over the original length) through the
framework's `impl UnsizedTypeDataAccess for AccountInfo`, and keeps operating on the same live borrow afterwards.
Model: coq/Account/AccountInfo.v (run_c07); predicate: plain Vec oracle of lib/props/c07.py."""
from lib.props import c07 as A

ID = "C06"
STAGE = "account"
ENTRY = A.ENTRY
GROUP = A.GROUP
BIN = A.BIN
MAX_INC = A.MAX_INC
DISC = A.DISC
RULE = ("stage 'account': 1-3 List<u8> fields in a native program account; within one exclusive borrow, pushes that cross "
        "the runtime's growth allowance by 1..3 bytes / by far (refused by AccountInfo::resize_unchecked), each followed "
        "by read, small push, remove_range, a push to exactly the allowance, release, re-borrow and read")

describe = A.describe
predicate = A.predicate
shrink = A.shrink


def gen_cases(rng, tier):
    n = 150 if tier == "quick" else 6000
    cases = []
    for j in range(n):
        k = rng.range(1, 3)
        hi = rng.choice([0, 8, 64, 3000, 20000])
        lens = [rng.range(0, hi) for _ in range(k)]
        cur = list(lens)
        orig = DISC + sum(4 + x for x in lens)
        ops = [(1,)]
        for _ in range(rng.range(2, 7)):
            total = DISC + sum(4 + x for x in cur)
            room = orig + MAX_INC - total
            i = rng.below(k)
            r = rng.below(10)
            if r < 4:
                # refused growth, then keep going on the same borrow
                over = rng.choice([1, 2, 3, MAX_INC, 5 * MAX_INC])
                ops.append((5, i, room + over, rng.range(0, 255)))
                ops.append((7,))
                follow = rng.below(4)
                if follow == 0:
                    m = rng.range(0, min(room, 40))
                    ops.append((5, i, m, 7))
                    cur[i] += m
                elif follow == 1 and cur[i] > 0:
                    e = rng.range(1, cur[i])
                    ops.append((6, i, 0, e))
                    cur[i] -= e
                elif follow == 2:
                    ops.append((5, i, room, 9))
                    cur[i] += room
                else:
                    ops.append((6, i, cur[i] + 1, cur[i] + 2))  # a second failure of another kind
                ops.append((7,))
            elif r < 6:
                m = rng.range(0, max(0, min(room, 500)))
                ops.append((5, i, m, rng.range(0, 255)))
                cur[i] += m
            elif r < 8 and cur[i] > 0:
                a = rng.range(0, cur[i])
                e = rng.range(a, cur[i])
                ops.append((6, i, a, e))
                cur[i] -= e - a
            else:
                ops.append((7,))
        ops += [(2,), (1,), (7,), (2,), (3,), (7,), (4,)]
        cases.append(("a%d" % j, A._encode(True, lens, ops)))
    return cases


def nontrivial(ints, obs):
    w, lens, ops = A._decode(ints)
    per, _ = A._split_obs(obs, len(ops))
    failed = False
    for o, ob in zip(ops, per):
        if o[0] == 5 and ob[:1] == [1]:
            failed = True
        elif failed and o[0] in (5, 6) and ob == [0]:
            return True
    return False
