"""Common part of the operation-history checks C01 / C02 / C03 / C06 (one harness mode, one model entry)."""
from collections import Counter

from lib import unsized as U
from lib import unsized_ops as O

ENTRY = "ops"
GROUP = "unsized"
BIN = "vh_unsized"
HARNESS_ARGS = ["ops"]

TRUSTED = [
    "Coq 8.16.1 kernel", "extraction (ExtrOcamlBasic only) + runner/driver.ml",
    "harness/src/{nodes,shapes,guard}.rs + bin/vh_unsized.rs: generic interpreter of (path, op) histories over the real "
    "ExclusiveWrapper API for a finite family of Rust shapes; mmap'ed allocation flush against PROT_NONE guard pages, "
    "canaries, fork per case (SIGSEGV is an observation), injectable refusal of the k-th growing realloc",
    "lib/unsized.py + lib/unsized_ops.py: plain Vec/BTreeMap/String oracle (independent of the Coq model) used by the predicate",
    "tools/gen_constants.py (growth allowance, error codes)",
]
ASSUMPTIONS = [
    "the Rust shape family (19 shapes, nesting depth <= 3) stands for the inductive universe on the implementation side",
    "the data access is the harness's GuardBuf (capacity = initial length + 10240, zero-filled growth, InvalidRealloc "
    "beyond it), which is what AccountInfo provides; AccountInfo itself is exercised by C07",
    "map / set keys compare as little-endian integers; strings are ASCII in generated cases",
    "overflow checks are compiled in (the workspace's debug and release profiles)",
]


def gen_ops_cases(rng, tier, n_quick, n_thorough, refuse_sweep=False, steps=(4, 40)):
    fam = U.family()
    n = n_quick if tier == "quick" else n_thorough
    cases = []
    for j in range(n):
        shape = fam[j % len(fam)] if j < 6 * len(fam) else rng.choice(fam)
        ns = rng.range(*steps)
        refuse = -1
        if refuse_sweep:
            refuse = rng.range(0, ns - 1) if rng.chance(3, 4) else -1
        flush = rng.below(2)
        budget = 16 if rng.chance(9, 10) else 200
        cases.append(("g%d" % j, O.gen_history(rng, shape, ns, refuse=refuse, flush=flush, budget=budget)))
    return cases + stale_inner_cases(rng)


def stale_inner_cases(rng):
    """allowance-scale histories the small random ones cannot reach (D26): get_mut on an element far into a list of
    unsized elements, shrink that list (clear / remove / pop), then grow a PRECEDING sibling by about the whole
    allowance: the list's recorded inner pointer is shifted past the end of the allocation"""
    fam = U.family()
    out = []
    for idx, ulist_field, elem in ((7, 1, 1), (15, 1, 1)):
        _, desc, ty = fam[idx]
        big = [[rng.below(256)] for _ in range(rng.range(150, 260))]
        fields = []
        for fi, ft in enumerate(ty[1]):
            if fi == ulist_field:
                fields.append(("U", [([], ("L", big)), ([], ("L", []))]))
            elif ft[0] == "L":
                fields.append(("L", []))
            elif ft[0] == "U":
                fields.append(("U", []))
            else:
                fields.append(("B", []))
        v0 = ("S", fields)
        size0 = len(U.encode(ty, v0))
        for shrink_op in ([33], [31, 0, 2], [31, 0, 1]):
            grow = U.MAX_INC + (len(big) if shrink_op != [31, 0, 1] else len(big) - 8) - rng.range(0, 40)
            steps = [[1, ulist_field, 34, elem], [1, ulist_field] + shrink_op,
                     [1, 0, 10, 0, grow] + [1, 5] * grow, [90], [1, ulist_field, 34, 0], [1, 0, 11, 0, grow // 2]]
            out.append(("stale%d_%d" % (idx, len(out)), O.encode_case(idx, desc, 0, -1, v0, steps)))
    return out


def describe(c):
    idx, ty, flush, refuse, v0, steps = O.decode_case(c)
    return {"shape": idx, "type": ty, "guard_page": "after" if flush == 0 else "before", "refused_growing_realloc": refuse,
            "initial_value": v0, "steps": steps}


def nontrivial(c, obs):
    idx, ty, flush, refuse, v0, steps = O.decode_case(c)
    frames, _ = O.split_obs(obs, len(steps))
    sizes = set()
    for fr in frames:
        if fr[:1] == [0] and len(fr) > 2:
            ne = fr[1]
            st = fr[2 + ne:]
            if st:
                sizes.add(st[0])
    return len(sizes) >= 2       # at least one successful resize


def shrink(c):
    idx, ty, flush, refuse, v0, steps = O.decode_case(c)
    desc = c[1:1 + _desc_len(c)]
    for i in range(len(steps)):
        yield O.encode_case(idx, desc, flush, refuse, v0, steps[:i] + steps[i + 1:])
    for i in range(len(steps) - 1, 0, -1):
        yield O.encode_case(idx, desc, flush, refuse, v0, steps[:i])


def _desc_len(c):
    ty, r = U.dec_ty(c[1:])
    return len(c) - 1 - len(r)


def distribution(cases, impl):
    shapes = Counter()
    ops = Counter()
    outs = Counter()
    depth = Counter()
    for cid, c in cases:
        idx, ty, flush, refuse, v0, steps = O.decode_case(c)
        shapes["shape%d" % idx] += 1
        frames, _ = O.split_obs(impl.get(cid) or [], len(steps))
        for op, fr in zip(steps, frames):
            d = 0
            l = op
            while l and l[0] in (1, 2):
                d += 1
                l = l[2:]
            depth[d] += 1
            ops[l[0] if l else -1] += 1
            outs["ok" if fr[:1] == [0] else "err" if fr[:1] == [1] else "panic" if fr[:1] == [2] else "skip"] += 1
    return {"shapes": dict(shapes), "leaf_op_codes": {str(k): v for k, v in ops.items()}, "outcomes": dict(outs),
            "path_depth": {str(k): v for k, v in depth.items()}}


def matches_known_generic(entry, c, obs):
    return False
