"""Common part of the operation-history checks C01 / C02 / C03 / C06 (one harness mode, one model entry)."""
from collections import Counter

from lib import unsized as U
from lib import unsized_ops as O

ENTRY = "ops"
GROUP = "unsized"
BIN = "vh_unsized"
HARNESS_ARGS = ["ops"]

TRUSTED = [
    "Coq 8.16.1 kernel", "extraction (ExtrOcamlBasic only) + runner/driver.ml",
    "harness/src/{nodes,shapes,guard}.rs + bin/vh_unsized.rs: generic interpreter of (path, op) histories over the real "
    "ExclusiveWrapper API for a finite family of Rust shapes; mmap'ed allocation flush against PROT_NONE guard pages, "
    "canaries, fork per case (SIGSEGV is an observation), injectable refusal of the k-th growing realloc",
    "lib/unsized.py + lib/unsized_ops.py: plain Vec/BTreeMap/String oracle (independent of the Coq model) used by the predicate",
    "tools/gen_constants.py (growth allowance, error codes)",
]
ASSUMPTIONS = [
    "the Rust shape family (25 shapes, nesting depth <= 4, four of them with generated enums: top level, between siblings, as list elements, a list of enums inside an enum in tail position) stands for the inductive universe on the implementation side; the #[default_init] variant of an enum is the first listed variant of its descriptor",
    "the data access is the harness's GuardBuf (capacity = initial length + 10240, zero-filled growth, InvalidRealloc "
    "beyond it), which is what AccountInfo provides; AccountInfo itself is exercised by C07",
    "map / set keys compare as little-endian integers; strings are ASCII in generated cases",
    "overflow checks are compiled in (the workspace's debug and release profiles)",
]


def gen_ops_cases(rng, tier, n_quick, n_thorough, refuse_sweep=False, steps=(4, 40)):
    fam = U.family_ops()
    n = n_quick if tier == "quick" else n_thorough
    cases = []
    for j in range(n):
        shape = fam[j % len(fam)] if j < 6 * len(fam) else rng.choice(fam)
        ns = rng.range(*steps)
        refuse = -1
        if refuse_sweep:
            refuse = rng.range(0, ns - 1) if rng.chance(3, 4) else -1
        flush = rng.below(2)
        budget = 16 if rng.chance(9, 10) else 200
        cases.append(("g%d" % j, O.gen_history(rng, shape, ns, refuse=refuse, flush=flush, budget=budget)))
    return cases + stale_inner_cases(rng) + enum_cases(rng, refuse_sweep)


def stale_inner_cases(rng):
    """allowance-scale histories the small random ones cannot reach (D26): get_mut on an element far into a list of
    unsized elements, shrink that list (clear / remove / pop), then grow a PRECEDING sibling by about the whole
    allowance: the list's recorded inner pointer is shifted past the end of the allocation"""
    fam = U.family_ops()
    out = []
    for idx, ulist_field, elem in ((7, 1, 1), (15, 1, 1)):
        _, desc, ty = fam[idx]
        big = [[rng.below(256)] for _ in range(rng.range(150, 260))]
        fields = []
        for fi, ft in enumerate(ty[1]):
            if fi == ulist_field:
                fields.append(("U", [([], ("L", big)), ([], ("L", []))]))
            elif ft[0] == "L":
                fields.append(("L", []))
            elif ft[0] == "U":
                fields.append(("U", []))
            else:
                fields.append(("B", []))
        v0 = ("S", fields)
        size0 = len(U.encode(ty, v0))
        for shrink_op in ([33], [31, 0, 2], [31, 0, 1]):
            grow = U.MAX_INC + (len(big) if shrink_op != [31, 0, 1] else len(big) - 8) - rng.range(0, 40)
            steps = [[1, ulist_field, 34, elem], [1, ulist_field] + shrink_op,
                     [1, 0, 10, 0, grow] + [1, 5] * grow, [90], [1, ulist_field, 34, 0], [1, 0, 11, 0, grow // 2]]
            out.append(("stale%d_%d" % (idx, len(out)), O.encode_case(idx, desc, 0, -1, v0, steps)))
    return out


def enum_cases(rng, refuse_sweep=False):
    """forced patterns on the enum shapes (E1 = {A(List<u8>) default, B(S1) = 3, C}; S7 = {a, e: E1, d}; UnsizedList<E1>;
    S8 = {n, x, e: E2}, E2 = {P(UnsizedList<E1>) = 2, Q default, R(RemainingBytes) = 300}): variant switches between
    resizing siblings, ops through the wrapper a setter returns, get() on another / a unit variant, element-level switches
    inside a list of enums, and the allowance-scale stale-inner-pointer history of D26 with the list inside an enum.
    With refuse_sweep (C06) every history is also run with growth refused at each step k."""
    fam = U.family_ops()
    by = {idx: (idx, desc, ty) for idx, desc, ty in fam}
    if not all(i in by and j in repr(by[i][2]) for i, j in ((22, "'E'"), (23, "'E'"), (24, "'E'"))):
        return []
    s1_default = ("S", [("B", [0, 0]), ("L", []), ("L", [])])
    s1_some = ("S", [("B", [7, 1]), ("L", [[1], [2], [3]]), ("L", [[4, 5]])])
    hist = []
    # S7: the enum between two siblings
    hist.append((22, ("S", [("L", [[1], [2]]), ("E", 0, ("L", [[9]])), ("L", [[3]])]), [
        [1, 0, 15, 1, 7], [1, 1, 60, 3], [1, 1, 1, 3, 1, 1, 15, 1, 5], [1, 1, 1, 3, 1, 2, 15, 2, 1, 2],
        [1, 2, 10, 0, 3, 1, 1, 1, 2, 1, 3], [1, 1, 60, 4], [1, 0, 11, 0, 1], [1, 1, 1, 4, 13], [1, 1, 1, 0, 13], [90],
        [1, 1, 60, 0, 10, 0, 2, 1, 8, 1, 9], [1, 2, 12], [1, 1, 1, 0, 15, 1, 4], [1, 1, 60, 0],
        [1, 1, 70] + U.enc_val(("E", 3, s1_some)), [1, 0, 13], [1, 1, 1, 3, 72, 2, 5, 1], [1, 1, 1, 3, 1, 2, 12],
        [1, 1, 60, 3, 1, 1, 10, 0, 2, 1, 1, 1, 2], [1, 2, 15, 1, 1], [1, 1, 71, 0], [1, 0, 15, 1, 1], [1, 1, 60, 4], [1, 1, 60, 4]]))
    # a list of enums: element-level switches
    hist.append((23, ("U", [([], ("E", 0, ("L", [[1]]))), ([], ("E", 4, ("S", []))), ([], ("E", 3, s1_default))]), [
        [1, 0, 60, 3], [1, 1, 60, 0, 15, 1, 9], [1, 0, 1, 3, 1, 1, 10, 0, 2, 1, 1, 1, 2], [30, 1, 2, 0], [1, 1, 1, 0, 15, 1, 3],
        [34, 2], [1, 4, 60, 4], [1, 0, 60, 4], [35, 0], [1, 3, 1, 0, 11, 0, 1], [31, 0, 2], [90],
        [1, 0, 60, 3, 1, 2, 15, 2, 7, 7], [1, 0, 70] + U.enc_val(("E", 0, ("L", [[5], [6]]))), [1, 5, 13], [32], [1, 0, 60, 0], [33]]))
    # S8: a list of enums inside an enum in tail position; set_p / set_r / set_q with ops on the returned wrappers
    hist.append((24, ("S", [("B", [1, 0]), ("L", [[1]]), ("E", 3, ("S", []))]), [
        [1, 2, 60, 2, 30, 0, 2, 0], [1, 2, 1, 2, 1, 1, 60, 3, 1, 1, 15, 1, 9], [1, 1, 15, 1, 2], [1, 2, 1, 2, 1, 0, 1, 0, 15, 1, 4],
        [1, 2, 1, 2, 34, 1], [1, 2, 60, 300, 20, 5], [1, 2, 1, 300, 21, 0, 7], [1, 1, 13], [1, 2, 1, 2, 13], [1, 2, 1, 300, 20, 2],
        [90], [72, 2, 9, 9], [1, 2, 60, 3], [1, 2, 1, 3, 13], [1, 2, 60, 2], [1, 2, 1, 2, 30, 0, 1, 0], [1, 2, 60, 2, 30, 0, 3, 0],
        [1, 2, 1, 2, 1, 2, 60, 4], [1, 2, 71, 0], [1, 2, 70] + U.enc_val(("E", 300, ("B", [1, 2, 3]))), [1, 1, 15, 1, 3]]))
    out = []
    for hi, (idx, v0, steps) in enumerate(hist):
        _, desc, ty = by[idx]
        o = O.Oracle(idx, ty, v0, -1)
        for op in steps:
            if op != [90]:
                assert O.apply(o, None, op).kind != "skip", ("enum_cases: not applicable", idx, op)
        ks = [-1] + (list(range(len(steps))) if refuse_sweep else [])
        for k in ks:
            out.append(("enum%d_%d" % (hi, k + 1), O.encode_case(idx, desc, hi % 2, k, v0, steps)))
    # D26 through an enum: get_mut far into the list held by variant P, empty the list (clear / switch the variant away),
    # grow the PRECEDING sibling x by about the allowance, re-borrow, use the enum again
    _, desc, ty = by[24]
    for how in range(3):
        big = [[rng.below(256)] for _ in range(rng.range(150, 260))]
        v0 = ("S", [("B", [0, 0]), ("L", []), ("E", 2, ("U", [([], ("E", 0, ("L", big))), ([], ("E", 4, ("S", [])))]))])
        empty = [[1, 2, 1, 2, 33], [1, 2, 60, 3], [1, 2, 1, 2, 31, 0, 1]][how]
        grow = U.MAX_INC + len(big) - 8 - rng.range(0, 40)
        steps = [[1, 2, 1, 2, 34, 1], empty, [1, 1, 10, 0, grow] + [1, 5] * grow, [90],
                 [1, 2, 60, 2, 30, 0, 1, 0], [1, 2, 1, 2, 34, 0], [1, 1, 11, 0, grow // 2], [1, 2, 60, 300, 20, 9]]
        out.append(("enumstale%d" % how, O.encode_case(24, desc, 0, -1, v0, steps)))
    return out


def describe(c):
    idx, ty, flush, refuse, v0, steps = O.decode_case(c)
    return {"shape": idx, "type": ty, "guard_page": "after" if flush == 0 else "before", "refused_growing_realloc": refuse,
            "initial_value": v0, "steps": steps}


def nontrivial(c, obs):
    idx, ty, flush, refuse, v0, steps = O.decode_case(c)
    frames, _ = O.split_obs(obs, len(steps))
    sizes = set()
    for fr in frames:
        if fr[:1] == [0] and len(fr) > 2:
            ne = fr[1]
            st = fr[2 + ne:]
            if st:
                sizes.add(st[0])
    return len(sizes) >= 2       # at least one successful resize


def shrink(c):
    idx, ty, flush, refuse, v0, steps = O.decode_case(c)
    desc = c[1:1 + _desc_len(c)]
    for i in range(len(steps)):
        yield O.encode_case(idx, desc, flush, refuse, v0, steps[:i] + steps[i + 1:])
    for i in range(len(steps) - 1, 0, -1):
        yield O.encode_case(idx, desc, flush, refuse, v0, steps[:i])


def _desc_len(c):
    ty, r = U.dec_ty(c[1:])
    return len(c) - 1 - len(r)


def distribution(cases, impl):
    shapes = Counter()
    ops = Counter()
    outs = Counter()
    depth = Counter()
    for cid, c in cases:
        idx, ty, flush, refuse, v0, steps = O.decode_case(c)
        shapes["shape%d" % idx] += 1
        frames, _ = O.split_obs(impl.get(cid) or [], len(steps))
        for op, fr in zip(steps, frames):
            d = 0
            l = op
            while l and l[0] in (1, 2):
                d += 1
                l = l[2:]
            depth[d] += 1
            ops[l[0] if l else -1] += 1
            outs["ok" if fr[:1] == [0] else "err" if fr[:1] == [1] else "panic" if fr[:1] == [2] else "skip"] += 1
    return {"shapes": dict(shapes), "leaf_op_codes": {str(k): v for k, v in ops.items()}, "outcomes": dict(outs),
            "path_depth": {str(k): v for k, v in depth.items()}}


def matches_known_generic(entry, c, obs):
    return False
