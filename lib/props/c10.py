"""C10 - seeded accounts accept exactly the derived address; bump and signer seeds agree.

The generator owns a reference implementation of program-derived addresses (hashlib SHA-256 + the ed25519
decompression test) that is independent of both the Coq model and solana-address: it supplies the oracle table
of each case (the model's H / on_curve are lookups in it), and the predicate judges the implementation's
observation against it directly.  The harness prints the real create_program_address result of every candidate
the canonical-bump search looks at, so a wrong table entry shows up as a disagreement."""
import hashlib

ID = "C10"
ENTRY = "c10"
GROUP = "seeds"
BIN = "vh_c10"
COQ_TARGETS = ["Properties/C10.vo"]

PROG_ID = [201, 13, 77, 5, 9, 250, 33, 41, 8, 19, 120, 64, 3, 2, 1, 0, 99, 98, 97, 96, 95, 94, 93, 92, 91, 90, 17,
           34, 51, 68, 85, 102]
MARKER = list(b"ProgramDerivedAddress")
E_MAXSEED = 13 << 32
E_INVALID_SEEDS = 14 << 32
E_MISMATCH = 1002

KEY = ("key",)
U8, U16, U32, U64, U128 = ("int", 1, False), ("int", 2, False), ("int", 4, False), ("int", 8, False), ("int", 16, False)
I16, I64 = ("int", 2, True), ("int", 8, True)


def B(n):
    return ("bytes", n)


_F13 = [U8, U16, U8, U32, U8, U8, U64, U8, U8, U8, U8, U8]
# (name, constant prefix or None, field types in declaration order, seeds() ends with the empty seed)
# must list the structs of harness/src/bin/vh_c10.rs in the same order (a mismatch makes every case of that
# struct disagree on the printed seed vector)
FAMILY = [
    ("U0", None, [], True),
    ("U0c", list(b"TEST_CONST"), [], True),
    ("K1", None, [KEY], True),
    ("K1c", list(b"k1"), [KEY], True),
    ("K2", None, [KEY, KEY], True),
    ("KN", None, [KEY, U64], True),
    ("NK", None, [U64, KEY], True),
    ("B8", None, [U8], True),
    ("B16", None, [U16], True),
    ("B32", None, [U32], True),
    ("B64", None, [U64], True),
    ("B128", None, [U128], True),
    ("I64", None, [I64, I16], True),
    ("Mixed", None, [U8, U16, U32, U64], True),
    ("MixedC", list(b"mixed"), [U64, U32, U16, U8], True),
    ("Arr4", None, [B(4)], True),
    ("Arr32c", [0xC3] * 32, [B(32), KEY], True),
    ("Arr0", None, [B(0), U8], True),
    ("ArrLast0", None, [U8, B(0)], True),
    ("Arr33", None, [B(33)], True),
    ("LongConst", [0x5A] * 33, [U8], True),
    ("PathConst", list(b"PATH_CONST"), [KEY, U32], True),
    ("F13", None, _F13 + [KEY], True),
    ("F14", None, _F13 + [U8, KEY], True),
    ("F15", None, _F13 + [U8, U8, KEY], True),
    ("F14c", list(b"fourteen+1"), _F13 + [U8, KEY], True),
    ("F16", None, _F13 + [U8, U8, U8, KEY], True),
    ("ManualNoEmpty", list(b"manual"), [KEY, U32], False),
    ("ManualDoc", list(b"TEST_CONST"), [KEY, U64], True),
    ("BlanketKey", None, [KEY], True),
    ("BlanketU64", None, [U64], True),
    # field names with leading underscores / raw identifiers (the derive must not read anything into a name)
    ("Und", None, [KEY, U8], True),
    ("UndC", list(b"und"), [U16, U8, U32], True),
    ("RawId", None, [U8, U16], True),
]

RULE = ("%d seed structs (derived GetSeeds with 0..16 fields of Pubkey / u8 / u16 / u32 / u64 / u128 / i16 / i64 / [u8;N], "
        "with and without a constant prefix given as literal or path, field names with leading underscores and raw identifiers; the blanket impl; two hand-written impls, one "
        "without the trailing empty seed) x random and boundary field values x program ids (runtime id through "
        "CurrentProgram, or a fixed StarFrameProgram) x candidate keys {canonical PDA by Seeds and by SeedsWithBump, a lower "
        "valid bump, a wrong bump, PDA of permuted seeds, PDA of a one-bit-perturbed field, PDA under another program, an "
        "on-curve hash, random and zero keys}, every candidate (explicit bump and canonical search) also through Init<Seeded<Account<_>>> + CreateIfNeeded on an already existing account, the candidate ACCOUNTS in five states (balance 0 / 1 / u64::MAX, system- / program- / foreign-owned, with and without data, signer / writable flags) + client find/create for several bumps. non-trivial = the case contains at "
        "least one candidate that passes validation and one that fails" % len(FAMILY))
TRUSTED = [
    "Coq 8.16.1 kernel", "extraction (ExtrOcamlBasic only) + runner/driver.ml",
    "harness/src/bin/vh_c10.rs (family of seed structs, native AccountInfo builder)",
    "lib/props/c10.py reference PDA derivation (hashlib SHA-256, ed25519 decompression test) used for the oracle table "
    "and the predicate; cross-checked on every case against solana-address through the printed oracle rows",
    "tools/gen_constants.py (error codes)",
]
ASSUMPTIONS = [
    "SHA-256 and the ed25519 point test are oracles (Section variables H / on_curve, nothing assumed); collision "
    "resistance is not modelled, so 'exactly' means 'exactly the address the library derives'",
    "solana-address 1.0.0 create/find_program_address are modelled from their off-chain branch (16 seeds, 32 bytes, "
    "bumps 255..1); the on-chain syscalls are assumed to have the same contract",
    "find path limit: seeds() of a struct with 15 real seeds has 16 entries and has no canonical address on either side "
    "(validation with Seeds and the client's find both panic); SeedsWithBump supports 15 real seeds",
    "the derived seeds() mirrors the GetSeeds template; its expansions are exercised on the fixed family of the harness",
]

# ---------------------------------------------------------------------------------------------------------------
# reference PDA derivation
_P = 2 ** 255 - 19
_D = (-121665 * pow(121666, _P - 2, _P)) % _P


def on_curve(h):
    """curve25519-dalek CompressedEdwardsY::decompress().is_some(): is (y^2-1)/(d*y^2+1) a square mod p"""
    y = int.from_bytes(bytes(h), "little") & ((1 << 255) - 1)
    y %= _P
    u = (y * y - 1) % _P
    v = (_D * y * y + 1) % _P
    x2 = u * pow(v, _P - 2, _P) % _P
    return x2 == 0 or pow(x2, (_P - 1) // 2, _P) == 1


class Oracle:
    def __init__(self):
        self.table = {}

    def create(self, seeds, pid):
        """-> ('ok', addr) | ('err', code)"""
        if len(seeds) > 16 or any(len(s) > 32 for s in seeds):
            return ("err", E_MAXSEED)
        pre = [b for s in seeds for b in s] + list(pid) + MARKER
        h = list(hashlib.sha256(bytes(pre)).digest())
        c = on_curve(h)
        self.table[tuple(pre)] = (h, c)
        return ("err", E_INVALID_SEEDS) if c else ("ok", h)

    def find(self, seeds, pid):
        """-> (addr, bump) | None ; rows = results looked at"""
        rows = []
        for bump in range(255, 0, -1):
            r = self.create(seeds + [[bump]], pid)
            rows.append(r)
            if r[0] == "ok":
                return (r[1], bump), rows
            if r[1] != E_INVALID_SEEDS:
                return None, rows
        return None, rows


def enc_field(ty, v):
    if ty[0] == "key":
        return list(v)
    if ty[0] == "int":
        return list(int(v).to_bytes(ty[1], "little", signed=ty[2]))
    return list(v)


def seeds_of(sid, vals):
    name, const, tys, trailing = FAMILY[sid]
    l = ([list(const)] if const is not None else []) + [enc_field(t, v) for t, v in zip(tys, vals)]
    return l + ([[]] if trailing else [])


def real_seeds(l):
    """the seeds without the trailing placeholder that the bump replaces"""
    return l[:-1] if l and l[-1] == [] else l


# ---------------------------------------------------------------------------------------------------------------
# case encoding
def encode(sid, pid, pmode, vals, cands, cbumps, table):
    name, const, tys, trailing = FAMILY[sid]
    c = [sid] + list(pid) + PROG_ID + [pmode, int(trailing)]
    if const is not None:
        c += [1, len(const)] + list(const)
    else:
        c += [0]
    c.append(len(tys))
    for t, v in zip(tys, vals):
        if t[0] == "key":
            c += [0] + list(v)
        elif t[0] == "int":
            c += [1, t[1], int(v)]
        else:
            c += [2, t[1]] + list(v)
    c.append(len(cands))
    for key, mode, bump in cands:
        c += list(key) + [mode, bump]
    c.append(len(cbumps))
    c += list(cbumps)
    c.append(len(table))
    for pre, (h, cv) in table:
        c += [len(pre)] + list(pre) + list(h) + [int(cv)]
    return c


def decode(c):
    i = 0
    sid = c[0]
    pid = c[1:33]
    cpid = c[33:65]
    pmode, trailing, hasc = c[65:68]
    i = 68
    if hasc:
        n = c[i]
        i += 1 + n
    nf = c[i]
    i += 1
    name, const, tys, _ = FAMILY[sid]
    vals = []
    for t in tys:
        if t[0] == "key":
            vals.append(c[i + 1:i + 33])
            i += 33
        elif t[0] == "int":
            vals.append(c[i + 2])
            i += 3
        else:
            vals.append(c[i + 2:i + 2 + t[1]])
            i += 2 + t[1]
    nc = c[i]
    i += 1
    cands = []
    for _ in range(nc):
        cands.append((c[i:i + 32], c[i + 32], c[i + 33]))
        i += 34
    ncl = c[i]
    i += 1
    cbumps = c[i:i + ncl]
    i += ncl
    nt = c[i]
    i += 1
    table = []
    for _ in range(nt):
        n = c[i]
        pre = c[i + 1:i + 1 + n]
        h = c[i + 1 + n:i + 33 + n]
        cv = c[i + 33 + n]
        table.append((pre, (h, cv)))
        i += 34 + n
    return {"sid": sid, "pid": pid, "cpid": cpid, "pmode": pmode, "vals": vals, "cands": cands, "cbumps": cbumps,
            "table": table}


# ---------------------------------------------------------------------------------------------------------------
def rand_val(rng, ty):
    if ty[0] == "key":
        return rng.bytes(32)
    if ty[0] == "bytes":
        k = rng.below(4)
        if k == 0:
            return [0] * ty[1]
        if k == 1:
            return [255] * ty[1]
        return rng.bytes(ty[1])
    w, signed = ty[1], ty[2]
    bits = 8 * w
    if w == 16:
        bits = 127          # the case file carries i128
    k = rng.below(6)
    if signed:
        lo, hi = -(1 << (bits - 1)), (1 << (bits - 1)) - 1
        if k == 0:
            return lo
        if k == 1:
            return hi
        if k == 2:
            return -1
        if k == 3:
            return 0
        return lo + (rng.next() | (rng.next() << 64)) % (hi - lo + 1)
    hi = (1 << bits) - 1
    if k == 0:
        return 0
    if k == 1:
        return hi
    if k == 2:
        return 1 << (8 * rng.below(w)) if w < 16 else 1 << (8 * rng.below(15))
    if k == 3:
        return 256 if w > 1 else 255
    return (rng.next() | (rng.next() << 64)) % (hi + 1)


def make_case(rng, sid, pmode=None, pid=None, vals=None):
    name, const, tys, trailing = FAMILY[sid]
    if pmode is None:
        pmode = 1 if rng.chance(1, 5) else 0
    if pid is None:
        # with an explicit seed program (pmode 1) the EXECUTING program is usually a different one: the derivation must
        # use the seed program's id on every path (canonical search and explicit bump)
        if pmode == 1:
            pid = list(PROG_ID) if rng.chance(1, 4) else rng.bytes(32)
        else:
            pid = list(PROG_ID) if rng.chance(1, 3) else rng.bytes(32)
    if vals is None:
        vals = [rand_val(rng, t) for t in tys]
    spid = PROG_ID if pmode else pid
    orc = Oracle()
    l = seeds_of(sid, vals)
    real = real_seeds(l)
    found, _rows = orc.find(l, spid)
    cands = []
    if found:
        addr, bump = found
        cands.append((addr, 0, 0))
        cands.append((addr, 1, bump))
        # a wrong bump for the right address
        wb = rng.range(0, 255)
        orc.create(real + [[wb]], spid)
        cands.append((addr, 1, wb))
    # explicit bumps: highest valid, a lower valid one, an invalid one, bump 0 (never canonical)
    valid = []
    invalid = []
    for b in list(range(255, 235, -1)) + [0]:
        r = orc.create(real + [[b]], spid)
        if r[0] == "ok":
            valid.append((b, r[1]))
        elif r[1] == E_INVALID_SEEDS:
            invalid.append(b)
    if not found and valid:
        cands.append((valid[0][1], 1, valid[0][0]))
        cands.append((valid[0][1], 0, 0))
    if len(valid) > 1:
        b, a = valid[1] if rng.chance(1, 2) else valid[-1]
        cands.append((a, 1, b))
        cands.append((a, 0, 0))                       # a non-canonical address must not pass Seeds validation
    if invalid:
        b = invalid[0]
        pre = [x for s in real + [[b]] for x in s] + list(spid) + MARKER
        onc = list(hashlib.sha256(bytes(pre)).digest())
        cands.append((onc, 1, b))                     # an on-curve hash is not an address
        cands.append((onc, 0, 0))
    # permuted seeds
    if len(real) >= 2:
        i = rng.below(len(real) - 1)
        perm = list(real)
        perm[i], perm[i + 1] = perm[i + 1], perm[i]
        o2 = Oracle()
        f2, _ = o2.find(perm, spid)
        if f2:
            cands.append((f2[0], 0, 0))
            cands.append((f2[0], 1, f2[1]))
            orc.create(real + [[f2[1]]], spid)
    # one-bit perturbation of one seed
    nz = [i for i, s in enumerate(real) if s]
    if nz:
        i = rng.choice(nz)
        pert = [list(s) for s in real]
        j = rng.below(len(pert[i]))
        pert[i][j] ^= 1 << rng.below(8)
        o2 = Oracle()
        f2, _ = o2.find(pert, spid)
        if f2:
            cands.append((f2[0], 0, 0))
            cands.append((f2[0], 1, f2[1]))
            orc.create(real + [[f2[1]]], spid)
    # right seeds, other program (a random one, and the executing program when the seed program is another)
    for other in [rng.bytes(32)] + ([list(pid)] if list(pid) != list(spid) else []):
        o2 = Oracle()
        f2, _ = o2.find(real, other)
        if f2:
            cands.append((f2[0], 0, 0))
            cands.append((f2[0], 1, f2[1]))
            orc.create(real + [[f2[1]]], spid)
    # non-PDAs
    rb = rng.range(0, 255)
    orc.create(real + [[rb]], spid)
    cands.append((rng.bytes(32), rng.below(2), rb))
    if rng.chance(1, 4):
        cands.append(([0] * 32, 0, 0))
    # client helpers (always under PROG_ID)
    cfound, _ = orc.find(l, PROG_ID)
    cb = []
    if cfound:
        cb.append(cfound[1])
    for b in ([valid[0][0]] if valid else []) + ([invalid[0]] if invalid else []) + [rng.range(0, 255), 0]:
        if b not in cb:
            cb.append(b)
    for b in cb:
        orc.create(real + [[b]], PROG_ID)
    # the same explicit-bump decisions reached through Init<Seeded<Account<_>>> + CreateIfNeeded on an account that already
    # exists (mode 2; only CurrentProgram seeds can be initialised): nothing is created, so no signed CPI checks the address
    if pmode == 0:
        cands += [(k, 2, b) for (k, m, b) in cands if m == 1] + [(k, 3, b) for (k, m, b) in cands if m == 0]
    cands = rng.shuffle(cands)
    table = sorted(orc.table.items())
    return encode(sid, pid, pmode, vals, cands, cb, table)


def gen_cases(rng, tier):
    cases = []
    per = 13 if tier == "quick" else 300
    n = 0
    for sid in range(len(FAMILY)):
        for k in range(per):
            pm = None
            pid = None
            if k == 0:
                pm, pid = 0, list(PROG_ID)      # client and chain under the same program id
            elif k == 1:
                pm = 1
            c = make_case(rng, sid, pm, pid)
            # the candidate accounts' own state (balance, owner, data, flags) must not influence the decision: its class
            # rides in the `trailing` flag (FAMILY: always true; the model reads it as a boolean, the harness as
            # 1 + 2 * class).  class 0 = 1 lamport, system-owned, empty, no flags
            if FAMILY[sid][3] and k >= 2:
                c[66] = 1 + 2 * (k % 5)
            cases.append(("g%d" % n, c))
            n += 1
    return cases


# ---------------------------------------------------------------------------------------------------------------
class _Rd:
    def __init__(self, o):
        self.o = o
        self.i = 0

    def next(self):
        v = self.o[self.i]
        self.i += 1
        return v

    def take(self, n):
        if self.i + n > len(self.o):
            raise IndexError
        v = self.o[self.i:self.i + n]
        self.i += n
        return v

    def seedvec(self):
        n = self.next()
        return [self.take(self.next()) for _ in range(n)]

    def addr(self):
        t = self.next()
        if t == 0:
            return ("ok", self.take(32))
        if t == 1:
            return ("err", self.next())
        return ("panic", None)


def _skip_ok(r):
    r.next()
    if r.next() == 0:
        r.seedvec()
        r.addr()
    if r.next() in (0, 1):
        r.next()


def parse_obs(obs):
    r = _Rd(obs)
    out = {"seeds": r.seedvec()}
    n = r.next()
    out["rows"] = [r.addr() for _ in range(n)]
    return r, out


def predicate(c, obs):
    if obs is None or (obs and obs[0] == "UNPARSEABLE"):
        return "no observation from the implementation"
    if obs and obs[0] < 0:
        return "harness family / constants out of sync with the case generator (%s)" % obs[:1]
    d = decode(c)
    sid = d["sid"]
    spid = PROG_ID if d["pmode"] else d["pid"]
    l = seeds_of(sid, d["vals"])
    real = real_seeds(l)
    orc = Oracle()
    try:
        r, o = parse_obs(obs)
        # 1. seed order, constant prefix, field encodings
        if o["seeds"] != l:
            return "seeds() = %s, expected constant prefix ++ fields in declaration order (%s)" % (o["seeds"], l)
        # 2. oracle rows: the reference derivation and the library must agree
        found, rows = orc.find(l, spid)
        if [tuple(x) for x in o["rows"]] != [tuple(x) for x in rows]:
            return "create_program_address rows of the bump search differ from the reference derivation"
        # 3. candidates
        for key, mode, bump in d["cands"]:
            tag = r.next()
            if mode in (0, 3):
                want = found is not None and found[0] == key
                wbump = found[1] if found else None
            else:
                cr = orc.create(real + [[bump]], spid)
                want = cr == ("ok", key)
                wbump = bump
            what = ("Seeds(S)" if mode in (0, 3) else "SeedsWithBump(S, %d)" % bump) + (" through Init + CreateIfNeeded on an existing account" if mode >= 2 else "")
            if tag == 0:
                rec = r.next()
                if r.next() != 0:
                    return "signer_seeds() panicked after a successful validation"
                ss = r.seedvec()
                made = r.addr()
                rv = r.next()
                rvb = r.next() if rv in (0, 1) else None
                if not want:
                    return "validation with %s admitted a key that is not the derived address" % what
                if rec != wbump:
                    return "recorded bump %s after %s, expected %s" % (rec, what, wbump)
                if orc.create(ss, spid) != ("ok", key):
                    return "signer seeds %s do not recreate the account key" % ss
                if made != ("ok", key):
                    return "create_program_address(signer seeds) = %s, expected the account key" % (made,)
                if ss != real + [[rec]]:
                    return "signer seeds %s are not the seeds followed by the recorded bump" % ss
                if rv != 0 or rvb != rec:
                    return "a second validation changed or rejected the recorded seeds (%s, %s)" % (rv, rvb)
            elif tag == 1:
                code = r.next()
                if mode < 2:
                    # the same validation asked again on the same set: a refusal records nothing
                    t2 = r.next()
                    c2 = r.next() if t2 in (0, 1) else None
                    if not want and t2 == 0:
                        return "validation with %s was refused, then ACCEPTED when asked again on the same set (recorded bump %s)" % (what, c2)
                    if (t2, c2) != (1, code):
                        return "validation with %s was refused with %s, asking again gave %s" % (what, code, (t2, c2))
                if want:
                    return "validation with %s rejected the derived address (error %s)" % (what, code)
                if mode in (0, 3) and found is not None and code != E_MISMATCH:
                    return "wrong key rejected with error %s instead of AddressMismatch" % code
                if mode in (1, 2):
                    cr = orc.create(real + [[bump]], spid)
                    exp = E_MISMATCH if cr[0] == "ok" else cr[1]
                    if code != exp:
                        return "validation with %s failed with %s, expected %s" % (what, code, exp)
            else:
                if want:
                    return "validation with %s panicked on the derived address" % what
                if not (mode in (0, 3) and found is None):
                    return "validation with %s panicked" % what
        # 4. client helpers, always under the program's own id
        cfound, _ = orc.find(l, PROG_ID)
        t = r.next()
        if t == 0:
            a = r.take(32)
            b = r.next()
            if cfound is None or (a, b) != cfound:
                return "client find_program_address = (%s, %s), validation derives %s" % (a, b, cfound)
        else:
            if t == 1:
                r.next()
            if cfound is not None:
                return "client find_program_address failed where validation derives an address"
        for b in d["cbumps"]:
            got = r.addr()
            exp = orc.create(real + [[b]], PROG_ID)
            if tuple(got) != tuple(exp):
                return ("client create_program_address(S, %d) = %s but validation with SeedsWithBump(S, %d) derives %s "
                        "(%d seeds + bump)" % (b, _short(got), b, _short(exp), len(real)))
        if r.i != len(obs):
            return "trailing data in the observation"
    except IndexError:
        return "truncated observation %s" % (obs[:8],)
    return None


def _short(x):
    if x[0] == "ok":
        return "Ok(%s..)" % "".join("%02x" % b for b in x[1][:6])
    if x[0] == "err":
        return {E_MAXSEED: "Err(MaxSeedLengthExceeded)", E_INVALID_SEEDS: "Err(InvalidSeeds)"}.get(x[1], "Err(%s)" % x[1])
    return "panic"


def describe(c):
    d = decode(c)
    name, const, tys, trailing = FAMILY[d["sid"]]
    return {"struct": name, "const": const, "field_types": [list(t) for t in tys], "values": d["vals"],
            "program_id": d["pid"], "seed_program": "fixed StarFrameProgram" if d["pmode"] else "CurrentProgram",
            "candidates": [{"key": k, "arg": "Seeds" if m == 0 else "SeedsWithBump", "bump": b} for k, m, b in d["cands"]],
            "client_bumps": d["cbumps"], "oracle_entries": len(d["table"])}


def nontrivial(c, obs):
    if not obs or obs[0] == "UNPARSEABLE" or obs[0] < 0:
        return False
    try:
        d = decode(c)
        r, _ = parse_obs(obs)
        tags = set()
        for _ in d["cands"]:
            t = r.next()
            tags.add(t)
            if t == 0:
                _skip_ok(r)
            elif t == 1:
                r.next()
        return 0 in tags and len(tags) > 1
    except IndexError:
        return False


def shrink(c):
    d = decode(c)
    for i in range(len(d["cands"])):
        yield encode(d["sid"], d["pid"], d["pmode"], d["vals"], d["cands"][:i] + d["cands"][i + 1:], d["cbumps"], d["table"])
    for i in range(len(d["cbumps"])):
        yield encode(d["sid"], d["pid"], d["pmode"], d["vals"], d["cands"], d["cbumps"][:i] + d["cbumps"][i + 1:], d["table"])


def distribution(cases, impl):
    from collections import Counter
    st = Counter()
    res = Counter()
    nseeds = Counter()
    for cid, c in cases:
        d = decode(c)
        st[FAMILY[d["sid"]][0]] += 1
        nseeds[len(seeds_of(d["sid"], d["vals"]))] += 1
        o = impl.get(cid) or []
        try:
            r, _ = parse_obs(o)
            for key, mode, bump in d["cands"]:
                t = r.next()
                kind = {0: "Seeds", 1: "WithBump", 2: "InitWithBump", 3: "InitSeeds"}.get(mode, "?") + ":" + {0: "ok", 1: "err", 2: "panic"}.get(t, "?")
                if t == 0:
                    _skip_ok(r)
                elif t == 1:
                    kind += " %s" % r.next()
                res[kind] += 1
        except (IndexError, TypeError):
            res["unparsed"] += 1
    return {"structs": dict(st), "seed_vector_lengths": {str(k): v for k, v in sorted(nseeds.items())},
            "candidate_outcomes": dict(res)}


def matches_known(entry, c, obs):
    return False
