"""C03 - resizing never reads or writes outside the account's allocation."""
from lib import unsized as U
from lib import unsized_ops as O
from lib.props._unsized_ops import *  # noqa: F401,F403
from lib.props import _unsized_ops as B

ID = "C03"
COQ_TARGETS = ["Properties/C03.vo"]
RULE = ("histories as in C01 run on an allocation of exactly initial-length + 10240 bytes placed flush against a PROT_NONE page "
        "(after it: overruns; before it: underruns; chosen per case) with canary-filled slack on the other side, each case in a "
        "forked child; initial sizes include 0 and values that bring the value to allowance-1 / allowance / allowance+1. "
        "Observed: SIGSEGV yes/no, canaries intact, plus the usual per-step state. non-trivial = at least one successful resize")


def gen_cases(rng, tier):
    rng.next()
    rng.next()
    rng.next()
    cases = B.gen_ops_cases(rng, tier, 1200, 40000, steps=(4, 30))
    fam = U.family()
    # allowance boundaries from an empty value: grow to cap-1, cap, cap+1 in one and in several steps
    for idx, desc, ty in fam:
        if ty[0] == "L" and ty[2] >= 2:
            esz = U.fsize(ty[1])
            for d in (-1, 0, 1):
                n = (U.MAX_INC // esz) + d
                step = [10, 0, n] + sum(([esz] + [1] * esz for _ in range(n)), [])
                for flush in (0, 1):
                    cases.append(("cap%d_%d_%d" % (idx, d, flush), O.encode_case(idx, desc, flush, -1, ("L", []), [step, [13], step, [11, 0, 5]])))
        if ty[0] == "R":
            for d in (-1, 0, 1):
                for flush in (0, 1):
                    cases.append(("rem%d_%d" % (d, flush), O.encode_case(idx, desc, flush, -1, ("B", []), [[20, U.MAX_INC + d], [21, 0, 1], [20, 3], [20, U.MAX_INC + d]])))
    return cases


def predicate(c, obs):
    return O.judge(c, obs, {"safety"})


def matches_known(entry, c, obs):
    return False
