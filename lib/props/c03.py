"""C03 - resizing never reads or writes outside the account's allocation."""
from lib import unsized as U
from lib import unsized_ops as O
from lib.props._unsized_ops import *  # noqa: F401,F403
from lib.props import _unsized_ops as B

ID = "C03"
COQ_TARGETS = ["Properties/C03.vo"]
RULE = ("histories as in C01 run on an allocation of exactly initial-length + 10240 bytes placed flush against a PROT_NONE page "
        "(after it: overruns; before it: underruns; chosen per case) with canary-filled slack on the other side, each case in a "
        "forked child; initial sizes include 0 and values that bring the value to allowance-1 / allowance / allowance+1. "
        "Observed: SIGSEGV yes/no, canaries intact, plus the usual per-step state; plus all 60 accessor-swap scenarios on two "
        "buffers (which pointer x before/after a resize x what happens next: must be reported by the end of the borrow). "
        "non-trivial = at least one successful resize")


def gen_cases(rng, tier):
    rng.next()
    rng.next()
    rng.next()
    cases = B.gen_ops_cases(rng, tier, 1200, 12000, steps=(4, 30))
    fam = U.family_ops()
    # allowance boundaries from an empty value: grow to cap-1, cap, cap+1 in one and in several steps
    for idx, desc, ty in fam:
        if ty[0] == "L" and ty[2] >= 2:
            esz = U.fsize(ty[1])
            for d in (-1, 0, 1):
                n = (U.MAX_INC // esz) + d
                step = [10, 0, n] + sum(([esz] + [1] * esz for _ in range(n)), [])
                for flush in (0, 1):
                    cases.append(("cap%d_%d_%d" % (idx, d, flush), O.encode_case(idx, desc, flush, -1, ("L", []), [step, [13], step, [11, 0, 5]])))
        if ty[0] == "R":
            for d in (-1, 0, 1):
                for flush in (0, 1):
                    cases.append(("rem%d_%d" % (d, flush), O.encode_case(idx, desc, flush, -1, ("B", []), [[20, U.MAX_INC + d], [21, 0, 1], [20, 3], [20, U.MAX_INC + d]])))
    # accessors swapped between two buffers: every (scenario, before/after a resize, follow-up) combination
    for sc in range(5):
        for when in (0, 1):
            for then in (0, 1, 2, 3, 4, 5):
                cases.append(("swap%d_%d_%d" % (sc, when, then), [100, sc, when, then]))
    return cases


def _is_swap(c):
    return c[:1] == [100]


def predicate(c, obs):
    if _is_swap(c):
        if obs is None or obs[:1] == [-11]:
            return "crash while using swapped accessors"
        if obs[:1] != [1]:
            return ("accessors of two buffers were swapped (scenario %d, %s a resize, then op %d) and the framework did not "
                    "report it by the end of the exclusive borrow" % (c[1], "after" if c[2] else "before", c[3]))
        return None
    return O.judge(c, obs, {"safety"})


def describe(c):
    if _is_swap(c):
        return {"swap_scenario": {0: "ListPtr a", 1: "UnsizedListPtr b", 2: "ListPtr d", 3: "element pointer of b (index_mut)",
                                  4: "UnsizedListPtr c"}.get(c[1]), "swap_after_resize": bool(c[2]),
                "then": {0: "drop", 1: "resize sibling d", 2: "access element of b", 3: "resize the swapped container", 4: "remove the first element of the swapped container", 5: "remove element 1 of b"}.get(c[3])}
    return B.describe(c)


def nontrivial(c, obs):
    if _is_swap(c):
        return True
    return B.nontrivial(c, obs)


def shrink(c):
    if _is_swap(c):
        return []
    return B.shrink(c)


def distribution(cases, impl):
    normal = [(i, c) for i, c in cases if not _is_swap(c)]
    d = B.distribution(normal, impl)
    d["swap_scenarios"] = len(cases) - len(normal)
    return d


def matches_known(entry, c, obs):
    return False
