"""C15 - Borsh-backed accounts persist and reload faithfully across instructions."""
ID = "C15"
ENTRY = "c15"
GROUP = "borsh"
BIN = "vh_c15"
COQ_TARGETS = ["Properties/C15.vo"]

RULE = ("sequences of 1-5 simulated instructions on one native account wrapped by BorshAccount<T>, T in {fixed struct, "
        "Vec<u8> (the example program's MyBorshAccount), String, nested struct with Vec<struct>/Option/String, BTreeSet<u8>}, "
        "discriminant widths 8/8/1/4/8; initial data = client serializer of a value, or raw bytes (empty, discriminant only, "
        "truncated, trailing byte, wrong discriminant, tagged pre-repair layout, invalid bool/Option tag/UTF-8, 0xFF closed "
        "marker, random; for BTreeSet<u8> also VALID BUT NON-CANONICAL images - elements descending / shuffled / with "
        "duplicates, which borsh accepts and never writes - about half of the BTreeSet cases, most of them starting with "
        "read-only instructions (read / manual serialize / reload / default cleanup) followed by a writable one, plus "
        "directed cases: every such image x one read-only instruction with [], [read], [serialize], [reload]); per instruction: writable or read-only, ops drawn from set_inner / assignment and field writes "
        "through DerefMut / Deref read / manual serialize / reload / owner change / close_account, cleanup `()` or "
        "CloseAccount; initial owner program or foreign; directed size-change sequences (growth of exactly 10240 and 10241 "
        "bytes in one instruction, growth split over two instructions, manual serialize + further growth in the same "
        "instruction, shrink then grow); every op x writable/read-only x program/foreign owner x cleanup kind on a valid "
        "account. non-trivial = at least one instruction on a writable program-owned account performs a successful "
        "mutation (set_inner / DerefMut write) and completes its cleanup")
TRUSTED = [
    "Coq 8.16.1 kernel", "extraction (ExtrOcamlBasic only) + runner/driver.ml",
    "harness/src/bin/vh_c15.rs (three programs, five account types, instruction simulator) + native AccountInfo builder "
    "(NativeAccount::next_instruction resets resize_delta as the runtime's re-serialisation does)",
    "tools/gen_constants.py (error codes, MAX_PERMITTED_DATA_INCREASE)",
    "lib/props/c15.py (independent Python borsh encoder, BTreeSet<u8> decoder and the property predicate)",
]
ASSUMPTIONS = [
    "the value type's BorshSerialize/BorshDeserialize are a Section oracle ser/de with: round trip with exact consumption on "
    "representable values, encodings non-empty, de [] fails, decoded values representable, encodings are bytes; discharged "
    "(proved) for the codec combinators and the five harness types (BTreeSet<u8>: the decoder accepts any element order and "
    "duplicates - borsh 1.5.7 without de_strict_order -, the serializer writes ascending); a type whose encoding is empty (unit struct) is outside "
    "the property: BorshAccount treats data_len == discriminant size as 'closed', never decodes or writes such an account",
    "no outstanding data borrows on the account during the BorshAccount calls (the wrapper takes short-lived borrows only)",
    "a returned error of a body call is handled by the program (the body goes on); a panic ends the instruction without "
    "cleanup; the harness does not roll the account back after a failed instruction and neither does the model",
    "close_account on a read-only account is the runtime's to reject (C13); the generator only closes writable accounts",
    "validation is the shared model of C08 (Account/Validate.v)",
]



def _honour_verif_repo():
    """bin/check builds harness/ whose path dependencies name /repo.  When VERIF_REPO points at another tree (a scratch
    worktree carrying a proposed patch) build a copy of the crate whose dependencies follow it, in its own target dir."""
    import os
    import shutil
    from lib import common as C
    repo = os.path.normpath(C.REPO)
    if repo == "/repo":
        return
    orig = C.build_harness

    def build(bin_name, release=False, extra_env=None, timeout=2400):
        if bin_name != BIN:
            return orig(bin_name, release, extra_env, timeout)
        alt = os.path.join(C.WORK, "harness_c15_alt")
        os.makedirs(alt, exist_ok=True)
        for name in ("src", ".cargo"):
            dst = os.path.join(alt, name)
            if os.path.isdir(dst):
                shutil.rmtree(dst)
            shutil.copytree(os.path.join(C.HARNESS, name), dst)
        txt = open(os.path.join(C.HARNESS, "Cargo.toml")).read().replace('path = "/repo/', 'path = "%s/' % repo)
        open(os.path.join(alt, "Cargo.toml"), "w").write(txt)
        if not os.path.exists(os.path.join(alt, "Cargo.lock")):
            shutil.copyfile(os.path.join(repo, "Cargo.lock"), os.path.join(alt, "Cargo.lock"))
        rc, out = C.sh(["cargo", "build", "--offline", "--bin", bin_name], cwd=alt, timeout=timeout, env=extra_env)
        if rc != 0:
            return None, out
        return os.path.join(alt, "target", "debug", bin_name), out

    C.build_harness = build


_honour_verif_repo()

W = {0: 8, 1: 8, 2: 1, 3: 4, 4: 8, 5: 1}
DISC = {0: [1, 2, 3, 4, 5, 6, 7, 8], 1: [0xB0, 0xB1, 0xB2, 0xB3, 0xB4, 0xB5, 0xB6, 0xB7], 2: [0x5A], 3: [0xDE, 0xC0, 0xDE, 0xC0],
        4: [0xA4, 0x53, 0x42, 0x5F, 0x73, 0x65, 0x74, 0x21], 5: [0]}
PIDB = {0: 21, 1: 21, 2: 22, 3: 23, 4: 21, 5: 22}
TYNAME = {0: "Fx{a:u64,b:u32,c:u8,d:bool}", 1: "Bv{vec:Vec<u8>}", 2: "St{name:String}",
          3: "Ns{id:u32,inner:In{flag:bool,label:String},items:Vec<It{k:u16,v:Vec<u8>}>,opt:Option<u64>}",
          4: "Sb{set:BTreeSet<u8>}", 5: "Zd{vec:Vec<u8>} with the all-zero discriminant 0u8"}
NTYPES = 6
MAX_INC = 10240
E_IO = 9001
E_WRITABLE = 1000
E_REALLOC = 20 << 32


# ------------------------------------------------------------------------------------------------
# values: structured Python values <-> case/observation integers; independent borsh encoder
def _rd_bytes(ints, p):
    n = ints[p]
    if n == -1:
        n, s, k = ints[p + 1], ints[p + 2], ints[p + 3]
        return [(s + k * i) % 256 for i in range(n)], p + 4
    if n < 0 or p + 1 + n > len(ints):
        raise IndexError("byte string")
    return list(ints[p + 1:p + 1 + n]), p + 1 + n


def parse_value(ty, ints, p):
    if ty == 0:
        a, b, c, d = ints[p:p + 4]
        return (a, b, c, 1 if d else 0), p + 4
    if ty in (1, 2, 5):
        return _rd_bytes(ints, p)
    if ty == 4:
        # a set is the sorted list of its distinct elements (case files may list them in any order)
        b, p = _rd_bytes(ints, p)
        return sorted(set(b)), p
    idv, flag = ints[p], ints[p + 1]
    label, p = _rd_bytes(ints, p + 2)
    n = ints[p]
    p += 1
    items = []
    for _ in range(n):
        k = ints[p]
        v, p = _rd_bytes(ints, p + 1)
        items.append((k, v))
    if ints[p] != 0:
        opt = ints[p + 1]
        p += 2
    else:
        opt = None
        p += 1
    return (idv, 1 if flag else 0, label, items, opt), p


def _wr_bytes(b, compact):
    return [len(b)] + list(b)


def value_ints(ty, v):
    """case-file form (explicit byte strings)"""
    if ty == 0:
        return list(v)
    if ty in (1, 2, 4, 5):
        return [len(v)] + list(v)
    idv, flag, label, items, opt = v
    out = [idv, flag, len(label)] + list(label) + [len(items)]
    for k, b in items:
        out += [k, len(b)] + list(b)
    out += [0] if opt is None else [1, opt]
    return out


def _le(n, w):
    return [(n >> (8 * i)) & 255 for i in range(w)]


def py_ser(ty, v):
    """borsh 1.x encoding, written from the borsh specification"""
    if ty == 0:
        a, b, c, d = v
        return _le(a, 8) + _le(b, 4) + [c] + [1 if d else 0]
    if ty in (1, 2, 5):
        return _le(len(v), 4) + list(v)
    if ty == 4:
        # BTreeSet<u8>: u32 count, then the elements in ascending order
        return _le(len(v), 4) + sorted(v)
    idv, flag, label, items, opt = v
    out = _le(idv, 4) + [1 if flag else 0] + _le(len(label), 4) + list(label) + _le(len(items), 4)
    for k, b in items:
        out += _le(k, 2) + _le(len(b), 4) + list(b)
    out += [0] if opt is None else [1] + _le(opt, 8)
    return out


def py_de_set(payload):
    """what borsh 1.5.7 (no de_strict_order) reads a BTreeSet<u8> from: u32 count, then that many bytes in any order,
    duplicates allowed.  Returns (value, bytes consumed) or None."""
    if len(payload) < 4:
        return None
    n = sum(b << (8 * i) for i, b in enumerate(payload[:4]))
    if 4 + n > len(payload):
        return None
    return sorted(set(payload[4:4 + n])), 4 + n


def canonical_image(ty, data):
    """False exactly when data is an accepted image of type 4 that the serializer would not write"""
    if ty != 4:
        return True
    w = W[ty]
    d = py_de_set(list(data[w:])) if list(data[:w]) == DISC[ty] else None
    if d is None or d[1] != len(data) - w:
        return True
    return list(data[w:]) == py_ser(4, d[0])


# ------------------------------------------------------------------------------------------------
# case structure
def decode_case(c):
    ty, foreign, kind = c[0], c[1], c[2]
    p = 3
    if kind == 0:
        v, p = parse_value(ty, c, p)
        init = ("value", v)
    else:
        n = c[p]
        init = ("raw", list(c[p + 1:p + 1 + n]))
        p += 1 + n
    n_instr = c[p]
    p += 1
    instrs = []
    for _ in range(n_instr):
        wr, cl, nops = c[p], c[p + 1], c[p + 2]
        p += 3
        ops = []
        for _ in range(nops):
            k = c[p]
            p += 1
            if k in (1, 2):
                v, p = parse_value(ty, c, p)
                ops.append((k, v))
            elif k in (3, 4, 8):
                ops.append((k, c[p]))
                p += 1
            else:
                ops.append((k, None))
        instrs.append({"writable": bool(wr), "close_cleanup": bool(cl), "ops": ops})
    return {"ty": ty, "foreign": bool(foreign), "init": init, "instrs": instrs}


def encode_case(dc):
    ty = dc["ty"]
    out = [ty, int(dc["foreign"])]
    kind, x = dc["init"]
    if kind == "value":
        out += [0] + value_ints(ty, x)
    else:
        out += [1, len(x)] + list(x)
    out.append(len(dc["instrs"]))
    for ins in dc["instrs"]:
        out += [int(ins["writable"]), int(ins["close_cleanup"]), len(ins["ops"])]
        for k, x in ins["ops"]:
            out.append(k)
            if k in (1, 2):
                out += value_ints(ty, x)
            elif k in (3, 4, 8):
                out.append(x)
    return out


OPNAME = {1: "set_inner", 2: "*acc = v", 3: "field write 3", 4: "field write 4", 5: "read", 6: "serialize()",
          7: "reload()", 8: "set owner", 9: "close_account"}


def _short(v):
    if isinstance(v, list) and len(v) > 40:
        return {"len": len(v), "head": v[:8]}
    if isinstance(v, tuple):
        return [_short(x) for x in v]
    if isinstance(v, list):
        return [_short(x) for x in v]
    return v


def describe(c):
    try:
        dc = decode_case(c)
    except (IndexError, ValueError):
        return {"undecodable": len(c)}
    return {"type": TYNAME.get(dc["ty"], dc["ty"]), "discriminant": DISC.get(dc["ty"]),
            "initial_owner": "foreign" if dc["foreign"] else "program",
            "initial": {dc["init"][0]: _short(dc["init"][1])},
            "instructions": [{"writable": i["writable"], "cleanup": "CloseAccount" if i["close_cleanup"] else "()",
                              "ops": [[OPNAME[k], _short(x)] for k, x in i["ops"]]} for i in dc["instrs"]]}


# ------------------------------------------------------------------------------------------------
# observation structure
def parse_obs(ty, obs, n_instr):
    p = 0
    w = obs[p]
    disc = obs[p + 1:p + 1 + w]
    pidb = obs[p + 1 + w]
    p += 2 + w
    res = []
    for _ in range(n_instr):
        r = {}
        t = obs[p]
        p += 1
        if t == 0:
            has = obs[p]
            p += 1
            if has:
                v, p = parse_value(ty, obs, p)
                r["tfa"] = ("ok", v)
            else:
                r["tfa"] = ("ok", None)
        elif t == 1:
            r["tfa"] = ("err", obs[p])
            p += 1
        else:
            r["tfa"] = ("panic", None)
        ns = obs[p]
        p += 1
        steps = []
        for _ in range(ns):
            t = obs[p]
            p += 1
            if t == 0:
                steps.append(("ok", None))
            elif t == 1:
                steps.append(("err", obs[p]))
                p += 1
            elif t == 4:
                v, p = parse_value(ty, obs, p)
                steps.append(("val", v))
            else:
                steps.append(("panic", None))
        r["steps"] = steps
        t = obs[p]
        p += 1
        if t == 5:
            r["cleanup"] = None
        else:
            if t == 1:
                r["cleanup"] = ("err", obs[p])
                p += 1
            elif t == 0:
                r["cleanup"] = ("ok", None)
            else:
                r["cleanup"] = ("panic", None)
            has = obs[p]
            p += 1
            if has:
                r["left"], p = parse_value(ty, obs, p)
                r["has_left"] = True
            else:
                r["left"] = None
                r["has_left"] = False
        r["owned"] = bool(obs[p])
        r["lamports"] = obs[p + 1]
        r["delta"] = obs[p + 2]
        n = obs[p + 3]
        r["data"] = list(obs[p + 4:p + 4 + n])
        if len(r["data"]) != n:
            raise IndexError("data")
        p += 4 + n
        t = obs[p]
        p += 1
        if t == 0:
            v, p = parse_value(ty, obs, p)
            r["client"] = ("ok", v)
        elif t == 1:
            r["client"] = ("err", obs[p])
            p += 1
        else:
            r["client"] = ("panic", None)
        res.append(r)
    if p != len(obs):
        raise IndexError("trailing observation")
    return {"w": w, "disc": disc, "pidb": pidb, "instrs": res}


# ------------------------------------------------------------------------------------------------
# the property, judged on the implementation's observation alone
def _apply_field(ty, k, x, v):
    if ty == 0:
        a, b, c, d = v
        return (a, x, c, d) if k == 3 else (x, b, c, d)
    if ty in (1, 5):
        return v + [x] if k == 3 else v[:x]
    if ty == 2:
        return v + [x] if k == 3 else []
    if ty == 4:
        return sorted(set(v) | {x % 256}) if k == 3 else [y for y in v if y != x % 256]
    idv, flag, label, items, opt = v
    if k == 3:
        return (idv, flag, label, items + [(x, [7, 7, 7])], opt)
    return (idv, 1 - flag, label, items, x)


UNKNOWN = "unknown"


def predicate(c, obs):
    if obs is None or (obs and obs[0] == "UNPARSEABLE"):
        return "no observation from the implementation"
    try:
        dc = decode_case(c)
    except (IndexError, ValueError):
        return None
    ty = dc["ty"]
    if ty not in W:
        return None
    try:
        o = parse_obs(ty, obs, len(dc["instrs"]))
    except (IndexError, ValueError, TypeError):
        return "malformed observation"
    w = W[ty]
    if o["w"] != w or o["disc"] != DISC[ty] or o["pidb"] != PIDB[ty]:
        return "harness constants out of sync with the property module"
    disc = DISC[ty]
    if dc["init"][0] == "value":
        prev_data = disc + py_ser(ty, dc["init"][1])
    else:
        prev_data = list(dc["init"][1])
    prev = None          # summary of the previous instruction
    for idx, (ins, r) in enumerate(zip(dc["instrs"], o["instrs"])):
        at = "instruction %d: " % idx
        if r["tfa"][0] == "panic":
            return at + "try_from_accounts panicked"
        # (a) what the previous instruction left is what this one decodes
        if prev is not None and prev["applies"]:
            if r["tfa"] != ("ok", prev["left"]):
                return at + "decoded %s but the previous instruction left %s in the wrapper" % (
                    _short(r["tfa"]), _short(prev["left"]))
        wrote_manually = False
        closed = False
        owner_changed = False
        # (a') an account the program accepts has exactly discriminant + serialized size bytes (trailing bytes are refused,
        #      as the client-side deserializer refuses them)
        if ty == 4 and r["tfa"][0] == "ok" and len(prev_data) > w and r["tfa"][1] is not None:
            # a type with several accepted encodings per value: the image need not be the one the serializer writes (its
            # length is then not a function of the value), so the rule is stated with an independent decoder: the bytes
            # after the discriminant are exactly one accepted encoding (nothing trailing) of the value the program decoded
            dec = py_de_set(prev_data[w:])
            if dec is None or dec[1] != len(prev_data) - w:
                return at + "the program decoded %s from an account of %d bytes whose payload is not exactly one encoding" % (
                    _short(r["tfa"][1]), len(prev_data))
            if dec[0] != r["tfa"][1]:
                return at + "the program decoded %s from an account that holds %s" % (_short(r["tfa"][1]), _short(dec[0]))
        elif r["tfa"][0] == "ok" and len(prev_data) > w and r["tfa"][1] is not None and r["tfa"][1] != UNKNOWN:
            need = w + len(py_ser(ty, r["tfa"][1]))
            if len(prev_data) != need:
                return at + "the program decoded %s from an account of %d bytes; discriminant + serialized size is %d" % (
                    _short(r["tfa"][1]), len(prev_data), need)
        if r["tfa"][0] == "ok":
            val = r["tfa"][1]
            # does the wrapper certainly hold a value?  (decoded one / set one; a close empties it, after a reload this
            # predicate does not know).  Reading an EMPTY wrapper panics by design; reading one that holds a value must not -
            # in particular not after a manual serialize(), which only writes the value back
            holds = val is not None
            for (k, x), st in zip(ins["ops"], r["steps"]):
                if st[0] == "panic":
                    if k in (1, 6, 8, 9):
                        return at + "%s panicked" % OPNAME[k]
                    if k == 5 and holds is True:
                        return at + "reading the wrapper (Deref) panicked although it holds a value (decoded or set earlier in this instruction, not closed, not reloaded)"
                    continue
                if k in (1, 2) and st[0] == "ok":
                    holds = True
                elif k == 7:
                    holds = None
                elif k == 9 and st[0] == "ok":
                    holds = False
                if k == 1:
                    if ins["writable"]:
                        if st[0] != "ok":
                            return at + "set_inner refused on a writable account"
                        val = x
                    elif st != ("err", E_WRITABLE):
                        return at + "set_inner on a read-only account returned %s" % (st,)
                elif k in (2, 3, 4):
                    if st[0] == "ok":
                        if not ins["writable"]:
                            return at + "mutable access granted on a read-only account"
                        if k == 2:
                            val = x
                        elif val is not None and val != UNKNOWN:
                            val = _apply_field(ty, k, x, val)
                elif k == 5:
                    if st[0] == "val" and val != UNKNOWN and st[1] != val:
                        return at + "Deref read %s, the wrapper should hold %s" % (_short(st[1]), _short(val))
                elif k == 6:
                    if st[0] == "ok":
                        wrote_manually = True
                elif k == 7:
                    if st[0] == "ok":
                        val = UNKNOWN       # this predicate has no decoder: whatever the data holds
                elif k == 8:
                    owner_changed = True
                elif k == 9:
                    if st[0] == "ok":
                        closed = True
            if r["cleanup"] is not None and val != UNKNOWN and val is not None and r["has_left"]:
                if r["left"] != val:
                    return at + "the wrapper holds %s after the body, expected %s" % (_short(r["left"]), _short(val))
        completed = r["tfa"][0] == "ok" and r["cleanup"] == ("ok", None)
        if completed and ins["close_cleanup"]:
            closed = True
        if r["cleanup"] is not None and r["cleanup"][0] == "panic":
            return at + "cleanup panicked"
        # (b) never written: rejected (foreign, wrong discriminant, undecodable) / read-only / closed / given away
        if r["tfa"][0] != "ok" and r["data"] != prev_data:
            return at + "the account was rejected by try_from_accounts but its data changed"
        if r["tfa"][0] == "ok" and not closed:
            if not ins["writable"] and r["data"] != prev_data:
                return at + "a read-only account was written"
            if len(prev_data) <= w and r["data"] != prev_data:
                return at + "a closed / uninitialised account (data_len <= discriminant size) was written"
            if not r["owned"] and not wrote_manually and r["data"] != prev_data:
                return at + "an account no longer owned by the program was written"
        if closed and r["data"] != [255] * w:
            return at + "a closed account does not hold the 0xFF marker any more: %s" % _short(r["data"])
        if not r["owned"] and not owner_changed and prev is not None and prev["owned"]:
            return at + "owner changed without an owner operation"
        # (c) a completed instruction on a still program-owned, not closed account: exact image, client agrees
        applies = False
        if completed and r["has_left"] and r["owned"] and not closed and len(r["data"]) > w:
            applies = True
            left = r["left"]
            if ins["writable"]:
                want = disc + py_ser(ty, left)
                if len(r["data"]) != len(want):
                    return at + "data_len %d after cleanup, expected discriminant %d + serialized size %d" % (
                        len(r["data"]), w, len(want) - w)
                if r["data"] != want:
                    return at + "account data after cleanup is not discriminant ++ borsh(value left)"
            if r["client"] != ("ok", left):
                return at + "client deserialize_account returned %s, the instruction left %s" % (
                    _short(r["client"]), _short(left))
        # (d) the realloc allowance: the data never grows by more than 10 KiB within one instruction; cleanup fails
        #     with InvalidRealloc exactly when the write-back would exceed it, and then leaves the data alone
        if r["delta"] != len(r["data"]) - len(prev_data):
            return at + "resize_delta %d does not match the change of data_len %d" % (
                r["delta"], len(r["data"]) - len(prev_data))
        if len(r["data"]) - len(prev_data) > MAX_INC:
            return at + "the data grew by %d bytes in one instruction" % (len(r["data"]) - len(prev_data))
        if r["tfa"][0] == "ok" and r["cleanup"] is not None and r["cleanup"][0] == "err":
            if r["cleanup"][1] != E_REALLOC:
                return at + "cleanup failed with unexpected error %s" % r["cleanup"][1]
            if r["has_left"] and w + len(py_ser(ty, r["left"])) - len(prev_data) <= MAX_INC:
                return at + "cleanup refused a write-back within the realloc allowance"
            if not wrote_manually and not closed and r["data"] != prev_data:
                return at + "cleanup failed but the data changed"
        prev = {"applies": applies, "left": r["left"] if applies else None, "owned": r["owned"]}
        prev_data = r["data"]
    return None


def nontrivial(c, obs):
    try:
        dc = decode_case(c)
        o = parse_obs(dc["ty"], obs, len(dc["instrs"]))
    except (IndexError, ValueError, TypeError, KeyError):
        return False
    for ins, r in zip(dc["instrs"], o["instrs"]):
        if ins["writable"] and r["tfa"][0] == "ok" and r["cleanup"] == ("ok", None) and r["owned"] and any(
                k in (1, 2, 3, 4) and st[0] == "ok" for (k, x), st in zip(ins["ops"], r["steps"])):
            return True
    return False


def shrink(c):
    try:
        dc = decode_case(c)
    except (IndexError, ValueError):
        return
    import copy
    n = len(dc["instrs"])
    for i in range(n - 1, -1, -1):
        e = copy.deepcopy(dc)
        del e["instrs"][i]
        if e["instrs"]:
            yield encode_case(e)
    for i in range(n):
        for j in range(len(dc["instrs"][i]["ops"]) - 1, -1, -1):
            e = copy.deepcopy(dc)
            del e["instrs"][i]["ops"][j]
            yield encode_case(e)
    if dc["foreign"]:
        e = copy.deepcopy(dc)
        e["foreign"] = False
        yield encode_case(e)
    # smaller values
    ty = dc["ty"]

    def smaller(v):
        if ty in (1, 2, 4, 5) and len(v) > 0:
            return v[:len(v) // 2]
        if ty == 3 and (v[2] or v[3]):
            return (v[0], v[1], v[2][:len(v[2]) // 2], v[3][:len(v[3]) // 2], v[4])
        return None
    if dc["init"][0] == "value":
        s = smaller(dc["init"][1])
        if s is not None:
            e = copy.deepcopy(dc)
            e["init"] = ("value", s)
            yield encode_case(e)
    for i in range(n):
        for j, (k, x) in enumerate(dc["instrs"][i]["ops"]):
            if k in (1, 2):
                s = smaller(x)
                if s is not None:
                    e = copy.deepcopy(dc)
                    e["instrs"][i]["ops"][j] = (k, s)
                    yield encode_case(e)


# ------------------------------------------------------------------------------------------------
# generator
UTF8_CHARS = [[0x41], [0x7A], [0x20], [0x00], [0x7F], [0xC2, 0x80], [0xC3, 0xA9], [0xDF, 0xBF], [0xE0, 0xA0, 0x80],
              [0xE2, 0x82, 0xAC], [0xED, 0x9F, 0xBF], [0xEE, 0x80, 0x80], [0xEF, 0xBF, 0xBF], [0xF0, 0x90, 0x80, 0x80],
              [0xF0, 0x9F, 0x98, 0x80], [0xF4, 0x8F, 0xBF, 0xBF]]
BAD_UTF8 = [[0x80], [0xC0, 0x80], [0xC1, 0xBF], [0xE0, 0x9F, 0x80], [0xED, 0xA0, 0x80], [0xF0, 0x8F, 0x80, 0x80],
            [0xF4, 0x90, 0x80, 0x80], [0xF5, 0x80, 0x80, 0x80], [0xC3], [0xE2, 0x82], [0xF0, 0x9F, 0x98], [0xFF],
            [0x41, 0xC3, 0x28]]


def gen_string(rng, n_chars):
    out = []
    for _ in range(n_chars):
        out += rng.choice(UTF8_CHARS) if rng.chance(1, 3) else [rng.range(32, 126)]
    return out


def gen_value(rng, ty, size=None):
    if size is None:
        size = rng.weighted([(0, 2), (rng.range(1, 8), 6), (rng.range(9, 300), 3)])
    if ty == 0:
        a = rng.choice([0, 1, 255, 256, 2 ** 32, 2 ** 63 + 1, 2 ** 64 - 1, rng.below(2 ** 64)])
        b = rng.choice([0, 1, 65536, 2 ** 32 - 1, rng.below(2 ** 32)])
        return (a, b, rng.below(256), rng.below(2))
    if ty in (1, 5):
        return rng.bytes(size)
    if ty == 2:
        return gen_string(rng, size)
    if ty == 4:
        # elements from a small range half of the time, so that inserts / removes of the body hit and miss
        hi = 16 if rng.chance(1, 2) else 256
        return sorted({rng.below(hi) for _ in range(size)})
    items = []
    for _ in range(rng.weighted([(0, 3), (1, 3), (2, 2), (rng.range(3, 6), 1)])):
        items.append((rng.below(65536), rng.bytes(rng.weighted([(0, 2), (rng.range(1, 6), 4), (rng.range(7, 60), 1)]))))
    opt = None if rng.chance(1, 2) else rng.choice([0, 1, 2 ** 64 - 1, rng.below(2 ** 64)])
    return (rng.below(2 ** 32), rng.below(2), gen_string(rng, size if size < 40 else size // 4), items, opt)


def _sized_value(ty, ser_len):
    """a value of types 1-3 whose serialized size is exactly ser_len (>= the type's minimum)"""
    if ty in (1, 5):
        return [(7 + 3 * i) % 256 for i in range(ser_len - 4)]
    if ty == 2:
        return [0x61] * (ser_len - 4)
    if ty == 4:
        assert ser_len - 4 <= 256, "a BTreeSet<u8> has at most 256 elements"
        return list(range(ser_len - 4))
    # Ns minimum: 4 + 1 + 4 + 4 + 1 = 14
    return (5, 1, [0x62] * (ser_len - 14), [], None)


MIN_SER = {1: 4, 2: 4, 3: 14, 4: 4, 5: 4}
MAX_SER = {4: 4 + 256}          # the other variable-size types are unbounded (directed 10 KiB growth cases: types 1-3)


def noncanonical_elems(rng, v, mode):
    """the elements of the set v (sorted, distinct) listed the way the serializer never writes them; borsh accepts all of
    these.  mode 0 descending, 1 shuffled, 2 ascending with adjacent duplicates, 3 shuffled with duplicates,
    4 one element repeated many times.  v must not be empty; a one-element set only has duplicate forms."""
    assert v
    if len(v) == 1 and mode in (0, 1):
        mode = 2
    if mode == 0:
        return list(reversed(v))
    if mode == 1:
        e = rng.shuffle(v)
        return e if e != list(v) else list(reversed(v))
    if mode == 2:
        e = []
        for x in v:
            e += [x] * (2 if rng.chance(1, 3) else 1)
        if len(e) == len(v):
            i = rng.below(len(v))
            e = list(v[:i + 1]) + [v[i]] + list(v[i + 1:])
        return e
    if mode == 3:
        e = list(v) + [rng.choice(v) for _ in range(rng.range(1, 4))]
        e = rng.shuffle(e)
        return e if e != sorted(e) else list(reversed(e))
    return list(v[:-1]) + [v[-1]] * rng.range(2, 40) if rng.chance(1, 2) else [v[0]] * rng.range(2, 40) + list(v[1:])


def noncanonical_image(rng, v=None, mode=None):
    """discriminant ++ a valid but non-canonical encoding of a BTreeSet<u8>"""
    if v is None:
        v = gen_value(rng, 4, rng.weighted([(1, 1), (2, 3), (rng.range(3, 8), 6), (rng.range(9, 300), 2)]))
        if not v:
            v = [rng.below(256)]
    e = noncanonical_elems(rng, v, rng.below(5) if mode is None else mode)
    img = DISC[4] + _le(len(e), 4) + e
    assert not canonical_image(4, img) and py_de_set(img[8:]) == (sorted(set(v)), len(img) - 8)
    return img


def gen_raw(rng, ty):
    disc = DISC[ty]
    v = gen_value(rng, ty)
    s = py_ser(ty, v)
    kind = rng.below(13)
    if kind == 0:
        return []
    if kind == 1:
        return list(disc)
    if kind == 2:
        return disc + s[:rng.below(len(s))] if s else list(disc)
    if kind == 3:
        return disc + s + [rng.below(256)]
    if kind == 4:
        bad = list(disc)
        bad[rng.below(len(bad))] ^= 1 << rng.below(8)
        return bad + s
    if kind == 5:
        return disc + [1] + s                      # the pre-repair tagged layout
    if kind == 6:
        return [255] * len(disc)
    if kind == 7:
        return [255] * len(disc) + s
    if kind == 8:
        return rng.bytes(rng.range(0, 40))
    if kind == 9:
        return disc[:rng.below(len(disc))]
    if kind == 10:
        # invalid payloads per type: bool byte 2 / huge length / invalid UTF-8 / Option tag 2
        if ty == 0:
            return disc + s[:-1] + [rng.range(2, 255)]
        if ty in (1, 4, 5):
            return disc + _le(len(v) + rng.range(1, 2 ** 31), 4) + v
        if ty == 2:
            b = rng.choice(BAD_UTF8)
            pre = gen_string(rng, rng.below(3))
            return disc + _le(len(pre) + len(b), 4) + pre + b
        bad = py_ser(3, (v[0], v[1], v[2], v[3], None))
        return disc + bad[:-1] + [2]
    if kind in (11, 12) and ty == 4:
        return noncanonical_image(rng)
    if kind == 11 and ty == 3:
        b = rng.choice(BAD_UTF8)
        return disc + _le(7, 4) + [rng.range(0, 3)] + _le(len(b), 4) + b + _le(0, 4) + [0]
    return disc + s


def gen_instr(rng, ty, force_wr=None):
    wr = rng.chance(4, 5) if force_wr is None else force_wr
    ops = []
    for _ in range(rng.weighted([(0, 1), (1, 5), (2, 3), (3, 2), (4, 1)])):
        k = rng.weighted([(1, 30), (2, 10), (3, 15), (4, 8), (5, 8), (6, 8), (7, 5), (8, 4), (9, 3 if wr else 0)])
        if k in (1, 2):
            ops.append((k, gen_value(rng, ty)))
        elif k == 3:
            x = {0: rng.below(2 ** 32), 1: rng.below(256), 2: rng.range(0, 127), 3: rng.below(65536),
                 4: rng.below(16 if rng.chance(1, 2) else 256), 5: rng.below(256)}[ty]
            ops.append((k, x))
        elif k == 4:
            x = {0: rng.below(2 ** 64), 1: rng.range(0, 12), 2: 0, 3: rng.below(2 ** 64),
                 4: rng.below(16 if rng.chance(1, 2) else 256), 5: rng.range(0, 12)}[ty]
            ops.append((k, x))
        elif k == 8:
            ops.append((k, 0 if rng.chance(1, 4) else 1))
        else:
            ops.append((k, None))
    return {"writable": wr, "close_cleanup": wr and rng.chance(1, 20), "ops": ops}


def _directed(add):
    """size-change sequences around the 10 KiB realloc allowance"""
    for ty in (1, 2, 3, 5):
        m = MIN_SER[ty]
        w = W[ty]
        for s0 in (m, m + 5, 3000):
            v0 = _sized_value(ty, s0)
            for grow in (MAX_INC - 1, MAX_INC, MAX_INC + 1, MAX_INC + 700):
                big = _sized_value(ty, s0 + grow)
                for via in (1, 2):
                    add({"ty": ty, "foreign": False, "init": ("value", v0), "instrs": [
                        {"writable": True, "close_cleanup": False, "ops": [(via, big)]},
                        {"writable": True, "close_cleanup": False, "ops": [(5, None)]}]})
            # growth split over two instructions: the allowance restarts
            mid = _sized_value(ty, s0 + 6000)
            big = _sized_value(ty, s0 + 12000)
            add({"ty": ty, "foreign": False, "init": ("value", v0), "instrs": [
                {"writable": True, "close_cleanup": False, "ops": [(1, mid)]},
                {"writable": True, "close_cleanup": False, "ops": [(1, big)]},
                {"writable": False, "close_cleanup": False, "ops": [(5, None)]},
                {"writable": True, "close_cleanup": False, "ops": [(1, v0)]},
                {"writable": True, "close_cleanup": False, "ops": [(5, None)]}]})
            # manual serialize, then more growth in the same instruction: the delta accumulates
            for second in (MAX_INC, MAX_INC + 1):
                add({"ty": ty, "foreign": False, "init": ("value", v0), "instrs": [
                    {"writable": True, "close_cleanup": False,
                     "ops": [(1, mid), (6, None), (1, _sized_value(ty, s0 + second))]},
                    {"writable": True, "close_cleanup": False, "ops": [(5, None)]}]})
        # shrink (manual serialize) then grow: the negative delta buys headroom
        v0 = _sized_value(ty, 6000)
        small = _sized_value(ty, 1000)
        for tot in (6000 + MAX_INC, 6000 + MAX_INC + 1):
            add({"ty": ty, "foreign": False, "init": ("value", v0), "instrs": [
                {"writable": True, "close_cleanup": False, "ops": [(1, small), (6, None), (1, _sized_value(ty, tot))]},
                {"writable": True, "close_cleanup": False, "ops": [(5, None)]}]})
        # big value on a read-only / foreign account: nothing happens
        add({"ty": ty, "foreign": False, "init": ("value", v0), "instrs": [
            {"writable": False, "close_cleanup": False, "ops": [(1, small), (6, None)]},
            {"writable": True, "close_cleanup": False, "ops": [(1, small), (8, 1)]},
            {"writable": True, "close_cleanup": False, "ops": [(5, None)]}]})


def gen_readonly_instr(rng):
    """a read-only instruction that only looks: Deref read / manual serialize / reload, default cleanup"""
    ops = [(rng.choice([5, 6, 7]), None) for _ in range(rng.weighted([(0, 2), (1, 4), (2, 3), (3, 2), (4, 1)]))]
    return {"writable": False, "close_cleanup": False, "ops": ops}


def _directed_noncanonical(rng, add):
    """BTreeSet<u8> images that borsh accepts and never writes: a read-only instruction must leave them byte for byte
    (whatever it calls), a writable one rewrites them in canonical form - possibly shorter"""
    ro = lambda ops: {"writable": False, "close_cleanup": False, "ops": [(k, None) for k in ops]}
    wr = lambda ops: {"writable": True, "close_cleanup": False, "ops": ops}
    sets = [[7], [2, 9], [0, 255], [1, 2, 3], [2, 5, 9, 200], list(range(0, 256, 5)), list(range(256))]
    for v in sets:
        for mode in range(5):
            img = noncanonical_image(rng, v, mode)
            for ops in ([], [5], [6], [7], [5, 6, 7], [6, 5], [7, 6, 5]):
                add({"ty": 4, "foreign": False, "init": ("raw", img), "instrs": [ro(ops)]})
            # read-only, then writable (the rewrite), then read-only again
            add({"ty": 4, "foreign": False, "init": ("raw", img), "instrs": [ro([5, 6]), wr([]), ro([5])]})
            add({"ty": 4, "foreign": False, "init": ("raw", img), "instrs": [ro([]), ro([7]), wr([(5, None)]), ro([6])]})
            # writable first: plain cleanup, manual serialize, reload, field writes, set_inner
            for ops in ([], [(6, None), (5, None)], [(7, None)], [(3, v[0])], [(3, (v[-1] + 1) % 256)], [(4, v[0])],
                        [(4, (v[-1] + 1) % 256)], [(1, [1, 2, 3])], [(2, [])]):
                add({"ty": 4, "foreign": False, "init": ("raw", img), "instrs": [wr(ops), ro([5])]})
            # set_inner / field writes refused on the read-only account, then nothing is written
            add({"ty": 4, "foreign": False, "init": ("raw", img), "instrs": [
                {"writable": False, "close_cleanup": False, "ops": [(1, [4, 5]), (6, None), (5, None)]}, wr([])]})
            add({"ty": 4, "foreign": False, "init": ("raw", img), "instrs": [
                {"writable": False, "close_cleanup": False, "ops": [(3, 77)]}, ro([5])]})
            # foreign owner / given away / closed
            add({"ty": 4, "foreign": True, "init": ("raw", img), "instrs": [ro([5]), wr([])]})
            add({"ty": 4, "foreign": False, "init": ("raw", img), "instrs": [wr([(8, 1)]), wr([])]})
            add({"ty": 4, "foreign": False, "init": ("raw", img), "instrs": [wr([(8, 1), (6, None)]), ro([])]})
            add({"ty": 4, "foreign": False, "init": ("raw", img), "instrs": [wr([(9, None)]), ro([])]})
    # a long image full of duplicates (3000 elements, 3 distinct): shrinks to 7 bytes on the first writable instruction
    big = DISC[4] + _le(3000, 4) + [(9, 2, 5)[i % 3] for i in range(3000)]
    add({"ty": 4, "foreign": False, "init": ("raw", big), "instrs": [ro([5, 6, 7]), wr([]), ro([5])]})
    add({"ty": 4, "foreign": False, "init": ("raw", big), "instrs": [wr([(6, None), (3, 1)]), wr([(5, None)])]})
    # trailing byte / truncated non-canonical image: refused
    img = noncanonical_image(rng, [2, 9], 0)
    add({"ty": 4, "foreign": False, "init": ("raw", img + [0]), "instrs": [ro([5]), wr([])]})
    add({"ty": 4, "foreign": False, "init": ("raw", img[:-1]), "instrs": [ro([5]), wr([])]})


def gen_cases(rng, tier):
    cases = []

    def add(dc):
        cases.append(("e%d" % len(cases), encode_case(dc)))

    # the example program's instruction: set_inner([1,2,3]); vec.push(4)
    add({"ty": 1, "foreign": False, "init": ("value", []), "instrs": [
        {"writable": True, "close_cleanup": False, "ops": [(1, [1, 2, 3]), (3, 4)]},
        {"writable": False, "close_cleanup": False, "ops": [(5, None)]}]})
    _directed(add)
    _directed_noncanonical(rng, add)
    n = 1400 if tier == "quick" else 150000
    for _ in range(n):
        ty = rng.below(NTYPES)
        foreign = rng.chance(1, 12)
        if ty == 4 and rng.chance(1, 2):
            # a valid but non-canonical image; mostly: read-only instructions that only look, then a writable one
            init = ("raw", noncanonical_image(rng))
            if rng.chance(3, 4):
                instrs = [gen_readonly_instr(rng) for _ in range(rng.range(1, 3))]
                instrs.append(gen_instr(rng, ty, force_wr=True))
                if rng.chance(1, 2):
                    instrs.append(gen_readonly_instr(rng) if rng.chance(1, 2) else gen_instr(rng, ty))
            else:
                instrs = [gen_instr(rng, ty, force_wr=(False if rng.chance(1, 2) else None))
                          for _ in range(rng.weighted([(1, 2), (2, 4), (3, 4), (4, 2), (5, 1)]))]
            add({"ty": ty, "foreign": foreign and rng.chance(1, 2), "init": init, "instrs": instrs})
            continue
        init = ("value", gen_value(rng, ty)) if rng.chance(5, 6) else ("raw", gen_raw(rng, ty))
        instrs = [gen_instr(rng, ty) for _ in range(rng.weighted([(1, 2), (2, 4), (3, 4), (4, 2), (5, 1)]))]
        add({"ty": ty, "foreign": foreign, "init": init, "instrs": instrs})
    # every state x every op on a valid account (small exhaustive product)
    for ty in range(NTYPES):
        v0 = gen_value(rng, ty, 3)
        v1 = gen_value(rng, ty, 6)
        for wr in (True, False):
            for foreign in (False, True):
                for k in range(1, 10):
                    if k == 9 and not wr:
                        continue
                    x = v1 if k in (1, 2) else ({0: 5, 1: 5, 2: 65, 3: 5, 4: 5, 5: 5}[ty] if k in (3, 4) else (1 if k == 8 else None))
                    for cl in ((False, True) if wr else (False,)):
                        add({"ty": ty, "foreign": foreign, "init": ("value", v0), "instrs": [
                            {"writable": wr, "close_cleanup": cl, "ops": [(k, x)]},
                            {"writable": True, "close_cleanup": False, "ops": [(5, None), (1, v1)]},
                            {"writable": False, "close_cleanup": False, "ops": [(5, None)]}]})
    return cases


def distribution(cases, impl):
    from collections import Counter
    a, b, s = Counter(), Counter(), Counter()
    for cid, c in cases:
        try:
            dc = decode_case(c)
            o = parse_obs(dc["ty"], impl.get(cid) or [], len(dc["instrs"]))
        except (IndexError, ValueError, TypeError, KeyError):
            a["unparsed"] += 1
            continue
        a["type %d" % dc["ty"]] += 1
        if dc["init"][0] == "raw" and not canonical_image(dc["ty"], dc["init"][1]):
            a["non-canonical initial image"] += 1
            if dc["instrs"] and not dc["instrs"][0]["writable"]:
                a["non-canonical initial image, first instruction read-only"] += 1
        a["instructions=%d" % len(dc["instrs"])] += 1
        for ins, r in zip(dc["instrs"], o["instrs"]):
            b["try_from_accounts " + (r["tfa"][0] if r["tfa"][0] != "err" else "err %s" % r["tfa"][1])] += 1
            b["cleanup " + ("not run" if r["cleanup"] is None else (
                r["cleanup"][0] if r["cleanup"][0] != "err" else "err %s" % r["cleanup"][1]))] += 1
            b["writable" if ins["writable"] else "read-only"] += 1
            for k, _ in ins["ops"]:
                s[OPNAME[k]] += 1
            n = len(r["data"])
            b["data_len " + ("<=16" if n <= 16 else "<=300" if n <= 300 else "<=5000" if n <= 5000 else ">5000")] += 1
    return {"cases": dict(a), "instructions": dict(b), "ops": dict(s)}


def matches_known(entry, c, obs):
    return False
