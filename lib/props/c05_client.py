"""C05, third stage: the client-side account helpers (star_frame/src/client.rs).

`SerializeAccount::serialize_account(value)` = discriminant ++ serialization; `DeserializeAccount::deserialize_account(data)`
gives the value back and REJECTS data whose discriminant differs.  Model: coq/Unsized/ClientAcct.v (`client_ser`, `client_de`,
`run_c05c`), theorems C05_client_roundtrip / C05_client_rejects_other_discriminant / C05_client_rejects_sibling_account.
Harness: the `client` mode of harness/src/bin/vh_c08.rs on its thirteen account types (discriminant widths 0..24)."""
from lib.props import c05 as A
from lib.props import c08 as D

ID = "C05"
STAGE = "client"
ENTRY = "c05c"
GROUP = A.GROUP
BIN = "vh_c08"
HARNESS_ARGS = ["client"]
RULE = ("stage 'client': %d account types (discriminant widths 0,1,2,3,4,8,12,16,24, all-0xFF and leading-0xFF discriminants) x "
        "values of 0..40 bytes: serialize_account = discriminant ++ u32 count ++ bytes; deserialize_account of that image gives "
        "the value back; of the image under every single-bit flip and single-byte change of the discriminant, under a sibling "
        "type's discriminant of the same width, the all-zero and the all-0xFF prefix: rejected" % len(D.VARIANTS))


def _le(n, w):
    return [(n >> (8 * i)) & 255 for i in range(w)]


def _case(w, value, data):
    return [D.WIDTH[w]] + D.DISC[w] + [len(value)] + list(value) + [len(data)] + list(data)


def gen_cases(rng, tier):
    cases = []
    n = 0
    reps = 2 if tier == "quick" else 20
    for w in D.VARIANTS:
        d = D.DISC[w]
        for _ in range(reps):
            v = rng.bytes(rng.choice([0, 1, 5, rng.range(0, 40)]))
            good = d + _le(len(v), 4) + v
            datas = [good]
            for bit in range(8 * len(d)):
                p = list(good)
                p[bit // 8] ^= 1 << (bit % 8)
                datas.append(p)
            for pos in range(len(d)):
                p = list(good)
                p[pos] = (p[pos] + 1 + rng.below(254)) % 256
                datas.append(p)
            for other in D.VARIANTS:
                if other != w and D.WIDTH[other] == D.WIDTH[w] and D.DISC[other] != d:
                    datas.append(D.DISC[other] + _le(len(v), 4) + v)
            if d:
                datas.append([0] * len(d) + _le(len(v), 4) + v)
                datas.append([255] * len(d) + _le(len(v), 4) + v)
            for data in datas:
                cases.append(("k%d" % n, _case(w, v, data)))
                n += 1
    return cases


def _decode(c):
    w = c[0]
    d = c[1:1 + w]
    n = c[1 + w]
    v = c[2 + w:2 + w + n]
    ln = c[2 + w + n]
    data = c[3 + w + n:3 + w + n + ln]
    return w, d, v, data


def describe(c):
    w, d, v, data = _decode(c)
    return {"discriminant": d, "value": v, "data_given_to_deserialize_account": data}


def predicate(c, obs):
    if obs is None or (obs and obs[0] == "UNPARSEABLE"):
        return "no observation from the implementation"
    if obs and obs[0] in (-1, -2):
        return "harness account types out of sync with the case generator (%s)" % obs
    if obs and obs[0] in (-7, -9):
        return "serialize_account failed / panicked on a value of %d bytes" % len(_decode(c)[2])
    w, d, v, data = _decode(c)
    want = d + _le(len(v), 4) + v
    if obs[0] != len(want) or obs[1:1 + len(want)] != want:
        return "serialize_account wrote %s; discriminant ++ serialization is %s" % (obs[1:1 + obs[0]][:16], want[:16])
    r = obs[1 + obs[0]:]
    if r[:1] == [2]:
        return "deserialize_account panicked"
    same = data[:w] == d and len(data) >= w
    if not same:
        if r[:1] != [1]:
            return ("deserialize_account accepted data whose discriminant %s differs from the account type's %s"
                    % (data[:w], d))
        return None
    # right discriminant: the generator only builds exact images of a value behind it
    body = data[w + 4:]
    if r != [0, len(body)] + body:
        return "deserialize_account of discriminant ++ serialization returned %s, the value is %s" % (r[:12], body[:12])
    return None


def nontrivial(c, obs):
    return True


def shrink(c):
    return []
