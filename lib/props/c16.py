"""C16 - System / SPL Token / Associated Token bindings are wire- and layout-compatible with the references.

Own pipeline (custom_main): the correspondence harness lives in its own crate /verif/harness_c16 (it links the
reference interface crates next to star_frame / star_frame_spl), prints TWO observation lines per case (`s` = built
through the framework, `r` = built / unpacked by the reference crate) and the extracted model has two entry points
(c16sf = framework-side model, c16ref = reference-side model).  Three comparisons per case:
   model(a) c16sf  vs  harness `s`      (the Gallina framework model follows star_frame_spl / system.rs)
   model(b) c16ref vs  harness `r`      (the Gallina reference model follows the reference crates)
   harness `s`     vs  harness `r`      (the property itself, judged on the two implementations, no model involved)
The PDA function is an oracle: the model emits symbolic terms, resolved here with the real
`Pubkey::find_program_address` (harness kind 9) before comparing.
"""
import json
import os
import re
import shutil
import sys

from lib import common as C

ID = "C16"
GROUP = "wire"
BIN = "vh_c16"
HARNESS_DIR = os.path.join(C.VERIF, "harness_c16")
COQ_TARGETS = ["Properties/C16.vo"]

U64X = [0, 1, 2 ** 32 - 1, 2 ** 32, 2 ** 63, 2 ** 64 - 1]
U8X = [0, 1, 127, 128, 255]
H = 9                                    # header ints of an instruction case
N_IX = {0: 9, 1: 24, 2: 3}
SYS_NAMES = ["CreateAccount", "Assign", "Transfer", "AdvanceNonceAccount", "WithdrawNonceAccount",
             "InitializeNonceAccount", "AuthorizeNonceAccount", "Allocate", "UpgradeNonceAccount"]
TOK_NAMES = ["InitializeMint", "InitializeAccount", "InitializeMultisig", "Transfer", "Approve", "Revoke", "SetAuthority",
             "MintTo", "Burn", "CloseAccount", "FreezeAccount", "ThawAccount", "TransferChecked", "ApproveChecked",
             "MintToChecked", "BurnChecked", "InitializeAccount2", "SyncNative", "InitializeAccount3",
             "InitializeMultisig2", "InitializeMint2", "GetAccountDataSize", "InitializeImmutableOwner", "AmountToUiAmount"]
ATA_NAMES = ["Create", "CreateIdempotent", "RecoverNested"]
PROG_NAMES = {0: ("System", SYS_NAMES), 1: ("Token", TOK_NAMES), 2: ("AssociatedToken", ATA_NAMES)}
OWNER_AUTH = {3, 4, 5, 6, 7, 8, 9, 10, 11, 12, 13, 14, 15}     # token instructions with `owner: Signer` and no signer tail
USES_O1 = {(0, 4), (0, 5), (1, 0), (1, 1), (1, 2), (1, 16), (2, 0), (2, 1), (2, 2)}
USES_O2 = {(2, 0), (2, 1)}
USES_N1 = {(0, 0), (0, 2), (0, 4), (0, 7), (1, 3), (1, 4), (1, 7), (1, 8), (1, 12), (1, 13), (1, 14), (1, 15), (1, 23)}
USES_N3 = {(1, 0), (1, 2), (1, 6), (1, 12), (1, 13), (1, 14), (1, 15), (1, 19), (1, 20)}
USES_OPT = {(1, 0), (1, 6), (1, 20)}
MULTISIG_INIT = {(1, 2), (1, 19)}

RULE = ("instructions: for each of the 36 bound instructions (System 9, Token 24, ATA 3) the product of the arguments it "
        "uses: u64 in {0,1,2^32-1,2^32,2^63,2^64-1} (both u64 of CreateAccount), u8 in {0,1,127,128,255}, Option "
        "present/absent, the 4 authority types, client-side optional accounts None / Some(default id) / Some(other key), "
        "multisig initialisers m x signer-count in 0..12 x 0..12, owner-authorised instructions with 0..11 reference "
        "signers, keys random / all-zero / all-0xFF / aliased; then random fill. images: valid packed Mint / Account images "
        "(all COption present/absent combinations, all states, u64 extremes) and every single-field perturbation of them "
        "(COption tags 2, 256, 0x01000001, 0xFFFFFFFF; state / is_initialized bytes 0..3 and 255; is_native variants; every "
        "single byte replaced by 3 values; lengths 0, LEN-1, LEN+1; foreign owner; writable or not) plus random images; every "
        "combination of Some / None with zero payload / None with STALE non-zero payload for each COption field "
        "(mint_authority, freeze_authority, delegate, is_native, close_authority), the stale key also aliasing another key of "
        "the image. On every image the reference accepts (token-program owner) validate_mint / validate_token is probed: it "
        "must accept the expectations the reference reads, and reject every expectation the reference's reading does not "
        "support (authority / freeze authority = the stale bytes behind a None tag, one bit flipped, unrelated / zero / "
        "other-slot keys, decimals +-1, one wrong component among right ones; token: owner / mint one bit flipped, = delegate "
        "/ close-authority bytes incl. stale ones, swapped). "
        "non-trivial = an instruction case on which framework and reference outputs were actually compared (reference "
        "builder succeeded, arguments inside the binding's argument space), or an image that at least one side accepts; "
        "distinct = distinct integer case vectors")
TRUSTED = [
    "Coq 8.16.1 kernel", "extraction (ExtrOcamlBasic only) + runner/driver.ml",
    "harness_c16/src/bin/vh_c16.rs (calls Program::instruction / the reference builders / unpack, native AccountInfo for the views)",
    "tools/gen_extra_c16.py (lexical extraction of the bindings' declarations, ids and packed layouts into Gen/Gen_c16.v)",
    "lib/props/c16.py (generator, comparator, resolution of the symbolic PDA terms)",
    "the reference crates spl-token-interface 2.0.0, solana-system-interface 2.0.0, spl-associated-token-account-interface "
    "2.0.0, solana-program-pack 3.0.0 as the definition of `reference`",
]
ASSUMPTIONS = [
    "borsh 1.x writes integers little endian, Option as tag byte + value, [u8; 32] as the bytes, a unit-only enum as its variant index; "
    "bincode 1.x fixint writes the enum variant index as u32 LE (both modelled, K compares the real libraries' bytes)",
    "Pubkey::find_program_address is an oracle (Section variable); only the seeds / program id handed to it are compared, the K side "
    "resolves the oracle with the real function",
    "the multisig signer tail of owner-authorised token instructions is outside the bindings' argument space (theorems C16_note_*_no_multisig)",
    "client-side optional accounts (rent sysvar, system / token program) are None or the default id when compared with the reference "
    "(another key is passed through verbatim; covered by model(a) vs implementation only)",
]


# ------------------------------------------------------------------------------------------------
# case construction
def ix_case(prog, ix, n1=0, n2=0, n3=0, opt=0, o1=0, o2=0, keys=None, sigs=()):
    flat = []
    for k in keys:
        flat += k
    c = [0, prog, ix, n1, n2, n3, opt, o1, o2] + flat + [len(sigs)]
    for s in sigs:
        c += s
    return c


def img_case(kind, owner_tok, writable, data):
    return [kind, int(owner_tok), int(writable), len(data)] + list(data)


def le(n, w):
    return [(n >> (8 * i)) & 255 for i in range(w)]


class Stale(object):
    """a COption / PodOption field with tag None and these (stale, normally non-zero) payload bytes behind it: what the
    reference packer leaves when an authority / delegate is cleared (it writes the tag and leaves the payload alone)"""

    def __init__(self, body):
        self.body = list(body)


def pack_coption(val, body_len):
    if val is None:
        return [0, 0, 0, 0] + [0] * body_len
    if isinstance(val, Stale):
        assert len(val.body) == body_len
        return [0, 0, 0, 0] + val.body
    return [1, 0, 0, 0] + list(val)


def pack_mint(ma, supply, dec, init, fa):
    return pack_coption(ma, 32) + le(supply, 8) + [dec, init] + pack_coption(fa, 32)


def pack_token(mint, owner, amount, delegate, state, native, damount, close):
    if isinstance(native, Stale):
        nat = native
    else:
        nat = None if native is None else le(native, 8)
    return (list(mint) + list(owner) + le(amount, 8) + pack_coption(delegate, 32) + [state]
            + pack_coption(nat, 8) + le(damount, 8) + pack_coption(close, 32))


TAGS = [[0, 0, 0, 0], [1, 0, 0, 0], [2, 0, 0, 0], [0, 1, 0, 0], [1, 0, 0, 1], [255, 255, 255, 255], [0, 0, 0, 1]]
MINT_TAG_OFFS = [0, 46]
TOKEN_TAG_OFFS = [72, 109, 129]


def gen_cases(rng, tier):
    cases = []
    n = [0]

    def add(c):
        cases.append(("g%d" % n[0], c))
        n[0] += 1

    def rkeys(style=0):
        if style == 1:
            return [[0] * 32 for _ in range(8)]
        if style == 2:
            return [[255] * 32 for _ in range(8)]
        if style == 3:
            k = rng.bytes(32)
            return [list(k) for _ in range(8)]
        return [rng.bytes(32) for _ in range(8)]

    def rsigs(k):
        return [rng.bytes(32) for _ in range(k)]

    # ---- instructions: structured product ----
    for prog in (0, 1, 2):
        for ix in range(N_IX[prog]):
            key = (prog, ix)
            n1s = U64X if key in USES_N1 else [0]
            n2s = U64X if key == (0, 0) else [0]
            n3s = [0]
            if key in USES_N3:
                n3s = [0, 1, 2, 3] if key == (1, 6) else U8X
            opts = [0, 1] if key in USES_OPT else [0]
            o1s = [0, 1, 2] if key in USES_O1 else [0]
            o2s = [0, 1, 2] if key in USES_O2 else [0]
            if key in MULTISIG_INIT:
                for m in list(range(0, 13)) + [255]:
                    for k in range(0, 13):
                        for o1 in (o1s if k % 4 == 0 else o1s[:2]):
                            add(ix_case(prog, ix, 0, 0, m, 0, o1, 0, rkeys(), rsigs(k)))
                continue
            for n1 in n1s:
                for n2 in n2s:
                    for n3 in n3s:
                        for opt in opts:
                            for o1 in o1s:
                                for o2 in o2s:
                                    add(ix_case(prog, ix, n1, n2, n3, opt, o1, o2, rkeys(), ()))
            for style in (1, 2, 3):
                add(ix_case(prog, ix, n1s[-1], n2s[-1], n3s[-1], opts[-1], 0, 0, rkeys(style), ()))
            if prog == 1 and ix in OWNER_AUTH:
                for k in range(1, 12):
                    add(ix_case(prog, ix, rng.choice(n1s), 0, rng.choice(n3s), rng.choice(opts), 0, 0, rkeys(), rsigs(k)))
    # ---- instructions: random fill ----
    target = 6000 if tier == "quick" else 120000
    while n[0] < target:
        prog = rng.weighted([(0, 9), (1, 24), (2, 6)])
        ix = rng.below(N_IX[prog])
        key = (prog, ix)
        n1 = rng.choice(U64X) if rng.chance(1, 3) else rng.next()
        n2 = rng.choice(U64X) if rng.chance(1, 3) else rng.next()
        n3 = rng.below(4) if key == (1, 6) else (rng.choice(U8X) if rng.chance(1, 3) else rng.below(256))
        k = 0
        if key in MULTISIG_INIT:
            k = rng.range(0, 12)
            n3 = rng.range(0, 12)
        elif prog == 1 and ix in OWNER_AUTH and rng.chance(1, 6):
            k = rng.range(1, 11)
        o1 = rng.weighted([(0, 4), (1, 3), (2, 1)]) if key in USES_O1 else 0
        o2 = rng.weighted([(0, 4), (1, 3), (2, 2)]) if key in USES_O2 else 0
        add(ix_case(prog, ix, n1, n2, n3, rng.below(2), o1, o2, rkeys(3 if rng.chance(1, 20) else 0), rsigs(k)))
    n_ix = n[0]

    # ---- ATA address helper ----
    for _ in range(200 if tier == "quick" else 4000):
        add([3] + rng.bytes(32) + rng.bytes(32))
    add([3] + [0] * 64)
    add([3] + [255] * 64)

    # ---- images ----
    def okey():
        return rng.bytes(32) if rng.chance(1, 2) else None

    bases_m = []
    for ma in (None, 1):
        for fa in (None, 1):
            for init in (0, 1):
                bases_m.append(pack_mint(rng.bytes(32) if ma else None, rng.choice(U64X), rng.choice(U8X), init,
                                         rng.bytes(32) if fa else None))
    bases_t = []
    for st in (0, 1, 2):
        for native in (None, 0, 2 ** 64 - 1):
            for dele in (None, 1):
                bases_t.append(pack_token(rng.bytes(32), rng.bytes(32), rng.choice(U64X), rng.bytes(32) if dele else None, st,
                                          native, rng.choice(U64X), okey()))
    # tag None with STALE non-zero payload bytes, for every COption field and every combination of them (0 = Some,
    # 1 = None + stale bytes, 2 = None + zero bytes); the stale key also equal to another key of the image
    for ma in (0, 1, 2):
        for fa in (0, 1, 2):
            k1, k2 = rng.bytes(32), rng.bytes(32)
            for same in (0, 1):
                if same:
                    k2 = list(k1)
                f = lambda m, k: k if m == 0 else (Stale(k) if m == 1 else None)  # noqa: E731
                bases_m.append(pack_mint(f(ma, k1), rng.choice(U64X), rng.choice(U8X), 1, f(fa, k2)))
    for dele in (0, 1, 2):
        for native in (0, 1, 2):
            for close in (0, 1, 2):
                mint, owner, k1, k2 = rng.bytes(32), rng.bytes(32), rng.bytes(32), rng.bytes(32)
                alias = rng.below(4)                    # stale / live delegate or close key equal to the owner or the mint
                if alias == 1:
                    k1 = list(owner)
                elif alias == 2:
                    k2 = list(owner)
                elif alias == 3:
                    k1, k2 = list(mint), list(mint)
                f = lambda m, k: k if m == 0 else (Stale(k) if m == 1 else None)  # noqa: E731
                nv = rng.choice([1, 2 ** 64 - 1, rng.next()])
                nat = nv if native == 0 else (Stale(le(nv, 8)) if native == 1 else None)
                bases_t.append(pack_token(mint, owner, rng.choice(U64X), f(dele, k1), rng.choice([1, 2]), nat,
                                          rng.choice(U64X), f(close, k2)))
    mult = 1 if tier == "quick" else 12

    def images(kind, bases, tag_offs, flag_off, ln):
        for b in bases:
            for own in (1, 0):
                for wr in (0, 1):
                    add(img_case(kind, own, wr, b))
            # COption tags
            for off in tag_offs:
                for t in TAGS:
                    d = list(b)
                    d[off:off + 4] = t
                    add(img_case(kind, 1, rng.below(2), d))
            # state / is_initialized byte
            for v in (0, 1, 2, 3, 4, 127, 128, 255):
                d = list(b)
                d[flag_off] = v
                add(img_case(kind, 1, rng.below(2), d))
            # lengths
            for d in (b[:-1], b + [0], [], b[:ln // 2]):
                add(img_case(kind, 1, rng.below(2), d))
        # every single byte of some bases replaced by three values
        for b in bases[::2][:6 * mult]:
            for pos in range(ln):
                for v in (b[pos] ^ 1, 255 - b[pos], 2):
                    d = list(b)
                    d[pos] = v
                    add(img_case(kind, 1, (pos + v) % 2, d))
        for _ in range(600 * mult):
            d = rng.bytes(ln)
            if rng.chance(3, 4):                  # make the tags / flags plausible so that both sides get past them
                for off in tag_offs:
                    d[off:off + 4] = rng.choice(TAGS[:3])
                d[flag_off] = rng.below(4)
            add(img_case(kind, rng.chance(7, 8), rng.below(2), d))

    images(1, bases_m, MINT_TAG_OFFS, 45, 82)
    images(2, bases_t, TOKEN_TAG_OFFS, 108, 165)
    # top up with valid random images and their single-field perturbations
    def skey():
        """Some(key) / None with zero payload / None with stale payload"""
        r = rng.below(3)
        return rng.bytes(32) if r == 0 else (None if r == 1 else Stale(rng.bytes(32)))

    target_img = 20000 if tier == "quick" else 250000
    while n[0] - n_ix < target_img:
        if rng.chance(1, 2):
            b = pack_mint(skey(), rng.next(), rng.below(256), rng.weighted([(1, 5), (0, 1)]), skey())
            kind, offs, fo = 1, MINT_TAG_OFFS, 45
        else:
            b = pack_token(rng.bytes(32), rng.bytes(32), rng.next(), skey(), rng.weighted([(1, 4), (2, 2), (0, 1)]),
                           rng.choice([None, 0, rng.next(), Stale(rng.bytes(8))]), rng.next(), skey())
            kind, offs, fo = 2, TOKEN_TAG_OFFS, 108
        add(img_case(kind, 1, rng.below(2), b))
        d = list(b)
        r = rng.below(4)
        if r == 0:
            off = rng.choice(offs)
            d[off:off + 4] = rng.choice(TAGS)
        elif r == 1:
            d[fo] = rng.below(256)
        elif r == 2:
            d[rng.below(len(d))] = rng.below(256)
        else:
            off = rng.choice(offs)
            d[off + rng.below(4)] = rng.below(256)
        add(img_case(kind, rng.chance(15, 16), rng.below(2), d))
    return cases


# ------------------------------------------------------------------------------------------------
# decoding of cases and observations
def dec_ix_case(c):
    keys = [c[H + 32 * i:H + 32 * i + 32] for i in range(8)]
    nsig = c[H + 256]
    sigs = [c[H + 257 + 32 * i:H + 257 + 32 * i + 32] for i in range(nsig)]
    return {"prog": c[1], "ix": c[2], "n1": c[3], "n2": c[4], "n3": c[5], "opt": c[6], "o1": c[7], "o2": c[8],
            "keys": keys, "nsig": nsig, "signers": sigs}


def dec_ix_obs(o):
    """-> None (builder refused) | dict"""
    if not o or o[0] != 0:
        return None
    pid = o[1:33]
    nd = o[33]
    data = o[34:34 + nd]
    i = 34 + nd
    nm = o[i]
    i += 1
    metas = []
    for _ in range(nm):
        metas.append((o[i:i + 32], o[i + 32], o[i + 33]))
        i += 34
    return {"program_id": pid, "data": data, "metas": metas, "wellformed": i == len(o)}


def describe(c):
    if not c:
        return {"malformed": c}
    if c[0] == 0:
        d = dec_ix_case(c)
        pn, names = PROG_NAMES.get(d["prog"], ("?", []))
        d["instruction"] = "%s::%s" % (pn, names[d["ix"]] if 0 <= d["ix"] < len(names) else "?")
        d["keys"] = ["".join("%02x" % b for b in k) for k in d["keys"]]
        d["signers"] = ["".join("%02x" % b for b in k) for k in d["signers"]]
        return d
    if c[0] in (1, 2):
        return {"image_of": "Mint" if c[0] == 1 else "token Account", "owner_is_token_program": bool(c[1]),
                "writable": bool(c[2]), "len": c[3], "bytes": c[4:]}
    if c[0] == 3:
        return {"ata_address_of": {"wallet": c[1:33], "mint": c[33:65]}}
    return {"kind": c[0]}


def comparable(c):
    """is the instruction case inside the argument space on which the binding can be compared with the reference"""
    d = dec_ix_case(c)
    key = (d["prog"], d["ix"])
    if d["prog"] == 1 and d["ix"] in OWNER_AUTH and d["nsig"] > 0:
        return False
    if key in USES_O1 and d["o1"] == 2 and key != (2, 2):
        return False
    return True


def _take(o, i, n):
    return o[i:i + n], i + n


def parse_sf_image(kind, o):
    """-> dict(validate, du, data, fields) ; fields as the reference prints them"""
    i = 0
    res = {}
    for name in ("validate",):
        if o[i] == 0:
            res[name] = 0
            i += 1
        else:
            res[name] = ("err", o[i + 1])
            i += 2
    fields = None
    if o[i] == 0:
        i += 1
        fields = []

        def podkey():
            nonlocal i
            is_some, is_none, has = o[i], o[i + 1], o[i + 2]
            i += 3
            k = None
            if has:
                k = o[i:i + 32]
                i += 32
            return [1] + k if has else [0]

        def podu64():
            nonlocal i
            has = o[i + 2]
            i += 3
            if has:
                v = o[i]
                i += 1
                return [1, v]
            return [0]

        if kind == 1:
            fields += podkey()
            fields += o[i:i + 3]
            i += 3
            fields += podkey()
        else:
            fields += o[i:i + 65]
            i += 65
            fields += podkey()
            fields += o[i:i + 1]
            i += 1
            fields += podu64()
            fields += o[i:i + 1]
            i += 1
            fields += podkey()
        res["du"] = 0
    else:
        res["du"] = ("err", o[i + 1])
        i += 2
    res["fields"] = fields
    res["data"] = 0 if o[i] == 0 else ("err", o[i + 1])
    i += 1 if o[i] == 0 else 2
    if i < len(o):                           # the probe section: 7777, the two original values, one value per probe group
        if o[i] != 7777 or len(o) - i != 3 + PROBE_GROUPS[kind]:
            raise IndexError("malformed probe section")
        res["vm"] = o[i + 1:i + 3]
        res["groups"] = o[i + 3:]
    return res


# probe groups appended after the two original probe values (harness MINT_GROUPS / TOKEN_GROUPS); value 1 = every probe of
# the group behaved as required, 2 = not applicable to this image, 100 + i = probe i of the group did not
MINT_GROUP_WHAT = [
    "validate_mint accepts as mint authority the stale key bytes behind a None tag (the reference reports no mint authority)",
    "validate_mint accepts a mint authority that differs in one bit from the key at the mint_authority slot",
    "validate_mint accepts a mint authority the reference does not report (unrelated key / zero key / the freeze-authority bytes)",
    "validate_mint accepts wrong decimals",
    "validate_mint accepts as freeze authority the stale key bytes behind a None tag (the reference reports no freeze authority)",
    "validate_mint accepts a freeze authority the reference does not report (one bit flipped / unrelated key / the mint-authority bytes)",
    "validate_mint accepts an expectation with exactly one wrong component (authority / freeze authority) among right ones",
    "validate_mint rejects a single right expectation (decimals / authority / freeze authority alone) or the empty expectation",
]
TOKEN_GROUP_WHAT = [
    "validate_token accepts an owner that differs in one bit from the owner the reference reads",
    "validate_token accepts a mint that differs in one bit from the mint the reference reads",
    "validate_token accepts an owner the reference does not report (delegate / close-authority bytes, also stale ones behind a "
    "None tag; the mint key; zero / unrelated key)",
    "validate_token accepts a mint the reference does not report (delegate / close-authority bytes, also stale ones behind a "
    "None tag; the owner key; zero / unrelated key)",
    "validate_token accepts an expectation with one wrong component next to a right one (or mint and owner swapped)",
    "validate_token rejects a single right expectation (mint / owner alone) or the empty expectation",
]
PROBE_GROUPS = {1: len(MINT_GROUP_WHAT), 2: len(TOKEN_GROUP_WHAT)}


def strip_probe(o, kind=None):
    """the framework-side observation without the validate_mint / validate_token probes (which the Coq model does not
    describe): marker 7777, the two original probe values, one value per probe group of this kind of image"""
    if not isinstance(o, list):
        return o
    for k in ([kind] if kind in PROBE_GROUPS else sorted(PROBE_GROUPS)):
        ln = 3 + PROBE_GROUPS[k]
        if len(o) >= ln and o[-ln] == 7777:
            return o[:-ln]
    return o


def parse_ref_image(kind, o):
    """-> [(tag, fields | code)] for unpack, unpack_unchecked"""
    out = []
    i = 0
    for _ in range(2):
        if o[i] != 0:
            out.append((1, o[i + 1]))
            i += 2
            continue
        j = i + 1

        def optk():
            nonlocal j
            if o[j] == 1:
                j += 33
            else:
                j += 1

        if kind == 1:
            optk()
            j += 3
            optk()
        else:
            j += 65
            optk()
            j += 1
            if o[j] == 1:
                j += 2
            else:
                j += 1
            j += 1
            optk()
        out.append((0, o[i + 1:j]))
        i = j
    return out


def predicate(c, s, r):
    """the property judged on the two implementations' observations only.  None = holds (or not applicable)"""
    if s is None or r is None or (s and s[0] == "UNPARSEABLE") or (r and r[0] == "UNPARSEABLE"):
        return "no observation from the harness"
    if s == [-9] or r == [-9]:
        return "harness rejected the case as malformed"
    kind = c[0]
    if kind == 0:
        rd = dec_ix_obs(r)
        if rd is None:
            return None                      # the reference builder refuses these arguments: nothing to compare with
        if not comparable(c):
            return None
        sd = dec_ix_obs(s)
        if sd is None:
            return "the framework failed to build an instruction the reference builds (%s)" % (s[:2],)
        if sd["program_id"] != rd["program_id"]:
            return "program id differs"
        if sd["data"] != rd["data"]:
            return "instruction data differs: framework %s reference %s" % (sd["data"], rd["data"])
        if len(sd["metas"]) != len(rd["metas"]):
            return "number of account metas differs: framework %d reference %d" % (len(sd["metas"]), len(rd["metas"]))
        for i, (a, b) in enumerate(zip(sd["metas"], rd["metas"])):
            if a != b:
                return ("account meta %d differs: framework (key %s, signer %d, writable %d) reference (key %s, signer %d, writable %d)"
                        % (i, "same" if a[0] == b[0] else "DIFFERENT", a[1], a[2], "same" if a[0] == b[0] else "DIFFERENT", b[1], b[2]))
        return None
    if kind in (1, 2):
        try:
            sv = parse_sf_image(kind, s)
            rv = parse_ref_image(kind, r)
        except (IndexError, TypeError):
            return "malformed image observation"
        what = "Mint" if kind == 1 else "token Account"
        (t1, f1), (t2, f2) = rv
        if t2 == 0:                           # unpack_unchecked accepts: the raw view must agree
            if sv["du"] != 0:
                return "%s image accepted by the reference unpack_unchecked is rejected by data_unchecked (%s)" % (what, sv["du"],)
            if sv["fields"] != f2:
                return "%s field values differ from the reference unpack_unchecked" % what
        if t1 == 0:                           # unpack accepts
            if sv["du"] != 0 or sv["fields"] != f1:
                return "%s image accepted by the reference unpack: view rejects it or field values differ" % what
            if c[1] == 1 and (sv["validate"] != 0 or sv["data"] != 0):
                return "%s image accepted by the reference unpack fails validate()/data() (%s, %s)" % (what, sv["validate"], sv["data"])
            vm = sv.get("vm")
            if kind == 1 and c[1] == 1 and vm and vm[0] != 9:
                if vm[0] != 0:
                    return ("Mint image accepted by the reference: validate_mint with the decimals / authorities the reference reads "
                            "from the same image is rejected")
                if vm[1] != 1:
                    return "Mint image: validate_mint accepts the opposite freeze-authority expectation"
            if kind == 2 and c[1] == 1 and vm and vm[0] != 9:
                if vm[0] != 0:
                    return "token Account image accepted by the reference: validate_token with the mint / owner the reference reads is rejected"
                if vm[1] != 1:
                    return "token Account image: validate_token accepts another owner / another mint"
            if c[1] == 1:
                if not vm or len(vm) != 2 or vm[0] == 9:
                    return "%s image accepted by the reference: no validate_%s probes in the observation" % (
                        what, "mint" if kind == 1 else "token")
                names = MINT_GROUP_WHAT if kind == 1 else TOKEN_GROUP_WHAT
                for gi, v in enumerate(sv.get("groups") or [None] * len(names)):
                    if v not in (1, 2):
                        return "%s image: %s (probe group %d, value %s)" % (what, names[gi], gi, v)
        return None
    if kind == 3:
        return None if s == r else "associated token address differs from the reference derivation"
    return None


def nontrivial(c, s, r):
    if c[0] == 0:
        return dec_ix_obs(r) is not None and comparable(c)
    if c[0] in (1, 2):
        try:
            sv = parse_sf_image(c[0], s)
            rv = parse_ref_image(c[0], r)
        except (IndexError, TypeError):
            return False
        return sv["du"] == 0 or rv[0][0] == 0 or rv[1][0] == 0
    return c[0] == 3


def shrink(c):
    if c[0] == 0:
        d = dec_ix_case(c)
        simple = [[i + 1] * 32 for i in range(8)]
        if d["keys"] != simple:
            yield ix_case(d["prog"], d["ix"], d["n1"], d["n2"], d["n3"], d["opt"], d["o1"], d["o2"], simple, d["signers"])
        if d["nsig"]:
            yield ix_case(d["prog"], d["ix"], d["n1"], d["n2"], d["n3"], d["opt"], d["o1"], d["o2"], d["keys"], d["signers"][:-1])
        for f in ("n1", "n2", "n3", "opt", "o1", "o2"):
            if d[f]:
                e = dict(d)
                e[f] = 0
                yield ix_case(e["prog"], e["ix"], e["n1"], e["n2"], e["n3"], e["opt"], e["o1"], e["o2"], e["keys"], e["signers"])
    elif c[0] in (1, 2):
        data = c[4:]
        if c[2]:
            yield img_case(c[0], c[1], 0, data)
        # zero 16-byte blocks, then single bytes
        for blk in (16, 1):
            for i in range(0, len(data), blk):
                if any(data[i:i + blk]):
                    d = list(data)
                    d[i:i + blk] = [0] * len(d[i:i + blk])
                    yield img_case(c[0], c[1], c[2], d)


def matches_known(entry, c, s, r):
    m = entry.get("match") or {}
    if c and c[0] == 0 and "prog" in m and "ix" in m:
        return c[1] == m["prog"] and c[2] == m["ix"]
    if c and c[0] in (1, 2) and m.get("kind") == c[0]:
        return True
    return False


def distribution(cases, S, R):
    from collections import Counter
    a, b = Counter(), Counter()
    for cid, c in cases:
        if c[0] == 0:
            pn, names = PROG_NAMES[c[1]]
            a["%s::%s" % (pn, names[c[2]])] += 1
            rd = dec_ix_obs(R.get(cid) or [1])
            b["ix: reference refused" if rd is None else ("ix: compared" if comparable(c) else "ix: outside binding's argument space")] += 1
        elif c[0] in (1, 2):
            what = "mint" if c[0] == 1 else "token"
            try:
                sv = parse_sf_image(c[0], S.get(cid))
                rv = parse_ref_image(c[0], R.get(cid))
                b["%s image: ref unpack %s / unchecked %s / view %s / validate %s" % (
                    what, "ok" if rv[0][0] == 0 else "err", "ok" if rv[1][0] == 0 else "err",
                    "ok" if sv["du"] == 0 else "err", "ok" if sv["validate"] == 0 else "err")] += 1
            except (IndexError, TypeError):
                b[what + " image: unparsed"] += 1
        else:
            b["ata address"] += 1
    return {"instructions": dict(a), "outcomes": dict(b)}


# ------------------------------------------------------------------------------------------------
# machinery
def harness_dir():
    """the harness crate; when VERIF_REPO points elsewhere, a copy whose path dependencies follow it"""
    if os.path.normpath(C.REPO) == "/repo":
        return HARNESS_DIR
    alt = os.path.join(C.WORK, "harness_c16_alt")
    if os.path.isdir(alt):
        shutil.rmtree(alt)
    shutil.copytree(HARNESS_DIR, alt, ignore=shutil.ignore_patterns("target", "Cargo.lock"))
    p = os.path.join(alt, "Cargo.toml")
    txt = open(p).read().replace('path = "/repo/', 'path = "%s/' % os.path.normpath(C.REPO))
    open(p, "w").write(txt)
    return alt


def build_harness():
    d = harness_dir()
    lock_dst = os.path.join(d, "Cargo.lock")
    if not os.path.exists(lock_dst):
        shutil.copyfile(os.path.join(C.REPO, "Cargo.lock"), lock_dst)
    # the executable is the one cargo reports for THIS build of THIS package (the target directory is shared with the
    # other harness crates, and - when VERIF_REPO points elsewhere - with the copy of this crate): no guessed path
    rc, out = C.sh(["cargo", "build", "--offline", "--bin", BIN, "--message-format=json-render-diagnostics"], cwd=d, timeout=2400)
    exe, text = None, []
    manifest = os.path.realpath(os.path.join(d, "Cargo.toml"))
    for line in out.split("\n"):
        if not line.startswith("{"):
            text.append(line)
            continue
        try:
            m = json.loads(line)
        except ValueError:
            text.append(line)
            continue
        tgt = m.get("target") or {}
        if (m.get("reason") == "compiler-artifact" and m.get("executable") and tgt.get("name") == BIN
                and "bin" in (tgt.get("kind") or []) and os.path.realpath(m.get("manifest_path", "")) == manifest):
            exe = m["executable"]
    out = "\n".join(text)
    if rc != 0:
        return None, out
    if exe is None or not os.path.isfile(exe):
        return None, "cargo build succeeded but reported no executable for %s of %s\n%s" % (BIN, manifest, out)
    C.log("harness executable %s (built against %s)" % (exe, C.REPO))
    return exe, out


def run_harness(exe, path):
    rc, out = C.sh([exe, path], timeout=1800)
    if rc != 0:
        raise C.CheckError("harness %s failed (rc=%s): %s" % (exe, rc, out[-3000:]))
    obs = C.parse_obs(out, base=10)
    S = {k[1:]: v for k, v in obs.items() if k.startswith("s")}
    R = {k[1:]: v for k, v in obs.items() if k.startswith("r")}
    return S, R


def _parse_term(t):
    body = t[1:-1]
    i = body.index(-4)
    pid = body[i + 1:]
    seeds, cur = [], None
    for x in body[:i]:
        if x == -3:
            if cur is not None:
                seeds.append(cur)
            cur = []
        else:
            cur.append(x)
    if cur is not None:
        seeds.append(cur)
    return pid, seeds


def resolve_pda(exe, dicts, cache):
    """replace the model's symbolic PDA terms (-1 (-3 seed)* -4 pid -2, possibly nested) by the key the real
    Pubkey::find_program_address yields (harness kind 9)"""
    for _ in range(6):
        todo = set()
        for d in dicts:
            for o in d.values():
                if -1 not in o:
                    continue
                st = []
                for i, x in enumerate(o):
                    if x == -1:
                        st.append(i)
                    elif x == -2 and st:
                        s0 = st.pop()
                        if -1 not in o[s0 + 1:i]:
                            todo.add(tuple(o[s0:i + 1]))
        if not todo:
            return
        qs = [t for t in sorted(todo) if t not in cache]
        if qs:
            path = os.path.join(C.WORK, "C16_oracle.cases")
            rows = []
            for j, t in enumerate(qs):
                pid, seeds = _parse_term(list(t))
                ints = [9] + pid + [len(seeds)]
                for sd in seeds:
                    ints += [len(sd)] + sd
                rows.append(("q%d" % j, ints))
            C.write_cases(path, rows)
            S, _ = run_harness(exe, path)
            for j, t in enumerate(qs):
                cache[t] = S["q%d" % j][:32]
        for d in dicts:
            for k, o in d.items():
                if -1 not in o:
                    continue
                new, i = [], 0
                while i < len(o):
                    if o[i] == -1:
                        depth, j = 0, i
                        while j < len(o):
                            if o[j] == -1:
                                depth += 1
                            elif o[j] == -2:
                                depth -= 1
                                if depth == 0:
                                    break
                            j += 1
                        t = tuple(o[i:j + 1])
                        if t in cache:
                            new += cache[t]
                            i = j + 1
                            continue
                    new.append(o[i])
                    i += 1
                d[k] = new
    raise C.CheckError("symbolic PDA terms did not resolve")


def run_all(exe, cases, tag, with_model=True):
    """-> S, R (harness), MS, MR (model, PDA terms resolved)"""
    shards = C.split_shards(cases, C.NPROC)

    def one(i, shard):
        path = os.path.join(C.WORK, "C16_%s_%d.cases" % (tag, i))
        C.write_cases(path, shard)
        S, R = run_harness(exe, path)
        res = {"S:" + k: v for k, v in S.items()}
        res.update({"R:" + k: v for k, v in R.items()})
        if with_model:
            res.update({"A:" + k: v for k, v in C.run_model(GROUP, "c16sf", path).items()})
            res.update({"B:" + k: v for k, v in C.run_model(GROUP, "c16ref", path).items()})
        return res

    res = C.run_parallel(one, shards)
    pick = lambda p: {k[2:]: v for k, v in res.items() if k.startswith(p)}  # noqa: E731
    S, R, MS, MR = pick("S:"), pick("R:"), pick("A:"), pick("B:")
    if with_model:
        resolve_pda(exe, [MS, MR], {})
    return S, R, MS, MR


def custom_main(args, tier, seed):
    prop = ID
    timer = C.Timer()
    os.makedirs(C.WORK, exist_ok=True)
    broken = []
    thms = []

    # ---- 1. proofs ----
    err = C.gen_constants(prop)
    if err:
        broken.append(("translator tools/gen_extra_c16.py (binding declarations no longer match the expected shape)", err))
    ok, out = C.coq_make(["Extraction/Extract_%s.vo" % GROUP])
    model_ok = ok
    if not ok:
        broken.append(("model build (coq/Extraction/Extract_%s.vo)" % GROUP, out[-3000:]))
    ok, out = C.coq_make(list(COQ_TARGETS))
    if not ok:
        m = re.findall(r'File "\./([^"]+)", line (\d+)', out)
        where = ", ".join("%s:%s" % x for x in m[-2:]) or "?"
        lem = re.findall(r"\(in proof (\w+)\)", out)
        broken.append(("proof obligation (%s) in %s%s" % (" ".join(COQ_TARGETS), where,
                                                         " lemma " + lem[-1] if lem else ""), out[-3000:]))
    else:
        thms, perr = C.check_pins(prop)
        if perr:
            broken.append(("pinned theorem statements / assumptions coq/Pins/%s.v" % prop, perr))
    bad = C.forbidden_scan()
    if bad:
        broken.append(("forbidden vernacular in the development", "\n".join(bad)))
    pinned = len(re.findall(r"^\s*Print Assumptions", open(os.path.join(C.COQ, "Pins", prop + ".v")).read(), re.M))
    C.log("%s proofs: %d theorems pinned, %s (%.1fs)" % (prop, pinned, "ok" if not broken else "BROKEN", timer.s()))

    # ---- 2. builds ----
    if model_ok:
        try:
            C.build_runner(GROUP)
        except Exception as e:  # noqa: BLE001
            model_ok = False
            broken.append(("model runner build", str(e)[-3000:]))
    exe, blog = build_harness()
    if exe is None:
        broken.append(("correspondence harness build (harness_c16 / %s) against %s" % (BIN, C.REPO), blog[-4000:]))
    C.log("builds done (%.1fs)" % timer.s())

    # ---- replay ----
    if args.replay:
        payload = json.load(open(args.replay))
        if "case" not in payload or exe is None:
            print(json.dumps(payload, indent=1))
            return 0
        cs = [("replay", payload["case"])]
        S, R, MS, MR = run_all(exe, cs, "replay", with_model=model_ok)
        print("case             :", json.dumps(describe(cs[0][1]))[:2000])
        print("framework  (impl):", S.get("replay"))
        print("reference  (impl):", R.get("replay"))
        print("framework (model):", MS.get("replay"))
        print("reference (model):", MR.get("replay"))
        print("predicate        :", predicate(cs[0][1], S.get("replay"), R.get("replay")))
        return 0

    # ---- 3. cases ----
    rng = C.Rng(seed)
    corpus = C.load_corpus(prop)
    gen = gen_cases(rng, tier)
    cases = corpus + gen
    S, R, MS, MR = {}, {}, {}, {}
    dis_a, dis_b, failing = [], [], []
    if exe is not None:
        S, R, MS, MR = run_all(exe, cases, tier, with_model=model_ok)
        for cid, c in cases:
            if model_ok:
                if strip_probe(S.get(cid), c[0] if c else None) != MS.get(cid):
                    dis_a.append((cid, c))
                if R.get(cid) != MR.get(cid):
                    dis_b.append((cid, c))
            why = predicate(c, S.get(cid), R.get(cid))
            if why:
                failing.append((cid, c, why))
    C.log("%d cases (%d corpus): model(a)/framework %d, model(b)/reference %d disagreements, %d direct property failures (%.1fs)" % (
        len(cases), len(corpus), len(dis_a), len(dis_b), len(failing), timer.s()))

    # ---- 4. verdict ----
    known = [k for k in C.load_known(prop) if k.get("status") == "known"]
    violations = []
    known_hits = {}

    def is_known(c, s, r):
        for k in known:
            if matches_known(k, c, s, r):
                return k
        return None

    def still_fails(cand):
        path = os.path.join(C.WORK, "C16_shrink.cases")
        C.write_cases(path, [("x", cand)])
        try:
            s, r = run_harness(exe, path)
        except C.CheckError:
            return False
        return bool(predicate(cand, s.get("x"), r.get("x"))) and not is_known(cand, s.get("x"), r.get("x"))

    new_fail = []
    for cid, c, why in failing:
        k = is_known(c, S.get(cid), R.get(cid))
        if k:
            known_hits.setdefault(k["id"], (k, cid, c))
        else:
            new_fail.append((cid, c, why))
    if new_fail:
        cid, c, why = min(new_fail, key=lambda x: (len(x[1]), x[0]))
        cur, steps, improved = c, 0, True
        while improved and steps < 150:
            improved = False
            for cand in shrink(cur):
                steps += 1
                if steps > 150:
                    break
                if still_fails(cand):
                    cur, improved = cand, True
                    break
        fS, fR, fMS, fMR = run_all(exe, [("f", cur)], "final", with_model=model_ok)
        groups = {}
        for _, fc, _ in new_fail:
            groups.setdefault(json.dumps(describe(fc).get("instruction") or describe(fc).get("image_of") or "ata address"), 0)
            groups[json.dumps(describe(fc).get("instruction") or describe(fc).get("image_of") or "ata address")] += 1
        rp = C.write_replay(prop, {
            "property": prop, "kind": "failing-input", "case_id": cid, "case": cur, "case_decoded": describe(cur),
            "why": predicate(cur, fS.get("f"), fR.get("f")) or why,
            "framework_observation": fS.get("f"), "reference_observation": fR.get("f"),
            "framework_observation_decoded": dec_ix_obs(fS.get("f")) if cur[0] == 0 else None,
            "reference_observation_decoded": dec_ix_obs(fR.get("f")) if cur[0] == 0 else None,
            "model_framework_observation": fMS.get("f"), "model_reference_observation": fMR.get("f"),
            "no_longer_checks": [b[0] for b in broken],
            "replay_cmd": "bin/check %s --replay <this file>" % prop,
            "failing_groups": groups, "also_failing": [x for x, _, _ in new_fail[:20]],
        })
        violations.append("VIOLATION property=%s replay=%s" % (prop, os.path.relpath(rp, C.VERIF)))
    else:
        un_a = [d for d in dis_a if not is_known(d[1], S.get(d[0]), R.get(d[0]))]
        un_b = [d for d in dis_b if not is_known(d[1], S.get(d[0]), R.get(d[0]))]
        if un_a or un_b or broken:
            what = [b[0] for b in broken]
            if un_a:
                what.append("correspondence model(a) c16sf vs framework (%s `s` lines): %d of %d cases differ" % (BIN, len(un_a), len(cases)))
            if un_b:
                what.append("correspondence model(b) c16ref vs reference crates (%s `r` lines): %d of %d cases differ" % (BIN, len(un_b), len(cases)))
            payload = {
                "property": prop, "kind": "no-failing-input-found", "no_longer_checks": what,
                "details": [{"what": b[0], "log": b[1]} for b in broken],
                "searched": "%d corpus + %d generated cases: framework and reference outputs compared directly; none differed" % (len(corpus), len(gen)),
            }
            pick = (un_a or un_b)
            if pick:
                cid, c = min(pick, key=lambda x: (len(x[1]), x[0]))
                payload.update({"case_id": cid, "case": c, "case_decoded": describe(c),
                                "framework_observation": S.get(cid), "model_framework_observation": MS.get(cid),
                                "reference_observation": R.get(cid), "model_reference_observation": MR.get(cid)})
            rp = C.write_replay(prop, payload)
            violations.append("VIOLATION property=%s replay=%s no-failing-input-found" % (prop, os.path.relpath(rp, C.VERIF)))

    for kid, (k, cid, c) in sorted(known_hits.items()):
        print("KNOWN-FINDING: property=%s %s" % (prop, k["what"]))
    for k in known:
        if k["id"] not in known_hits:
            C.log("note: known finding %s was not reproduced by this run" % k["id"])

    # ---- 5. evidence ----
    nt = set()
    for cid, c in cases:
        if S.get(cid) is not None and R.get(cid) is not None and nontrivial(c, S.get(cid), R.get(cid)):
            nt.add(tuple(c))
    first_ix = next((x for x in gen if x[1][0] == 0), None)
    first_img = next((x for x in gen if x[1][0] in (1, 2)), None)
    samples = []
    for x in (first_ix, first_img):
        if x:
            cid, c = x
            samples.append({"case": describe(c), "framework_observation": S.get(cid), "reference_observation": R.get(cid),
                            "model_framework_observation": MS.get(cid), "model_reference_observation": MR.get(cid)})
    obligations = max(pinned, 1)
    ev = {
        "property_id": prop, "tier": tier, "seed": seed, "level": "proof",
        "coverage": {
            "obligations": obligations,
            "discharged": len(thms) if not broken else 0,
            "checker_cmd": "make -C coq %s && coqc coq/Pins/%s.v (Check <thm> : <pinned statement>; Print Assumptions <thm>)" % (" ".join(COQ_TARGETS), prop),
            "trusted_base": list(TRUSTED),
            "theorems": thms,
            "evaluations": len(cases),
            "distinct_nontrivial": len(nt),
            "rule": RULE,
            "samples": samples,
            "traces_validated_against_impl": (2 * len(cases) - len(dis_a) - len(dis_b)) if model_ok and exe else 0,
            "disagreements": len(dis_a) + len(dis_b),
            "disagreements_model_a_vs_framework": len(dis_a),
            "disagreements_model_b_vs_reference": len(dis_b),
            "direct_property_failures": len(failing),
            "known_findings_reproduced": sorted(known_hits),
            "input_distribution": distribution(cases, S, R) if exe else {},
            "corpus_cases": len(corpus),
            "broken": [b[0] for b in broken],
        },
        "assumptions": list(ASSUMPTIONS),
        "wall_s": timer.s(),
        "violations": len(violations),
    }
    C.write_evidence(prop, ev)
    for v in violations:
        print(v)
    C.log("%s %s: %s in %.1fs" % (prop, tier, "VIOLATION" if violations else "ok", timer.s()))
    return 1 if violations else 0
