"""C13 - rent adjustment and close meet their postconditions and conserve lamports."""
from . import _rent as R

ID = "C13"
ENTRY = "c13"
GROUP = "rent"
BIN = "vh_c13"
COQ_TARGETS = ["Properties/C13.vo"]

KINDS = {
    0: {"name": "Mut<Account<Fix>> (8-byte discriminant)", "disc": [1, 2, 3, 4, 5, 6, 7, 8]},
    1: {"name": "Mut<Account<Fix1>> (1-byte discriminant)", "disc": [0xA5]},
    2: {"name": "Mut<BorshAccount<Bo>> (8-byte discriminant)", "disc": [0xB0, 0, 0, 0, 0, 0, 0, 1]},
    # case code 3 + n: the account starts holding Bo { v: [7; n] }; the instruction assigns the value the case's account data
    # spells out (= the image after the write-back the cleanup performs first) and cleans up through the cleanup ARGUMENT
    3: {"name": "Mut<BorshAccount<Bo>>, value resized in the instruction, cleanup arguments", "disc": [0xB0, 0, 0, 0, 0, 0, 0, 1]},
}


def kinfo(p):
    return KINDS[min(p["kind"], 3)]

OPS = ["normalize_rent", "refund_rent", "receive_rent", "close_account"]
VIAS = ["trait method", "cleanup arg (&explicit)", "cleanup arg () with cache filled by #[validate(funder|recipient)]",
        "cleanup arg () with empty cache", "cleanup arg () with another account cached first"]
E_FUNDS = 6 << 32
E_MISSING_SIGNATURE = 8 << 32       # ProgramError::MissingRequiredSignature

RULE = ("seeded random product, every axis forced: operation {normalize, refund, receive, close} x route {trait method, cleanup "
        "argument with explicit funder/recipient, cached `()` through a derived account set, `()` with empty cache, `()` with "
        "another account cached first} x account type {Account<pod> w=8, w=1, BorshAccount} x funder {Mut<Signer>, "
        "Mut<Seeded<SystemAccount>>} / recipient {Mut<AccountInfo>, Mut<SystemAccount>} x balance {0, 1, half, min-1, min, "
        "min+1, far above, 2^64-1-others} x data length {w .. 300} x rent {0,1,3480,6960,10^9 per byte} x threshold {1.0,2.0} "
        "x funder balance {rich, exactly the shortfall, one short}; one case in six is a BorshAccount whose value changes its serialized size in the instruction before the cleanup argument (explicit, cached, empty cache, other cached first) writes it back and adjusts the rent - balances around the minimum of the OLD and of the NEW size; a few cases with supply >= 2^64, read-only or foreign "
        "accounts (outside the property's domain; compared with the model only). non-trivial = the operation ran on a "
        "program-owned writable account")
TRUSTED = [
    "Coq 8.16.1 kernel", "extraction (ExtrOcamlBasic only) + runner/driver.ml",
    "harness/src/bin/vh_c13.rs + harness/src/rent_sim.rs (system-program simulator = coq/Rent/Ledger.v sys_exec, an oracle) + native AccountInfo builder",
    "hooks H1 (CPI interception) / H2 (Rent injection) in /repo behind --cfg star_frame_verif",
    "lib/props/_rent.py (program-derived addresses recomputed in Python)",
    "tools/gen_constants.py, tools/gen_extra_c13.py (error codes; which form refund_rent has)",
]
ASSUMPTIONS = [
    "the system program and the runtime's CPI privilege rules are an oracle (coq/Rent/Ledger.v), shared with the harness",
    "min_balance is any function into u64; every balance and the total supply are below 2^64",
    "funder / recipient are accounts other than the one being cleaned up; the account is program-owned and writable",
    "BorshAccount's rent cleanups serialise the value first (C15): the model sees the image after the write-back (case code kind = 3 + old length)",
]


def build(p):
    fo = R.find_pda(p["oseeds"])
    wb = R.with_bump(p["oseeds"], fo[1])
    c = [p["op"], p["via"], p["kind"], p["okind"], p["lpby"], p["mult"]]
    c += R.enc_acc(**p["account"]) + R.enc_acc(**p["other"]) + R.enc_acc(**p["third"])
    c += R.enc_seeds(p["oseeds"]) + fo[0] + [fo[1]]
    c += [1] + R.enc_seeds(wb) + [1] + R.create_pda(wb)
    return c


def decode(c):
    cur = R.Cur(c)
    p = {}
    for k in ("op", "via", "kind", "okind", "lpby", "mult"):
        p[k] = cur.next()
    p["account"] = R.dec_acc(cur)
    p["other"] = R.dec_acc(cur)
    p["third"] = R.dec_acc(cur)
    p["oseeds"] = R.dec_seeds(cur)
    return p


def scenario(rng):
    p = {}
    p["op"] = rng.below(4)
    p["kind"] = rng.weighted([(0, 5), (1, 3), (2, 2)])
    p["via"] = rng.weighted([(0, 3), (1, 3), (2, 3), (3, 1), (4, 2)])
    if p["kind"] == 2 and p["via"] in (2, 4):
        p["op"] = 3
    p["okind"] = 0 if p["via"] in (2, 4) else rng.weighted([(0, 3), (1, 2)])
    funder_op = p["op"] in (0, 2)
    p["lpby"] = rng.weighted([(3480, 5), (6960, 2), (1, 2), (0, 1), (10 ** 9, 1)])
    p["mult"] = rng.choice([2, 2, 1])
    resized = rng.chance(1, 6)
    if resized:
        # BorshAccount whose value changes its serialized size before the cleanup runs (every route but the bare trait call)
        p["kind"] = 3 + rng.choice([0, 0, 3, 20, 40])
        p["via"] = rng.weighted([(1, 4), (2, 3), (3, 1), (4, 2)])
        p["okind"] = 0 if p["via"] in (2, 4) else rng.weighted([(0, 3), (1, 2)])
        funder_op = p["op"] in (0, 2)
    disc = kinfo(p)["disc"]
    w = len(disc)
    if p["kind"] >= 3:
        n = rng.choice([0, 3, 20, 40, 41, 100])
        body = [n, 0, 0, 0] + rng.bytes(n)
    elif p["kind"] == 2:
        n = rng.choice([0, 3, 20])
        body = [n, 0, 0, 0] + rng.bytes(n)
    else:
        body = rng.bytes(rng.choice([0, 1, 3, 13, 13, 50, 300 - w]))
    data = disc + body
    minb = R.min_balance(p["lpby"], p["mult"], len(data))
    p["oseeds"] = [rng.bytes(rng.range(1, 8)) for _ in range(rng.range(0, 3))] + ([[]] if rng.chance(1, 2) else [])
    okey = [5] * 32
    if funder_op and p["okind"] == 1:
        okey = R.find_pda(p["oseeds"])[0] if rng.chance(19, 20) else rng.bytes(32)
    b = rng.below(12)
    lam = [0, 0, 1, max(minb // 2, 1), max(minb - 1, 0), minb, minb, minb + 1, minb + 1000, minb + 10 ** 12, None, minb][b]
    if p["kind"] >= 3 and rng.chance(1, 2):
        # balances around the minimum of the size the account had BEFORE the write-back
        mpre = R.min_balance(p["lpby"], p["mult"], w + 4 + (p["kind"] - 3))
        lam = rng.choice([mpre, max(mpre - 1, 0), mpre + 1, (mpre + minb) // 2])
    third_lam = rng.choice([0, 1, 10 ** 9])
    short = max(0, minb - (lam or 0))
    olam = rng.choice([short, short + 1, 10 ** 9 + short, 10 ** 15 + short, max(short - 1, 0)])
    if lam is None:                                   # near u64::MAX, total supply exactly 2^64 - 1
        olam = rng.choice([0, 1, 10 ** 6])
        lam = R.U64 - olam - third_lam
    if olam + lam + third_lam > R.U64:
        olam = max(0, R.U64 - lam - third_lam)
    aowner, awritable = R.PROG, True
    osigner = not (funder_op and p["okind"] == 1)
    oowner, owritable, odata = R.SYS, True, []
    x = rng.below(40)
    if p["kind"] >= 3 and x in (0, 1, 7):
        x = 8           # (a read-only / foreign / closed account is not written back: its image would not be the case's)
    if x == 0:
        awritable = False
    elif x == 1:
        aowner = R.THIRD
    elif x == 2:
        osigner = not osigner
    elif x == 3:
        owritable = False
    elif x == 4:
        oowner = R.THIRD
    elif x == 5:
        odata = [9]
    elif x == 6:
        olam = R.U64 - rng.below(2)                   # supply beyond 2^64: outside the domain, model comparison only
    elif x == 7:
        data = [255] * w + body                       # closed marker / wrong discriminant
    p["account"] = dict(key=[4] * 32, owner=aowner, lamports=lam, signer=False, writable=awritable, data=data)
    p["other"] = dict(key=okey, owner=oowner, lamports=olam, signer=osigner, writable=owritable, data=odata)
    p["third"] = dict(key=[6] * 32, owner=R.SYS, lamports=third_lam, signer=rng.chance(9, 10), writable=rng.chance(9, 10), data=[])
    return p


def d14_witnesses():
    out = []
    for lam in (0, 10):
        p = dict(op=1, via=0, kind=0, okind=0, lpby=3480, mult=2, oseeds=[[1]])
        p["account"] = dict(key=[4] * 32, owner=R.PROG, lamports=lam, signer=False, writable=True, data=[1, 2, 3, 4, 5, 6, 7, 8] + [0] * 13)
        p["other"] = dict(key=[5] * 32, owner=R.SYS, lamports=1000, signer=False, writable=True, data=[])
        p["third"] = dict(key=[6] * 32, owner=R.SYS, lamports=0, signer=False, writable=False, data=[])
        out.append(p)
    return out


def gen_cases(rng, tier):
    cases = []                                  # the D14 witnesses live in corpus/C13/ and run first
    n = 3600 if tier == "quick" else 60000
    for i in range(n):
        cases.append(("r%d" % i, build(scenario(rng))))
    return cases


# ----------------------------------------------------------------------------------------------
def parse_obs(obs):
    if not obs or obs[0] == "UNPARSEABLE" or obs[0] < 0:
        return None
    tag = obs[0]
    if tag != 0:
        return {"tag": tag, "code": obs[1] if len(obs) > 1 else None}
    cur = R.Cur(obs)
    cur.next()
    o = {"tag": 0}
    o["account"] = R.dec_acc_obs(cur)
    o["other"] = R.dec_acc_obs(cur)
    o["third"] = R.dec_acc_obs(cur)
    o["log"] = R.dec_log(cur)
    return o


def in_domain(p):
    """the property's standing assumptions"""
    a, o, t = p["account"], p["other"], p["third"]
    return (a["owner"] == R.PROG and a["writable"] and a["lamports"] + o["lamports"] + t["lamports"] <= R.U64)


def predicate(c, obs):
    o = parse_obs(obs)
    if o is None:
        return "no observation from the implementation (%s)" % (obs,)
    p = decode(c)
    if not in_domain(p):
        return None
    a0, o0, t0 = p["account"], p["other"], p["third"]
    op, via = p["op"], p["via"]
    w = len(kinfo(p)["disc"])
    minb = R.min_balance(p["lpby"], p["mult"], len(a0["data"]))
    if o["tag"] == 2:
        return "panic in %s" % OPS[op]
    if o["tag"] == 3:
        return None                                   # an account set was rejected before the operation ran
    if o["tag"] == 1:
        cache_empty = via == 3 and not (p["kind"] == 2 and op != 3)
        if a0["lamports"] == 0 and op in (0, 1, 2) and not cache_empty:
            return "%s on an account with zero lamports returned error %s instead of leaving it alone" % (OPS[op], o["code"])
        # the account sets were accepted, so the funder of a top-up is either an outer signer or the program's own PDA, whose
        # seeds the transfer has to carry: the system program cannot find a signature missing
        # 0x5100 = the system-program simulator's "privilege escalation": a CPI asks for a signer / writable privilege that
        # is neither held by the outer instruction nor backed by PDA seeds of the calling program
        if o["code"] in (E_MISSING_SIGNATURE, 0x5100):
            return ("%s: the framework issued a CPI that asks for a signer / writable privilege the runtime does not grant, "
                    "although the account sets were accepted (the funder signs as an outer signer or as the program's own PDA "
                    "through its seeds; the accounts it writes are writable)" % OPS[op])
        return None
    a1, o1, t1 = o["account"], o["other"], o["third"]
    # who plays funder / recipient: the explicit one, or the first one cached
    partner0, partner1, by0, by1 = (t0, t1, o0, o1) if via == 4 else (o0, o1, t0, t1)
    if a1["lamports"] + o1["lamports"] + t1["lamports"] != a0["lamports"] + o0["lamports"] + t0["lamports"]:
        return "lamports not conserved by %s" % OPS[op]
    if by1["lamports"] != by0["lamports"]:
        return "%s changed the balance of an uninvolved account" % OPS[op]
    if op == 3:
        if a1["lamports"] != 0:
            return "closed account still holds %d lamports" % a1["lamports"]
        if a1["data"] != [255] * w:
            return "closed account data is %s, expected %d bytes of 0xFF" % (a1["data"][:12], w)
        if partner1["lamports"] - partner0["lamports"] != a0["lamports"]:
            return "recipient received %d of the %d lamports" % (partner1["lamports"] - partner0["lamports"], a0["lamports"])
        return None
    if a1["data"] != a0["data"]:
        return "%s changed the account data" % OPS[op]
    if a0["lamports"] == 0:
        if a1["lamports"] != 0 or partner1["lamports"] != partner0["lamports"] or o["log"]:
            return "%s touched an account with zero lamports" % OPS[op]
        return None
    moved_in = a1["lamports"] - a0["lamports"]
    if op == 0:
        if a1["lamports"] != minb:
            return "normalize_rent left %d lamports, the minimum for %d bytes is %d" % (a1["lamports"], len(a0["data"]), minb)
    elif op == 1:
        if a1["lamports"] < minb:
            return "refund_rent succeeded and left %d lamports, below the minimum %d" % (a1["lamports"], minb)
        if -moved_in != max(0, a0["lamports"] - minb):
            return "refund_rent moved %d lamports, the excess is %d" % (-moved_in, max(0, a0["lamports"] - minb))
    else:
        if moved_in != max(0, minb - a0["lamports"]):
            return "receive_rent added %d lamports, the shortfall is %d" % (moved_in, max(0, minb - a0["lamports"]))
    if partner0["lamports"] - partner1["lamports"] != moved_in:
        return "the counterpart of %s moved %d, the account moved %d" % (OPS[op], partner0["lamports"] - partner1["lamports"], moved_in)
    return None


def describe(c):
    p = decode(c)
    return {"operation": OPS[p["op"]], "route": VIAS[p["via"]], "account_type": kinfo(p)["name"], "value_length_before_the_instruction": (p["kind"] - 3) if p["kind"] >= 3 else None,
            "other_kind": p["okind"], "lamports_per_byte_year": p["lpby"], "exemption_threshold": float(p["mult"]),
            "min_balance": R.min_balance(p["lpby"], p["mult"], len(p["account"]["data"])),
            "account": p["account"], "other (funder/recipient)": p["other"], "third": p["third"], "other_seeds": p["oseeds"]}


def nontrivial(c, obs):
    o = parse_obs(obs)
    return bool(o) and o["tag"] in (0, 1) and in_domain(decode(c))


def shrink(c):
    p = decode(c)

    def rebuilt(**kw):
        q = dict(p)
        q.update(kw)
        return build(q)
    if p["via"] != 0 and not (p["kind"] == 2):
        yield rebuilt(via=0)
    if len(p["account"]["data"]) > 21 and p["kind"] < 3:
        a = dict(p["account"])
        a["data"] = a["data"][:21]
        yield rebuilt(account=a)
    if p["third"]["lamports"]:
        t = dict(p["third"])
        t["lamports"] = 0
        yield rebuilt(third=t)
    if p["mult"] == 1:
        yield rebuilt(mult=2)


def distribution(cases, impl):
    from collections import Counter
    cn = Counter()
    for cid, c in cases:
        p = decode(c)
        o = parse_obs(impl.get(cid)) or {"tag": -1}
        cn["op=%s" % OPS[p["op"]]] += 1
        cn["via=%d" % p["via"]] += 1
        cn["kind=%d" % min(p["kind"], 3)] += 1
        if o["tag"] == 0:
            cn["ok"] += 1
            cn["ok cpis=%d" % len(o["log"])] += 1
        elif o["tag"] == 1:
            cn["err %s" % o["code"]] += 1
        else:
            cn["tag %d" % o["tag"]] += 1
    return dict(cn)


def matches_known(entry, c, obs):
    return False
