"""C09 - signer / writable / address / program / sysvar / owner checks are exact."""
import os
import subprocess

ID = "C09"
ENTRY = "c09"
GROUP = "acct"
BIN = "vh_c09"
COQ_TARGETS = ["Properties/C09.vo"]
SECONDARY = ["c09_vec", "c09_set"]

E_SIGNER = 1001
E_WRITABLE = 1000
E_ADDRESS = 1002
E_PROGRAM = 7 << 32
E_ILLEGAL_OWNER = 18 << 32
E_ADVANCE = 9004

RULE = ("every nesting of the harness family (46 entries: Signer/Mut/MaybeSigner/MaybeMut/Program/Sysvar/"
        "SystemAccount/#[validate(address)]/Box/nested struct, depth <= 4; the address pinned under the default validate id, under a "
        "named validate id, under both (same / different keys), each validated through either id), plain and wrapped in Option, x all 4 "
        "signer/writable flag combinations x account key in {expected key, each of its 256 one-bit flips, 32 one-byte "
        "changes, the current program id, random} x owner in {system, one-bit flips, random} x present/absent, and the same decisions repeated on accounts with a balance of 0 / u64::MAX / around the rent minimum and with data present (state no check may depend on). "
        "non-trivial = accepted, or rejected while differing from an accepted account in one bit / one flag")
TRUSTED = [
    "Coq 8.16.1 kernel", "extraction (ExtrOcamlBasic only) + runner/driver.ml",
    "harness/src/bin/vh_c09.rs (the finite family of Rust nestings standing for all modifier stacks)",
    "tools/gen_constants.py (error codes)",
]
ASSUMPTIONS = [
    "the order of checks of a stack is: #[validate(address)] of the enclosing field first, then wrappers innermost first (as generated)",
    "a #[validate(id = .., address = ..)] attribute applies to the validate id it names and to no other (validated through another id, the field carries no address layer)",
    "an optional account whose key equals the current program id decodes as absent (the documented placeholder encoding)",
    "the unskipped fields of a derived set are validated in declaration order when no `requires` is given (stage set); nested sets flatten",
]

_FAM = None


def family():
    global _FAM
    if _FAM is None:
        exe = os.path.join(os.path.dirname(__file__), "..", "..", "harness", "target", "debug", BIN)
        out = subprocess.run([exe, "/dev/null", "--family"], stdout=subprocess.PIPE).stdout.decode()
        sigs, keys = [], {}
        for line in out.split("\n"):
            t = line.split()
            if not t:
                continue
            if t[0] == "sig":
                sigs.append(t[1:])
            elif t[0] == "key":
                keys[t[1]] = [int(x) for x in t[2:]]
        _FAM = (sigs, keys)
    return _FAM


def _layers(sig, keys):
    out = []
    for t in sig:
        if t == "S":
            out += [1]
        elif t == "M":
            out += [2]
        elif t in ("s0", "s1"):
            out += [3, int(t[1])]
        elif t in ("m0", "m1"):
            out += [4, int(t[1])]
        elif t == "Psys":
            out += [5] + keys["sys"]
        elif t == "Pown":
            out += [5] + keys["own"]
        elif t == "Aa":
            out += [6] + keys["a"]
        elif t == "Ab":
            out += [6] + keys["b"]
        elif t == "Az":
            out += [6] + keys["z"]
        elif t == "Af":
            out += [6] + keys["f"]
        elif t == "Yrent":
            out += [6] + keys["rent"]
        elif t == "Yinst":
            out += [6] + keys["inst"]
        elif t == "Yslot":
            out += [6] + keys["slot"]
        elif t == "SA":
            out += [7] + keys["sys"]
        elif t == "b":
            out += [8]
        elif t == ".":
            out += [9]
        elif t[0] == "x":
            # marker: which validate id pins the address / validates the set (vh_c09.rs fam!).  The model stops decoding the
            # layer list at this code and so ignores it: it must come LAST
            assert t is sig[-1]
            out += [10, int(t[1:])]
    return out


def _expected_key(sig, keys):
    for t in sig:
        m = {"Psys": "sys", "Pown": "own", "Aa": "a", "Ab": "b", "Az": "z", "Af": "f", "Yrent": "rent", "Yinst": "inst", "Yslot": "slot"}.get(t)
        if m:
            return keys[m]
    return None


PROG = [55] * 32


def _case(present, key, owner, sg, wr, opt, layers, lam=0, dat=0):
    """lam / dat: classes of lamport balance (0: 1 lamport, 1: ZERO, 2: u64::MAX, 3/4: around the rent minimum, 5: large) and
    data (0: empty, 1: 8 zero bytes, 2: 100 bytes, 3: 9 x 0xff) - state no check of this property may depend on; it rides
    in the `present` code, which the model reads as a boolean"""
    return PROG + [(1 + 2 * lam + 16 * dat) if present else 0] + key + owner + [int(sg), int(wr), int(opt)] + layers


def gen_cases(rng, tier):
    sigs, keys = family()
    cases = []
    n = 0

    def add(c):
        nonlocal n
        cases.append(("e%d" % n, c))
        n += 1

    for sig in sigs:
        layers = _layers(sig, keys)
        ek = _expected_key(sig, keys)
        base_key = ek if ek is not None else [33] * 32
        needs_sys = "SA" in sig
        base_owner = keys["sys"] if needs_sys else [44] * 32
        key_variants = [base_key, PROG]
        if ek is not None:
            for bit in range(256):
                k = list(base_key)
                k[bit // 8] ^= 1 << (bit % 8)
                key_variants.append(k)
            for pos in range(32):
                k = list(base_key)
                k[pos] = (k[pos] + 1 + rng.below(254)) % 256
                key_variants.append(k)
        else:
            key_variants.append(rng.bytes(32))
        owner_variants = [base_owner]
        if needs_sys:
            for bit in range(0, 256, 1):
                o = list(base_owner)
                o[bit // 8] ^= 1 << (bit % 8)
                owner_variants.append(o)
        else:
            owner_variants.append(keys["sys"])
        for opt in (0, 1):
            for sg in (0, 1):
                for wr in (0, 1):
                    add(_case(0, base_key, base_owner, sg, wr, opt, layers))
                    for k in key_variants:
                        add(_case(1, k, base_owner, sg, wr, opt, layers))
                    for o in owner_variants[1:]:
                        add(_case(1, base_key, o, sg, wr, opt, layers))
                    # the same decisions on accounts in other states (balance zero / huge / at the rent minimum, with data)
                    few_owners = [base_owner, owner_variants[1], owner_variants[-1], [44] * 32, PROG]
                    few_keys = key_variants[:3] + key_variants[-1:]
                    for lam in range(6):
                        for dat in range(4):
                            if lam == 0 and dat == 0:
                                continue
                            for o in few_owners:
                                add(_case(1, base_key, o, sg, wr, opt, layers, lam, dat))
                            for k in few_keys:
                                add(_case(1, k, base_owner, sg, wr, opt, layers, lam, dat))
    if tier == "thorough":
        for _ in range(60000):
            sig = rng.choice(sigs)
            layers = _layers(sig, keys)
            ek = _expected_key(sig, keys)
            k = list(ek) if (ek is not None and rng.chance(2, 3)) else rng.bytes(32)
            if rng.chance(1, 3):
                k[rng.below(32)] ^= 1 << rng.below(8)
            o = list(keys["sys"]) if rng.chance(1, 2) else rng.bytes(32)
            if rng.chance(1, 3):
                o[rng.below(32)] ^= 1 << rng.below(8)
            add(_case(rng.chance(9, 10), k, o, rng.below(2), rng.below(2), rng.below(2), layers))
    return cases


def _decode(c):
    prog = c[0:32]
    present = c[32]
    key = c[33:65]
    owner = c[65:97]
    sg, wr, opt = c[97:100]
    ls = c[100:]
    layers = []
    i = 0
    while i < len(ls):
        t = ls[i]
        if t in (1, 2, 8, 9):
            layers.append((t,))
            i += 1
        elif t in (3, 4, 10):
            layers.append((t, ls[i + 1]))
            i += 2
        else:
            layers.append((t, ls[i + 1:i + 33]))
            i += 33
    return prog, present, key, owner, sg, wr, opt, layers


LN = {1: "Signer", 2: "Mut", 3: "MaybeSigner", 4: "MaybeMut", 5: "Program", 6: "Address/Sysvar", 7: "SystemAccount",
      8: "Box", 9: "nested", 10: "validate-id variant (marker, no check)"}


def describe(c):
    prog, present, key, owner, sg, wr, opt, layers = _decode(c)
    return {"present": bool(present), "key": key, "owner": owner, "is_signer": bool(sg), "is_writable": bool(wr),
            "lamports_class": ((c[32] - 1) // 2) % 8 if c[32] else None, "data_class": ((c[32] - 1) // 16) % 4 if c[32] else None,
            "optional": bool(opt), "checks_in_order": [[LN[l[0]]] + list(l[1:]) for l in layers]}


def _spec(c):
    """plain-English spec: expected outcome"""
    prog, present, key, owner, sg, wr, opt, layers = _decode(c)
    if not present:
        return ("absent",) if opt else ("err", E_ADVANCE)
    if opt and key == prog:
        return ("absent",)
    for l in layers:
        t = l[0]
        if t == 1 and not sg:
            return ("err", E_SIGNER)
        if t == 2 and not wr:
            return ("err", E_WRITABLE)
        if t == 3 and l[1] and not sg:
            return ("err", E_SIGNER)
        if t == 4 and l[1] and not wr:
            return ("err", E_WRITABLE)
        if t == 5 and key != l[1]:
            return ("err", E_PROGRAM)
        if t == 6 and key != l[1]:
            return ("err", E_ADDRESS)
        if t == 7 and owner != l[1]:
            return ("err", E_ILLEGAL_OWNER)
    return ("ok",)


def predicate(c, obs):
    if obs is None or (obs and obs[0] == "UNPARSEABLE"):
        return "no observation from the implementation"
    if obs and obs[0] < 0:
        return "harness family out of sync with the case generator (%s)" % obs
    prog, present, key, owner, sg, wr, opt, layers = _decode(c)
    exp = _spec(c)
    if obs == [2]:
        return "panic during validation"
    if exp == ("ok",):
        good = [0, 1] if opt else [0]
        if obs != good:
            return "an account that satisfies every layer was rejected: %s" % obs
    elif exp == ("absent",):
        if obs != [0, 0]:
            return "absent optional account not decoded as absent: %s" % obs
    else:
        if obs[:1] == [0]:
            return "an account violating a layer was accepted (expected error %s)" % exp[1]
        if obs != [1, exp[1]]:
            return "rejected with error %s, the innermost failing check should give %s" % (obs, exp[1])
    return None


def nontrivial(c, obs):
    prog, present, key, owner, sg, wr, opt, layers = _decode(c)
    if obs[:1] == [0]:
        return True
    # rejected: count how far from acceptance
    dist = 0
    for l in layers:
        t = l[0]
        if (t == 1 or (t == 3 and l[1])) and not sg:
            dist += 1
        if (t == 2 or (t == 4 and l[1])) and not wr:
            dist += 1
        if t in (5, 6):
            dist += sum(bin(a ^ b).count("1") for a, b in zip(key, l[1]))
        if t == 7:
            dist += sum(bin(a ^ b).count("1") for a, b in zip(owner, l[1]))
    return dist <= 1


def shrink(c):
    return []


def distribution(cases, impl):
    from collections import Counter
    c1 = Counter()
    for cid, c in cases:
        o = impl.get(cid) or []
        c1["ok" if o[:1] == [0] else "err %s" % (o[1] if len(o) > 1 else "?")] += 1
    return {"outcomes": dict(c1), "family_size": len(family()[0])}


def matches_known(entry, c, obs):
    return False
