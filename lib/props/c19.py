"""C19 - derived safety markers only certify what actually holds.

Cases are Rust *declarations* that have to be compiled, so this property has its own pipeline (custom_main):

  declaration (integer encoding)  --emit-->  /verif/harness/gen_c19/examples/dNNNN.rs  (one generated package,
  path-dependent on $VERIF_REPO/star_frame, shared target dir /verif/harness/target)
  --cargo build --examples --keep-going-->  accept / reject per file
  --run every accepted example-->  align_of, size_of, sum of field sizes, bit-pattern acceptance table
  and the same integer encoding through the extracted model (`run_c19`), then a line-by-line comparison and the
  property predicate evaluated directly on the implementation's observation.

Encoding of a declaration (all decimal integers):
  [M, F, G, NR, (code,arg)*NR, NV, (nf, f*nf)*NV, NU, u*NU]
  M  macro       0 #[derive(Align1)]  1 #[zero_copy]  2 #[zero_copy(skip_packed)]  3 #[zero_copy(pod)]
                 4 #[zero_copy(pod, skip_packed)]  5 #[unsized_type(skip_idl)]  6 #[unsized_type(skip_idl, skip_phantom_generics)]
                 (6 is sent to the Coq model as 5: the marker is a zero-sized field without bit patterns)
  F  form        0 struct with named fields  1 tuple struct  2 enum  3 union
  G  generic     0 not generic; k + 100*B with 0 < k < 100 and B in {0, 1, 2}: one type parameter T, instantiated with
                 field type k-1 where it is used, declared in BOUND STYLE B (so every encoding written before the
                 styles existed, G = k < 100, still means what it meant: style 0)
                   B = 0  only the bounds the macro / the form needs, inline:  struct D<T>, struct D<T: bytemuck::Pod>
                          (zero_copy(pod..)), struct D<T: UnsizedGenerics> (unsized_type), union D<T: Copy>
                   B = 1  an inline `Copy` bound in front of them:             struct D<T: Copy>, struct D<T: Copy + bytemuck::Pod>
                          (a union already needs `T: Copy`: its B = 1 source equals its B = 0 source)
                   B = 2  no inline bound, everything in an explicit clause:   struct D<T> where T: Copy { .. },
                          struct D<T>(..) where T: Copy + bytemuck::Pod;  union D<T> where T: Copy { .. }
                 every field type of the grammar is Copy, so the style never changes which instantiations are legal:
                 it must not change any verdict (the Coq model decodes G mod 100 and ignores B: C19_bound_style_irrelevant).
                 100 and 200 (a style without a parameter) are not encodings
  repr items     (0,0) start a new #[repr(..)] attribute  (1,0) C  (2,0) transparent  (3,k) integer repr k
                 (0 u8 1 i8 2 u16 3 i16 4 u32 5 i32 6 u64 7 i64)  (4,0) packed  (5,N) packed(N)  (6,N) align(N)
  NV variants    structs/unions have exactly one "variant" (their field list); for M=5 it is the sized part
  field types    FIELDS below; 99 = the type parameter T; 97 = the tuple (T, u8); 98 = the tuple (u8, T)  (the parameter
                 INSIDE a tuple field: the library's `impl Align1 for (T1, .., Tn)` is selected at the instantiation)
  NU, u          only for M=5: the unsized fields (UFIELDS below); the first one carries #[unsized_start]
Observation: [0] rejected by the compiler, or [1, align_of, size_of, sum_of_field_sizes, npat, pat_1 .. pat_npat].
"""
import json
import os
import re
import shutil
import sys
from collections import Counter

from lib import common as C

ID = "C19"
ENTRY = "c19"
GROUP = "meta"
COQ_TARGETS = ["Properties/C19.vo"]
GEN_DIR = os.path.join(C.HARNESS, "gen_c19")
TARGET_DIR = os.environ.get("VERIF_C19_TARGET") or os.path.join(C.HARNESS, "target")

# ---------------------------------------------------------------------------------------------
# tables used by the EMITTER and by the PREDICATE (independent of the Coq model: the model has its own table in
# coq/Meta/Derives.v; a divergence between the two shows up as a disagreement)
#   code: (rust type, size, align, validity kind)      validity: any | bool | le2 | nonzero
FIELDS = {
    0: ("u8", 1, 1, "any"),
    1: ("bool", 1, 1, "bool"),
    2: ("()", 0, 1, "any"),
    3: ("i8", 1, 1, "any"),
    4: ("PackedValue<u64>", 8, 1, "any"),
    5: ("PackedValue<u16>", 2, 1, "any"),
    6: ("Pubkey", 32, 1, "any"),
    7: ("gen_c19::Tri", 1, 1, "le2"),
    8: ("core::num::NonZeroU8", 1, 1, "nonzero"),
    9: ("[bool; 2]", 2, 1, "bool"),
    10: ("u16", 2, 2, "any"),
    11: ("u32", 4, 4, "any"),
    12: ("u64", 8, 8, "any"),
    13: ("u128", 16, 16, "any"),
    14: ("[u16; 2]", 4, 2, "any"),
}
# the packed align-1 wrappers with hand-written marker impls (data_types/packed_value.rs 25-37)
FIELDS[15] = ("star_frame::data_types::PackedValueChecked<core::num::NonZeroU8>", 1, 1, "nonzero")
FIELDS[16] = ("star_frame::data_types::PackedValueChecked<bool>", 1, 1, "bool")
FIELDS[17] = ("star_frame::data_types::PackedValueChecked<u16>", 2, 1, "any")
# the packed wrapper of a type with interior padding: alignment 1 and checked, but its bytes are not all initialised
FIELDS[45] = ("star_frame::data_types::PackedValueChecked<gen_c19::Padded>", 8, 1, "any")
for _n in range(0, 13):
    FIELDS[20 + _n] = ("[u8; %d]" % _n, _n, 1, "any")
# tuple field types.  star_frame/src/align1.rs 40-66: `unsafe impl<T1..Tn> Align1 for (T1, .., Tn) where EVERY Ti: Align1`;
# bytemuck implements Zeroable for tuples but neither Pod nor NoUninit nor CheckedBitPattern: no zero_copy flavour and no
# generated sized part may accept one (validity kind "tuple": there is no validator to compare with, acceptance itself
# is the failure).  sizes / alignments: repr(Rust) aggregates (the sum rounded up to the largest element alignment)
FIELDS[18] = ("(u8, u8)", 2, 1, "tuple")
FIELDS[19] = ("(u8,)", 1, 1, "tuple")
FIELDS[33] = ("(u16,)", 2, 2, "tuple")
FIELDS[34] = ("(u16, u8)", 4, 2, "tuple")
FIELDS[35] = ("(u8, u16)", 4, 2, "tuple")
FIELDS[36] = ("(u64, u8)", 16, 8, "tuple")
FIELDS[37] = ("(u8, u64)", 16, 8, "tuple")
FIELDS[38] = ("(u8, bool, u8)", 3, 1, "tuple")
FIELDS[39] = ("(u32, u8, u8)", 8, 4, "tuple")
FIELDS[40] = ("(u8, u16, u8)", 4, 2, "tuple")
# zero-length arrays of wide element types: no bytes, but the element's alignment (a `marker` field is not alignment-free)
FIELDS[41] = ("[u64; 0]", 0, 8, "any")
FIELDS[42] = ("[u16; 0]", 0, 2, "any")
# raw pointers: as wide and as aligned as usize whatever the pointee is (an Align1 pointee does not make the pointer Align1)
FIELDS[43] = ("*const u8", 8, 8, "any")
FIELDS[44] = ("*mut [u8; 2]", 8, 8, "any")
TUPLE_FIELDS = [18, 19, 33, 34, 35, 36, 37, 38, 39, 40]
T_CODE = 99
T_U8_CODE = 97                    # the tuple (T, u8)
U8_T_CODE = 98                    # the tuple (u8, T)
PARAM_CODES = (T_U8_CODE, U8_T_CODE, T_CODE)      # field codes that mention the type parameter (never instantiations)
ALIGN1_FIELDS = [0, 1, 2, 3, 4, 5, 6, 7, 8, 9, 15, 16, 17, 20, 21, 23, 24, 28, 18, 19, 38, 45]
WIDE_FIELDS = [10, 11, 12, 13, 14, 33, 34, 35, 36, 37, 39, 40, 41, 42, 43, 44]

#   code: (rust type, may be zero sized)
UFIELDS = {
    0: ("List<u8>", False),
    1: ("RemainingBytes", True),
    2: ("u8", False),
    3: ("()", True),
    4: ("gen_c19::ZstAtEnd", True),
    5: ("gen_c19::Inner", False),
    6: ("[u8; 0]", True),
    7: ("PackedValue<u64>", False),
    8: ("List<PackedValue<u64>>", False),
    9: ("bool", False),
    # unsized enums (#[unsized_type] #[repr(u8)] enum): ZST_STATUS is the conjunction over the data-carrying variants'
    # payload types, so one payload that may be empty makes the whole enum "may be zero sized / consumes the rest"
    10: ("gen_c19::EnumMayEndEmpty", True),     # { Unit, Bytes(List<u8>), Rest(RemainingBytes) }
    11: ("gen_c19::EnumNeverEmpty", False),     # { Unit, Bytes(List<u8>) }
    12: ("gen_c19::EnumOfZstStruct", True),     # { Unit, Nested(ZstAtEnd) }
}
UENUMS = [10, 11, 12]
INT_REPR = ["u8", "i8", "u16", "i16", "u32", "i32", "u64", "i64"]
MACROS = {0: "#[derive(Align1)]", 1: "#[zero_copy]", 2: "#[zero_copy(skip_packed)]", 3: "#[zero_copy(pod)]",
          4: "#[zero_copy(pod, skip_packed)]", 5: "#[unsized_type(skip_idl)]",
          # generic unsized types WITHOUT the leading PhantomData marker: the sized part's CheckedBitPattern impl is written by
          # the macro over the real fields only (every type parameter must then be used by a sized field)
          6: "#[unsized_type(skip_idl, skip_phantom_generics)]"}

RULE = ("declarations drawn from the grammar: macro {derive(Align1), zero_copy, zero_copy(skip_packed), zero_copy(pod), "
        "zero_copy(pod, skip_packed), unsized_type} x form {struct, tuple struct, unit-only / data enum, union, generic with "
        "one type parameter, a chosen instantiation and a bound style: none | inline `T: Copy` | `where T: Copy` clause} x representation {none, C, transparent, u8/i8/u16/u32/u64, packed, "
        "packed(1|2|4), align(1|2|4|8) and combinations of one base with up to two modifiers, in one or two #[repr] "
        "attributes, any order} x 0-4 fields from {u8, bool, (), i8, [u8;N], PackedValue<u64|u16>, Pubkey, a u8 enum, "
        "NonZeroU8, [bool;2], (u8, u8), (u8,), (u8, bool, u8) | u16, u32, u64, u128, [u16;2], (u16,), (u16, u8), (u8, u16), (u64, u8), "
        "(u8, u64), (u32, u8, u8), (u8, u16, u8), [u64;0], [u16;0], *const u8, *mut [u8;2]}, generic declarations also use the parameter inside a tuple field, (T, u8) / (u8, T); "
        "a systematic slice of derive(Align1) x {no repr, C, transparent, C packed} x {struct, tuple struct} x every tuple type "
        "alone / first / last, of (T, u8) / (u8, T) with T = u8 | u16 | u64, and of every zero-copy flavour on each tuple type; "
        "unsized structs additionally draw 1-3 unsized fields from "
        "{List<u8>, RemainingBytes, u8, (), a nested struct ending in RemainingBytes, a nested struct ending in a list, "
        "[u8;0], PackedValue<u64>, List<PackedValue<u64>>, bool, and three unsized enums (#[unsized_type] #[repr(u8)] enum "
        "with a unit default variant plus: a List<u8> variant and a RemainingBytes variant | a List<u8> variant only | a "
        "variant whose payload is the nested struct ending in RemainingBytes)}, each enum also placed systematically first / "
        "last / alone / in the middle of the unsized fields; a systematic slice of bound style x macro x {struct, tuple struct, "
        "union} x T = u8 | bool | u16 | u64 x T first / last; the documented valid forms and the D13 witnesses are "
        "always included. every declaration is compiled by cargo against /repo's working tree and every accepted one is "
        "executed. non-trivial = the declaration is accepted by the compiler (the marker is certified and its numbers are "
        "compared), or it is rejected by a decision of the macro under test or of an assertion it generates (repr conflicts, "
        "`Align1` bounds, assert_eq_align, bytemuck's padding assertion, ZST_STATUS panic) rather than by rustc's own "
        "attribute checks; distinct = distinct integer encodings")
TRUSTED = [
    "Coq 8.16.1 kernel; vm_compute in Examples and _refuted witnesses only",
    "extraction (ExtrOcamlBasic only) + runner/driver.ml",
    "lib/props/c19.py: declaration generator, Rust emitter, cargo driver, comparator (this file)",
    "rustc 1.90 / cargo as the judge of accept/reject and of align_of/size_of; bytemuck 1.23.2 + bytemuck_derive 1.10.1 "
    "as built by cargo (their decisions are transcribed in coq/Meta/Derives.v and tied by the correspondence)",
    "Rust's layout rules are MODELLED from the Reference (coq/Meta/Layout.v), not verified; the correspondence compares "
    "align_of/size_of of every accepted declaration with the model",
]
ASSUMPTIONS = [
    "field types' own Align1 / CheckedBitPattern impls are sound (hypotheses of the theorems); the table of field types "
    "used by the correspondence is checked against rustc on every run (align_of/size_of are printed by the examples). "
    "for tuple-typed fields the Align1 hypothesis follows from the elements' (C19_tuple_align1_sound), and the model's "
    "menu satisfies it (C19_field_menu_align1_sound): a library impl that certifies a wider tuple is a disagreement and "
    "a direct failure",
    "repr(Rust) structs have alignment exactly max field alignment and no interior padding after rustc's reordering "
    "(the Reference only promises >=); tied by the correspondence",
    "an unsized struct counts as rejected when a program that opens it through the wrapper API "
    "(SharedWrapper::new / ExclusiveWrapper::new evaluate ZST_STATUS) does not compile; the bare declaration compiles",
    "zero_copy on enums with data-carrying variants is outside the modelled grammar (unit-only enums are covered)",
]


# ---------------------------------------------------------------------------------------------
# encoding helpers
G_STYLE = 100                     # G = k + G_STYLE * bound style
STYLES = {0: "no extra bound", 1: "inline `T: Copy`", 2: "`where T: Copy` clause"}


def g_of(inst, style=0):
    """the G component: T instantiated with field type `inst`, declared in bound style `style`"""
    return inst + 1 + G_STYLE * style


def enc(m, f, g, reprs, variants, ufields=()):
    """g is the complete G component (0, or g_of(instantiation, style))"""
    out = [m, f, g, len(reprs)]
    for c, a in reprs:
        out += [c, a]
    out.append(len(variants))
    for v in variants:
        out.append(len(v))
        out += list(v)
    out.append(len(ufields))
    out += list(ufields)
    return out


def dec(ints):
    """returns dict or None when the list is not a well-formed encoding"""
    try:
        it = iter(ints)
        m, f, g, nr = next(it), next(it), next(it), next(it)
        reprs = [(next(it), next(it)) for _ in range(nr)]
        nv = next(it)
        variants = []
        for _ in range(nv):
            nf = next(it)
            variants.append([next(it) for _ in range(nf)])
        nu = next(it)
        uf = [next(it) for _ in range(nu)]
    except StopIteration:
        return None
    if list(it):
        return None
    if m not in MACROS or f not in (0, 1, 2, 3) or g < 0 or nr < 0:
        return None
    style, g = g // G_STYLE, g % G_STYLE
    if style not in STYLES or (style and not g):
        return None
    for v in variants:
        for x in v:
            if x not in PARAM_CODES and x not in FIELDS:
                return None
    if g and (g - 1) not in FIELDS:
        return None
    if any(u not in UFIELDS for u in uf):
        return None
    if any(c not in (0, 1, 2, 3, 4, 5, 6) for c, _ in reprs) or any(c == 3 and not (0 <= a < 8) for c, a in reprs):
        return None
    if f != 2 and nv != 1:
        return None
    if m in (5, 6) and (f not in (0, 1) or nu < 1):
        return None
    if m not in (5, 6) and nu:
        return None
    return {"macro": m, "form": f, "generic": g, "style": style, "reprs": reprs, "variants": variants, "ufields": uf}


def repr_attrs(reprs):
    """list of attribute strings"""
    if not reprs:
        return []
    groups = [[]]
    for c, a in reprs:
        if c == 0:
            groups.append([])
        elif c == 1:
            groups[-1].append("C")
        elif c == 2:
            groups[-1].append("transparent")
        elif c == 3:
            groups[-1].append(INT_REPR[a])
        elif c == 4:
            groups[-1].append("packed")
        elif c == 5:
            groups[-1].append("packed(%d)" % a)
        elif c == 6:
            groups[-1].append("align(%d)" % a)
    return ["#[repr(%s)]" % ", ".join(g) for g in groups]


def fty(code):
    return {T_CODE: "T", T_U8_CODE: "(T, u8)", U8_T_CODE: "(u8, T)"}.get(code) or FIELDS[code][0]


def _round_up(x, a):
    return (x + a - 1) // a * a


def tuple_with_u8(t, first):
    """the FIELDS-style entry of the tuple (T, u8) (first) / (u8, T) for T = the entry t"""
    al = max(t[2], 1)
    return ("(%s, u8)" % t[0] if first else "(u8, %s)" % t[0], _round_up(t[1] + 1, al), al, "tuple")


def finfo(d, code):
    """(rust type, size, align, validity kind) of a field after instantiating T"""
    if code == T_CODE:
        return FIELDS[d["generic"] - 1]
    if code in (T_U8_CODE, U8_T_CODE):
        return tuple_with_u8(FIELDS[d["generic"] - 1], code == T_U8_CODE)
    return FIELDS[code]


def concrete(code, inst_code):
    """the FIELDS code of a field after instantiating T with inst_code, None when the menu has no such type"""
    if code == T_CODE:
        return inst_code
    if code in (T_U8_CODE, U8_T_CODE):
        name = tuple_with_u8(FIELDS[inst_code], code == T_U8_CODE)[0]
        return next((c for c, e in FIELDS.items() if e[0] == name), None)
    return code


def rust_source(ints):
    d = dec(ints)
    m, f, g = d["macro"], d["form"], d["generic"]
    attrs = repr_attrs(d["reprs"])
    uses_t = any(x in PARAM_CODES for v in d["variants"] for x in v)
    lines = ["// generated by lib/props/c19.py -- case " + " ".join(str(x) for x in ints),
             "#![allow(dead_code, unused_imports, unused_attributes, unused_variables, non_camel_case_types)]",
             "use star_frame::prelude::*;", "use core::mem::{align_of, size_of};", ""]
    where = ""
    if g:
        needed = {0: [], 1: [], 2: [], 3: ["bytemuck::Pod"], 4: ["bytemuck::Pod"],
                  5: ["star_frame::unsize::impls::UnsizedGenerics"], 6: ["star_frame::unsize::impls::UnsizedGenerics"]}[m]
        if f == 3:
            needed = needed + ["Copy"]
        if d["style"]:
            needed = ["Copy"] + [b for b in needed if b != "Copy"]
        bounds = " + ".join(needed)
        if d["style"] == 2:
            gen_decl, where = "<T>", "where T: " + bounds
        else:
            gen_decl = "<T%s>" % (": " + bounds if bounds else "")
        gen_use = "<%s>" % FIELDS[g - 1][0]
    else:
        gen_decl = gen_use = ""
    # `where` goes between the header and the braces, but AFTER the parenthesised fields of a tuple struct
    w_brace = " " + where if where else ""
    w_tuple = " " + where if where else ""
    lines.append(MACROS[m])
    lines += attrs
    name = "D"
    if m in (5, 6) and f == 1:
        parts = [fty(x) for x in d["variants"][0]]
        parts += [("#[unsized_start] " if i == 0 else "") + UFIELDS[u][0] for i, u in enumerate(d["ufields"])]
        lines.append("struct %s%s(%s)%s;" % (name, gen_decl, ", ".join(parts), w_tuple))
    elif m in (5, 6):
        body = []
        for i, x in enumerate(d["variants"][0]):
            body.append("    s%d: %s," % (i, fty(x)))
        for i, u in enumerate(d["ufields"]):
            if i == 0:
                body.append("    #[unsized_start]")
            body.append("    u%d: %s," % (i, UFIELDS[u][0]))
        lines.append("struct %s%s%s {" % (name, gen_decl, w_brace))
        lines += body
        lines.append("}")
    elif f == 0:
        lines.append("struct %s%s%s {" % (name, gen_decl, w_brace))
        lines += ["    f%d: %s," % (i, fty(x)) for i, x in enumerate(d["variants"][0])]
        lines.append("}")
    elif f == 1:
        lines.append("struct %s%s(%s)%s;" % (name, gen_decl, ", ".join(fty(x) for x in d["variants"][0]), w_tuple))
    elif f == 3:
        lines.append("union %s%s%s {" % (name, gen_decl, w_brace))
        lines += ["    f%d: %s," % (i, fty(x)) for i, x in enumerate(d["variants"][0])]
        lines.append("}")
    else:
        lines.append("enum %s%s%s {" % (name, gen_decl, w_brace))
        for i, v in enumerate(d["variants"]):
            lines.append("    V%d%s," % (i, "(%s)" % ", ".join(fty(x) for x in v) if v else ""))
        lines.append("}")
    lines.append("")
    # ---- main: force the certification to be used, then print the observation
    main = []
    if m in (5, 6):
        has_sized = len(d["variants"][0]) > 0
        ty = "%sSized%s" % (name, gen_use)
        main.append("    let data = star_frame::unsize::TestUnderlyingData::new(64);")
        main.append("    let opened = star_frame::unsize::wrapper::SharedWrapper::new::<%s%s>(&data).is_ok();" % (name, gen_use))
        main.append("    let _ = opened;")
        if has_sized:
            sizes = " + ".join("size_of::<%s>()" % finfo(d, x)[0] for x in d["variants"][0])
            main.append("    gen_c19::assert_sized::<%s>();" % ty)
            main.append("    gen_c19::report::<%s>(%s, true);" % (ty, sizes))
        else:
            main.append("    gen_c19::report_none();")
    else:
        ty = name + gen_use
        if f == 2:
            unit_only = all(len(v) == 0 for v in d["variants"])
            sizes = "size_of::<u8>()" if unit_only else "0"
        else:
            sizes = " + ".join("size_of::<%s>()" % finfo(d, x)[0] for x in d["variants"][0]) or "0"
        if m == 0:
            main.append("    gen_c19::assert_align1::<%s>();" % ty)
            main.append("    gen_c19::report_plain::<%s>(%s);" % (ty, sizes))
        elif m in (1, 2):
            main.append("    gen_c19::assert_zero_copy::<%s>();" % ty)
            main.append("    gen_c19::report::<%s>(%s, true);" % (ty, sizes))
        else:
            main.append("    gen_c19::assert_pod::<%s>();" % ty)
            main.append("    gen_c19::report::<%s>(%s, true);" % (ty, sizes))
    lines.append("fn main() {")
    lines += main
    lines.append("}")
    return "\n".join(lines) + "\n"


LIB_RS = r'''//! support code of the generated C19 package (written by lib/props/c19.py on every run)
#![allow(dead_code, unused_imports)]
pub use star_frame;
use star_frame::prelude::*;
use bytemuck::{CheckedBitPattern, NoUninit, Pod, Zeroable};

/// a u8 enum with a restricted bit pattern: 0, 1, 2 are valid
#[zero_copy]
#[repr(u8)]
#[derive(Debug, PartialEq, Eq)]
pub enum Tri { A, B, C }

/// a Copy type with a bit-pattern check and INTERIOR PADDING (3 bytes after `a`): CheckedBitPattern, never NoUninit
#[derive(Clone, Copy, Debug, PartialEq, Eq, CheckedBitPattern)]
#[repr(C)]
pub struct Padded {
    pub a: u8,
    pub b: u32,
}

/// the doctest's struct whose last (and only unsized) field may be zero sized
#[unsized_type(skip_idl)]
pub struct ZstAtEnd {
    pub field1: u8,
    #[unsized_start]
    pub remaining: RemainingBytes,
}

/// a nested unsized struct without any zero-sized component
#[unsized_type(skip_idl)]
pub struct Inner {
    pub x: u8,
    #[unsized_start]
    pub list: List<u8>,
}

/// an unsized enum one of whose variants may be empty / consumes the rest of the data
#[unsized_type(skip_idl)]
#[repr(u8)]
pub enum EnumMayEndEmpty {
    #[default_init]
    Unit,
    Bytes(List<u8>),
    Rest(RemainingBytes),
}

/// an unsized enum none of whose variants' payloads may be zero sized
#[unsized_type(skip_idl)]
#[repr(u8)]
pub enum EnumNeverEmpty {
    #[default_init]
    Unit,
    Bytes(List<u8>),
}

/// an unsized enum with a variant whose payload is a struct ending in a possibly zero-sized field
#[unsized_type(skip_idl)]
#[repr(u8)]
pub enum EnumOfZstStruct {
    #[default_init]
    Unit,
    Nested(ZstAtEnd),
}

pub fn assert_align1<T: Align1>() {}
pub fn assert_zero_copy<T: Align1 + CheckedBitPattern + NoUninit + Zeroable + Copy>() {}
pub fn assert_pod<T: Align1 + Pod>() {}
pub fn assert_sized<T: Align1 + CheckedBitPattern + NoUninit + Zeroable>() {}

#[repr(C, align(64))]
struct Buf([u8; 256]);

/// the byte patterns of the acceptance table, a function of the size only (the model computes the same list):
/// every byte = k for k in 0,1,2,3,255; then all ones with byte j (j < min(size, 8)) replaced by 0, 2, 255
pub fn patterns(size: usize) -> Vec<Vec<u8>> {
    let mut out = Vec::new();
    for k in [0u8, 1, 2, 3, 255] {
        out.push(vec![k; size]);
    }
    for j in 0..size.min(8) {
        for v in [0u8, 2, 255] {
            let mut p = vec![1u8; size];
            p[j] = v;
            out.push(p);
        }
    }
    out
}

pub fn report_plain<T>(sum: usize) {
    println!("OBS {} {} {} 0", core::mem::align_of::<T>(), core::mem::size_of::<T>(), sum);
}

pub fn report_none() {
    println!("OBS 0 0 0 0");
}

pub fn report<T: CheckedBitPattern>(sum: usize, table: bool) {
    let size = core::mem::size_of::<T>();
    let mut s = format!("OBS {} {} {}", core::mem::align_of::<T>(), size, sum);
    if table && size <= 256 {
        let pats = patterns(size);
        s.push_str(&format!(" {}", pats.len()));
        let mut buf = Buf([0u8; 256]);
        for p in pats {
            buf.0[..size].copy_from_slice(&p);
            let ok = bytemuck::checked::try_from_bytes::<T>(&buf.0[..size]).is_ok();
            s.push_str(if ok { " 1" } else { " 0" });
        }
    } else {
        s.push_str(" 0");
    }
    println!("{}", s);
}
'''


def cargo_toml(names):
    repo = C.REPO
    head = """# generated by lib/props/c19.py
[package]
name = "gen_c19"
version = "0.0.0"
edition = "2021"
publish = false
autoexamples = false

[workspace]

[lib]
path = "src/lib.rs"

[dependencies]
star_frame = { path = "%s/star_frame", features = ["test_helpers", "idl"] }
bytemuck = { version = "1.22", features = ["derive", "min_const_generics", "extern_crate_std"] }

[profile.dev]
opt-level = 1
debug = 0
incremental = false

[lints.rust]
unexpected_cfgs = { level = "allow" }
""" % repo
    ex = "".join('\n[[example]]\nname = "c19_%s"\npath = "examples/%s.rs"\n' % (n, n) for n in names)
    return head + ex


def write_if_changed(path, text):
    if os.path.exists(path) and open(path, encoding="utf-8").read() == text:
        return False
    os.makedirs(os.path.dirname(path), exist_ok=True)
    with open(path, "w", encoding="utf-8") as f:
        f.write(text)
    return True


def write_package(cases, prune=True):
    """cases: [(name, ints)] ; name = dNNNN.  prune=False keeps the other example files (replay mode)"""
    os.makedirs(os.path.join(GEN_DIR, "examples"), exist_ok=True)
    os.makedirs(os.path.join(GEN_DIR, ".cargo"), exist_ok=True)
    write_if_changed(os.path.join(GEN_DIR, ".cargo", "config.toml"),
                     '[net]\noffline = true\n[build]\ntarget-dir = "%s"\nrustflags = ["--cfg", "star_frame_verif"]\n' % TARGET_DIR)
    lock_src = os.path.join(C.REPO, "Cargo.lock")
    lock_dst = os.path.join(GEN_DIR, "Cargo.lock")
    if not os.path.exists(lock_dst):
        shutil.copyfile(lock_src, lock_dst)
    write_if_changed(os.path.join(GEN_DIR, "src", "lib.rs"), LIB_RS)
    names = [n for n, _ in cases]
    exdir = os.path.join(GEN_DIR, "examples")
    if prune:
        keep = set(n + ".rs" for n in names)
        for fn in os.listdir(exdir):
            if fn not in keep:
                os.remove(os.path.join(exdir, fn))
        listed = names
    else:
        listed = sorted(set(names) | set(fn[:-3] for fn in os.listdir(exdir) if fn.endswith(".rs")))
    write_if_changed(os.path.join(GEN_DIR, "Cargo.toml"), cargo_toml(listed))
    for n, ints in cases:
        write_if_changed(os.path.join(exdir, n + ".rs"), rust_source(ints))


def build_and_run(cases, timeout=7200, prune=True):
    """returns (obs: {name: [ints]}, errors: {name: first error line}, build_log_tail) ; raises CheckError when the
    package itself (lib / dependencies, i.e. /repo) does not build"""
    write_package(cases, prune=prune)
    bindir = os.path.join(TARGET_DIR, "debug", "examples")
    names = [n for n, _ in cases]
    # the library first: a failure here is a failure of /repo or of the support code, not of a declaration
    rc, out = C.sh(["cargo", "build", "--offline", "--lib", "--message-format=short"], cwd=GEN_DIR, timeout=timeout)
    if rc != 0:
        raise C.CheckError("generated package library (star_frame from %s + support code) does not build:\n%s" % (C.REPO, out[-4000:]))
    for n in names:
        p = os.path.join(bindir, "c19_" + n)
        if os.path.exists(p):
            os.remove(p)
    # cargo would skip up-to-date examples whose binary we just removed?  no: the fingerprint lists the output file,
    # a missing output forces the rebuild.  (checked: removing the binary makes cargo rebuild it)
    cmd = ["cargo", "build", "--offline", "--keep-going", "--message-format=short", "-j", str(C.NPROC)]
    if prune:
        cmd.append("--examples")
    else:
        for n in names:
            cmd += ["--example", "c19_" + n]
    rc, out = C.sh(cmd, cwd=GEN_DIR, timeout=timeout)
    failed = set(re.findall(r'could not compile `gen_c19` \(example "c19_([a-z]\d+)"\)', out))
    errors = {}
    for mm in re.finditer(r"^examples/([a-z]\d+)\.rs:\d+:\d+: (error[^\n]*)", out, re.M):
        errors.setdefault(mm.group(1), mm.group(2)[:300])
    obs = {}
    missing = []
    for n in names:
        p = os.path.join(bindir, "c19_" + n)
        if n in failed:
            obs[n] = [0]
            continue
        if not os.path.exists(p):
            missing.append(n)
            continue
        rc2, o2 = C.sh([p], timeout=60)
        mm = re.search(r"^OBS((?: -?\d+)+)\s*$", o2, re.M)
        if rc2 != 0 or not mm:
            obs[n] = ["UNPARSEABLE", "rc=%s" % rc2] + o2.strip().split("\n")[-1:]
        else:
            obs[n] = [1] + [int(t) for t in mm.group(1).split()]
    if missing:
        raise C.CheckError("cargo produced neither a binary nor an error for %d examples (%s ...):\n%s" % (
            len(missing), ", ".join(missing[:5]), out[-3000:]))
    return obs, errors, out[-2000:]


# ---------------------------------------------------------------------------------------------
# generator
PACKED1 = [(4, 0)]
C_PACKED = [(1, 0), (4, 0)]

# the documented valid forms (doc comments of the macros, the framework's own PackedValue, the ZST doctests)
VALID_FORMS = [
    ("align1 struct of align-1 fields, default repr", enc(0, 0, 0, [], [[0, 24, 1]])),
    ("align1 struct, repr(C)", enc(0, 0, 0, [(1, 0)], [[0, 4, 6]])),
    ("align1 tuple struct, repr(transparent)", enc(0, 1, 0, [(2, 0)], [[23]])),
    ("align1 unit struct", enc(0, 0, 0, [], [[]])),
    ("PackedValue<T>: generic tuple struct, repr(C, packed), T = u64", enc(0, 1, 13, C_PACKED, [[T_CODE]])),
    ("align1 packed struct with wide fields", enc(0, 0, 0, C_PACKED, [[12, 0, 10]])),
    ("align1 generic struct with an align-1 instantiation", enc(0, 0, 1, [], [[T_CODE, 0]])),
    ("align1 unit-only enum, repr(u8)", enc(0, 2, 0, [(3, 0)], [[], [], []])),
    ("align1 data enum, repr(u8), align-1 fields", enc(0, 2, 0, [(3, 0)], [[0, 23], []])),
    ("zero_copy struct { field: u64 } (macro doc)", enc(1, 0, 0, [], [[12]])),
    ("zero_copy(pod) struct { data: u64 } (ProgramAccount doc)", enc(3, 0, 0, [], [[12]])),
    ("zero_copy struct with bool and enum fields", enc(1, 0, 0, [], [[1, 7, 11]])),
    ("zero_copy(skip_packed) struct of align-1 fields", enc(2, 0, 0, [], [[0, 1, 24]])),
    ("zero_copy unit-only enum, repr(u8)", enc(1, 2, 0, [(3, 0)], [[], []])),
    ("unsized struct, sized part + list", enc(5, 0, 0, [], [[0, 12, 1]], [0])),
    ("unsized struct ending in RemainingBytes (doctest ZstAtEnd)", enc(5, 0, 0, [], [[0]], [1])),
    ("unsized struct without sized part", enc(5, 0, 0, [], [[]], [0, 8])),
    ("unsized struct, nested struct then list", enc(5, 0, 0, [], [[0]], [5, 0])),
    ("unsized generic struct (UnsizedGenerics), T = bool", enc(5, 0, 2, [], [[T_CODE, 0]], [0])),
]

# D13 witnesses (first in every run; they are also in corpus/C19)
D13_WITNESSES = [
    ("D13 derive(Align1) repr(C, align(2)) struct S { a: u8 }", enc(0, 0, 0, [(1, 0), (6, 2)], [[0]])),
    ("D13 derive(Align1) repr(u8, align(2)) unit-only enum", enc(0, 2, 0, [(3, 0), (6, 2)], [[], []])),
]

# the doctests' compile_fail forms
ZST_FORMS = [
    ("ZST sized part (doctest SizedZst)", enc(5, 0, 0, [], [[2]], [0])),
    ("nested ZST in the middle (doctest NestedZst)", enc(5, 0, 0, [], [[0]], [4, 0])),
]


SANE_STRUCT = [([], 14), ([(1, 0)], 12), ([(2, 0)], 8), ([(4, 0)], 8), ([(1, 0), (4, 0)], 12), ([(5, 2)], 5),
               ([(1, 0), (5, 2)], 4), ([(5, 4)], 3), ([(6, 1)], 5), ([(6, 2)], 8), ([(1, 0), (6, 2)], 8), ([(6, 4)], 4),
               ([(1, 0), (6, 1)], 3), ([(6, 8), (1, 0)], 3), ([(5, 1), (1, 0)], 3)]
SANE_ENUM = [([(3, 0)], 50), ([(3, 0), (6, 1)], 10), ([(3, 0), (6, 2)], 14), ([(6, 4), (3, 0)], 8), ([(3, 1)], 4),
             ([(3, 2)], 4), ([(1, 0)], 3), ([], 4), ([(3, 0), (6, 8)], 3)]
SANE_ZC = [([], 60), ([(4, 0)], 8), ([(6, 2)], 10), ([(5, 2)], 6), ([(6, 1)], 6), ([(6, 4)], 3), ([(2, 0)], 3),
           ([(1, 0)], 2), ([(5, 1)], 2)]


def _split(rng, items):
    """sometimes spread the items over two #[repr] attributes"""
    if len(items) >= 2 and rng.chance(1, 4):
        k = rng.range(1, len(items) - 1)
        return items[:k] + [(0, 0)] + items[k:]
    return list(items)


def _gen_reprs(rng, form, macro):
    """mostly a coherent representation for the form (so that the field list decides), sometimes an arbitrary
    combination of one base with up to two modifiers; one or two attributes, any order"""
    if rng.chance(3, 4):
        if form == 2:
            items = rng.weighted(SANE_ENUM)
        elif macro in (1, 2, 3, 4):
            items = rng.weighted(SANE_ZC)
        else:
            items = rng.weighted(SANE_STRUCT)
        return _split(rng, items)
    items = []
    if form == 2:
        base = rng.weighted([((3, 0), 60), (None, 8), ((1, 0), 6), ((3, 2), 6), ((3, 4), 5), ((3, 1), 5), ((2, 0), 4), ((3, 6), 3)])
    else:
        base = rng.weighted([(None, 30), ((1, 0), 40), ((2, 0), 15), ((3, 0), 6), ((3, 4), 3)])
    if base:
        items.append(base)
    nmod = rng.weighted([(0, 25), (1, 50), (2, 25)])
    for _ in range(nmod):
        items.append(rng.weighted([((4, 0), 22), ((5, 1), 10), ((5, 2), 12), ((5, 4), 6), ((6, 1), 10), ((6, 2), 20),
                                   ((6, 4), 10), ((6, 8), 6), ((5, 3), 1), ((6, 0), 1), ((6, 3), 1), ((5, 0), 1)]))
    if rng.chance(1, 10) and base:
        items.append(rng.choice([(1, 0), (3, 0), base]))
    return _split(rng, rng.shuffle(items))


def _is_packed1(reprs):
    return any(c == 4 or (c == 5 and a == 1) for c, a in reprs)


def _gen_fields(rng, n, wide_p, with_t=False):
    fs = []
    for _ in range(n):
        if rng.chance(wide_p, 100):
            fs.append(rng.choice(WIDE_FIELDS))
        else:
            fs.append(rng.choice(ALIGN1_FIELDS))
    if with_t:
        # mostly the bare parameter, sometimes the parameter inside a tuple field
        t = rng.weighted([(T_CODE, 70), (T_U8_CODE, 15), (U8_T_CODE, 15)])
        if fs:
            fs[rng.below(len(fs))] = t
        else:
            fs = [t]
    return fs


def _gen_style(rng):
    """bound style of a generic declaration: half as before, the rest split between the inline bound and the where clause"""
    return rng.weighted([(0, 50), (1, 20), (2, 30)])


def _gen_one(rng):
    macro = rng.weighted([(0, 45), (1, 12), (2, 10), (3, 6), (4, 4), (5, 23)])
    if macro == 5:
        generic = 0
        if rng.chance(1, 5):
            generic = g_of(rng.choice(ALIGN1_FIELDS + [10, 12]), _gen_style(rng))
        ns = rng.weighted([(0, 15), (1, 35), (2, 30), (3, 20)])
        sized = _gen_fields(rng, ns, 25, with_t=bool(generic))
        if not generic and rng.chance(1, 6):
            sized = [rng.choice([2, 20])] * rng.range(1, 2)          # a sized part made of zero-sized fields only
        if not generic and sized and rng.chance(1, 6):
            sized.insert(rng.below(len(sized) + 1), rng.choice([2, 20]))   # a zero-sized field inside a non-empty sized part
        nu = rng.weighted([(1, 40), (2, 40), (3, 20)])
        if rng.chance(1, 2):
            # zero-sized candidates only in last position (expected to compile)
            uf = [rng.choice([0, 2, 5, 7, 8, 9, 11]) for _ in range(nu - 1)] + [rng.choice(list(UFIELDS))]
        else:
            uf = [rng.weighted([(0, 30), (1, 15), (2, 8), (3, 8), (4, 10), (5, 10), (6, 5), (7, 5), (8, 5), (9, 4),
                                (10, 9), (11, 7), (12, 7)]) for _ in range(nu)]
        reprs = _gen_reprs(rng, 0, 0) if rng.chance(1, 15) else []
        form = 0 if rng.chance(24, 25) else 1
        return enc(5, form, generic, reprs, [sized], uf)
    if macro == 0:
        form = rng.weighted([(0, 40), (1, 15), (2, 35), (3, 10)])
    else:
        form = rng.weighted([(0, 55), (1, 15), (2, 25), (3, 5)])
    generic = 0
    if rng.chance(1, 6):
        generic = g_of(rng.choice(ALIGN1_FIELDS[:8] + WIDE_FIELDS[:3]), _gen_style(rng))
    reprs = _gen_reprs(rng, form, macro)
    if form == 2:
        nv = rng.weighted([(0, 3), (1, 20), (2, 40), (3, 30), (4, 7)])
        data = macro == 0 and rng.chance(1, 3)
        variants = []
        for _ in range(nv):
            if data and rng.chance(2, 3):
                variants.append(_gen_fields(rng, rng.range(1, 2), 12))
            else:
                variants.append([])
        if generic and variants and rng.chance(1, 2):
            variants[0] = variants[0] + [T_CODE]
        if macro in (2, 3, 4) and rng.chance(3, 4):
            macro = 1
        return enc(macro, 2, generic, reprs, variants)
    n = rng.weighted([(0, 6), (1, 34), (2, 30), (3, 20), (4, 10)])
    if any(c == 2 for c, _ in reprs) and rng.chance(3, 4):
        n = 1
    packed1 = _is_packed1(reprs) or macro in (1, 3)
    wide_p = 50 if packed1 else 12
    fs = _gen_fields(rng, n, wide_p, with_t=bool(generic))
    if form == 3 and not fs:
        fs = [0]
    if macro in (3, 4):
        fs = [x if x not in (1, 7, 8, 9) or rng.chance(1, 4) else 0 for x in fs]
    return enc(macro, form, generic, reprs, [fs])


def gen_cases(rng, tier):
    """[(name, ints, tag)]"""
    out = []
    seen = set()

    def add(ints, tag):
        t = tuple(ints)
        if t in seen:
            return
        seen.add(t)
        out.append(("d%04d" % len(out), list(ints), tag))

    for what, c in D13_WITNESSES:
        add(c, "d13")
    for what, c in VALID_FORMS:
        add(c, "valid")
    for what, c in ZST_FORMS:
        add(c, "zst")
    # systematic slice: every single representation on the two smallest Align1 shapes
    singles = [[], [(1, 0)], [(2, 0)], [(3, 0)], [(4, 0)], [(5, 1)], [(5, 2)], [(6, 1)], [(6, 2)], [(6, 4)],
               [(1, 0), (4, 0)], [(1, 0), (5, 2)], [(1, 0), (6, 2)], [(6, 2), (1, 0)], [(3, 0), (6, 4)], [(3, 0), (4, 0)],
               [(6, 2), (0, 0), (6, 1)], [(4, 0), (0, 0), (4, 0)], [(4, 0), (6, 2)], [(6, 2), (4, 0)], [(1, 0), (0, 0), (6, 2)]]
    for r in singles:
        add(enc(0, 0, 0, r, [[0]]), "sys")
        add(enc(0, 0, 0, r, [[0, 10]]), "sys")
        add(enc(0, 2, 0, r, [[], []]), "sys")
    for r in ([], [(6, 2)], [(6, 1)], [(4, 0)], [(5, 2)], [(1, 0)]):
        add(enc(2, 0, 0, r, [[0, 0]]), "sys")
        add(enc(1, 0, 0, r, [[0, 1]]), "sys")
        add(enc(1, 2, 0, [(3, 0)] + r, [[], []]), "sys")
    # ZST placement: every position of a zero-sized component among three unsized fields
    for z in (1, 3, 4, 6):
        for pos in range(3):
            uf = [0, 0, 0]
            uf[pos] = z
            add(enc(5, 0, 0, [], [[0]], uf), "sys")
    # unsized enums as fields of an unsized struct: first of two, last of two, alone, in the middle of three
    for e in UENUMS:
        for uf in ([e, 0], [0, e], [e], [0, e, 0]):
            add(enc(5, 0, 0, [], [[0]], uf), "sys")
    # generic unsized types without the phantom marker: T instantiated with a type that has invalid bit patterns, in
    # every position of the sized part
    for gcode in (1, 7, 8, 0):
        for sized in ([T_CODE], [T_CODE, 0], [0, T_CODE], [T_CODE, T_CODE, 0], [1, T_CODE]):
            add(enc(6, 0, gcode + 1, [], [sized], [0]), "sys")
            add(enc(5, 0, gcode + 1, [], [sized], [0]), "sys")
    # repr(transparent) with zero-sized companions: the one data field in every position, 1-aligned and over-aligned,
    # plain and through the type parameter (Align1 must look at EVERY field, whatever the representation)
    for z in (2, 20):
        for w in WIDE_FIELDS + [0, 5]:
            for form in (0, 1):
                for fl in ([z, w], [w, z], [z, z, w], [z, w, z]):
                    add(enc(0, form, 0, [(2, 0)], [fl]), "sys")
            add(enc(0, 1, w + 1, [(2, 0)], [[z, T_CODE]]), "sys")
            add(enc(0, 1, w + 1, [(2, 0)], [[T_CODE, z]]), "sys")
    # the packed wrappers with hand-written markers, alone / first / last in every zero-copy flavour and in a sized part
    for fcode in (15, 16, 17, 8, 45):
        for mcode in (1, 2, 3, 4):
            for fl in ([fcode], [0, fcode], [fcode, 0]):
                add(enc(mcode, 0, 0, [], [fl]), "sys")
        add(enc(5, 0, 0, [], [[fcode]], [0]), "sys")
        add(enc(5, 0, 0, [], [[0, fcode]], [0]), "sys")
        add(enc(0, 0, 0, [], [[fcode]]), "sys")
    # bound styles of generic declarations: the derive must bound every field type whatever the way the declaration
    # writes its own bounds (none / inline / explicit where clause).  every style x macro x {struct, tuple struct, union}
    # x instantiation {u8, bool, u16, u64} x T first / last; derive(Align1) also under repr(C) and under the documented
    # packed form (unconditional there), the unsized macros on the struct form (the only one they take)
    for style in sorted(STYLES):
        for inst_code in (0, 1, 10, 12):
            g = g_of(inst_code, style)
            for fl in ([T_CODE, 0], [0, T_CODE]):
                for form in (0, 1, 3):
                    for r in ([], [(1, 0)], C_PACKED):
                        add(enc(0, form, g, r, [fl]), "sys")
                    for mcode in (1, 2, 3, 4):
                        add(enc(mcode, form, g, [], [fl]), "sys")
                for mcode in (5, 6):
                    add(enc(mcode, 0, g, [], [fl], [0]), "sys")
    # tuple field types (align1.rs 40-66: a tuple is Align1 iff EVERY element is).  derive(Align1) x {no repr, repr(C),
    # repr(C, packed), repr(transparent) where rustc allows it: alone or next to a `()`} x {struct, tuple struct} x every
    # tuple type alone / first / last; the parameter inside a tuple, (T, u8) and (u8, T), for T = u8 | u16 | u64 (the
    # impl for the tuple is then selected at the instantiation); unions; and every zero-copy flavour / a sized part on
    # each tuple type (no bytemuck marker exists for tuples: all of them must be rejected)
    for form in (0, 1):
        for t in TUPLE_FIELDS:
            for r in ([], [(1, 0)], C_PACKED):
                for fl in ([t], [t, 0], [0, t]):
                    add(enc(0, form, 0, r, [fl]), "sys")
            for fl in ([t], [t, 2], [2, t]):
                add(enc(0, form, 0, [(2, 0)], [fl]), "sys")
        for inst_code in (0, 10, 12):
            for t in (T_U8_CODE, U8_T_CODE):
                for r in ([], [(1, 0)], C_PACKED):
                    for fl in ([t], [t, 1], [1, t]):
                        add(enc(0, form, g_of(inst_code), r, [fl]), "sys")
                for fl in ([t], [t, 2], [2, t]):
                    add(enc(0, form, g_of(inst_code), [(2, 0)], [fl]), "sys")
    for t in (18, 34, 36, 37):
        add(enc(0, 3, 0, [], [[t, 0]]), "sys")
        add(enc(0, 3, 0, [(1, 0)], [[0, t]]), "sys")
    for inst_code in (0, 12):
        for t in (T_U8_CODE, U8_T_CODE):
            add(enc(0, 3, g_of(inst_code), [], [[t, 0]]), "sys")
            add(enc(0, 3, g_of(inst_code, 2), [(1, 0)], [[0, t]]), "sys")
            add(enc(0, 0, g_of(inst_code, 2), [(1, 0)], [[t, 1]]), "sys")
            add(enc(0, 0, g_of(inst_code, 1), [], [[1, t]]), "sys")
    for t in TUPLE_FIELDS:
        for mcode in (1, 2, 3, 4):
            add(enc(mcode, 0, 0, [], [[t]]), "sys")
        add(enc(5, 0, 0, [], [[0, t]], [0]), "sys")
    for t in (T_U8_CODE, U8_T_CODE):
        for mcode in (1, 2, 5, 6):
            add(enc(mcode, 0, g_of(0), [], [[t]], [0] if mcode >= 5 else []), "sys")
    total = 1800 if tier == "quick" else 5600       # 1486 of them are the fixed slices above, the rest is random
    guard = 0
    while len(out) < total and guard < total * 20:
        guard += 1
        add(_gen_one(rng), "rand")
    return out


# ---------------------------------------------------------------------------------------------
# the property, judged directly on the implementation's observation (no Coq model involved)
VALID_SET = {tuple(c): what for what, c in VALID_FORMS}


def _valid_bytes(kind, bs):
    if kind == "bool":
        return all(b in (0, 1) for b in bs)
    if kind == "le2":
        return all(0 <= b <= 2 for b in bs)
    if kind == "nonzero":
        return all(b != 0 for b in bs)
    return True


def patterns(size):
    out = [[k] * size for k in (0, 1, 2, 3, 255)]
    for j in range(min(size, 8)):
        for v in (0, 2, 255):
            p = [1] * size
            p[j] = v
            out.append(p)
    return out


def has_over_align(d):
    return any(c == 6 and a > 1 for c, a in d["reprs"])


def predicate(ints, obs):
    """None when the implementation's behaviour on this declaration satisfies C19, else a description"""
    if obs is None or (obs and obs[0] == "UNPARSEABLE"):
        return "no observation from the implementation (%s)" % (obs,)
    d = dec(ints)
    if d is None:
        return "malformed case"
    accepted = obs[0] == 1
    m = d["macro"]
    if tuple(ints) in VALID_SET and not accepted:
        return "documented valid form no longer compiles: " + VALID_SET[tuple(ints)]
    if not accepted:
        return None
    if len(obs) < 5:
        return "malformed observation %s" % (obs,)
    align, size, total, npat = obs[1], obs[2], obs[3], obs[4]
    table = obs[5:5 + npat]
    if m in (5, 6):
        sized = [finfo(d, x) for x in d["variants"][0]]
        comps = ([sum(x[1] for x in sized) == 0] if sized else []) + [UFIELDS[u][1] for u in d["ufields"]]
        for i, z in enumerate(comps[:-1]):
            if z:
                return "unsized struct with a zero-sized component in position %d of %d (not last) compiles" % (i, len(comps))
        if not sized:
            return None
        fields = sized
    elif d["form"] == 2:
        fields = None
    else:
        fields = [finfo(d, x) for x in d["variants"][0]]
    if fields is not None and d["form"] != 3:
        want = sum(x[1] for x in fields)
        if total != want:
            return "harness field table out of sync with rustc: sum of field sizes %d, table says %d" % (total, want)
    if align != 1:
        return "%s certifies Align1 but align_of = %d" % (MACROS[m], align)
    if m == 0:
        return None
    # tuples are neither NoUninit nor CheckedBitPattern nor Pod: nothing validates their bytes
    for x in fields or []:
        if x[3] == "tuple":
            return "%s accepted the tuple field %s, which has no bit-pattern validator (not CheckedBitPattern / NoUninit / Pod)" % (
                MACROS[m], x[0])
    # zero_copy / sized part: no padding, every field's bit pattern validated
    if size != total:
        return "%s accepted a type with padding: size_of = %d, sum of field sizes = %d" % (MACROS[m], size, total)
    pats = patterns(size)
    if npat != len(pats) or len(table) != npat:
        return "malformed acceptance table %s" % (obs,)
    for p, got in zip(pats, table):
        if fields is None:
            exp = len(p) == 1 and 0 <= p[0] < len(d["variants"])
        else:
            exp, off = True, 0
            for x in fields:
                sz, kind = x[1], x[3]
                exp = exp and _valid_bytes(kind, p[off:off + sz])
                off += sz
        if bool(got) != exp:
            return "bit pattern %s %s by checked::try_from_bytes but %s for the declared fields" % (
                p, "accepted" if got else "rejected", "invalid" if not exp else "valid")
    # zero_copy and the generated sized part also certify Zeroable: the all-zero bytes have to be a valid value
    if fields is not None:
        for x in fields:
            sz, kind = x[1], x[3]
            if sz > 0 and not _valid_bytes(kind, [0] * sz):
                return "%s certifies Zeroable for a type whose field %s does not accept the all-zero bytes" % (MACROS[m], x[0])
    return None


def describe(ints):
    d = dec(ints)
    if d is None:
        return {"malformed": ints}
    src = rust_source(ints)
    decl = [l for l in src.split("\n")[5:] if l.strip()]
    decl = decl[:decl.index("fn main() {")] if "fn main() {" in decl else decl
    return {"macro": MACROS[d["macro"]], "declaration": " ".join(l.strip() for l in decl),
            "instantiation": FIELDS[d["generic"] - 1][0] if d["generic"] else None,
            "bound_style": STYLES[d["style"]] if d["generic"] else None}


MACRO_ERR = re.compile(r"Align1 requires|conflicting|duplicate representation|Zero-sized types are not allowed|with padding|"
                       r"E0277|E0308|cannot be used on|cannot be derived|does not support|Unnamed fields")


def nontrivial(ints, obs, err):
    if obs and obs[0] == 1:
        return True
    return bool(err and MACRO_ERR.search(err))


def shrink(ints):
    """smaller declarations (fewer fields / variants / repr items / no generics)"""
    d = dec(ints)
    if d is None:
        return
    m, f, reprs, vs, uf = d["macro"], d["form"], d["reprs"], d["variants"], d["ufields"]
    inst_code = d["generic"] - 1
    g = d["generic"] + G_STYLE * d["style"]             # the complete G component
    if d["style"]:
        yield enc(m, f, d["generic"], reprs, vs, uf)       # same declaration without the extra bound
    for i in range(len(reprs)):
        yield enc(m, f, g, reprs[:i] + reprs[i + 1:], vs, uf)
    for vi, v in enumerate(vs):
        for i in range(len(v)):
            nv = [list(x) for x in vs]
            del nv[vi][i]
            if g and not any(x in PARAM_CODES for y in nv for x in y):
                continue
            yield enc(m, f, g, reprs, nv, uf)
    if f == 2 and len(vs) > 1:
        for vi in range(len(vs)):
            yield enc(m, f, g, reprs, vs[:vi] + vs[vi + 1:], uf)
    if g:
        conc = [[concrete(x, inst_code) for x in v] for v in vs]
        if all(x is not None for v in conc for x in v):
            yield enc(m, f, 0, reprs, conc, uf)
    for i in range(len(uf)):
        if len(uf) > 1:
            yield enc(m, f, g, reprs, vs, uf[:i] + uf[i + 1:])
    for vi, v in enumerate(vs):
        for i, x in enumerate(v):
            if x not in (0,) + PARAM_CODES:
                nv = [list(y) for y in vs]
                nv[vi][i] = 0
                yield enc(m, f, g, reprs, nv, uf)


def matches_known(entry, ints, obs):
    """known_findings.json entries of C19 name a class; `align-attr` = a declaration with an align(N>1) hint that
    the Align1 derive (directly or through zero_copy) accepts although align_of > 1"""
    d = dec(ints)
    if d is None or not obs or obs[0] != 1:
        return False
    if entry.get("class") == "align-attr" or entry.get("id") == "D13":
        return d["macro"] in (0, 1, 2, 3, 4) and has_over_align(d) and len(obs) > 1 and obs[1] > 1
    return False


def distribution(cases, impl, errors):
    macro, form, verdict, reprs, errs, styles = Counter(), Counter(), Counter(), Counter(), Counter(), Counter()
    for name, ints in cases:
        d = dec(ints)
        o = impl.get(name) or []
        macro[MACROS[d["macro"]]] += 1
        form[("generic " if d["generic"] else "") + ["struct", "tuple struct", "enum", "union"][d["form"]]] += 1
        verdict["accepted" if o[:1] == [1] else "rejected"] += 1
        if d["generic"]:
            styles["%s: %s" % (STYLES[d["style"]], "accepted" if o[:1] == [1] else "rejected")] += 1
        reprs[" ".join(repr_attrs(d["reprs"])) or "(none)"] += 1
        if o[:1] != [1]:
            e = errors.get(name, "?")
            mm = re.match(r"error(\[E\d+\])?: ([^:]{0,48})", e)
            errs[(mm.group(1) or "") + " " + mm.group(2).strip() if mm else e[:40]] += 1
    return {"macro": dict(macro), "form": dict(form), "verdict": dict(verdict), "generic_bound_styles": dict(styles),
            "representations_top": dict(reprs.most_common(25)), "rejection_reasons": dict(errs.most_common(25))}


# ---------------------------------------------------------------------------------------------
def _proofs(broken):
    err = C.gen_constants(ID)
    if err:
        broken.append(("translator tools/gen_constants.py", err))
    ok, out = C.coq_make(["Extraction/Extract_%s.vo" % GROUP])
    if not ok:
        broken.append(("model build (coq/Extraction/Extract_%s.vo)" % GROUP, out[-3000:]))
    thms = []
    ok, out = C.coq_make(list(COQ_TARGETS))
    if not ok:
        m = re.findall(r'File "\./([^"]+)", line (\d+)', out)
        where = ", ".join("%s:%s" % x for x in m[-2:]) or "?"
        broken.append(("proof obligation (%s) in %s" % (" ".join(COQ_TARGETS), where), out[-3000:]))
    else:
        thms, perr = C.check_pins(ID)
        if perr:
            broken.append(("pinned theorem statements / assumptions coq/Pins/%s.v" % ID, perr))
    bad = C.forbidden_scan()
    if bad:
        broken.append(("forbidden vernacular in the development", "\n".join(bad)))
    return thms


def model_ints(ints):
    """the Coq model has no notion of the phantom marker (a zero-sized field without bit patterns): macro 6 is macro 5"""
    return [5] + list(ints[1:]) if ints and ints[0] == 6 else list(ints)


def _run(cases, tag, prune=True):
    """cases [(name, ints)] -> (impl, errors, model)"""
    impl, errors, _ = build_and_run(cases, prune=prune)
    path = os.path.join(C.WORK, "%s_%s.cases" % (ID, tag))
    C.write_cases(path, [(n, model_ints(i)) for n, i in cases])
    model = C.run_model(GROUP, ENTRY, path)
    return impl, errors, model


def custom_main(args, tier, seed):
    timer = C.Timer()
    broken = []
    thms = _proofs(broken)
    if tier == "thorough" and not broken and not args.replay:
        rc, out = C.sh(["coqchk", "-o", "-silent", "-Q", ".", "SF", "SF.Properties.%s" % ID], cwd=C.COQ, timeout=1800)
        if rc != 0 or "* Axioms: <none>" not in out:
            broken.append(("coqchk on the closure of Properties/%s.vo" % ID, out[-3000:]))
    C.log("%s proofs: %d theorems pinned, %s (%.1fs)" % (ID, len(thms), "ok" if not broken else "BROKEN", timer.s()))
    model_ok = True
    try:
        C.build_runner(GROUP)
    except Exception as e:  # noqa: BLE001
        broken.append(("model runner build", str(e)[-3000:]))
        model_ok = False

    # ---- replay mode ----
    if args.replay:
        payload = json.load(open(args.replay))
        if "case" not in payload:
            print(json.dumps(payload, indent=1))
            return 0
        ints = payload["case"]
        impl, errors, model = _run([("r0000", ints)], "replay", prune=False)
        print("case        :", ints)
        print("declaration :", describe(ints))
        print(rust_source(ints))
        print("impl  obs   :", impl.get("r0000"), errors.get("r0000", ""))
        print("model obs   :", model.get("r0000"))
        print("predicate   :", predicate(ints, impl.get("r0000")))
        return 0

    # ---- cases: corpus first, then the seeded grammar ----
    rng = C.Rng(seed)
    corpus = C.load_corpus(ID)
    gen = gen_cases(rng, tier)
    cases, ids, tags = [], {}, {}
    seen = set()
    for cid, ints in corpus:
        if tuple(ints) in seen or dec(ints) is None:
            continue
        seen.add(tuple(ints))
        name = "d%04d" % len(cases)
        cases.append((name, ints))
        ids[name], tags[name] = cid, "corpus"
    for gname, ints, tag in gen:
        if tuple(ints) in seen:
            continue
        seen.add(tuple(ints))
        name = "d%04d" % len(cases)
        cases.append((name, ints))
        ids[name], tags[name] = "%s:%s" % (tag, gname), tag
    impl, errors, model = {}, {}, {}
    try:
        impl, errors, _ = build_and_run(cases)
    except C.CheckError as e:
        broken.append(("generated package build against %s" % C.REPO, str(e)[-4000:]))
    C.log("built and ran %d declarations: %d accepted (%.1fs)" % (
        len(cases), sum(1 for o in impl.values() if o[:1] == [1]), timer.s()))
    if model_ok:
        path = os.path.join(C.WORK, "%s_%s.cases" % (ID, tier))
        C.write_cases(path, [(n, model_ints(i)) for n, i in cases])
        try:
            model = C.run_model(GROUP, ENTRY, path)
        except C.CheckError as e:
            broken.append(("model runner", str(e)[-2000:]))
    disagreements, failing = [], []
    if impl:
        for name, ints in cases:
            why = predicate(ints, impl.get(name))
            if why:
                failing.append((name, ints, why))
            if model and impl.get(name) != model.get(name):
                disagreements.append((name, ints, impl.get(name), model.get(name)))
    C.log("%d cases (%d corpus): %d disagreements, %d direct property failures (%.1fs)" % (
        len(cases), len(corpus), len(disagreements), len(failing), timer.s()))

    # ---- verdict ----
    known = [k for k in C.load_known(ID) if k.get("status") == "known"]

    def is_known(ints, obs):
        for k in known:
            if matches_known(k, ints, obs):
                return k
        return None

    violations, known_hits = [], {}
    new_fail = []
    for name, ints, why in failing:
        k = is_known(ints, impl.get(name))
        if k:
            known_hits.setdefault(k["id"], (k, name, ints))
        else:
            new_fail.append((name, ints, why))
    if new_fail:
        # the committed corpus holds minimised failures: if one of them fails it is the replay; otherwise the smallest
        # failing declaration is shrunk (one cargo build per round)
        from_corpus = [x for x in new_fail if tags[x[0]] == "corpus"]
        if from_corpus:
            name, ints, why = from_corpus[0]
            cur = list(ints)
        else:
            name, ints, why = min(new_fail, key=lambda x: (len(x[1]), sum(x[1]), x[0]))
            cur = list(ints)
            for _ in range(3):
                cands = []
                for c in shrink(cur):
                    if c not in cands and dec(c) is not None:
                        cands.append(c)
                if not cands:
                    break
                batch = [("s%04d" % i, c) for i, c in enumerate(cands)]
                try:
                    o, _, _ = build_and_run(batch, prune=False)
                except C.CheckError:
                    break
                still = [c for (n, c) in batch if predicate(c, o.get(n)) and not is_known(c, o.get(n))]
                if not still:
                    break
                cur = min(still, key=lambda c: (len(c), sum(c)))
        classes = Counter()
        for n, i, w in new_fail:
            dd = dec(i)
            o = impl.get(n) or []
            if dd["macro"] in (0, 1, 2, 3, 4) and has_over_align(dd) and len(o) > 1 and o[1] > 1:
                classes["align(N>1) hint accepted by the Align1 derive (directly or via zero_copy): align_of > 1 certified as 1"] += 1
            else:
                classes["other: " + w[:80]] += 1
        fo, fe, fm = _run([("f0000", cur)], "final", prune=False) if model_ok else (build_and_run([("f0000", cur)], prune=False)[0], {}, {})
        rp = C.write_replay(ID, {
            "property": ID, "kind": "failing-input", "case_id": ids.get(name, name), "case": cur,
            "case_decoded": describe(cur), "rust_source": rust_source(cur),
            "why": predicate(cur, fo.get("f0000")) or why,
            "impl_observation": fo.get("f0000"), "model_observation": fm.get("f0000"),
            "observation_format": "[1, align_of, size_of, sum of field sizes, npat, acceptance of each byte pattern] or [0] = does not compile",
            "replay_cmd": "bin/check %s --replay <this file>" % ID,
            "also_failing": [{"case_id": ids.get(n, n), "declaration": describe(i)["declaration"], "why": w}
                             for n, i, w in new_fail[:40]],
            "failing_total": len(new_fail), "failure_classes": dict(classes),
        })
        violations.append("VIOLATION property=%s replay=%s" % (ID, os.path.relpath(rp, C.VERIF)))
    else:
        unexplained = [x for x in disagreements if not is_known(x[1], x[2])]
        if unexplained or broken:
            what = [b[0] for b in broken]
            if unexplained:
                what.append("correspondence model(run_%s) vs implementation (cargo build of the generated declarations): "
                            "%d of %d cases differ" % (ENTRY, len(unexplained), len(cases)))
            payload = {
                "property": ID, "kind": "no-failing-input-found", "no_longer_checks": what,
                "details": [{"what": b[0], "log": b[1]} for b in broken],
                "searched": "%d corpus + %d generated declarations compiled and evaluated against the property predicate; none failed" % (
                    len(corpus), len(gen)),
            }
            if unexplained:
                n, ints, a, b = min(unexplained, key=lambda x: len(x[1]))
                payload.update({"case_id": ids.get(n, n), "case": ints, "case_decoded": describe(ints),
                                "rust_source": rust_source(ints), "impl_observation": a, "model_observation": b,
                                "compiler_error": errors.get(n)})
            rp = C.write_replay(ID, payload)
            violations.append("VIOLATION property=%s replay=%s no-failing-input-found" % (ID, os.path.relpath(rp, C.VERIF)))
    for kid, (k, name, ints) in sorted(known_hits.items()):
        print("KNOWN-FINDING: property=%s %s" % (ID, k["what"]))
    for k in known:
        if k["id"] not in known_hits:
            C.log("note: known finding %s was not reproduced by this run" % k["id"])

    # ---- evidence ----
    nontriv = set()
    for name, ints in cases:
        if impl.get(name) is not None and nontrivial(ints, impl.get(name), errors.get(name)):
            nontriv.add(tuple(ints))
    picks = [c for c in cases if tags[c[0]] == "rand"][:2] + [c for c in cases if tags[c[0]] in ("corpus", "d13")][:1]
    samples = [{"case": ints, "decoded": describe(ints), "impl_observation": impl.get(n), "model_observation": model.get(n),
                "compiler_error": errors.get(n)} for n, ints in picks]
    ev = {
        "property_id": ID, "tier": tier, "seed": seed, "level": "proof",
        "coverage": {
            "obligations": max(len(thms), 1),
            "discharged": len(thms) if not broken else 0,
            "checker_cmd": "make -C coq %s && coqc coq/Pins/%s.v (Check <thm> : <pinned statement>; Print Assumptions <thm>)" % (
                " ".join(COQ_TARGETS), ID),
            "trusted_base": list(TRUSTED),
            "theorems": thms,
            "evaluations": len(cases),
            "distinct_nontrivial": len(nontriv),
            "rule": RULE,
            "samples": samples,
            "programs": len(cases),
            "accepted_by_rustc": sum(1 for o in impl.values() if o[:1] == [1]),
            "traces_validated_against_impl": len(cases) - len(disagreements) if impl and model else 0,
            "disagreements": len(disagreements),
            "direct_property_failures": len(failing),
            "known_findings_reproduced": sorted(known_hits),
            "input_distribution": distribution(cases, impl, errors) if impl else {},
            "corpus_cases": len(corpus),
        },
        "assumptions": list(ASSUMPTIONS),
        "wall_s": timer.s(),
        "violations": len(violations),
    }
    C.write_evidence(ID, ev)
    if tier == "thorough":
        # thousands of small binaries: do not leave them in the shared target directory
        exd = os.path.join(TARGET_DIR, "debug", "examples")
        if os.path.isdir(exd):
            for fn in os.listdir(exd):
                if fn.startswith("c19_"):
                    os.remove(os.path.join(exd, fn))
    for v in violations:
        print(v)
    C.log("%s %s: %s in %.1fs" % (ID, tier, "VIOLATION" if violations else "ok", timer.s()))
    return 1 if violations else 0
