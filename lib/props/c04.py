"""C04 - safe parsing of arbitrary bytes is memory-safe and never admits invalid values."""
from collections import Counter

from lib import unsized as U

ID = "C04"
ENTRY = "parse"
GROUP = "unsized"
BIN = "vh_unsized"
HARNESS_ARGS = ["parse"]
COQ_TARGETS = ["Properties/C04.vo"]

RULE = ("case = shape x byte string: valid encodings of random values; truncations at every prefix length and extensions; "
        "single-field corruption of every length / unsized-size / element-count / offset / length-copy / discriminant / bool "
        "field with values {0,1,field+-1,255,2^16-1,2^31,2^32-1,2^63+1,2^64-1 (as width allows)}; pairs (an offset entry pushed beyond the data + a length/size field enlarged; element count and its trailing copy changed consistently); whole offset tables displaced; UnsizedString payloads overwritten with eight kinds of malformed UTF-8; keyed containers (Map<u8,bool>, Set<bool>) of 1-5 items with one forbidden bit pattern at a time; random bytes. The input "
        "ends exactly at a PROT_NONE page and each case runs in a forked child (SIGSEGV = observation). Observed: outcome "
        "and value of the owned conversion, then the shared view's extent and every element each shared accessor / iterator "
        "yields with an inside-the-input flag, then an EXCLUSIVE view (ExclusiveWrapper::new over a copy of the input placed "
        "the same way, canaries in front, realloc refused) whose every mutable accessor is walked, each under catch_unwind on "
        "its own, first below the top pointer, then through the child wrappers: List iter_mut / `for x in &mut list` / "
        "get_mut(i) / IndexMut<usize> / as_checked_mut_slice / IndexMut over all six kinds of range; Map iter_mut / "
        "`for kv in &mut map` / values_mut / get_by_index_mut / get_mut(key); Set iter / get_by_index / contains through the "
        "exclusive view (it has no mutable accessor); UnsizedList get_mut / index_mut / first_mut / last_mut and "
        "get_exclusive / index_exclusive / first_exclusive / last_exclusive; UnsizedMap get_by_index_mut / get_mut(key) / "
        "get_exclusive(key); UnsizedString as_mut_str; RemainingBytes DerefMut; generated structs: every sized field through "
        "DerefMut, every unsized field's pointer and generated child wrapper; generated enums: the live variant's payload "
        "through `data` and through the generated get() - recursing into every element / field / payload. Every fixed-size "
        "value reached must have a valid bit pattern and lie inside the input, every element pointer's extent must lie inside "
        "the input, the canaries must be intact; a controlled panic, an error, or a panicking drop-time pointer check are "
        "accepted outcomes. non-trivial = input that is neither a valid encoding nor rejected at the first "
        "field; distinct = distinct byte strings per shape")
TRUSTED = [
    "Coq 8.16.1 kernel", "extraction (ExtrOcamlBasic only) + runner/driver.ml",
    "harness/src/{nodes,shapes}.rs, bin/vh_unsized.rs parse mode (mmap + guard page + fork)",
    "lib/unsized.py (field positions of an encoding, used by the corruption generator)",
]
ASSUMPTIONS = [
    "overflow checks compiled in (debug build of the harness; the model's ovf flag covers both settings in the theorems)",
    "the shared accessors' element extents are judged directly on the implementation (inside-the-input flags); the model "
    "covers the owned conversion and the offset iterator",
    "the exclusive view's mutable accessors are judged directly on the implementation as well (bit patterns re-checked with "
    "bytemuck's CheckedBitPattern of the item type, addresses compared with the input's); the walk only reads through the "
    "`&mut` it is handed (writes and resizes through an exclusive view belong to C01-C03); keyed / indexed accessors are "
    "exercised for the first 64 elements of a container; `List::as_mut_slice` / DerefMut (Pod items only: no invalid bit "
    "pattern exists) are not called",
]

VALS = [0, 1, 255, 65535, 2 ** 31, 2 ** 32 - 1, 2 ** 63 + 1, 2 ** 64 - 1]


def gen_cases(rng, tier):
    fam = U.family()
    cases = []
    n = 0

    def add(idx, desc, bs):
        nonlocal n
        cases.append(("p%d" % n, [idx] + desc + [len(bs)] + list(bs)))
        n += 1

    per = 6 if tier == "quick" else 120
    for idx, desc, ty in fam:
        for j in range(per):
            v = U.fix_roles(idx, ty, U.gen_val(rng, ty, 10), rng)
            bs = U.encode(ty, v)
            add(idx, desc, bs)
            # truncations / extensions
            cuts = range(len(bs)) if (j == 0 and len(bs) <= 80) else [rng.below(len(bs) + 1) for _ in range(4)]
            for cpos in cuts:
                add(idx, desc, bs[:cpos])
            add(idx, desc, bs + rng.bytes(rng.range(1, 9)))
            # single-field corruptions
            fields = U.field_positions(ty, v)
            picks = fields if j < 2 else [rng.choice(fields)] * 1 if fields else []
            for (pos, w, kind) in picks:
                cur = U.unle(bs[pos:pos + w])
                vals = set(x for x in VALS if x < 256 ** w) | {(cur + 1) % 256 ** w, (cur - 1) % 256 ** w, 256 ** w - 1}
                if w == 8 and kind == "len":
                    # counts just below 2^64: with one-byte items the byte length itself is then an advance near usize::MAX
                    vals |= {2 ** 64 - k for k in (2, 8, 16, 24, 4096)}
                    # counts whose product with the item size wraps modulo 2^64 to something small
                    vals |= {2 ** 64 // sz + k for sz in (2, 4, 8, 16) for k in (0, 1, 2)}
                if kind == "disc" and w > 1:
                    # a discriminant wider than one byte: the same LOW byte under a non-zero high byte (an undeclared
                    # value that a reader of the first byte only would take for the live variant), and other variants' low bytes
                    wide = {cur % 256 + 256 * hi for hi in (1, 2, 255) if cur % 256 + 256 * hi < 256 ** w}
                    vals |= wide
                    if j >= 1:
                        vals = set(wide)
                elif j >= 1:
                    vals = [rng.choice(sorted(vals))] + ([2 ** 64 // 4 + rng.below(3)] if (w == 8 and kind == "len") else [])
                for x in sorted(vals):
                    if x == cur:
                        continue
                    b2 = list(bs)
                    b2[pos:pos + w] = U.le(x, w)
                    add(idx, desc, b2)
            # string payloads that are not UTF-8 (every kind of malformed sequence, at the start / middle / end)
            if j < 3:
                for (sp, sl) in _string_spans(idx, ty, v):
                    for bad in BAD_UTF8:
                        if len(bad) > sl:
                            continue
                        for at in sorted({0, (sl - len(bad)) // 2, sl - len(bad)}):
                            b2 = list(bs)
                            b2[sp + at:sp + at + len(bad)] = bad
                            add(idx, desc, b2)
            # two fields at once: an offset (an element's start or - as the NEXT entry - its end bound) pushed beyond the
            # data, together with a length / size field that then claims bytes outside the element's real slot
            offs2 = [f for f in fields if f[2] == "off"]
            lens2 = [f for f in fields if f[2] in ("len", "usz", "ulen")]
            if offs2 and lens2 and j < 4:
                pairs = [(o, l) for o in offs2 for l in lens2]
                if len(pairs) > 12:
                    pairs = [rng.choice(pairs) for _ in range(12)]
                for (opos, ow, _), (lpos, lw, _) in pairs:
                    for odelta, lval in ((400, 100), (40, 255), (4000, 2 ** (8 * lw) - 1), (7, 9)):
                        b2 = list(bs)
                        b2[opos:opos + ow] = U.le((U.unle(bs[opos:opos + ow]) + odelta) % 2 ** 32, ow)
                        b2[lpos:lpos + lw] = U.le(lval % 256 ** lw, lw)
                        add(idx, desc, b2)
            # the element count and its trailing copy changed CONSISTENTLY (the len == copy comparison passes, the deeper
            # checks have to hold on their own): every list of unsized elements of the value
            ul = [f for f in fields if f[2] == "ulen"]
            lc = [f for f in fields if f[2] == "lencopy"]
            if j < 4:
                for (p1, w1, _), (p2, w2, _) in zip(ul, lc):
                    cur = U.unle(bs[p1:p1 + w1])
                    for x in (cur + 1, cur + 2, max(0, cur - 1), 0, 255, 2 ** 16, 2 ** 31, 2 ** 32 - 1):
                        if x == cur:
                            continue
                        b2 = list(bs)
                        b2[p1:p1 + w1] = U.le(x % 2 ** 32, w1)
                        # the copy sits after the table the ORIGINAL count describes; a reader that trusts the new count
                        # looks elsewhere - plant the same value at both places when it fits
                        b2[p2:p2 + w2] = U.le(x % 2 ** 32, w2)
                        add(idx, desc, b2)
                        # ... and at the place where a reader that believes the new count expects the copy
                        if cur > 0 and x < 64:
                            esz = (p2 - (p1 + 4)) // cur
                            q = p1 + 4 + x * esz
                            if 0 <= q and q + 4 <= len(bs):
                                b3 = list(bs)
                                b3[p1:p1 + w1] = U.le(x, w1)
                                b3[q:q + 4] = U.le(x, 4)
                                add(idx, desc, b3)
            # a whole offset table displaced (several fields at once): every element lies elsewhere
            offs = [f for f in fields if f[2] == "off"]
            if offs and j < 3:
                for delta in (4000, 1 << 20, 1 << 31):
                    b2 = list(bs)
                    for (pos, w, _) in offs:
                        b2[pos:pos + w] = U.le((U.unle(bs[pos:pos + w]) + delta) % 2 ** 32, w)
                    add(idx, desc, b2)
        # keyed containers whose items have forbidden bit patterns: several items, ONE field of ONE item invalid at a time
        if U.role_at(idx, ()) in ("map", "set"):
            lt = ty[1][0]
            c, lw = lt[1], lt[2]
            sz = U.fsize(c)
            spots = [f for f in U.field_positions(("F", c), ("B", [0] * sz), 0)]
            if spots:
                for n_items in (1, 2, 3, 5):
                    items = [[(7 * i + 1) % 2 if any(p == q for q, _, _ in spots) else (10 * i + p) % 256 for p in range(sz)]
                             for i in range(n_items)]
                    # strictly ascending keys: the first byte that is not a checked field carries the index
                    for i, it in enumerate(items):
                        for p in range(sz):
                            if not any(p == q for q, _, _ in spots):
                                it[p] = i
                                break
                    base = U.le(n_items, lw) + [b for it in items for b in it]
                    add(idx, desc, base)
                    for i in range(n_items):
                        for (q, w_, _k) in spots:
                            for badv in (2, 3, 128, 255):
                                b2 = list(base)
                                b2[lw + i * sz + q] = badv
                                add(idx, desc, b2)
        for _ in range(per):
            add(idx, desc, rng.bytes(rng.choice([0, 1, 3, 4, 8, 12, 13, 16, 20, 40])))
    return cases


def _decode(c):
    idx = c[0]
    ty, r = U.dec_ty(c[1:])
    n = r[0]
    return idx, ty, r[1:1 + n]


def describe(c):
    idx, ty, bs = _decode(c)
    return {"shape": idx, "type": ty, "bytes": bs}


def _split(obs):
    """(owned part, scan part)"""
    if not obs:
        return obs, []
    if obs[0] == 0:
        try:
            v, r = U.dec_val(obs[1:])
            return obs[:len(obs) - len(r)], r
        except Exception:  # noqa: BLE001
            return obs, []
    if obs[0] == 1:
        return obs[:2], obs[2:]
    return obs[:1], obs[1:]


# shapes whose Rust Owned type normalises (BTreeMap / BTreeSet order, UTF-8) or panics where the generic list errs:
# on malformed inputs their owned conversion is judged by the predicate only
NOT_COMPARED = {10, 11, 12, 16, 25, 26}


def comparable(c):
    return c[0] not in NOT_COMPARED


def project_impl(obs):
    """the part of the implementation's observation the model predicts (owned conversion)"""
    if obs is None or not obs or not isinstance(obs[0], int) or obs[0] < 0:
        return obs
    return _split(obs)[0]


def _valid_bits(t, v):
    k = t[0]
    if k == "F":
        return U.fvalid(t[1], v[1])
    if k == "L":
        return all(U.fvalid(t[1], it) for it in v[1])
    if k == "U":
        return all(_valid_bits(t[1], e) for _, e in v[1])
    if k == "S":
        return all(_valid_bits(ft, fv) for ft, fv in zip(t[1], v[1]))
    if k == "E":
        d = dict(t[2])
        return v[1] in d and _valid_bits(d[v[1]], v[2])
    return True


BAD_UTF8 = [[0xFF], [0x80], [0xC0, 0x80], [0xE2, 0x82], [0xED, 0xA0, 0x80], [0xF4, 0x90, 0x80, 0x80], [0xC3], [0xF0, 0x9F]]


def _string_spans(idx, t, v, base=0, tpath=()):
    """(payload offset, payload length) of every UnsizedString inside encode(t, v)"""
    out = []
    if U.role_at(idx, tpath) == "string":
        lt = t[1][0]
        out.append((base + lt[2], len(v[1][0][1])))
        return out
    k = t[0]
    if k == "S":
        pos = base
        for i, (ft, fv) in enumerate(zip(t[1], v[1])):
            out += _string_spans(idx, ft, fv, pos, tpath + (i,))
            pos += len(U.encode(ft, fv))
    elif k == "U":
        n = len(v[1])
        pos = base + 12 + n * (4 + t[2])
        for _, e in v[1]:
            out += _string_spans(idx, t[1], e, pos, tpath + ("*",))
            pos += len(U.encode(t[1], e))
    elif k == "E":
        vt = dict(t[2])[v[1]]
        out += _string_spans(idx, vt, v[2], base + t[1], tpath + ("V",))
    return out


def _strings_valid(idx, t, v, tpath=()):
    """every UnsizedString of an owned value holds valid UTF-8 (a Rust String with anything else is an invalid value)"""
    if U.role_at(idx, tpath) == "string":
        bs = bytes(it[0] for it in v[1][0][1])
        try:
            bs.decode("utf-8")
            return True
        except UnicodeDecodeError:
            return False
    k = t[0]
    if k == "S":
        return all(_strings_valid(idx, ft, fv, tpath + (i,)) for i, (ft, fv) in enumerate(zip(t[1], v[1])))
    if k == "U":
        return all(_strings_valid(idx, t[1], e, tpath + ("*",)) for _, e in v[1])
    if k == "E":
        d = dict(t[2])
        return v[1] not in d or _strings_valid(idx, d[v[1]], v[2], tpath + ("V",))
    return True


def _counts_match(t, v, bs, pos=0):
    """walk a converted value along the input: every List holds exactly as many items as its length prefix announces.
    returns (ok, position after the node) - (True, None) where the walk cannot continue (lists of unsized elements, enums)"""
    k = t[0]
    if k == "F":
        return True, pos + U.fsize(t[1])
    if k == "L":
        lw = t[2]
        if pos + lw > len(bs):
            return False, None
        n = U.unle(bs[pos:pos + lw])
        if len(v[1]) != n:
            return False, None
        return True, pos + lw + n * U.fsize(t[1])
    if k == "R":
        return True, len(bs)
    if k == "S":
        for ft, fv in zip(t[1], v[1]):
            ok, pos = _counts_match(ft, fv, bs, pos)
            if not ok or pos is None:
                return ok, None
        return True, pos
    return True, None


def _undeclared_discriminant(ty, bs):
    """Reads the input strictly from the front as far as the layout is decided by the bytes read so far - fixed-size
    fields, length-prefixed lists of fixed-size items, enums, structs of these - and reports the first enum whose
    discriminant bytes are not one of the declared discriminants (None: none found, or the walk had to stop).  The enum's
    payload is walked too (it follows the discriminant directly)."""
    pos = [0]

    def walk(t):
        k = t[0]
        if k == "F":
            pos[0] += U.fsize(t[1])
            return pos[0] <= len(bs)
        if k == "L":
            lw = t[2]
            if pos[0] + lw > len(bs):
                return False
            n = U.unle(bs[pos[0]:pos[0] + lw])
            pos[0] += lw + n * U.fsize(t[1])
            return pos[0] <= len(bs)
        if k == "S":
            for ft in t[1]:
                r = walk(ft)
                if r is not True:
                    return r
            return True
        if k == "E":
            rw = t[1]
            if pos[0] + rw > len(bs):
                return False
            d = U.unle(bs[pos[0]:pos[0] + rw])
            decl = dict(t[2])
            if d not in decl:
                return ("enum", pos[0], d, sorted(decl))
            pos[0] += rw
            return walk(decl[d])
        return False          # RemainingBytes / lists of unsized elements: the position of what follows is not decided here

    r = walk(ty)
    return r if isinstance(r, tuple) else None



def predicate(c, obs):
    if obs is None or (obs and obs[0] == "UNPARSEABLE"):
        return "no observation"
    if obs[:1] == [-5]:
        return "harness descriptor out of sync"
    if obs[:1] == [-11]:
        return "parsing touched memory outside the given bytes (child killed by signal %s)" % obs[1:]
    idx, ty, bs = _decode(c)
    own, scan = _split(obs)
    if own[:1] == [0]:
        v, _ = U.dec_val(own[1:])
        if not _valid_bits(ty, v):
            return "the owned conversion produced a field with an invalid bit pattern"
        if not _strings_valid(idx, ty, v):
            return "the owned conversion produced a String that is not valid UTF-8"
        if idx not in NOT_COMPARED and not _counts_match(ty, v, bs)[0]:
            return "the owned conversion produced a List whose item count is not the count its length prefix announces"
        bad = _undeclared_discriminant(ty, bs) if idx not in NOT_COMPARED else None
        if bad:
            return ("the owned conversion accepted an input whose enum discriminant at byte %d is %d; the declared "
                    "discriminants are %s" % (bad[1], bad[2], bad[3]))
    # keyed containers at the top level (their owned conversion is not compared with the model: BTreeMap / BTreeSet order):
    # an input whose item list is structurally readable and holds an item with a forbidden bit pattern must not convert
    # (the Rust value would silently be normalised, so the check reads the INPUT bytes)
    if own[:1] == [0] and U.role_at(idx, ()) in ("map", "set"):
        lt = ty[1][0]
        c, lw = lt[1], lt[2]
        if len(bs) >= lw:
            n = U.unle(bs[:lw])
            sz = U.fsize(c)
            if lw + n * sz <= len(bs):
                for i in range(n):
                    if not U.fvalid(c, bs[lw + i * sz:lw + (i + 1) * sz]):
                        return ("the owned conversion accepted a %s whose item %d has an invalid bit pattern (%s)" %
                                (U.role_at(idx, ()), i, bs[lw + i * sz:lw + (i + 1) * sz]))
    # shared view: extent inside the input; every yielded element inside the input
    if scan[:1] == [0]:
        ext = scan[1]
        if ext > len(bs):
            return "the shared view reports an extent of %d bytes, the input has %d" % (ext, len(bs))
    # exclusive view: the fixed trailer (see `parse` in vh_unsized.rs)
    x = _trailer(obs)
    if x is None:
        return "the observation lacks the exclusive view's trailer (harness out of sync)"
    if x["status"] == 0 and x["info"] > len(bs):
        return "the exclusive view reports an extent of %d bytes, the input has %d" % (x["info"], len(bs))
    if not x["canaries"]:
        return "walking the exclusive view's accessors wrote in front of the given bytes (canaries overwritten)"
    if x["out_shared"] != 0:
        return "%d element(s) produced by a shared accessor / iterator lie outside the input" % x["out_shared"]
    if x["inv_shared"] != 0:
        return "%d fixed-size value(s) handed out by a shared accessor have an invalid bit pattern" % x["inv_shared"]
    if obs[-2] != 0:
        return ("%d element(s) / value(s) handed out by a mutable accessor of the exclusive view lie outside the input"
                % (obs[-2] - x["out_shared"]))
    if obs[-1] != 0:
        return ("%d fixed-size value(s) handed out by a mutable accessor of the exclusive view (iter_mut, get_mut, "
                "IndexMut, mutable slices, values_mut ...) have an invalid bit pattern" % (obs[-1] - x["inv_shared"]))
    return None


def _trailer(obs):
    """-774 status info drop unchanged canaries OUTSIDE_shared INVALID_shared OUTSIDE INVALID"""
    if len(obs) < 10 or obs[-10] != -774:
        return None
    return {"status": obs[-9], "info": obs[-8], "drop": obs[-7], "unchanged": obs[-6], "canaries": obs[-5],
            "out_shared": obs[-4], "inv_shared": obs[-3]}


def nontrivial(c, obs):
    idx, ty, bs = _decode(c)
    own, scan = _split(obs)
    return len(bs) > 4 and (own[:1] == [0] or scan[:1] == [0] or own[:1] == [2])


def shrink(c):
    return []


def distribution(cases, impl):
    outs = Counter()
    for cid, c in cases:
        o = impl.get(cid) or []
        own, scan = _split(o)
        outs["owned:" + ("ok" if own[:1] == [0] else "err%s" % own[1] if own[:1] == [1] else "panic" if own[:1] == [2] else "sig" if own[:1] == [-11] else "?")] += 1
        outs["view:" + ("ok" if scan[:1] == [0] else "err" if scan[:1] == [1] else "panic" if scan[:1] == [2] else "-")] += 1
        x = _trailer(o)
        if x is not None:
            outs["excl:" + {0: "ok", 1: "err", 2: "panic"}.get(x["status"], "?")] += 1
            if x["status"] == 0 and -2 in o[o.index(-773):-10]:
                outs["excl:some accessor panicked"] += 1
            if x["drop"] == 2:
                outs["excl:drop check panicked"] += 1
            if not x["unchanged"]:
                outs["excl:bytes changed"] += 1
    return dict(outs)


def matches_known(entry, c, obs):
    return False
